"""Differential script for change 3: bspline (branch merge, knot vector, result unpacking)."""
import os
import warnings

for _var in ("OMP_NUM_THREADS", "OPENBLAS_NUM_THREADS", "MKL_NUM_THREADS"):
    os.environ[_var] = "1"

import numpy
import pandas

warnings.filterwarnings("ignore")

import pygaps.characterisation.psd_kernel as psdk
from pygaps.data import KERNELS
from pygaps.utilities.math_utilities import bspline

KPATH = KERNELS['DFT-N2-77K-carbon-slit']


def arr(value):
    if not isinstance(value, numpy.ndarray):
        return f"{type(value).__name__}:{value!r}"
    flags = value.flags
    return (
        f"array(dtype={value.dtype}, shape={value.shape}, C={flags.c_contiguous}, F={flags.f_contiguous}, "
        f"own={flags.owndata}, w={flags.writeable}, "
        f"[{', '.join('%.12g' % v for v in value.ravel())}])"
    )


def run(label, *args, **kwargs):
    try:
        res = bspline(*args, **kwargs)
        print(f"{label}: OK type={type(res).__name__} len={len(res)}")
        for i, part in enumerate(res):
            print(f"{label}:   [{i}] {arr(part)}")
        if isinstance(res[0], numpy.ndarray) and isinstance(res[1], numpy.ndarray):
            print(f"{label}:   shares_memory={numpy.shares_memory(res[0], res[1])}")
    except Exception as err:  # noqa
        print(f"{label}: EXC {type(err).__name__}: {err}")


rng = numpy.random.default_rng(7)
widths = numpy.asarray(list(psdk._load_kernel(KPATH).keys()), dtype='float64')

datasets = {
    'kernel_widths_sparse': (widths, numpy.where(numpy.arange(77) % 13 == 0, 0.05, 0.0)),
    'kernel_widths_dense': (widths, rng.uniform(0, 0.1, 77)),
    'kernel_widths_zero': (widths, numpy.zeros(77)),
    'line10': (numpy.arange(10.0), numpy.arange(10.0) * 2 + 1),
    'sine25': (numpy.linspace(0, 6, 25), numpy.sin(numpy.linspace(0, 6, 25))),
    'six': (numpy.array([0.0, 1, 2, 4, 8, 16]), numpy.array([5.0, -1, 3, 3, 0, 2])),
    'five': (numpy.array([1.0, 2, 3, 4, 5]), numpy.array([1.0, 4, 9, 16, 25])),
    'four': (numpy.array([0.4, 0.5, 0.7, 1.0]), numpy.array([0.0, 1.0, 0.0, 2.0])),
    'three': (numpy.array([0.4, 0.5, 0.7]), numpy.array([0.1, 1.0, 0.3])),
    'two': (numpy.array([0.4, 0.5]), numpy.array([0.1, 1.0])),
    'lists': ([0.0, 1.0, 2.0, 3.0, 4.0, 5.0, 6.0], [0.0, 1.0, 0.0, 1.0, 0.0, 1.0, 0.0]),
    'tuples': ((0.0, 1.0, 2.0, 3.0, 4.0), (3.0, 1.0, 4.0, 1.0, 5.0)),
    'ints': (numpy.arange(8), numpy.arange(8)**2),
    'int_lists': ([1, 2, 3, 4, 5, 6], [6, 5, 4, 3, 2, 1]),
    'series': (pandas.Series(numpy.arange(9.0)), pandas.Series(numpy.arange(9.0)**0.5)),
    'unsorted_x': (numpy.array([3.0, 1, 2, 5, 4, 0]), numpy.array([1.0, 2, 3, 4, 5, 6])),
    'repeated_x': (numpy.array([1.0, 1, 1, 2, 2, 3]), numpy.array([1.0, 2, 3, 4, 5, 6])),
    'with_nan': (numpy.array([0.0, 1, 2, 3, 4]), numpy.array([1.0, numpy.nan, 3, 4, 5])),
    'with_inf': (numpy.array([0.0, 1, 2, 3, 4]), numpy.array([1.0, numpy.inf, 3, 4, 5])),
    'float32': (numpy.arange(7, dtype='float32'), numpy.arange(7, dtype='float32') / 3),
    'large_values': (numpy.arange(12.0) * 1e12, rng.uniform(-1e15, 1e15, 12)),
    'tiny_values': (numpy.arange(12.0) * 1e-12, rng.uniform(0, 1e-15, 12)),
}

# main sweep: open curves, all sensible degrees, default n
for name, (xs, ys) in datasets.items():
    for degree in (-2, -1, 0, 1, 2, 3, 4, 5):
        run(f"open[{name}|k={degree}]", xs, ys, degree=degree)

# default degree, positional args, sample numbers
for name in ('kernel_widths_dense', 'six', 'three', 'two', 'lists'):
    xs, ys = datasets[name]
    run(f"default[{name}]", xs, ys)
    for n in (0, 1, 2, 3, 7, 50, 101, 500):
        run(f"n[{name}|n={n}]", xs, ys, n)
        run(f"n_k3[{name}|n={n}]", xs, ys, n, 3)
        run(f"n_k0[{name}|n={n}]", xs, ys, n, 0)
    run(f"n_float[{name}]", xs, ys, 10.0)
    run(f"n_negative[{name}]", xs, ys, -3)
    run(f"n_none[{name}]", xs, ys, None)

# periodic curves
for name in ('kernel_widths_dense', 'line10', 'sine25', 'six', 'five', 'four', 'three', 'two', 'lists', 'ints', 'unsorted_x'):
    xs, ys = datasets[name]
    for degree in (-1, 0, 1, 2, 3, 4, 5):
        for n in (1, 20, 100):
            run(f"periodic[{name}|k={degree}|n={n}]", xs, ys, n, degree, True)
            run(f"periodic_kw[{name}|k={degree}|n={n}]", xs, ys, n=n, degree=degree, periodic=True)
    run(f"periodic_truthy[{name}]", xs, ys, 15, 2, 1)
    run(f"periodic_falsy[{name}]", xs, ys, 15, 2, 0)
    run(f"periodic_none[{name}]", xs, ys, 15, 2, None)

# degree types
xs, ys = datasets['six']
for degree in (True, False, numpy.int64(2), numpy.int32(3), numpy.int64(0), 2.0, 2.5, numpy.float64(1.0), None, '2'):
    run(f"degree_type[{degree!r}]", xs, ys, degree=degree)
    run(f"degree_type_periodic[{degree!r}]", xs, ys, degree=degree, periodic=True)

# degenerate sizes and error paths
run("one_point_k0", [1.0], [2.0], degree=0)
run("one_point_k1", [1.0], [2.0], degree=1)
run("one_point_k2", [1.0], [2.0], degree=2)
run("one_point_periodic", [1.0], [2.0], degree=1, periodic=True)
run("empty_k0", [], [], degree=0)
run("empty_k2", [], [], degree=2)
run("empty_periodic", [], [], degree=2, periodic=True)
run("mismatch", [1.0, 2.0, 3.0], [1.0, 2.0], degree=2)
run("mismatch_k0", [1.0, 2.0, 3.0], [1.0, 2.0], degree=0)
run("mismatch_empty", [], [1.0], degree=2)
run("none_xs", None, [1.0], degree=2)
run("none_ys", [1.0], None, degree=2)
run("scalar", 1.0, 2.0, degree=2)
run("strings", ['a', 'b', 'c'], ['d', 'e', 'f'], degree=2)
run("two_d", numpy.ones((4, 2)), numpy.ones((4, 2)), degree=2)
run("two_d_mismatched_inner", numpy.ones((4, 2)), numpy.ones((4, 3)), degree=2)
run("complex", numpy.arange(5) * 1j, numpy.arange(5.0), degree=2)
run("bools", [True, False, True, True], [False, True, True, False], degree=2)
run("object", numpy.array([0, 1, 2, 3], dtype=object), numpy.array([1, 2, 3, 4], dtype=object), degree=2)

# identity when degree == 0: the very same objects must be handed back
xs, ys = datasets['six']
res = bspline(xs, ys, degree=0)
print("k0 identity:", res[0] is xs, res[1] is ys)
lx, ly = [1, 2, 3], [4, 5, 6]
res = bspline(lx, ly, degree=0)
print("k0 identity lists:", res[0] is lx, res[1] is ly, type(res[0]).__name__)

# inputs are not modified
xs, ys = datasets['kernel_widths_dense']
xc, yc = xs.copy(), ys.copy()
for degree in (1, 2, 3):
    for periodic in (False, True):
        try:
            bspline(xs, ys, degree=degree, periodic=periodic)
        except ValueError as err:  # periodic curves of degree > 1 are refused by FITPACK
            print(f"untouched check k={degree} periodic={periodic}: EXC {type(err).__name__}: {err}")
print("inputs untouched:", numpy.array_equal(xs, xc), numpy.array_equal(ys, yc))

# results are independent, writable arrays
out_x, out_y = bspline(xs, ys, degree=2)
out_x[0] = -1
print("independent results:", out_y[0] != -1 or ys[0] == -1, out_x.base is None, out_y.base is None)

# end to end through the kernel fit (uses bspline for orders 0-3)
raw = pandas.read_csv(KPATH, index_col=0)
weights = numpy.zeros(77)
weights[[8, 30, 55]] = [0.02, 0.01, 0.004]
pressure = raw.index.values[::2]
loading = raw.values[::2] @ weights
for order in (0, 1, 2, 3):
    res = psdk.psd_dft_kernel_fit(pressure, loading, KPATH, order)
    print(f"fit[k={order}]:", " | ".join(arr(r) for r in res))
