"""Change 3: isotherm_from_xl - row/column scans and cell decoding restructured.

Round-trips the corpus through Excel files and reads hand-made workbooks that reach
every branch of the reader (blank rows/columns, missing sheets, dtype rows, odd cell types).
"""
import xlwt

import _common as c
from pygaps.parsing import isotherm_from_xl
from pygaps.parsing import isotherm_to_xl

n = 0
for label, make in c.corpus():
    n += 1
    iso = make()
    path = c.tmp(f"x{n}.xls")
    res = c.run(f"{label} | write", isotherm_to_xl, iso, path)
    if not isinstance(res, BaseException):
        back = c.run(f"{label} | read", isotherm_from_xl, path)
        if not isinstance(back, BaseException):
            c.run(f"{label} | equal", lambda: back == make())
        c.run(f"{label} | read + override", isotherm_from_xl, path, ("temperature", 5), ("zz", "top"))
    c.run(f"{label} | iso after", lambda: iso)

###############################################################################
# hand-made workbooks

HEAD = [
    ("Material name", "m"),
    ("Experiment temperature (K)", 77.0),
    ("Adsorbate used", "N2"),
    ("Pressure mode", "absolute"),
    ("Pressure unit", "bar"),
    ("Loading basis", "molar"),
    ("Loading unit", "mmol"),
    ("Material basis", "mass"),
    ("Material unit", "g"),
]
OTHER = [("temperature_unit", "K"), ("file_version", "3.0")]
_count = [0]


def book(rows, other=OTHER, sheet="data", other_sheet="otherdata", extra_first=None):
    """rows: list of row lists (None = leave the cell empty)."""
    wb = xlwt.Workbook()
    if extra_first:
        wb.add_sheet(extra_first)
    sht = wb.add_sheet(sheet)
    for r, row in enumerate(rows):
        for col, val in enumerate(row):
            if val is not None:
                sht.write(r, col, val)
    if other is not None:
        sht = wb.add_sheet(other_sheet)
        for r, row in enumerate(other):
            for col, val in enumerate(row):
                if val is not None:
                    sht.write(r, col, val)
    _count[0] += 1
    path = c.tmp(f"hand{_count[0]}.xls")
    wb.save(path)
    return path


def head(**changes):
    rows = [list(r) for r in HEAD]
    for i, v in changes.items():
        rows[int(i[1:])][1] = v
    return rows


PT = [
    [None, None, None, "float64", "object"],
    ["pressure", "loading", "branch", "enthalpy", "txt"],
    [1.0, 1.0, "ads", 5.0, "a"],
    [2.0, 2.0, "ads", 4.0, "b"],
    [3.0, 3.0, "ads", 3.5, "c"],
    [2.5, 2.8, "des", 3.0, "d"],
]
MD = [
    ["Model name", "Langmuir"],
    ["RMSE", 0.25],
    ["Pressure range", "(0.1, 10.0)"],
    ["Loading range", "[0.0, 7.5]"],
    ["Model parameters"],
    ["K", 3.5],
    ["n_m", 7.0],
]


def point_rows(data=PT, type_text="data", **kw):
    # the dtype row shares the row of the type cell
    rows = head(**kw) + [["Isotherm type", type_text] + list(data[0][2:])]
    return rows + [list(r) for r in data[1:]]


def model_rows(data=MD, type_text="model", **kw):
    return head(**kw) + [["Isotherm type", type_text]] + [list(r) for r in data]


CASES = {}
# metadata only
CASES["base"] = book(head() + [["Isotherm type", "metadata"]])
CASES["base, type empty string"] = book(head() + [["Isotherm type", ""]])
CASES["base, type cell missing"] = book(head() + [["Isotherm type"]])
CASES["base, unknown type text"] = book(head() + [["Isotherm type", "something"]])
CASES["base, numeric type cell"] = book(head() + [["Isotherm type", 3.0]])
CASES["base, bool type cell"] = book(head() + [["Isotherm type", True]])
CASES["base, no otherdata sheet"] = book(head() + [["Isotherm type", "metadata"]], other=None)
CASES["base, sheet not called data"] = book(head() + [["Isotherm type", "metadata"]], sheet="Sheet1")
CASES["base, data sheet is second"] = book(head() + [["Isotherm type", "metadata"]], extra_first="first")
CASES["base, no data sheet, other first"] = book(
    head() + [["Isotherm type", "metadata"]], sheet="zzz", extra_first="first")
CASES["base, otherdata other name"] = book(head() + [["Isotherm type", "metadata"]], other_sheet="more")
CASES["base, nine rows only"] = book(head())
CASES["base, single column"] = book([[r[0]] for r in HEAD] + [["Isotherm type"]])
CASES["base, empty material"] = book(head(r0=None) + [["Isotherm type", "metadata"]])
CASES["base, empty temperature"] = book(head(r1=None) + [["Isotherm type", "metadata"]])
CASES["base, empty units"] = book(head(r4=None, r6=None, r8=None) + [["Isotherm type", "metadata"]])
CASES["base, blank-string unit"] = book(head(r4="") + [["Isotherm type", "metadata"]])
CASES["base, relative"] = book(head(r3="relative", r4=None) + [["Isotherm type", "metadata"]])
CASES["base, bool material"] = book(head(r0=True) + [["Isotherm type", "metadata"]])
CASES["base, numeric material"] = book(head(r0=12.0) + [["Isotherm type", "metadata"]])
CASES["base, text temperature"] = book(head(r1="77") + [["Isotherm type", "metadata"]])
# otherdata variants
B = head() + [["Isotherm type", "metadata"]]
CASES["other, typed values"] = book(B, OTHER + [
    ("i", 3), ("f", 2.5), ("txt", "text"), ("b", True), ("nb", False), ("e", None), ("es", ""),
    ("neg", -1e-9), ("big", 1e300)])
CASES["other, blank row stops"] = book(B, OTHER + [("ka", 1), (None, None), ("kb", 2)])
CASES["other, blank name with value stops"] = book(B, OTHER + [("ka", 1), (None, 5), ("kb", 2)])
CASES["other, blank-string name"] = book(B, OTHER + [("", 5), ("kb", 2)])
CASES["other, numeric name"] = book(B, OTHER + [(4.0, 5)])
CASES["other, bool name"] = book(B, OTHER + [(True, 5)])
CASES["other, first row blank"] = book(B, [(None, None)] + OTHER)
CASES["other, empty sheet"] = book(B, [])
CASES["other, single column"] = book(B, [("ka", ), ("kb", )])
CASES["other, three columns"] = book(B, OTHER + [("ka", 1, "ignored")])
CASES["other, material props"] = book(B, OTHER + [("_material_density", 2.5), ("_material_ok", True)])
CASES["other, bad material props"] = book(B, OTHER + [("_material__material_x", 1)])
CASES["other, iso_id + isotherm_data"] = book(B, OTHER + [("iso_id", "abc"), ("isotherm_data", "q")])
CASES["other, overrides main"] = book(B, OTHER + [("material", "m2"), ("temperature", 300.0)])
CASES["other, no version"] = book(B, [("temperature_unit", "K")])
CASES["other, old version"] = book(B, [("temperature_unit", "K"), ("file_version", "1.0")])
CASES["other, numeric version"] = book(B, [("temperature_unit", "K"), ("file_version", 3.0)])
CASES["other, bad version"] = book(B, [("temperature_unit", "K"), ("file_version", "abc")])
CASES["other, bool version"] = book(B, [("temperature_unit", "K"), ("file_version", True)])
# point data
CASES["point"] = book(point_rows())
CASES["point, Data Points label"] = book(point_rows(type_text="Data points"))
CASES["point, no dtype row entries"] = book(point_rows([[None] * 5] + PT[1:]))
CASES["point, int dtype"] = book(point_rows([[None, None, None, "int64", "object"]] + PT[1:]))
CASES["point, float32 + str dtype"] = book(point_rows([[None, None, None, "float32", "str"]] + PT[1:]))
CASES["point, bad dtype"] = book(point_rows([[None, None, None, "nonsense", "object"]] + PT[1:]))
CASES["point, bad cast"] = book(point_rows([[None, None, None, "float64", "float64"]] + PT[1:]))
CASES["point, dtype on first cols ignored"] = book(point_rows([["x", "y", "object", "float64", None]] + PT[1:]))
CASES["point, blank row stops data"] = book(point_rows(PT[:4] + [[None] * 5] + PT[4:]))
CASES["point, blank pressure stops data"] = book(point_rows(PT[:4] + [[None, 9.0, "ads", 1.0, "z"]] + PT[4:]))
CASES["point, blank-string pressure stops"] = book(point_rows(PT[:4] + [["", 9.0, "ads", 1.0, "z"]] + PT[4:]))
CASES["point, zero pressure continues"] = book(point_rows(PT[:4] + [[0.0, 0.0, "ads", 1.0, "z"]] + PT[4:]))
CASES["point, blank header stops columns"] = book(point_rows(
    [PT[0], ["pressure", "loading", "branch", None, "txt"]] + PT[2:]))
CASES["point, blank loading header"] = book(point_rows(
    [PT[0], ["pressure", None, "branch", "enthalpy", "txt"]] + PT[2:]))
CASES["point, blank first header"] = book(point_rows(
    [PT[0], [None, "loading", "branch", "enthalpy", "txt"]] + PT[2:]))
CASES["point, no branch column"] = book(point_rows(
    [[None] * 3, ["pressure", "loading", "enthalpy"]] + [[r[0], r[1], r[3]] for r in PT[2:]]))
CASES["point, two columns"] = book(point_rows(
    [[None] * 2, ["pressure", "loading"]] + [[r[0], r[1]] for r in PT[2:]]))
CASES["point, branch not third"] = book(point_rows(
    [[None, None, None, None], ["pressure", "loading", "enthalpy", "branch"]]
    + [[r[0], r[1], r[3], r[2]] for r in PT[2:]]))
CASES["point, unknown branch label"] = book(point_rows(PT[:5] + [[2.5, 2.8, "xyz", 3.0, "d"]]))
CASES["point, header only"] = book(point_rows(PT[:2]))
CASES["point, no header row"] = book(point_rows(PT[:1]))
CASES["point, one point"] = book(point_rows(PT[:3]))
CASES["point, other key names"] = book(point_rows([PT[0], ["p [bar]", "n", "branch", "b", "a"]] + PT[2:]))
CASES["point, duplicate headers"] = book(point_rows([PT[0], ["pressure", "loading", "branch", "x", "x"]] + PT[2:]))
CASES["point, numeric header"] = book(point_rows([PT[0], ["pressure", "loading", "branch", 7.0, "txt"]] + PT[2:]))
CASES["point, ragged short row"] = book(point_rows(PT[:4] + [[3.0, 3.0, "ads"]] + PT[5:]))
CASES["point, wide sheet"] = book(point_rows(PT) + [[None] * 9 + ["far away"]])
CASES["point, bool column"] = book(point_rows(
    [[None, None, None, "bool", "object"]] + [PT[1]] + [[r[0], r[1], r[2], i % 2 == 0, r[4]] for i, r in enumerate(PT[2:])]))
CASES["point, relative%"] = book(point_rows(r3="relative%", r4=None))
CASES["point, no otherdata"] = book(point_rows(), other=None)
# models
CASES["model"] = book(model_rows())
CASES["model, MODEL label"] = book(model_rows(type_text="MODEL x"))
CASES["model, blank row in params"] = book(model_rows(MD[:6] + [[None, None]] + MD[6:]))
CASES["model, missing param"] = book(model_rows(MD[:6]))
CASES["model, no params"] = book(model_rows(MD[:5]))
CASES["model, no params header row"] = book(model_rows(MD[:4]))
CASES["model, extra param"] = book(model_rows(MD + [["zz", 1.0]]))
CASES["model, param without value"] = book(model_rows(MD[:6] + [["n_m"]]))
CASES["model, text param value"] = book(model_rows(MD[:6] + [["n_m", "7.0"]]))
CASES["model, numeric param name"] = book(model_rows(MD + [[5.0, 1.0]]))
CASES["model, unknown"] = book(model_rows([["Model name", "Nope"]] + MD[1:]))
CASES["model, empty name"] = book(model_rows([["Model name"]] + MD[1:]))
CASES["model, empty rmse"] = book(model_rows([MD[0], ["RMSE"]] + MD[2:]))
CASES["model, bad range"] = book(model_rows(MD[:2] + [["Pressure range", "(a, b)"]] + MD[3:]))
CASES["model, numeric range"] = book(model_rows(MD[:2] + [["Pressure range", 5.0]] + MD[3:]))
CASES["model, nan range"] = book(model_rows(MD[:2] + [["Pressure range", "(nan, nan)"]] + MD[3:]))
CASES["model, empty range"] = book(model_rows(MD[:3] + [["Loading range"]] + MD[4:]))
CASES["model, Henry"] = book(model_rows([["Model name", "Henry"]] + MD[1:6]))
CASES["model, too short"] = book(model_rows(MD[:2]))
CASES["model, branch des in other"] = book(model_rows(), OTHER + [("branch", "des")])
CASES["model, no otherdata"] = book(model_rows(), other=None)

for label, path in CASES.items():
    c.run(f"hand | {label}", isotherm_from_xl, path)

path = CASES["point"]
c.run("args | one pair", isotherm_from_xl, path, ("material", "zz"))
c.run("args | list pair", isotherm_from_xl, path, ["adsorbate", "CO2"], ("k", None))
c.run("args | two-char string", isotherm_from_xl, path, "ab")
c.run("args | bad element", isotherm_from_xl, path, "abc")
c.run("args | dict element", isotherm_from_xl, path, {"a": 1})
c.run("args | branch override", isotherm_from_xl, CASES["point, no branch column"], ("branch", "des"))

# odd targets
c.run("target | missing", isotherm_from_xl, c.tmp("nope.xls"))
c.run("target | directory", isotherm_from_xl, c.TMP)
with open(c.tmp("text.xls"), "w") as f:
    f.write("material,m\n")
c.run("target | not an xls", isotherm_from_xl, c.tmp("text.xls"))
with open(c.tmp("empty.xls"), "w") as f:
    pass
c.run("target | empty file", isotherm_from_xl, c.tmp("empty.xls"))
c.run("target | None", isotherm_from_xl, None)
import pathlib
c.run("target | pathlib", isotherm_from_xl, pathlib.Path(CASES["model"]))

c.cleanup()
