"""Differential script for change 2: isosteric_enthalpy / isosteric_enthalpy_raw."""
import copy
import logging
import warnings
from pathlib import Path

import numpy

import pygaps
import pygaps.parsing as pgp
from pygaps.characterisation import isosteric_enth as ie

warnings.filterwarnings("ignore")

ROOT = Path(__file__).resolve().parent.parent
DATA = ROOT / 'docs' / 'examples' / 'data' / 'isosteric'


class ListHandler(logging.Handler):
    def __init__(self):
        super().__init__()
        self.msgs = []

    def emit(self, record):
        self.msgs.append(f"{record.levelname}:{record.getMessage()}")


HANDLER = ListHandler()
pygaps.logger.addHandler(HANDLER)
pygaps.logger.propagate = False


def canon(obj):
    if isinstance(obj, dict):
        return "{" + ", ".join(f"{k!r}: {canon(v)}" for k, v in sorted(obj.items(), key=lambda kv: str(kv[0]))) + "}"
    if isinstance(obj, numpy.ndarray):
        return f"array<{obj.dtype}>[" + ", ".join(canon(v) for v in obj.tolist()) + "]"
    if isinstance(obj, (list, tuple)):
        return type(obj).__name__ + "(" + ", ".join(canon(v) for v in obj) + ")"
    if isinstance(obj, (bool, numpy.bool_)):
        return f"{type(obj).__name__}:{bool(obj)}"
    if isinstance(obj, (int, numpy.integer)):
        return f"{type(obj).__name__}:{int(obj)}"
    if isinstance(obj, (float, numpy.floating)):
        return f"{type(obj).__name__}:{float(obj):.12g}"
    return f"{type(obj).__name__}:{obj!r}"


def run(label, func, *args, **kwargs):
    HANDLER.msgs.clear()
    try:
        res = canon(func(*args, **kwargs))
    except Exception as err:  # noqa
        res = f"EXC {type(err).__name__}: {err}"
    print(f"--- {label}")
    print(res)
    for msg in HANDLER.msgs:
        print("   log:", msg)




def load():
    return [pgp.isotherm_from_json(p) for p in sorted(DATA.glob('*.json'))]


def conv_all(isos, which=None, **conv):
    isos = copy.deepcopy(isos)
    for i, iso in enumerate(isos):
        if which is None or i in which:
            iso.convert(**conv)
    return isos


base = load()
print("units:", [canon(i.units) for i in base], [canon(i.temperature) for i in base])
print("branches:", [(i.has_branch('ads'), i.has_branch('des')) for i in base])

# 1. defaults and subsets
run("default 3", ie.isosteric_enthalpy, base)
run("two 0,1", ie.isosteric_enthalpy, base[:2])
run("two 1,2", ie.isosteric_enthalpy, base[1:])
run("two 0,2", ie.isosteric_enthalpy, [base[0], base[2]])
run("reversed", ie.isosteric_enthalpy, base[::-1])
run("tuple input", ie.isosteric_enthalpy, tuple(base))
run("duplicated iso", ie.isosteric_enthalpy, [base[0], base[0], base[1]])

# 2. error guards
run("single", ie.isosteric_enthalpy, base[:1])
run("empty", ie.isosteric_enthalpy, [])
other = copy.deepcopy(base)
other[1].material = 'something else'
run("different material", ie.isosteric_enthalpy, other)
run("branch des", ie.isosteric_enthalpy, base, branch='des')
run("branch bogus", ie.isosteric_enthalpy, base, branch='bogus')
run("branch None", ie.isosteric_enthalpy, base, branch=None)

# 3. loading points
lp_cases = {
    'array': numpy.linspace(1, 5, 9),
    'list': [0.5, 1.0, 2.0, 4.0],
    'single elem list': [2.0],
    'scalar': 2.0,
    'empty list': [],
    'out of range high': [1.0, 1e6],
    'out of range low': [-1.0, 1.0],
    'with nan': [1.0, numpy.nan, 2.0],
    'ints': [1, 2, 3],
    'unsorted': [3.0, 1.0, 2.0],
}
for name, lp in lp_cases.items():
    run(f"loading_points {name}", ie.isosteric_enthalpy, base, loading_points=lp)
    run(f"loading_points {name} two", ie.isosteric_enthalpy, base[:2], loading_points=lp)

# 4. stored unit representations (all / first only / last only)
conversions = [
    {'pressure_unit': 'Pa'},
    {'pressure_unit': 'kPa'},
    {'pressure_unit': 'torr'},
    {'pressure_mode': 'relative'},
    {'pressure_mode': 'relative%'},
    {'loading_unit': 'mol'},
    {'loading_unit': 'mmol'},
    {'loading_basis': 'mass', 'loading_unit': 'g'},
    {'loading_basis': 'volume_gas', 'loading_unit': 'cm3'},
    {'loading_basis': 'percent'},
    {'loading_basis': 'fraction'},
    {'material_unit': 'kg'},
    {'material_unit': 'mg'},
    {'pressure_unit': 'Pa', 'loading_basis': 'mass', 'loading_unit': 'mg', 'material_unit': 'kg'},
]
for conv in conversions:
    for which in (None, [0], [2], [0, 1]):
        try:
            isos = conv_all(base, which, **conv)
        except Exception as err:  # noqa
            print(f"--- convert {conv} {which}: EXC {type(err).__name__}: {err}")
            continue
        run(f"converted {conv} which={which}", ie.isosteric_enthalpy, isos)
        run(f"converted {conv} which={which} lp", ie.isosteric_enthalpy, isos, loading_points=[1.0, 2.0, 3.0])

# 5. model isotherms and mixtures
for model in ('Langmuir', 'DSLangmuir', 'Henry', 'Toth'):
    try:
        models = [pygaps.ModelIsotherm.from_pointisotherm(i, model=model) for i in base]
    except Exception as err:  # noqa
        print(f"--- model {model}: EXC {type(err).__name__}: {err}")
        continue
    run(f"models {model}", ie.isosteric_enthalpy, models)
    run(f"models {model} lp", ie.isosteric_enthalpy, models, loading_points=[0.5, 1.0, 2.0])
    run(f"models {model} des", ie.isosteric_enthalpy, models, branch='des')
    run(f"mixed point+{model}", ie.isosteric_enthalpy, [base[0], models[1], base[2]])
    run(f"mixed {model}+point des", ie.isosteric_enthalpy, [models[0], base[1]], branch='des')
    run(f"mixed point+{model} des", ie.isosteric_enthalpy, [base[0], models[1]], branch='des')

# 6. scaled loadings
scaled = []
for iso in base:
    d = iso.data_raw.copy()
    d[iso.loading_key] = d[iso.loading_key] * 7.5
    scaled.append(pygaps.PointIsotherm(isotherm_data=d, pressure_key=iso.pressure_key, loading_key=iso.loading_key, **iso.to_dict()))
run("scaled x7.5", ie.isosteric_enthalpy, scaled)

# 7. raw function
rng = numpy.random.default_rng(15)
temps3 = [298.15, 323.15, 348.15]


def cc_pressures(temps, n=12, dh=25.0):
    load = numpy.linspace(0.5, 5, n)
    return numpy.array([[numpy.exp(-dh * 1000 / 8.314 / t + 10 + 0.3 * l) for t in temps] for l in load])


raw_cases = {
    'ideal 3T': (cc_pressures(temps3), temps3),
    'ideal 2T': (cc_pressures(temps3[:2]), temps3[:2]),
    'ideal 5T': (cc_pressures([280, 290, 300, 310, 320.5]), [280, 290, 300, 310, 320.5]),
    'noisy 3T': (cc_pressures(temps3) * (1 + 0.05 * rng.standard_normal((12, 3))), temps3),
    'lists': (cc_pressures(temps3).tolist(), temps3),
    'tuple temps': (cc_pressures(temps3), tuple(temps3)),
    'array temps': (cc_pressures(temps3), numpy.array(temps3)),
    'int temps': (cc_pressures([300, 350, 400]), [300, 350, 400]),
    'single row': (cc_pressures(temps3, n=1), temps3),
    'mismatch': (cc_pressures(temps3), temps3[:2]),
    'mismatch2': (cc_pressures(temps3[:2]), temps3),
    'zero pressure': (numpy.where(numpy.arange(36).reshape(12, 3) == 4, 0.0, cc_pressures(temps3)), temps3),
    'negative pressure': (numpy.where(numpy.arange(36).reshape(12, 3) == 4, -1.0, cc_pressures(temps3)), temps3),
    'nan pressure': (numpy.where(numpy.arange(36).reshape(12, 3) == 7, numpy.nan, cc_pressures(temps3)), temps3),
    'equal temps': (cc_pressures(temps3), [300.0, 300.0, 300.0]),
    'zero temp': (cc_pressures(temps3), [0.0, 300.0, 310.0]),
    'empty pressures': ([], temps3),
    'empty row': ([[]], []),
    'one temp': (cc_pressures([300.0]), [300.0]),
    'pa scaled': (cc_pressures(temps3) * 1e5, temps3),
    'constant p': (numpy.ones((4, 3)), temps3),
    'exothermic dh=60': (cc_pressures(temps3, dh=60.0), temps3),
    'negative dh': (cc_pressures(temps3, dh=-10.0), temps3),
}
for name, (p, t) in raw_cases.items():
    run(f"raw {name}", ie.isosteric_enthalpy_raw, p, t)
run("raw kw", ie.isosteric_enthalpy_raw, pressures=cc_pressures(temps3), temperatures=temps3)
