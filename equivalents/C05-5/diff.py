"""Shared part of the differential scripts (inlined into every diffN.py by _eq/_build.sh)."""
import logging
import os
import subprocess
import sys
import warnings

import numpy
import pandas

warnings.filterwarnings("ignore")

import pygaps  # noqa: E402
import pygaps.parsing  # noqa: E402
import pygaps.modelling  # noqa: E402
from pygaps.utilities.exceptions import ParameterError  # noqa: E402,F401
from pygaps.utilities import hashgen  # noqa: E402

logging.getLogger("pygaps").setLevel(logging.CRITICAL)
pygaps.logger.setLevel(logging.CRITICAL)

assert os.path.realpath(pygaps.__file__).startswith("/tmp/eq2/C05/src"), pygaps.__file__


def canon(obj):
    """Canonical text of a value: floats to 12 significant digits, containers recursively, type names kept."""
    if isinstance(obj, bool) or obj is None:
        return repr(obj)
    if isinstance(obj, numpy.bool_):
        return f"np.bool({bool(obj)})"
    if isinstance(obj, (int, numpy.integer)):
        return f"{type(obj).__name__}:{int(obj)}"
    if isinstance(obj, (float, numpy.floating)):
        return f"{type(obj).__name__}:{float(obj):.12g}"
    if isinstance(obj, str):
        return repr(obj)
    if isinstance(obj, dict):
        return "{" + ", ".join(f"{canon(k)}: {canon(v)}" for k, v in obj.items()) + "}"
    if isinstance(obj, (list, tuple)):
        o, c = ("[", "]") if isinstance(obj, list) else ("(", ")")
        return o + ", ".join(canon(v) for v in obj) + c
    if isinstance(obj, numpy.ndarray):
        return f"ndarray<{obj.dtype}>" + canon(obj.tolist())
    if isinstance(obj, pandas.Series):
        return f"Series<{obj.dtype}>[index={list(obj.index)!r}]" + canon(obj.tolist())
    if isinstance(obj, pandas.DataFrame):
        cols = "; ".join(f"{c!r}<{obj[c].dtype}>={canon(obj[c].tolist())}" for c in obj.columns) \
            if obj.columns.is_unique else repr(obj.to_dict(orient='split'))
        return f"DataFrame[index={list(obj.index)!r}]({cols})"
    if isinstance(obj, (pygaps.Material, pygaps.Adsorbate)):
        return f"{type(obj).__name__}({str(obj)!r})"
    return f"<{type(obj).__name__}>{obj!r}"


def attempt(label, func):
    """Print the canonical outcome of a call: its value, or the exception type and message."""
    try:
        out = canon(func())
    except BaseException as err:  # noqa
        out = f"!! {type(err).__name__}: {err}"
    print(f"{label} -> {out}")


BASE = dict(material='carbon', adsorbate='nitrogen', temperature=77)
UNITS = dict(
    pressure_mode='absolute',
    pressure_unit='bar',
    material_basis='mass',
    material_unit='g',
    loading_basis='molar',
    loading_unit='mmol',
    temperature_unit='K',
)
P = [0.1, 0.2, 0.3, 0.5, 0.8, 1.0, 0.7, 0.4]
L = [1.0, 1.8, 2.4, 3.1, 3.9, 4.2, 4.0, 3.3]
PI = [1, 2, 3, 4, 5, 4, 2]
LI = [2, 4, 6, 7, 8, 7, 5]


def frame(p=P, l=L, pk='pressure', lk='loading', **extra):  # noqa: E741
    return pandas.DataFrame({pk: p, lk: l, **extra})


def point(**kw):
    return pygaps.PointIsotherm(**{**BASE, **UNITS, **kw})


def base(**kw):
    return pygaps.core.baseisotherm.BaseIsotherm(**{**BASE, **UNITS, **kw})


def model(name='Henry', **kw):
    return pygaps.ModelIsotherm(**{'pressure': P[:6], 'loading': L[:6], 'model': name, **BASE, **UNITS, **kw})


def model_from(name, parameters, **kw):
    from pygaps.modelling import model_from_dict
    mdl = model_from_dict({
        'name': name,
        'parameters': parameters,
        'rmse': kw.pop('rmse', 0.01),
        'pressure_range': kw.pop('pressure_range', (0.1, 1.0)),
        'loading_range': kw.pop('loading_range', (1, 4.2)),
    })
    return pygaps.ModelIsotherm(model=mdl, **{**BASE, **UNITS, **kw})


class Odd:
    """Object that is not JSON serialisable."""
    def __repr__(self):
        return "Odd()"


def _huge_index():
    df = frame()
    df.index = [f"row{i}" for i in range(len(df))]
    return df


def _shuffled_index():
    df = frame()
    df.index = list(range(len(df)))[::-1]
    return df


def _multi_index():
    df = frame()
    df.index = pandas.MultiIndex.from_tuples([(i // 2, i % 2) for i in range(len(df))])
    return df


def _dup_columns():
    df = pandas.DataFrame([[0.1, 1.0, 5.0, 6.0], [0.2, 2.0, 7.0, 8.0]], columns=['pressure', 'loading', 'x', 'x'])
    return df


# label -> builder; every builder returns a fresh isotherm (or raises)
BUILDERS = {
    # ---- metadata only
    "base/plain": lambda: base(),
    "base/int-temp": lambda: base(temperature=77),
    "base/float-temp": lambda: base(temperature=77.0),
    "base/str-temp": lambda: base(temperature="77"),
    "base/temp-78": lambda: base(temperature=78),
    "base/celsius": lambda: base(temperature=-196.15, temperature_unit='°C'),
    "base/shorthands": lambda: pygaps.core.baseisotherm.BaseIsotherm(m='carbon', a='nitrogen', t=77, **UNITS),
    "base/relative": lambda: base(pressure_mode='relative'),
    "base/relative%": lambda: base(pressure_mode='relative%', pressure_unit='Pa'),
    "base/torr": lambda: base(pressure_unit='torr'),
    "base/loading-mass": lambda: base(loading_basis='mass', loading_unit='g'),
    "base/loading-percent": lambda: base(loading_basis='percent', loading_unit=None, material_unit=None),
    "base/mat-volume": lambda: base(material_basis='volume', material_unit='cm3'),
    "base/other-adsorbate": lambda: base(adsorbate='argon'),
    "base/alias-adsorbate": lambda: base(adsorbate='N2'),
    "base/unknown-adsorbate": lambda: base(adsorbate='unobtainium'),
    "base/other-material": lambda: base(material='zeolite'),
    "base/material-dict": lambda: base(material={'name': 'carbon', 'density': 2, 'batch': 'X1'}),
    "base/material-dict-float": lambda: base(material={'name': 'carbon', 'density': 2.0, 'batch': 'X1'}),
    "base/material-dict-empty": lambda: base(material={'name': 'carbon'}),
    "base/material-obj": lambda: base(material=pygaps.Material('carbon', density=2.0, batch='X1')),
    "base/adsorbate-obj": lambda: base(adsorbate=pygaps.Adsorbate.find('nitrogen')),
    "base/meta-int": lambda: base(user='me', run=3, flag=True),
    "base/meta-float": lambda: base(user='me', run=3.0, flag=True),
    "base/meta-flag-1": lambda: base(user='me', run=3, flag=1),
    "base/meta-order": lambda: base(flag=True, run=3, user='me'),
    "base/meta-npint": lambda: base(user='me', run=numpy.int64(3), flag=True),
    "base/meta-npfloat": lambda: base(user='me', run=numpy.float64(3), flag=True),
    "base/meta-npbool": lambda: base(user='me', run=3, flag=numpy.bool_(True)),
    "base/meta-nested": lambda: base(extra={'a': [1, 2, (3, 4)], 'b': {'c': 5, 'd': None}}),
    "base/meta-nested-float": lambda: base(extra={'a': [1.0, 2.0, [3.0, 4.0]], 'b': {'c': 5.0, 'd': None}}),
    "base/meta-nested-other": lambda: base(extra={'a': [1.0, 2.0, [3.0, 4.5]], 'b': {'c': 5.0, 'd': None}}),
    "base/meta-nan": lambda: base(extra=float('nan')),
    "base/meta-inf": lambda: base(extra=float('inf')),
    "base/meta-none": lambda: base(extra=None),
    "base/meta-empty": lambda: base(extra='', more=[], yet={}),
    "base/meta-huge-int": lambda: base(extra=10**400),
    "base/meta-odd": lambda: base(extra=Odd()),
    "base/meta-array": lambda: base(extra=numpy.array([1, 2])),
    "base/meta-mixed-keys": lambda: base(extra={1: 'a', 'b': 2}),
    "base/meta-int-keys": lambda: base(extra={2: 'a', 1: 2}),
    "base/meta-unicode": lambda: base(comment='Å µmol °C ☃'),
    "base/bad-mode": lambda: base(pressure_mode='wrong'),
    "base/bad-unit": lambda: base(loading_unit='wrong'),
    "base/missing": lambda: pygaps.core.baseisotherm.BaseIsotherm(material='carbon', **UNITS),
    # ---- points
    "point/lists": lambda: point(pressure=P, loading=L),
    "point/tuples": lambda: point(pressure=tuple(P), loading=tuple(L)),
    "point/arrays": lambda: point(pressure=numpy.array(P), loading=numpy.array(L)),
    "point/series": lambda: point(pressure=pandas.Series(P), loading=pandas.Series(L)),
    "point/frame": lambda: point(isotherm_data=frame(), pressure_key='pressure', loading_key='loading'),
    "point/frame-str-index": lambda: point(isotherm_data=_huge_index(), pressure_key='pressure', loading_key='loading'),
    "point/frame-rev-index": lambda: point(isotherm_data=_shuffled_index(), pressure_key='pressure', loading_key='loading'),
    "point/frame-multi-index": lambda: point(isotherm_data=_multi_index(), pressure_key='pressure', loading_key='loading'),
    "point/frame-float32": lambda: point(isotherm_data=frame().astype('float32'), pressure_key='pressure', loading_key='loading'),
    "point/frame-keys": lambda: point(isotherm_data=frame(pk='p', lk='n'), pressure_key='p', loading_key='n'),
    "point/frame-swapped-cols": lambda: point(isotherm_data=frame()[['loading', 'pressure']], pressure_key='pressure', loading_key='loading'),
    "point/noise-below": lambda: point(pressure=[p + 1e-10 for p in P], loading=L),
    "point/noise-above": lambda: point(pressure=[p + 1e-7 for p in P], loading=L),
    "point/one-loading-changed": lambda: point(pressure=P, loading=L[:-1] + [3.30000002]),
    "point/reordered-rows": lambda: point(pressure=P[::-1], loading=L[::-1], branch=[1, 1, 0, 0, 0, 0, 0, 0]),
    "point/int-lists": lambda: point(pressure=PI, loading=LI),
    "point/int-as-float": lambda: point(pressure=[float(x) for x in PI], loading=[float(x) for x in LI]),
    "point/int-arrays": lambda: point(pressure=numpy.array(PI, dtype='int32'), loading=numpy.array(LI, dtype='uint8')),
    "point/int-frame": lambda: point(isotherm_data=frame(PI, LI), pressure_key='pressure', loading_key='loading'),
    "point/mixed-int-float": lambda: point(pressure=PI, loading=[float(x) for x in LI]),
    "point/branch-ads": lambda: point(pressure=P, loading=L, branch='ads'),
    "point/branch-des": lambda: point(pressure=P, loading=L, branch='des'),
    "point/branch-guess": lambda: point(pressure=P, loading=L, branch='guess'),
    "point/branch-list-int": lambda: point(pressure=P, loading=L, branch=[0, 0, 0, 0, 0, 0, 1, 1]),
    "point/branch-list-bool": lambda: point(pressure=P, loading=L, branch=[False] * 6 + [True] * 2),
    "point/branch-list-float": lambda: point(pressure=P, loading=L, branch=[0.0] * 6 + [1.0] * 2),
    "point/branch-array-bool": lambda: point(pressure=P, loading=L, branch=numpy.array([False] * 6 + [True] * 2)),
    "point/branch-series": lambda: point(pressure=P, loading=L, branch=pandas.Series([0] * 6 + [1] * 2)),
    "point/branch-one-mark-changed": lambda: point(pressure=P, loading=L, branch=[0, 0, 0, 0, 0, 1, 1, 1]),
    "point/branch-column-bool": lambda: point(
        isotherm_data=frame(branch=[False] * 6 + [True] * 2), pressure_key='pressure', loading_key='loading'
    ),
    "point/branch-column-int": lambda: point(
        isotherm_data=frame(branch=[0] * 6 + [1] * 2), pressure_key='pressure', loading_key='loading', branch='des'
    ),
    "point/branch-column-str": lambda: point(
        isotherm_data=frame(branch=['0'] * 6 + ['1'] * 2), pressure_key='pressure', loading_key='loading'
    ),
    "point/branch-column-words": lambda: point(
        isotherm_data=frame(branch=['ads'] * 6 + ['des'] * 2), pressure_key='pressure', loading_key='loading'
    ),
    "point/branch-column-nan": lambda: point(
        isotherm_data=frame(branch=[0.0] * 6 + [numpy.nan] * 2), pressure_key='pressure', loading_key='loading'
    ),
    "point/branch-bad-word": lambda: point(pressure=P, loading=L, branch='up'),
    "point/branch-bad-length": lambda: point(pressure=P, loading=L, branch=[0, 1]),
    "point/branch-none": lambda: point(pressure=P, loading=L, branch=None),
    "point/branch-scalar-true": lambda: point(pressure=P, loading=L, branch=True),
    "point/branch-scalar-2": lambda: point(pressure=P, loading=L, branch=2),
    "point/branch-huge": lambda: point(pressure=P, loading=L, branch=[300] * 8),
    "point/other-cols": lambda: point(
        isotherm_data=frame(enthalpy=[5, 6, 7, 8, 9, 10, 11, 12], zeta=[1.5] * 8, alpha=list("abcdefgh")),
        pressure_key='pressure', loading_key='loading'
    ),
    "point/other-cols-float": lambda: point(
        isotherm_data=frame(zeta=[1.5] * 8, enthalpy=[5., 6, 7, 8, 9, 10, 11, 12], alpha=list("abcdefgh")),
        pressure_key='pressure', loading_key='loading'
    ),
    "point/other-cols-changed": lambda: point(
        isotherm_data=frame(enthalpy=[5, 6, 7, 8, 9, 10, 11, 13], zeta=[1.5] * 8, alpha=list("abcdefgh")),
        pressure_key='pressure', loading_key='loading'
    ),
    "point/other-cols-bool": lambda: point(
        isotherm_data=frame(ok=[True, False] * 4), pressure_key='pressure', loading_key='loading'
    ),
    "point/other-cols-none": lambda: point(
        isotherm_data=frame(note=[None, 'a'] * 4), pressure_key='pressure', loading_key='loading'
    ),
    "point/other-cols-mixed-object": lambda: point(
        isotherm_data=frame(note=[1, 'a', 2.5, None] * 2), pressure_key='pressure', loading_key='loading'
    ),
    "point/other-cols-datetime": lambda: point(
        isotherm_data=frame(when=pandas.date_range('2020-01-01', periods=8)), pressure_key='pressure', loading_key='loading'
    ),
    "point/other-cols-int-name": lambda: point(
        isotherm_data=frame(**{'b': [1] * 8}).assign(**{'a': 2}).rename(columns={'a': 5}),
        pressure_key='pressure', loading_key='loading'
    ),
    "point/dup-columns": lambda: point(isotherm_data=_dup_columns(), pressure_key='pressure', loading_key='loading'),
    "point/nan-values": lambda: point(pressure=[0.1, numpy.nan, 0.3], loading=[1, 2, numpy.nan]),
    "point/none-values": lambda: point(pressure=[0.1, None, 0.3], loading=[1, 2, None]),
    "point/str-values": lambda: point(pressure=['0.1', '0.2'], loading=['1', '2']),
    "point/empty": lambda: point(pressure=[], loading=[]),
    "point/empty-frame": lambda: point(
        isotherm_data=pandas.DataFrame({'pressure': [], 'loading': []}), pressure_key='pressure', loading_key='loading'
    ),
    "point/single": lambda: point(pressure=[0.5], loading=[2]),
    "point/missing-keys": lambda: point(isotherm_data=frame()),
    "point/missing-one-key": lambda: point(isotherm_data=frame(), pressure_key='pressure'),
    "point/missing-col": lambda: point(isotherm_data=frame(), pressure_key='pressure', loading_key='uptake'),
    "point/missing-both-cols": lambda: point(isotherm_data=frame(), pressure_key='p', loading_key='uptake'),
    "point/only-pressure": lambda: point(pressure=P),
    "point/only-loading": lambda: point(loading=L),
    "point/unequal": lambda: point(pressure=P, loading=L[:-1]),
    "point/nothing": lambda: point(),
    "point/frame-wins-over-lists": lambda: point(
        pressure=[9, 9], loading=[9, 9], isotherm_data=frame(), pressure_key='pressure', loading_key='loading'
    ),
    "point/meta": lambda: point(pressure=P, loading=L, user='me', run=3),
    "point/meta-float": lambda: point(pressure=P, loading=L, user='me', run=3.0),
    "point/relative": lambda: point(pressure=P, loading=L, pressure_mode='relative'),
    "point/material-dict": lambda: point(pressure=P, loading=L, material={'name': 'carbon', 'density': 2}),
    "point/from-base": lambda: pygaps.PointIsotherm.from_isotherm(base(user='me', run=3), pressure=P, loading=L),
    "point/from-json": lambda: pygaps.parsing.isotherm_from_json(point(pressure=P, loading=L, user='me', run=3).to_json()),
    "point/from-csv": lambda: pygaps.parsing.isotherm_from_csv(point(pressure=P, loading=L, user='me', run=3).to_csv()),
    "point/from-model": lambda: pygaps.PointIsotherm.from_modelisotherm(
        model_from('Langmuir', {'K': 2.5, 'n_m': 6}), pressure_points=[0.1, 0.5, 1]
    ),
    # ---- models
    "model/henry-fit": lambda: model('Henry'),
    "model/langmuir-fit": lambda: model('Langmuir'),
    "model/langmuir-fit-arrays": lambda: model('Langmuir', pressure=numpy.array(P[:6]), loading=numpy.array(L[:6])),
    "model/langmuir-fit-frame": lambda: model(
        'Langmuir', pressure=None, loading=None, isotherm_data=frame(), pressure_key='pressure', loading_key='loading'
    ),
    "model/langmuir-fit-des": lambda: model(
        'Langmuir', pressure=None, loading=None, isotherm_data=frame(), pressure_key='pressure', loading_key='loading',
        branch='des'
    ),
    "model/dslangmuir-fit": lambda: model('DSLangmuir'),
    "model/bet-fit": lambda: model('BET', pressure_mode='relative'),
    "model/dr-fit": lambda: model('DR', pressure_mode='relative'),
    "model/no-model": lambda: model(None),
    "model/bad-model": lambda: model('Wrong'),
    "model/langmuir-int": lambda: model_from('Langmuir', {'K': 2, 'n_m': 6}),
    "model/langmuir-float": lambda: model_from('Langmuir', {'K': 2.0, 'n_m': 6.0}),
    "model/langmuir-param-order": lambda: model_from('Langmuir', {'n_m': 6.0, 'K': 2.0}),
    "model/langmuir-K-changed": lambda: model_from('Langmuir', {'K': 2.0000001, 'n_m': 6.0}),
    "model/langmuir-rmse": lambda: model_from('Langmuir', {'K': 2, 'n_m': 6}, rmse=0.02),
    "model/langmuir-range-list": lambda: model_from('Langmuir', {'K': 2, 'n_m': 6}, pressure_range=[0.1, 1]),
    "model/langmuir-range-changed": lambda: model_from('Langmuir', {'K': 2, 'n_m': 6}, loading_range=(1, 4.3)),
    "model/langmuir-meta": lambda: model_from('Langmuir', {'K': 2, 'n_m': 6}, user='me', run=3),
    "model/langmuir-relative": lambda: model_from('Langmuir', {'K': 2, 'n_m': 6}, pressure_mode='relative'),
    "model/langmuir-npparams": lambda: model_from('Langmuir', {'K': numpy.float64(2), 'n_m': numpy.int64(6)}),
    "model/langmuir-extra-param": lambda: model_from('Langmuir', {'K': 2, 'n_m': 6, 'zz': 1}),
    "model/langmuir-missing-param": lambda: model_from('Langmuir', {'K': 2}),
    "model/henry-same-numbers": lambda: model_from('Henry', {'K': 2}),
    "model/henry-nan-range": lambda: pygaps.ModelIsotherm(
        model=pygaps.modelling.get_isotherm_model('Henry', parameters={'K': 2}), **BASE, **UNITS
    ),
    "model/henry-no-params": lambda: pygaps.ModelIsotherm(model=pygaps.modelling.get_isotherm_model('Henry'), **BASE, **UNITS),
    "model/toth": lambda: model_from('Toth', {'n_m': 5, 'K': 3, 't': 0.7}),
    "model/dr": lambda: model_from('DR', {"n_m": 5, "e": 3000}, pressure_mode='relative'),
    "model/from-point": lambda: pygaps.ModelIsotherm.from_pointisotherm(point(pressure=P, loading=L), model='Henry'),
    "model/from-json": lambda: pygaps.parsing.isotherm_from_json(model_from('Langmuir', {'K': 2, 'n_m': 6}, user='me').to_json()),
    "model/from-csv": lambda: pygaps.parsing.isotherm_from_csv(model_from('Langmuir', {'K': 2, 'n_m': 6}, user='me').to_csv()),
}


def build_all():
    """Build every case; returns {label: isotherm} and prints the construction failures."""
    built = {}
    for label, builder in BUILDERS.items():
        try:
            built[label] = builder()
        except BaseException as err:  # noqa
            print(f"BUILD {label} -> !! {type(err).__name__}: {err}")
    return built


def report_identity(built):
    """Identifier of every case, the classes of equal isotherms and list membership."""
    ids = {}
    for label, iso in built.items():
        try:
            ids[label] = iso.iso_id
            print(f"ID {label} -> {ids[label]}")
        except BaseException as err:  # noqa
            print(f"ID {label} -> !! {type(err).__name__}: {err}")
    groups = {}
    for label, iso_id in ids.items():
        groups.setdefault(iso_id, []).append(label)
    for iso_id, labels in sorted(groups.items()):
        if len(labels) > 1:
            print(f"SAME {iso_id}: {labels}")
    # == and membership agree with the identifiers
    labels = list(ids)
    pool = [built[lb] for lb in labels[::3]]
    for label in labels:
        eq = [other for other in labels[::7] if built[label] == built[other]]
        print(f"EQ {label} == {eq}; in pool: {built[label] in pool}")
    return ids


def hashseed_check(snippet):
    """Run a snippet in fresh interpreters with different hash seeds."""
    for seed in ("0", "1", "4242"):
        env = dict(os.environ, PYTHONHASHSEED=seed, PYTHONPATH="/tmp/eq2/C05/src")
        res = subprocess.run([sys.executable, "-W", "ignore", "-c", snippet], env=env, capture_output=True, text=True)
        print(f"SEED {seed} -> {res.stdout.strip()} {res.stderr.strip()[-300:] if res.returncode else ''}")


SNIPPET = """
import logging, pygaps
pygaps.logger.setLevel(logging.CRITICAL)
kw = dict(material='carbon', adsorbate='nitrogen', temperature=77, pressure_mode='absolute', pressure_unit='bar',
          material_basis='mass', material_unit='g', loading_basis='molar', loading_unit='mmol', temperature_unit='K')
a = pygaps.PointIsotherm(pressure=[1, 2, 3], loading=[2, 3, 4.5], user='me', run=3, extra={'b': 1, 'a': [1, 2]}, **kw)
b = pygaps.ModelIsotherm(pressure=[1, 2, 3], loading=[2, 3, 4.5], model='Henry', zeta=1, alpha=2, **kw)
c = pygaps.core.baseisotherm.BaseIsotherm(zeta=1, alpha=2, **kw)
print(a.iso_id, b.iso_id, c.iso_id, list(a.to_dict()), list(b.model.to_dict()))
"""


# ---------------------------------------------------------------- change 1: hashgen.isotherm_to_hash
def main():
    built = build_all()
    ids = report_identity(built)

    # the function itself, called directly (also on things that are neither point nor model isotherms)
    class Fake:
        def __init__(self, doc):
            self.doc = doc

        def to_dict(self):
            return self.doc

    fakes = {
        "empty": {},
        "ints": {'a': 1, 'b': [1, 2, (3, True)], 'c': {'d': 4}},
        "floats": {'a': 1.0, 'b': [1.0, 2.0, [3.0, True]], 'c': {'d': 4.0}},
        "bools": {'a': True, 'b': False},
        "ones": {'a': 1, 'b': 0},
        "data_hash-key": {'data_hash': '123'},
        "nan": {'a': float('nan'), 'b': float('-inf')},
        "np": {'a': numpy.int32(4), 'b': numpy.float32(0.5)},
        "npbool": {'a': numpy.bool_(False)},
        "set": {'a': {1, 2}},
        "mixed-keys": {1: 2, 'a': 3},
        "int-keys": {2: 1, 1: 2},
        "none-key": {None: 1},
        "huge": {'a': 2**2000},
        "unicode": {'a': 'é☃'},
        "not-a-dict": [1, 2, 3],
        "string": "abc",
        "none": None,
    }
    for label, doc in fakes.items():
        attempt(f"FAKE {label}", lambda doc=doc: hashgen.isotherm_to_hash(Fake(doc)))
    attempt("FAKE no-to_dict", lambda: hashgen.isotherm_to_hash(object()))
    attempt("FAKE None", lambda: hashgen.isotherm_to_hash(None))

    # broken isotherms
    def no_data():
        iso = point(pressure=P, loading=L)
        del iso.data_raw
        return iso.iso_id

    def no_model():
        iso = model_from('Langmuir', {'K': 2, 'n_m': 6})
        del iso.model
        return iso.iso_id

    def data_not_frame():
        iso = point(pressure=P, loading=L)
        iso.data_raw = [1, 2, 3]
        return iso.iso_id

    def data_series():
        iso = point(pressure=P, loading=L)
        iso.data_raw = pandas.Series([1, 2, 3])
        return iso.iso_id

    def model_odd():
        iso = model_from('Langmuir', {'K': 2, 'n_m': 6})
        iso.model.params['K'] = Odd()
        return iso.iso_id

    def model_int_param():
        iso = model_from('Langmuir', {'K': 2.0, 'n_m': 6.0})
        first = iso.iso_id
        iso.model.params['K'] = 2
        iso.model.rmse = numpy.float64(0.01)
        return first == iso.iso_id

    for func in (no_data, no_model, data_not_frame, data_series, model_odd, model_int_param):
        attempt(f"BROKEN {func.__name__}", func)

    # the identifier does not move when data are read or caches filled; it moves on edits
    iso = point(pressure=P, loading=L, user='me')
    before = iso.iso_id
    iso.pressure(); iso.loading(branch='des'); iso.loading_at(0.25); iso.pressure_at(2.0, branch='ads')  # noqa: E702
    iso.to_dict(); iso.to_json(); str(iso); repr(iso); iso.spreading_pressure_at([0.3])  # noqa: E702
    print("STABLE point", before == iso.iso_id, iso.iso_id, iso.l_interpolator is not None)
    data_before = canon(iso.data_raw)
    iso.iso_id
    print("DATA untouched", data_before == canon(iso.data_raw))
    iso.data_raw.loc[3, 'loading'] += 1e-7
    print("EDIT loading", iso.iso_id)
    iso.data_raw.loc[3, 'branch'] = 1
    print("EDIT branch", iso.iso_id)
    iso.properties['user'] = 'you'
    print("EDIT meta", iso.iso_id)
    iso.loading_unit = 'mol'
    print("EDIT unit label", iso.iso_id)
    iso.convert_pressure(unit_to='Pa')
    print("CONVERT", iso.iso_id)
    iso.convert_temperature('°C')
    print("CONVERT T", iso.iso_id)

    miso = model_from('Langmuir', {'K': 2, 'n_m': 6}, user='me')
    before = miso.iso_id
    miso.loading_at(0.3); miso.pressure_at(1.0); miso.pressure(5); miso.to_dict(); miso.to_json(); str(miso)  # noqa: E702
    print("STABLE model", before == miso.iso_id, miso.iso_id)
    miso.model.params['K'] = 2.5
    print("EDIT param", miso.iso_id)
    miso.model.rmse = 0.5
    print("EDIT rmse", miso.iso_id)

    # helper used by the hash
    for doc in fakes.values():
        attempt("N2F", lambda doc=doc: hashgen._numbers_as_float(doc))

    hashseed_check(SNIPPET)
    print("N", len(ids))


main()
