"""Differential script for change 1: math_utilities.split_ads_data (branch guess)."""
import warnings

import numpy
import pandas

warnings.simplefilter("ignore")

import pygaps  # noqa: E402
from pygaps.utilities.math_utilities import split_ads_data  # noqa: E402


def num(x):
    if isinstance(x, (bool, numpy.bool_)):
        return repr(bool(x))
    if isinstance(x, (int, numpy.integer)):
        return repr(int(x))
    if isinstance(x, (float, numpy.floating)):
        return format(float(x), ".12g")
    return repr(x)


def fmt(x):
    if isinstance(x, numpy.ndarray):
        return f"ndarray[{x.dtype}]{x.shape}(" + ", ".join(num(v) for v in x.ravel().tolist()) + ")"
    if isinstance(x, pandas.Series):
        return (
            f"Series[{x.dtype}] name={x.name!r} index={list(x.index)!r} values=(" +
            ", ".join(num(v) for v in x.tolist()) + ")"
        )
    if isinstance(x, pandas.DataFrame):
        return "DataFrame{" + "; ".join(f"{c!r}: {fmt(x[c])}" for c in x.columns) + "}"
    if isinstance(x, (list, tuple)):
        return type(x).__name__ + "(" + ", ".join(fmt(v) for v in x) + ")"
    return num(x)


def run(label, fun):
    try:
        res = fmt(fun())
    except Exception as err:  # noqa: BLE001
        res = f"EXC {type(err).__name__}: {err}"
    print(f"{label} -> {res}")


SEQS = {
    "rising": [1.0, 2.0, 3.0, 4.0, 5.0],
    "falling": [5.0, 4.0, 3.0, 2.0, 1.0],
    "updown": [1.0, 2.0, 3.0, 4.0, 5.0, 6.0, 4.5, 2.5],
    "max_second": [1.0, 9.0, 3.0, 2.0],
    "max_penultimate": [1.0, 2.0, 9.0, 3.0],
    "tie_max_mid": [1.0, 5.0, 5.0, 2.0],
    "tie_max_first_last": [5.0, 2.0, 3.0, 5.0],
    "tie_max_end": [1.0, 2.0, 5.0, 5.0],
    "all_equal": [2.0, 2.0, 2.0],
    "single": [3.0],
    "two_up": [1.0, 2.0],
    "two_down": [2.0, 1.0],
    "two_equal": [2.0, 2.0],
    "nan_first": [numpy.nan, 1.0, 3.0, 2.0],
    "nan_last": [1.0, 3.0, 2.0, numpy.nan],
    "nan_at_top": [1.0, numpy.nan, 3.0, 2.0, 1.0],
    "all_nan": [numpy.nan, numpy.nan],
    "ints": [1, 2, 7, 3, 2],
    "negatives": [-5.0, -1.0, -3.0],
    "inf_mid": [1.0, numpy.inf, 2.0],
    "zigzag": [1.0, 3.0, 2.0, 6.0, 4.0, 5.0, 0.5],
    "empty": [],
}

print("== direct calls, default RangeIndex")
for name, seq in SEQS.items():
    for key in ("pressure", "p [bar]"):
        df = pandas.DataFrame({key: seq, "loading": list(range(len(seq)))})
        run(f"split[{name}|{key}]", lambda df=df, key=key: split_ads_data(df, key))

print("== direct calls, exotic row labels (result must depend on positions only)")


def idx_variants(n):
    out = {
        "shuffled_int": pandas.Index([(7 * i + 3) % (n + 11) for i in range(n)]),
        "reversed": pandas.Index(list(range(n))[::-1]),
        "offset": pandas.RangeIndex(100, 100 + n),
        "strings": pandas.Index([f"r{i}" for i in range(n)]),
        "floats": pandas.Index([0.5 * i - 1 for i in range(n)]),
        "dates": pandas.date_range("2020-01-01", periods=n),
        "multi": pandas.MultiIndex.from_tuples([(i // 2, i % 2) for i in range(n)]),
        "dup_sorted": pandas.Index([i // 2 for i in range(n)]),
        "dup_unsorted": pandas.Index([(i * 3) % 2 for i in range(n)]),
        "all_same": pandas.Index([0] * n),
    }
    return out


for name in ("rising", "falling", "updown", "max_second", "tie_max_mid", "two_down", "single", "zigzag"):
    seq = SEQS[name]
    for iname, index in idx_variants(len(seq)).items():
        df = pandas.DataFrame({"pressure": seq, "loading": seq}, index=index)
        run(f"split[{name}|idx={iname}]", lambda df=df: split_ads_data(df, "pressure"))

print("== pressure column of odd types")
run("obj_dtype", lambda: split_ads_data(pandas.DataFrame({"p": pandas.Series([1, 4, 2], dtype=object)}), "p"))
run("str_values", lambda: split_ads_data(pandas.DataFrame({"p": ["a", "c", "b"]}), "p"))
run("bool_values", lambda: split_ads_data(pandas.DataFrame({"p": [False, True, False]}), "p"))
run("missing_key", lambda: split_ads_data(pandas.DataFrame({"p": [1.0, 2.0]}), "q"))
run("float32", lambda: split_ads_data(pandas.DataFrame({"p": numpy.array([1, 3, 2], dtype="float32")}), "p"))

print("== through PointIsotherm (arrays)")
PARAMS = dict(material="TEST", adsorbate="N2", temperature=77.0)
for name, seq in SEQS.items():
    load = [0.1 * (i + 1) for i in range(len(seq))]

    def build(seq=seq, load=load):
        iso = pygaps.PointIsotherm(pressure=seq, loading=load, **PARAMS)
        return [
            iso.data_raw["branch"],
            iso.pressure(branch="ads"),
            iso.pressure(branch="des"),
            iso.loading(branch="ads", indexed=True),
            iso.loading(branch="des", indexed=True),
            iso.has_branch("ads"),
            iso.has_branch("des"),
        ]

    run(f"point[{name}]", build)

print("== through PointIsotherm / ModelIsotherm (dataframe with labels)")
for name in ("updown", "falling", "tie_max_first_last", "zigzag"):
    seq = SEQS[name]
    for iname, index in idx_variants(len(seq)).items():
        df = pandas.DataFrame({"pp": seq, "ll": [0.5 * v for v in seq], "extra": seq}, index=index)

        def build(df=df):
            iso = pygaps.PointIsotherm(isotherm_data=df, pressure_key="pp", loading_key="ll", **PARAMS)
            return [iso.data(branch="ads"), iso.data(branch="des")]

        run(f"pointdf[{name}|idx={iname}]", build)

        def buildm(df=df, branch="ads"):
            iso = pygaps.ModelIsotherm(
                isotherm_data=df, pressure_key="pp", loading_key="ll", model="Henry", branch=branch, **PARAMS
            )
            return [iso.model.params["K"], iso.model.pressure_range, iso.model.loading_range]

        run(f"modeldf-ads[{name}|idx={iname}]", buildm)
        run(f"modeldf-des[{name}|idx={iname}]", lambda df=df: buildm(df, "des"))
