"""Differential script for change 4: model lookup in pygaps.modelling (is_model*, get_isotherm_model, model_from_dict)."""
import copy
import json

import numpy

import eqlib
import pygaps.modelling as pgm
from eqlib import canon
from eqlib import run
from pygaps.core.modelisotherm import ModelIsotherm
from pygaps.parsing.json import isotherm_from_json
from pygaps.parsing.json import isotherm_to_json

eqlib.setup_materials()


def spellings(name):
    return [name, name.lower(), name.upper(), name.swapcase(), name[0].lower() + name[1:], f" {name}", f"{name} ", name + "x", name[:-1]]


# 1. the three membership checks
NAMES = []
for model in pgm._MODELS:
    NAMES.extend(spellings(model))
NAMES += [
    '', ' ', 'guess', 'Langmuir\n', 'LANGMUİR', 'langmuır', 'ＬＡＮＧＭＵＩＲ', 'Toth́', 'ß', 'SS', 'temkinapprox', 'TEMKINAPPROX',
    'jensenseaton', 'dslangmuir', 'Ds Langmuir', 'DS-Langmuir', 'bet', 'Bet', 'bEt', 'gab', 'henry', 'HENRY', 'virial', 'wvst', 'fhvst'
]
for name in NAMES:
    run(
        f"is_model* {name!r}",
        lambda n=name: f"model={pgm.is_model(n)!r} guess={pgm.is_model_guess(n)!r} iast={pgm.is_model_iast(n)!r}"
    )

ODD = [None, 5, 1.5, b'Langmuir', b'langmuir', ['Langmuir'], ('Henry', ), {'name': 'Henry'}, True, object]
for value in ODD:
    for fn in (pgm.is_model, pgm.is_model_guess, pgm.is_model_iast):
        run(f"{fn.__name__}({value!r})", lambda f=fn, v=value: f(v))
    run(f"get_isotherm_model({value!r})", lambda v=value: pgm.get_isotherm_model(v))


class LoudStr(str):
    """A text subclass: shows how often and how it is asked for its lower-case form."""
    calls = 0

    def lower(self):
        LoudStr.calls += 1
        return str.lower(self)


def loud():
    LoudStr.calls = 0
    model = pgm.get_isotherm_model(LoudStr('LANGMUIR'), parameters={'K': 1.0, 'n_m': 2.0})
    return f"{canon(model)} is_model={pgm.is_model(LoudStr('bet'))}"


run("text subclass", loud)

# 2. building models
for model in pgm._MODELS:
    for name in spellings(model)[:5]:
        run(f"get_isotherm_model bare {name!r}", lambda n=name: pgm.get_isotherm_model(n))
    run(
        f"get_isotherm_model full {model}",
        lambda m=model: pgm.get_isotherm_model(
            m.upper(),
            parameters=dict(eqlib.MODEL_PARAMS[m]),
            pressure_range=(0.1, 2.0),
            loading_range=[0.0, 3.0],
            rmse=0.5,
        )
    )
    run(f"get_isotherm_model missing parameter {model}", lambda m=model: pgm.get_isotherm_model(m, parameters={'zzz': 1.0}))
    run(f"get_isotherm_model bad bound {model}", lambda m=model: pgm.get_isotherm_model(m.lower(), param_bounds={'zzz': (0, 1)}))
    run(
        f"get_isotherm_model extra parameter + unknown keyword {model}",
        lambda m=model: pgm.get_isotherm_model(m, parameters={**eqlib.MODEL_PARAMS[m], 'zzz': 9.0}, colour='red', name='ignored')
    )
for name in ('NoSuchModel', '', 'Langmuir ', 'base_model', 'IsothermBaseModel', '__init__', 'os'):
    run(f"get_isotherm_model unknown {name!r}", lambda n=name: pgm.get_isotherm_model(n, parameters={'K': 1}))
run("get_isotherm_model positional only", lambda: pgm.get_isotherm_model())
run("get_isotherm_model keyword", lambda: pgm.get_isotherm_model(model_name='toth', rmse=1))
run("get_isotherm_model two positionals", lambda: pgm.get_isotherm_model('toth', {'rmse': 1}))
run("class identity", lambda: repr([type(pgm.get_isotherm_model(m.lower())) is type(pgm.get_isotherm_model(m)) for m in pgm._MODELS]))
run("distinct instances", lambda: repr(pgm.get_isotherm_model('Henry') is not pgm.get_isotherm_model('Henry')))


# 3. model_from_dict
def from_dict(dct):
    before = canon(dct)
    try:
        model = pgm.model_from_dict(dct)
    except Exception as err:
        return f"RAISED {type(err).__name__}: {err} | before={before} after={canon(dct)}"
    pts = [0.05, 0.3, 1.0, 2.0]
    try:
        preds = [model.loading(p) for p in pts]
        back = [model.pressure(n) for n in preds[:3]]
    except Exception as err:
        preds, back = f"{type(err).__name__}: {err}", None
    return (
        f"{canon(model)}\n  before={before}\n  after={canon(dct)}\n  loading={canon(preds)}\n  pressure={canon(back)}\n"
        f"  to_dict={canon(model.to_dict())} params_is_copy={model.params is not dct.get('parameters')}"
    )


for model in pgm._MODELS:
    base = eqlib.make_model(model).to_dict()
    run(f"model_from_dict {model}", lambda b=base: from_dict(copy.deepcopy(b)))
    run(f"model_from_dict via json {model}", lambda b=base: from_dict(json.loads(json.dumps(b))))
    run(f"model_from_dict lower-case name {model}", lambda b=base: from_dict({**copy.deepcopy(b), 'name': b['name'].lower()}))
    run(f"model_from_dict name last {model}", lambda b=base: from_dict({**{k: v for k, v in b.items() if k != 'name'}, 'name': b['name']}))
run("model_from_dict no name", lambda: from_dict({'parameters': {'K': 1}}))
run("model_from_dict empty", lambda: from_dict({}))
run("model_from_dict only name", lambda: from_dict({'name': 'Henry'}))
run("model_from_dict unknown name", lambda: from_dict({'name': 'Nope', 'rmse': 1}))
run("model_from_dict name None", lambda: from_dict({'name': None, 'rmse': 1}))
run("model_from_dict name int", lambda: from_dict({'name': 3}))
run("model_from_dict model_name key", lambda: from_dict({'name': 'Henry', 'model_name': 'Langmuir'}))
run("model_from_dict int key", lambda: from_dict({'name': 'Henry', 1: 2}))
run("model_from_dict nan parameters", lambda: from_dict({'name': 'Langmuir', 'parameters': {'K': float('nan'), 'n_m': None}}))
run("model_from_dict parameters null", lambda: from_dict({'name': 'Langmuir', 'parameters': None, 'rmse': None}))
run("model_from_dict None", lambda: pgm.model_from_dict(None))
run("model_from_dict list", lambda: pgm.model_from_dict(['name']))


# 4. model isotherms through JSON (every model) and fitted with odd spellings
def json_roundtrip(factory):
    iso = factory()
    text = isotherm_to_json(iso)
    new = isotherm_from_json(text)
    return f"equal={new == iso} same_doc={isotherm_to_json(new) == text}\n{eqlib.canon_iso(new)}"


for label, factory in eqlib.iso_catalogue():
    if label.startswith('model'):
        run(f"json roundtrip | {label}", lambda f=factory: json_roundtrip(f))

P = numpy.array([0.05, 0.1, 0.2, 0.4, 0.8, 1.2, 2.0])
L = 5.0 * 3.0 * P / (1 + 3.0 * P)
for name in ('Langmuir', 'langmuir', 'LANGMUIR', 'henry', 'Toth', 'nope'):

    def fitted(n=name):
        iso = ModelIsotherm(pressure=P, loading=L, model=n, **eqlib.iso_kwargs())
        return f"{canon(iso.model.name)} {canon({k: round(v, 6) for k, v in iso.model.params.items()})} rmse={iso.model.rmse:.6g}"

    run(f"fit by name {name!r}", fitted)


# 5. the model lists are module level and can be extended by users
def with_lists(fn, models=None, guess=None, iast=None):
    def wrapped():
        saved = (list(pgm._MODELS), list(pgm._GUESS_MODELS), list(pgm._IAST_MODELS))
        try:
            if models is not None:
                pgm._MODELS[:] = models
            if guess is not None:
                pgm._GUESS_MODELS[:] = guess
            if iast is not None:
                pgm._IAST_MODELS[:] = iast
            return fn()
        finally:
            pgm._MODELS[:], pgm._GUESS_MODELS[:], pgm._IAST_MODELS[:] = saved

    return wrapped


def probe():
    out = []
    for name in ('Henry', 'henry', 'HENRY', 'Langmuir', 'bet', 'Custom', 'custom', ''):
        try:
            got = type(pgm.get_isotherm_model(name)).__name__
        except Exception as err:
            got = f"{type(err).__name__}: {err}"
        out.append(f"{name!r}: is_model={pgm.is_model(name)} guess={pgm.is_model_guess(name)} iast={pgm.is_model_iast(name)} get={got}")
    return "\n  " + "\n  ".join(out)


ALL = list(pgm._MODELS)
run("lists: empty", with_lists(probe, models=[], guess=[], iast=[]))
run("lists: only lower-case spelling", with_lists(probe, models=['henry', 'langmuir']))
run("lists: duplicate spelling after", with_lists(probe, models=ALL + ['henry', 'HENRY']))
run("lists: duplicate spelling before", with_lists(probe, models=['henry'] + ALL))
run("lists: custom without module", with_lists(probe, models=ALL + ['Custom'], guess=['Custom'], iast=['custom']))
run("lists: empty text entry", with_lists(probe, models=[''] + ALL))
run("lists: tuple instead of list", with_lists(probe, models=tuple(ALL)))
