"""Differential script for change 4: temperature unit canonicalisation helper; convert_temperature / temperature."""
import itertools

import numpy
import pandas
from _common import call
from _common import fmt
from _common import make_iso
from _common import setup_lists
from _common import step
from _common import take_log

import pygaps
from pygaps.core.baseisotherm import BaseIsotherm
from pygaps.units.converter_mode import c_temperature

mat, ads = setup_lists()


class Lowerable:
    """Truthy non-string with a .lower()"""
    def __init__(self, text):
        self.text = text

    def lower(self):
        return self.text

    def __repr__(self):
        return f"Lowerable({self.text!r})"


SPELLINGS = [
    "K", "°C", "C", "c", "degC", "Celsius", "celsius", "oC", "°c", "k", "kelvin", "Kelvin", "F", "°F", "R", "", None, 0, 5,
    5.0, b"C", b"K", ["K"], ("°C", ), Lowerable("c"), Lowerable("K"), Lowerable(["c"]), " K", "K ", "CK", "Rankine scale",
]

# ---- 1. c_temperature directly: all spelling pairs on a scalar, plus value kinds
for uf, ut in itertools.product(SPELLINGS, SPELLINGS):
    call(f"c_temperature {uf!r}->{ut!r}", c_temperature, 77.35, uf, ut)
for val in (0, 0.0, -273.15, 273.15, 1e6, numpy.array([0.0, 77.0, 300.0]), pandas.Series([1.5, 2.5]), None, "x", [1.0]):
    for uf, ut in (("K", "°C"), ("C", "K"), ("K", "K"), ("degC", "celsius"), ("K", "F")):
        call(f"c_temperature value {type(val).__name__}:{str(val).split()[0]!r} {uf}->{ut}", c_temperature, val, uf, ut)


# ---- 2. convert_temperature histories on a point isotherm; refused calls change nothing
def tstate(iso):
    try:
        kelvin = fmt(iso.temperature)
    except Exception as err:  # noqa: BLE001
        kelvin = f"!!{type(err).__name__}: {err}"
    return f"unit={iso.temperature_unit!r} _T={fmt(iso._temperature)} T={kelvin}"


for start_unit, start_temp in (("K", 77.35), ("°C", -195.8), ("K", 0.0), ("°C", 0.0), ("K", 300)):
    iso = make_iso(temperature=start_temp, temperature_unit=start_unit)
    print(f"== start {start_unit} {start_temp}: {tstate(iso)}")
    for k, ut in enumerate(SPELLINGS + ["K", "C", "C", "K", "K", "degC", "F", "°C", None, "K"]):
        step(iso, f"T{k}", "convert_temperature", ut, verbose=bool(k % 2))
    step(iso, "Tkw", "convert_temperature", unit_to="celsius")
    step(iso, "Tkw2", "convert_temperature", unit_to="K", verbose=True)
    step(iso, "Tpos", "convert_temperature", "C", True)
    call("Tnoarg", iso.convert_temperature)
    print("   ", tstate(iso))

# ---- 3. temperature-dependent conversions after temperature conversions (the kelvin property feeds them)
iso = make_iso()
seq = [
    ("convert_temperature", ("C", )), ("convert_pressure", ("relative", )), ("convert_temperature", ("K", )),
    ("convert_loading", ("volume_liquid", "cm3")), ("convert_temperature", ("degC", )), ("convert_pressure", ("absolute", "kPa")),
    ("convert_loading", ("fraction", )), ("convert_temperature", ("F", )), ("convert_material", ("volume", "cm3")),
    ("convert_temperature", ("celsius", )), ("convert_material", ("molar", "mmol")), ("convert_loading", ("volume_gas", "L")),
    ("convert_temperature", ("K", )), ("convert_pressure", ("relative%", )), ("convert_temperature", ("°C", )),
    ("convert_pressure", ("absolute", "bar")), ("convert_loading", ("molar", "mmol")), ("convert_material", ("mass", "g")),
    ("convert_temperature", ("K", )),
]
for k, (method, args) in enumerate(seq):
    step(iso, f"mix{k}", method, *args)

# ---- 4. isotherms with an invalid / odd temperature label set by hand: property and conversion
for label in ("K", "°C", "C", "F", None, "", 5, "k"):
    iso = make_iso()
    iso.temperature_unit = label
    call(f"label {label!r} temperature", lambda i=iso: i.temperature)
    step(iso, f"label {label!r} ->K", "convert_temperature", "K")
    step(iso, f"label {label!r} ->C", "convert_temperature", "C")
    call(f"label {label!r} repr", lambda i=iso: repr(i).split(">: ")[1])

# ---- 5. BaseIsotherm and ModelIsotherm share the method and the property
base = BaseIsotherm(
    material="TEST", adsorbate="TA", temperature="25", temperature_unit="°C", pressure_mode="absolute", pressure_unit="bar",
    loading_basis="molar", loading_unit="mmol", material_basis="mass", material_unit="g"
)
take_log()
for k, ut in enumerate(["K", "K", "C", "degC", "F", None, "K", "°C"]):
    call(f"base{k} convert_temperature({ut!r})", base.convert_temperature, ut, verbose=True)
    print("   ", tstate(base), "dict.T=", fmt(base.to_dict()["temperature"]), base.to_dict()["temperature_unit"])
call("base str", lambda: str(base).splitlines()[2])

model = pygaps.ModelIsotherm(
    pressure=[0.1, 0.2, 0.3, 0.4, 0.5], loading=[1.0, 2.0, 3.0, 4.0, 5.0], model="Henry", material="TEST", adsorbate="TA",
    temperature=77.0, temperature_unit="K", pressure_mode="absolute", pressure_unit="bar", loading_basis="molar",
    loading_unit="mmol", material_basis="mass", material_unit="g"
)
take_log()
for k, ut in enumerate(["C", "celsius", "K", "x", "°C"]):
    call(f"model{k} convert_temperature({ut!r})", model.convert_temperature, ut)
    print("   ", tstate(model))
    call(f"model{k} pressure relative", lambda: model.pressure(points=3, pressure_mode="relative"))
    call(f"model{k} loading mass", lambda: model.loading_at(0.3, loading_basis="mass", loading_unit="g"))

# ---- 6. constructor accepts / refuses temperature units as before
for label in ("K", "°C", "C", "degC", None, "F"):
    call(f"ctor {label!r}", lambda lab=label: tstate(make_iso(temperature=10, temperature_unit=lab)))
