"""Differential script for change 2: PointIsotherm.spreading_pressure_at restructuring."""
import warnings

import numpy as np

warnings.filterwarnings("ignore")

import pygaps  # noqa: E402
import pygaps.iast as pgi  # noqa: E402
from pygaps.core.pointisotherm import PointIsotherm  # noqa: E402


def fmt(v):
    if isinstance(v, (list, tuple)):
        return "[" + ", ".join(fmt(x) for x in v) + "]"
    if isinstance(v, np.ndarray):
        if v.ndim == 0:
            return "a0:" + fmt(v.item())
        return "arr[" + ", ".join(fmt(x) for x in v.tolist()) + "]"
    if isinstance(v, (float, np.floating)):
        return f"{type(v).__name__}:{float(v):.12g}"
    return repr(v)


def cache_state(iso):
    out = []
    for name in ("l_interpolator", "p_interpolator"):
        itp = getattr(iso, name)
        if itp is None:
            out.append(f"{name}=None")
        else:
            out.append(f"{name}=({itp.interp_branch!r},{itp.interp_kind!r},{fmt(itp.interp_fill)})")
    return " ".join(out)


def snapshot(iso):
    return (
        f"{iso.pressure_mode}/{iso.pressure_unit} {iso.loading_basis}/{iso.loading_unit} "
        f"{iso.material_basis}/{iso.material_unit} | " + " ".join(
            f"{c}:" + fmt(iso.data_raw[c].to_numpy(dtype=float)) for c in iso.data_raw.columns
        )
    )


COMMON = dict(
    material="TEST",
    adsorbate="N2",
    temperature=77.0,
    temperature_unit="K",
    pressure_mode="absolute",
    pressure_unit="bar",
    loading_basis="molar",
    loading_unit="mmol",
    material_basis="mass",
    material_unit="g",
)


def iso_hyst():
    p_ads = [0.01, 0.05, 0.1, 0.2, 0.35, 0.5, 0.7, 0.9]
    l_ads = [0.8, 1.9, 2.6, 3.3, 4.1, 4.6, 5.4, 6.5]
    p_des = [0.8, 0.6, 0.4, 0.3, 0.15]
    l_des = [6.3, 5.6, 4.9, 4.2, 3.1]
    return PointIsotherm(pressure=p_ads + p_des, loading=l_ads + l_des, **COMMON)


def iso_ads_only():
    p = np.linspace(0.02, 1.0, 25)
    return PointIsotherm(pressure=p, loading=8 * 3 * p / (1 + 3 * p), branch="ads", **COMMON)


def iso_single():
    return PointIsotherm(pressure=[0.5], loading=[2.0], branch="ads", **COMMON)


def iso_two():
    return PointIsotherm(pressure=[0.25, 0.5], loading=[1.0, 2.0], branch="ads", **COMMON)


def iso_zero_start():
    # first pressure point is zero: Henry constant division by zero
    return PointIsotherm(pressure=[0.0, 0.5, 1.0], loading=[0.0, 2.0, 3.0], branch="ads", **COMMON)


def iso_duplicate():
    # duplicated pressure point: zero-width segment
    return PointIsotherm(
        pressure=[0.1, 0.2, 0.2, 0.5], loading=[1.0, 2.0, 2.1, 3.0], branch="ads", **COMMON
    )


def iso_relative():
    kw = dict(COMMON)
    kw.update(pressure_mode="relative", pressure_unit=None)
    p = np.linspace(0.02, 0.95, 20)
    return PointIsotherm(pressure=p, loading=5 * p**0.5, branch="ads", **kw)


BUILDERS = dict(
    hyst=iso_hyst,
    ads=iso_ads_only,
    single=iso_single,
    two=iso_two,
    zero=iso_zero_start,
    dup=iso_duplicate,
    rel=iso_relative,
)

CASE = [0]


def run(iso, what, func, *args, **kwargs):
    CASE[0] += 1
    try:
        res = fmt(func(*args, **kwargs))
    except Exception as err:  # noqa: BLE001
        res = f"EXC {type(err).__name__}: {err}"
    print(f"[{CASE[0]:03d}] {what} -> {res}")
    if iso is not None:
        print(f"      cache: {cache_state(iso)}")


# (pressure, kwargs)
CALLS = [
    (0.001, {}),
    (0.005, {}),
    (0.01, {}),
    (0.02, {}),
    (0.03, {}),
    (0.1, {}),
    (0.2, {}),
    (0.25, {}),
    (0.33, {}),
    (0.5, {}),
    (0.75, {}),
    (0.9, {}),
    (0.95, {}),
    (1.0, {}),
    (1.5, {}),
    (0.0, {}),
    (-0.1, {}),
    (float("nan"), {}),
    (float("inf"), {}),
    (np.float64(0.33), {}),
    (np.array(0.33), {}),
    (np.array([0.2, 0.33]), {}),
    ([0.2, 0.33], {}),
    (1, {}),
    (1.5, dict(interp_fill=6.5)),
    (1.5, dict(interp_fill=0)),
    (1.5, dict(interp_fill=(0.0, 6.5))),
    (1.5, dict(interp_fill="extrapolate")),
    (0.33, dict(interp_fill=6.5)),
    (0.001, dict(interp_fill=6.5)),
    (0.33, dict(branch="des")),
    (0.7, dict(branch="des")),
    (0.85, dict(branch="des")),
    (0.1, dict(branch="des")),
    (0.85, dict(branch="des", interp_fill=1.0)),
    (0.33, dict(branch="all")),
    (0.33, dict(branch="xxx")),
    (33.0, dict(pressure_unit="kPa")),
    (150.0, dict(pressure_unit="kPa")),
    (150.0, dict(pressure_unit="kPa", interp_fill=6.5)),
    (0.2, dict(pressure_mode="relative")),
    (20.0, dict(pressure_mode="relative%")),
    (0.33, dict(pressure_mode="absolute")),
    (0.33, dict(pressure_mode="absolute", pressure_unit="bar")),
    (0.33, dict(pressure_unit="furlong")),
    (0.33, dict(loading_unit="mol")),
    (0.33, dict(loading_basis="mass", loading_unit="g")),
    (0.33, dict(loading_basis="mass")),
    (0.33, dict(material_unit="kg")),
    (0.33, dict(material_basis="volume", material_unit="cm3")),
    (0.33, dict(loading_unit="mol", material_unit="kg", pressure_unit="kPa")),
]

print("=== A: each call first on a fresh isotherm (all fixtures)")
for bname, build in BUILDERS.items():
    for press, kwargs in CALLS:
        iso = build()
        before = snapshot(iso)
        run(iso, f"{bname} spa({fmt(press)}, {kwargs})", iso.spreading_pressure_at, press, **kwargs)
        if snapshot(iso) != before:
            print("      !! isotherm changed:", snapshot(iso))

print("=== B: same calls after a history of other queries on the same object")
for bname in ("hyst", "ads", "rel"):
    for press, kwargs in CALLS:
        iso = BUILDERS[bname]()
        for warm in (
            lambda: iso.loading_at(0.4, interpolation_type="cubic", interp_fill=(1.0, 2.0)),
            lambda: iso.pressure_at(2.5, interp_fill="extrapolate"),
            lambda: iso.spreading_pressure_at(0.6, interp_fill=3.0),
            lambda: iso.spreading_pressure_at(0.3, branch="des"),
        ):
            try:
                warm()
            except Exception:  # noqa: BLE001
                pass
        before = snapshot(iso)
        run(iso, f"hist {bname} spa({fmt(press)}, {kwargs})", iso.spreading_pressure_at, press, **kwargs)
        if snapshot(iso) != before:
            print("      !! isotherm changed:", snapshot(iso))

print("=== C: one object, long sequence")
iso = iso_hyst()
for press, kwargs in CALLS + CALLS[::-1]:
    run(iso, f"seq spa({fmt(press)}, {kwargs})", iso.spreading_pressure_at, press, **kwargs)
print("final:", snapshot(iso))

print("=== D: dense scan, exact values")
iso = iso_ads_only()
for press in np.linspace(0.001, 1.0, 60):
    run(None, f"scan {press:.6f}", iso.spreading_pressure_at, press)
iso = iso_hyst()
for press in iso.pressure(branch="ads"):
    run(None, f"at data point {press!r}", iso.spreading_pressure_at, press)
for press in iso.pressure(branch="des"):
    run(None, f"des at data point {press!r}", iso.spreading_pressure_at, press, branch="des", interp_fill=0.5)

print("=== E: IAST on point isotherms (uses spreading_pressure_at)")
kw2 = dict(COMMON)
kw2.update(adsorbate="CO2", temperature=298.0)
kw1 = dict(COMMON)
kw1.update(adsorbate="CH4", temperature=298.0)
pp = np.linspace(0.05, 10, 30)
iso1 = PointIsotherm(pressure=pp, loading=4 * 0.4 * pp / (1 + 0.4 * pp), branch="ads", **kw1)
iso2 = PointIsotherm(pressure=pp, loading=6 * 1.5 * pp / (1 + 1.5 * pp), branch="ads", **kw2)
for frac, total in ((0.5, 1.0), (0.2, 2.0), (0.9, 4.0), (0.5, 9.0), (0.5, 30.0)):
    b1, b2 = snapshot(iso1), snapshot(iso2)
    run(None, f"iast_point_fraction {frac} {total}", pgi.iast_point_fraction, [iso1, iso2], [frac, 1 - frac], total)
    run(
        None, f"iast_point_fraction fill {frac} {total}", pgi.iast_point_fraction, [iso1, iso2], [frac, 1 - frac],
        total, warningoff=True, adsorbed_mole_fraction_guess=[0.3, 0.7]
    )
    if (snapshot(iso1), snapshot(iso2)) != (b1, b2):
        print("      !! isotherm changed")
print("caches:", cache_state(iso1), "|", cache_state(iso2))
