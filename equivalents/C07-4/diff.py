# ---- common header (duplicated in every diffN.py so each script is self-contained) ----
import math
import os
import sys
import tempfile
import warnings

warnings.simplefilter("ignore")

import numpy
import pandas

import pygaps
import pygaps.parsing as pgp
from pygaps.core.baseisotherm import BaseIsotherm
from pygaps.core.modelisotherm import ModelIsotherm
from pygaps.core.pointisotherm import PointIsotherm
from pygaps.modelling import model_from_dict

assert pygaps.__file__.startswith("/tmp/eq/C07/src"), pygaps.__file__

# the pygaps logger writes INFO+ to stdout -> warnings become part of the canonical text
# (the stream was bound at import; make sure it is *our* stdout)
import re
import shutil

TMP = "/tmp/eq/C07/_eq/work"  # fixed location so that paths in messages are reproducible
shutil.rmtree(TMP, ignore_errors=True)
os.makedirs(TMP)


def canon(v):
    """Canonical text of a value: floats to 12 significant digits, recursive containers."""
    if isinstance(v, (bool, numpy.bool_)):
        return f"bool:{bool(v)}"
    if isinstance(v, (int, numpy.integer)):
        return f"int:{int(v)}"
    if isinstance(v, (float, numpy.floating)):
        v = float(v)
        if math.isnan(v):
            return "float:nan"
        return f"float:{v:.12g}"
    if isinstance(v, str):
        return f"str:{v!r}"
    if v is None:
        return "None"
    if isinstance(v, dict):
        return "{" + ", ".join(f"{canon(k)}: {canon(x)}" for k, x in v.items()) + "}"
    if isinstance(v, (list, tuple)):
        o, c = ("[", "]") if isinstance(v, list) else ("(", ")")
        return o + ", ".join(canon(x) for x in v) + c
    if isinstance(v, numpy.ndarray):
        return "nd" + canon(v.tolist())
    return f"{type(v).__name__}:{v!r}"


def canon_exc(e):
    msg = re.sub(r"0x[0-9a-fA-F]+", "0xADDR", str(e))
    return f"EXC {type(e).__module__}.{type(e).__name__}: {msg}"


def describe(iso):
    """Canonical multi-line text of everything observable on an isotherm."""
    out = [f"  class={type(iso).__name__} iso_id={iso.iso_id}"]
    d = iso.to_dict()
    for k in d:  # insertion order is observable as well
        out.append(f"  meta {k!r} = {canon(d[k])}")
    out.append(f"  material={iso.material!r} props={canon(iso.material.properties)}")
    out.append(f"  adsorbate={str(iso.adsorbate)!r} temperature={canon(iso.temperature)}")
    out.append(f"  units={canon(iso.units)}")
    if isinstance(iso, PointIsotherm):
        df = iso.data_raw
        out.append(f"  keys p={iso.pressure_key!r} l={iso.loading_key!r} other={iso.other_keys!r}")
        out.append(f"  columns={list(df.columns)!r} dtypes={[str(t) for t in df.dtypes]!r}")
        for row in df.itertuples(index=True):
            out.append("  row " + " | ".join(canon(x) for x in row))
    if isinstance(iso, ModelIsotherm):
        m = iso.model
        out.append(f"  model name={m.name!r} rmse={canon(m.rmse)}")
        out.append(f"  model params={canon(dict(m.params))}")
        out.append(f"  model prange={canon(m.pressure_range)} lrange={canon(m.loading_range)}")
    return "\n".join(out)


def run(label, func):
    """Run func, print canonical result or exception."""
    print(f"### {label}")
    sys.stdout.flush()
    try:
        res = func()
    except BaseException as e:  # noqa
        print(canon_exc(e))
        c = e.__cause__
        while c is not None:
            print("  cause " + canon_exc(c))
            c = c.__cause__
        return None
    if isinstance(res, BaseIsotherm):
        print(describe(res))
    elif isinstance(res, str):
        print("  text:")
        for ln in res.split("\n"):
            print("  |" + ln.replace("\r", "<CR>"))
    else:
        print("  " + canon(res))
    return res


UNITS = {
    "default": dict(
        pressure_mode="absolute", pressure_unit="bar", material_basis="mass", material_unit="g",
        loading_basis="molar", loading_unit="mmol", temperature_unit="K"
    ),
    "relative": dict(
        pressure_mode="relative", pressure_unit=None, material_basis="mass", material_unit="kg",
        loading_basis="mass", loading_unit="g", temperature_unit="K"
    ),
    "relpct": dict(
        pressure_mode="relative%", pressure_unit=None, material_basis="volume", material_unit="cm3",
        loading_basis="volume_gas", loading_unit="cm3", temperature_unit="°C"
    ),
    "stp": dict(
        pressure_mode="absolute", pressure_unit="mbar", material_basis="mass", material_unit="mg",
        loading_basis="molar", loading_unit="cm3(STP)", temperature_unit="K"
    ),
    "percent": dict(
        pressure_mode="absolute", pressure_unit="kPa", material_basis="mass", material_unit="g",
        loading_basis="percent", loading_unit=None, temperature_unit="K"
    ),
    "fraction": dict(
        pressure_mode="absolute", pressure_unit="torr", material_basis="molar", material_unit="mol",
        loading_basis="fraction", loading_unit=None, temperature_unit="K"
    ),
    "volliq": dict(
        pressure_mode="absolute", pressure_unit="Pa", material_basis="molar", material_unit="mmol",
        loading_basis="volume_liquid", loading_unit="cm3", temperature_unit="K"
    ),
}

META = {
    "none": {},
    "plain": dict(user="TU", comment="a plain text", iso_type="isotherm"),
    "numbers": dict(n=3, zero=0, neg=-7, x=1.5, tiny=1.2345678901234e-09, big=6.02e+23, negf=-0.25),
    "bools": dict(flag=True, other=False),
    "mixed": dict(
        user="TU", machine="M 1", date="2020-01-02", n=42, ratio=0.333333333333, ok=True,
        material_batch="b-1", activation_temperature=150.0, material_mass=0.0123, instrument="inst"
    ),
    "nonecarry": dict(nothing=None, empty=""),
    "lists": dict(lst=[1, 2, 3], lstf=[1.5, 2.5], tup=(1, 2)),
    "tricky": dict(t1="True", t2="none", t3="12", t4="1e5", t5="[1 2]", t6="  padded  ", t7="inf", t8="nan"),
    "unicode": dict(user="Müller", note="²", half="½", arabic="٣"),
    "sepkey": {"a b": "x", "tab\tkey": 1},
    "comma": dict(comment="a, b"),
    "quote": dict(comment="it's", dq='say "hi"'),
    "semi": dict(comment="a;b", hash="#x", under="_x", dollar="$y"),
    "nestedmat": dict(_material_foo=1, sample_bar=2),
}

MATERIALS = {
    "str": "MAT-1",
    "props": dict(name="MAT-2", density=1.25, formula="C6H6", batch="b7", molar_mass=100),
    "propbool": dict(name="MAT 3", porous=True, note="hello world", count=0),
    "recursive": dict(name="MAT4", a_material_b=1, sample_x="y"),
}

POINTS = {
    "basic": dict(
        pressure=[0.1, 0.2, 0.3, 0.4, 0.5, 0.4, 0.3],
        loading=[1.0, 2.0, 3.0, 3.5, 4.0, 3.8, 3.1],
        branch=[0, 0, 0, 0, 0, 1, 1],
    ),
    "single": dict(pressure=[1.0], loading=[2.0], branch=[0]),
    "adsonly": dict(pressure=[1e-6, 1e-3, 1.0, 1e3], loading=[0.0, 1 / 3, 2 / 3, 123456.123456789123]),
    "desonly": dict(pressure=[3.0, 2.0, 1.0], loading=[3.0, 2.5, 1.0], branch=[1, 1, 1]),
    "precision": dict(
        pressure=[0.123456789012, 0.2000000049, 0.2000000051, 1e-9, 5e-9],
        loading=[1.000000005, 2.999999995, 1e-12, 7.0, 8.0],
        branch=[0, 0, 0, 1, 1],
    ),
    "ints": dict(pressure=[1, 2, 3, 2], loading=[10, 20, 30, 25], branch=[0, 0, 0, 1]),
}


def make_point(points="basic", units="default", meta="none", material="str", extra=None, **kw):
    p = POINTS[points]
    data = {"pressure": p["pressure"], "loading": p["loading"]}
    other = []
    n = len(p["pressure"])
    if extra:
        for col in extra:
            if col == "enthalpy":
                data[col] = [5.0 + 0.123456789123 * i for i in range(n)]
            elif col == "count":
                data[col] = list(range(n))
            elif col == "label":
                data[col] = [f"p{i}" for i in range(n)]
            elif col == "flag":
                data[col] = [bool(i % 2) for i in range(n)]
            other.append(col)
    args = dict(
        isotherm_data=pandas.DataFrame(data), pressure_key="pressure", loading_key="loading",
        material=MATERIALS[material] if isinstance(MATERIALS[material], str) else dict(MATERIALS[material]),
        adsorbate=kw.pop("adsorbate", "N2"), temperature=kw.pop("temperature", 77.0),
    )
    if other:
        args["other_keys"] = other
    args["branch"] = p.get("branch", "guess")
    args.update(UNITS[units])
    args.update(META[meta])
    args.update(kw)
    return PointIsotherm(**args)


MODELS = {
    "henry": dict(name="Henry", rmse=0.01, parameters={"K": 2.5}, pressure_range=[0.1, 10.0],
                  loading_range=[0.25, 25.0]),
    "langmuir": dict(name="Langmuir", rmse=1.234567890123e-05, parameters={"K": 12.3456789, "n_m": 4.2},
                     pressure_range=[1e-05, 1.0], loading_range=[0.0, 4.1]),
    "dslangmuir": dict(name="DSLangmuir", rmse=0, parameters={"n_m1": 1.0, "K1": 2.0, "n_m2": 3.0, "K2": 0.5},
                       pressure_range=[0, 100], loading_range=[0, 4]),
    "toth": dict(name="Toth", rmse=0.5, parameters={"n_m": 10.0, "K": 1.0, "t": 0.7},
                 pressure_range=[0.001, 5.5], loading_range=[0.01, 8.25]),
}


def make_model(model="henry", units="default", meta="none", material="str", **kw):
    md = {k: (dict(v) if isinstance(v, dict) else (list(v) if isinstance(v, list) else v))
          for k, v in MODELS[model].items()}
    args = dict(
        model=model_from_dict(md),
        material=MATERIALS[material] if isinstance(MATERIALS[material], str) else dict(MATERIALS[material]),
        adsorbate=kw.pop("adsorbate", "CO2"), temperature=kw.pop("temperature", 298.15),
    )
    args.update(UNITS[units])
    args.update(META[meta])
    args.update(kw)
    return ModelIsotherm(**args)


def make_base(units="default", meta="none", material="str", **kw):
    args = dict(
        material=MATERIALS[material] if isinstance(MATERIALS[material], str) else dict(MATERIALS[material]),
        adsorbate=kw.pop("adsorbate", "CH4"), temperature=kw.pop("temperature", 303),
    )
    args.update(UNITS[units])
    args.update(META[meta])
    args.update(kw)
    return BaseIsotherm(**args)


def all_isotherms():
    """(label, factory) of a broad family of isotherms."""
    cases = []
    # point isotherms: every unit configuration x several data shapes
    for u in UNITS:
        cases.append((f"point/basic/{u}", lambda u=u: make_point("basic", u, "plain")))
    for pts in POINTS:
        cases.append((f"point/{pts}/default", lambda pts=pts: make_point(pts, "default", "numbers")))
    for m in META:
        cases.append((f"point/basic/meta-{m}", lambda m=m: make_point("basic", "default", m)))
    for mat in MATERIALS:
        cases.append((f"point/basic/mat-{mat}", lambda mat=mat: make_point("basic", "relative", "mixed", mat)))
    cases.append(("point/extra-enthalpy", lambda: make_point("basic", "default", "plain", extra=["enthalpy"])))
    cases.append(("point/extra-multi", lambda: make_point("precision", "percent", "bools", "props",
                                                          extra=["enthalpy", "count", "label"])))
    cases.append(("point/extra-flag", lambda: make_point("ints", "fraction", "none", extra=["flag", "count"])))
    cases.append(("point/otheradsorbate", lambda: make_point("adsonly", "volliq", "mixed", adsorbate="carbon dioxide",
                                                             temperature=0)))
    cases.append(("point/unknownadsorbate", lambda: make_point("single", "default", "none", adsorbate="mystery gas",
                                                               temperature=1e-3)))
    # model isotherms
    for mod in MODELS:
        cases.append((f"model/{mod}/default", lambda mod=mod: make_model(mod, "default", "plain")))
    for u in UNITS:
        cases.append((f"model/langmuir/{u}", lambda u=u: make_model("langmuir", u, "numbers", "props")))
    for m in META:
        cases.append((f"model/henry/meta-{m}", lambda m=m: make_model("henry", "default", m)))
    # base isotherms
    for u in UNITS:
        cases.append((f"base/{u}", lambda u=u: make_base(u, "mixed")))
    for m in META:
        cases.append((f"base/meta-{m}", lambda m=m: make_base("default", m, "propbool")))
    for mat in MATERIALS:
        cases.append((f"base/mat-{mat}", lambda mat=mat: make_base("relpct", "bools", mat)))
    return cases


def quiet(factory):
    """Build an isotherm with the pygaps logger silenced (constructor noise is not under test)."""
    import logging
    lg = logging.getLogger("pygaps")
    old = lg.level
    lg.setLevel(logging.CRITICAL)
    try:
        return factory()
    finally:
        lg.setLevel(old)

# ---- end of common header ----

# ===== diff4: AIF writer (isotherm_to_aif), checked through text output and re-import =====
from pygaps.parsing.aif import isotherm_from_aif, isotherm_to_aif


def show_file(path):
    with open(path, encoding="utf-8") as f:
        return f.read()


# 1. every isotherm: string target, file target, re-import from the file
for n, (label, factory) in enumerate(all_isotherms()):
    def to_string(factory=factory):
        return isotherm_to_aif(quiet(factory))

    text = run(f"aif-string {label}", to_string)

    def to_file(factory=factory, n=n, text=text):
        path = os.path.join(TMP, f"iso{n}.aif")
        res = isotherm_to_aif(quiet(factory), path)
        print(f"  writer returned {res!r}; exists={os.path.exists(path)}")
        content = show_file(path)
        print(f"  file==string: {content == text}")
        return content

    run(f"aif-file {label}", to_file)

    def back(factory=factory, n=n):
        iso = quiet(factory)
        new = isotherm_from_aif(os.path.join(TMP, f"iso{n}.aif"))
        print(f"  equal={new == iso} dict_equal={new.to_dict() == iso.to_dict()}")
        return new

    run(f"aif-reimport {label}", back)

    def back_string(text=text):
        return isotherm_from_aif(text)

    if text is not None:
        run(f"aif-reimport-string {label}", back_string)

# 2. path handling of the writer (extension is always replaced by .aif)
iso = quiet(lambda: make_model("toth", "relative", "mixed", "props"))
for name in ("plain", "with.txt", "two.dots.dat", "already.aif", ".hidden", "sub/none.aif"):
    def target(name=name):
        path = os.path.join(TMP, name)
        res = isotherm_to_aif(iso, path)
        print(f"  returned {res!r}")
        return sorted(os.listdir(TMP))[-8:]

    run(f"path {name}", target)
run("path empty string -> text", lambda: isotherm_to_aif(iso, ""))
run("path None -> text", lambda: isotherm_to_aif(iso, None))

# 3. values and keys that are awkward for the CIF container
AWK = {
    "newline": dict(comment="two\nlines"),
    "quote": dict(comment="it's"),
    "quote-space": dict(comment="it' s"),
    "dquote": dict(comment='say "hi"'),
    "empty": dict(comment=""),
    "none": dict(comment=None),
    "space-key": {"my key": 1},
    "two-space-key": {"a b c": "x y"},
    "tab-key": {"a\tb": 1},
    "unicode": dict(user="Müller", note="°C"),
    "list": dict(lst=[1, 2, 3]),
    "dict": dict(dct={"a": 1}),
    "bools": dict(a=True, b=False),
    "standard-keys": dict(user="me", date="today", instrument="i1", material_mass=0.5, material_mass_unit="mg",
                          activation_temperature=120, material_batch="bb"),
    "standard-keys-odd": dict(user=None, date="", instrument="it's", material_mass="heavy"),
    "model-like-keys": dict(model_name="fake", data0="zzz"),
    "pygaps-prefixed": dict(_pygaps_x=1, _exptl_x=2),
    "hash": dict(comment="#notacomment"),
    "long": dict(comment="x" * 3000),
}
for name, meta in AWK.items():
    for kind, maker in (
        ("point", lambda meta=meta: make_point("basic", "default", "none", **meta)),
        ("model", lambda meta=meta: make_model("henry", "default", "none", **meta)),
        ("base", lambda meta=meta: make_base("default", "none", **meta)),
    ):
        def write(maker=maker):
            return isotherm_to_aif(quiet(maker))

        text = run(f"awkward {name} {kind}", write)
        if text is not None and kind != "point":
            def reread(text=text, name=name, kind=kind):
                path = os.path.join(TMP, f"awk-{name}-{kind}.aif")
                with open(path, "w", encoding="utf-8") as f:
                    f.write(text)
                return isotherm_from_aif(path)

            run(f"awkward-reimport {name} {kind}", reread)

# 4. awkward names for material / adsorbate, temperatures, extra data columns
run("material quote", lambda: isotherm_to_aif(quiet(lambda: make_base(material="it's")) if False else quiet(
    lambda: BaseIsotherm(material="it's", adsorbate="N2", temperature=77, **UNITS["default"]))))
run("material newline", lambda: isotherm_to_aif(quiet(
    lambda: BaseIsotherm(material="a\nb", adsorbate="N2", temperature=77, **UNITS["default"]))))
run("adsorbate unknown", lambda: isotherm_to_aif(quiet(
    lambda: BaseIsotherm(material="m", adsorbate="my gas", temperature=77, **UNITS["default"]))))
run("temperature int", lambda: isotherm_to_aif(quiet(
    lambda: BaseIsotherm(material="m", adsorbate="N2", temperature=300, **UNITS["relpct"]))))
run("temperature small", lambda: isotherm_to_aif(quiet(
    lambda: BaseIsotherm(material="m", adsorbate="N2", temperature=1e-07, **UNITS["default"]))))
for extra in (["enthalpy"], ["label"], ["flag"], ["count", "label", "enthalpy"]):
    for pts in ("basic", "single", "desonly", "precision"):
        run(f"extra {extra} {pts}", lambda: isotherm_to_aif(quiet(
            lambda: make_point(pts, "stp", "numbers", "props", extra=extra))))

# 5. not an isotherm
run("arg None", lambda: isotherm_to_aif(None))
run("arg dict", lambda: isotherm_to_aif({"material": "x"}))
