"""Differential script for change 3 (c_pressure): prints canonical text of results."""
import itertools
import warnings

import numpy as np
import pandas as pd

warnings.simplefilter("ignore")

import pygaps
from pygaps.units.converter_mode import _PRESSURE_MODE
from pygaps.units.converter_unit import _PRESSURE_UNITS
from pygaps.units.converter_mode import c_pressure


def fmt(v):
    if isinstance(v, pd.Series):
        return "Series[" + ",".join(fmt(x) for x in v.tolist()) + "]idx" + repr(list(v.index))
    if isinstance(v, np.ndarray):
        return f"ndarray{v.shape}{v.dtype}[" + ",".join(fmt(x) for x in v.ravel().tolist()) + "]"
    if isinstance(v, (list, tuple)):
        return type(v).__name__ + "[" + ",".join(fmt(x) for x in v) + "]"
    if isinstance(v, (float, np.floating)):
        return type(v).__name__ + ":" + repr(float(v))
    return type(v).__name__ + ":" + repr(v)


def run(label, *args, **kwargs):
    try:
        res = c_pressure(*args, **kwargs)
        print(label, "->", fmt(res))
    except BaseException as e:  # noqa
        print(label, "-> EXC", type(e).__name__, str(e))


class Recorder:
    """Adsorbate-like object which logs the calls made to it."""
    def __init__(self, ret=101325.0):
        self.log = []
        self.ret = ret

    def saturation_pressure(self, *args, **kwargs):
        self.log.append(("saturation_pressure", args, tuple(sorted(kwargs.items()))))
        return self.ret


reps = [("absolute", u) for u in _PRESSURE_UNITS] + [("relative", None), ("relative%", None)]
assert len(reps) == 10

n2 = pygaps.Adsorbate.find("nitrogen")
co2 = pygaps.Adsorbate.find("carbon dioxide")
water = pygaps.Adsorbate.find("water")
custom = pygaps.Adsorbate("custom_fluid", saturation_pressure=51234.5)
custom_int = pygaps.Adsorbate("custom_int", saturation_pressure=100000)
noprop = pygaps.Adsorbate("noprop_fluid")

values = [
    1, 1.0, 0.0, -2.5, 3.3e-30, float("inf"), float("nan"), np.float64(12.125), 100, 7,
    np.array([0.0, 1.0, 2.5, -4.0, 1e-12]), np.array([[1, 2], [3, 4]]),
    pd.Series([0.1, 0.2, 5.0], index=[3, 1, 2]), np.array([]), np.array([50, 100]),
]

# 1. every ordered pair of representations, several fluids/temperatures
for ads, temp in [(n2, 77.344), (n2, 110.0), (co2, 250.0), (co2, 303.15), (water, 298.15), (water, 373.0)]:
    for (mf, uf), (mt, ut) in itertools.product(reps, reps):
        run(f"P[{ads.name}@{temp}] {mf}/{uf}->{mt}/{ut}", 0.4, mf, mt, uf, ut, adsorbate=ads, temp=temp)

# 2. value types
sel = [("absolute", "bar"), ("absolute", "torr"), ("relative", None), ("relative%", None)]
for (mf, uf), (mt, ut) in itertools.product(sel, sel):
    for i, val in enumerate(values):
        run(f"V {mf}/{uf}->{mt}/{ut} v{i}", val, mf, mt, uf, ut, adsorbate=n2, temp=77.344)

# 3. units given although the mode is relative (ignored?) / unit_to missing
for (mf, mt) in itertools.product(_PRESSURE_MODE, repeat=2):
    for uf, ut in itertools.product([None, "", "bar", "Pa", "psi", 0], repeat=2):
        run(f"X {mf}/{uf!r}->{mt}/{ut!r}", 2.0, mf, mt, uf, ut, adsorbate=n2, temp=77.344)
        run(f"X0 {mf}/{uf!r}->{mt}/{ut!r}", 2.0, mf, mt, uf, ut)

# 4. temperature problems
for temp in [None, 0, 0.0, -5.0, 20.0, 126.0, 126.5, 500.0, "77", np.float64(77.344), np.array([77.0]),
             np.array([77.0, 78.0]), np.array([]), True]:
    for (mf, uf), (mt, ut) in itertools.product(sel, sel):
        run(f"T[{temp!r}] {mf}/{uf}->{mt}/{ut}", 1.0, mf, mt, uf, ut, adsorbate=n2, temp=temp)
        run(f"Tn[{temp!r}] {mf}/{uf}->{mt}/{ut}", 1.0, mf, mt, uf, ut, adsorbate=None, temp=temp)

# 5. dictionary-only / missing / wrong adsorbates
for name, ads in [("custom", custom), ("custom_int", custom_int), ("noprop", noprop), ("None", None),
                  ("str", "nitrogen")]:
    for (mf, uf), (mt, ut) in itertools.product(reps, reps):
        run(f"A[{name}] {mf}/{uf}->{mt}/{ut}", 3, mf, mt, uf, ut, adsorbate=ads, temp=300)

# 6. calls made to the adsorbate
for ret in (101325.0, 100, 0.0):
    for (mf, uf), (mt, ut) in itertools.product(reps, reps):
        rec = Recorder(ret)
        run(f"R[{ret!r}] {mf}/{uf}->{mt}/{ut}", 3.0, mf, mt, uf, ut, adsorbate=rec, temp=91.5)
        print("   calls", rec.log)

# 7. bad / missing modes
bad_modes = [None, "", "Absolute", "relative %", "percent", "mass", 0]
for mf, mt in itertools.product(bad_modes + list(_PRESSURE_MODE), repeat=2):
    if mf in _PRESSURE_MODE and mt in _PRESSURE_MODE:
        continue
    for uf, ut in [("bar", "bar"), (None, None), ("bar", "zzz")]:
        run(f"B {mf!r}/{uf!r}->{mt!r}/{ut!r}", 1.0, mf, mt, uf, ut, adsorbate=n2, temp=77.344)

# 8. positional / keyword call variants
run("K1", value=4.0, mode_from="absolute", mode_to="relative", unit_from="kPa", unit_to=None, adsorbate=n2, temp=77.344)
run("K2", 4.0, "absolute", "relative", "kPa", None, n2, 77.344)
run("K3", 4.0, "absolute", "absolute", "kPa", "Pa")
run("K4", 4.0, "absolute", "absolute", "kPa", None)
run("K5", "abc", "relative", "relative%", None, None)
run("K6", None, "relative", "relative%", None, None)
run("K7", [1, 2], "relative", "relative%", None, None)
run("K8", [1, 2], "relative%", "relative", None, None)
run("K9", [1, 2], "absolute", "relative", "bar", None, n2, 77.344)

# 9. there-and-back / via intermediate
for (mf, uf), (mt, ut) in itertools.product(reps, reps):
    there = c_pressure(0.37, mf, mt, uf, ut, adsorbate=co2, temp=260.0)
    back = c_pressure(there, mt, mf, ut, uf, adsorbate=co2, temp=260.0)
    via = c_pressure(c_pressure(0.37, mf, "relative", uf, None, co2, 260.0), "relative", mt, None, ut, co2, 260.0)
    print(f"RT {mf}/{uf}->{mt}/{ut}", fmt(there), fmt(back), fmt(via))
