"""Differential script for change 1: PointIsotherm.convert_pressure (and convert() driving it)."""
import itertools

from common import call
from common import case
from common import dump
from common import make
from common import revalidate
from common import warm
from common import MATERIAL_BARE

n = 0

STARTS = [
    dict(pm='absolute', pu='bar'),
    dict(pm='absolute', pu='Pa'),
    dict(pm='absolute', pu='torr'),
    dict(pm='relative', pu=None),
    dict(pm='relative%', pu='bar'),  # unit is dropped by the constructor
]

TARGETS = [
    dict(),
    dict(mode_to=None, unit_to=None),
    dict(mode_to='absolute'),
    dict(mode_to='absolute', unit_to='bar'),
    dict(mode_to='absolute', unit_to='kPa'),
    dict(mode_to='absolute', unit_to='mmHg'),
    dict(unit_to='kPa'),
    dict(unit_to='bar'),
    dict(unit_to='nounit'),
    dict(mode_to='relative'),
    dict(mode_to='relative', unit_to='bar'),
    dict(mode_to='relative', unit_to='nounit'),
    dict(mode_to='relative%'),
    dict(mode_to='relative%', unit_to='Pa'),
    dict(mode_to='nomode'),
    dict(mode_to='nomode', unit_to='bar'),
    dict(mode_to='', unit_to=''),
    dict(mode_to='', unit_to='atm'),
    dict(mode_to='absolute', unit_to='nounit'),
    dict(mode_to='absolute', unit_to=''),
]

# 1. every start x every target, verbose on and off, interpolators warmed
for start, target, verbose in itertools.product(STARTS, TARGETS, (False, True)):
    n += 1
    case(n, f"start={start} target={target} verbose={verbose}")
    iso = make(**start)
    warm(iso)
    call(iso, 'convert_pressure', verbose=verbose, **target)
    dump(iso)
    revalidate(iso)

# 2. positional calls
for args in [('relative', ), ('absolute', 'kPa'), (None, 'Pa'), ('relative%', None, True)]:
    n += 1
    case(n, f"positional {args}")
    iso = make()
    call(iso, 'convert_pressure', *args)
    dump(iso)

# 3. labels set by hand before the call (unit kept while relative etc.)
for mode, unit, target in [
    ('relative', 'bar', dict(mode_to='absolute', unit_to='bar')),
    ('relative', 'bar', dict(mode_to='absolute', unit_to='kPa')),
    ('relative', 'bar', dict(mode_to='absolute')),
    ('relative', 'bar', dict(mode_to='relative%')),
    ('relative', 'bar', dict(unit_to='kPa')),
    ('relative', 'bar', dict(unit_to='bar')),
    ('relative%', 'kPa', dict(mode_to='relative')),
    ('relative%', 'kPa', dict(mode_to='relative', unit_to='kPa')),
    ('absolute', None, dict(unit_to='bar')),
    ('absolute', None, dict(mode_to='relative')),
    ('absolute', None, dict()),
    ('absolute', 'nounit', dict(unit_to='bar')),
    ('absolute', 'nounit', dict(mode_to='relative')),
    ('nomode', 'bar', dict(mode_to='absolute', unit_to='bar')),
    ('nomode', 'bar', dict()),
    ('nomode', None, dict(unit_to='bar')),
]:
    n += 1
    case(n, f"hand-set labels mode={mode!r} unit={unit!r} target={target}")
    iso = make(pm='relative')
    iso.pressure_mode = mode
    iso.pressure_unit = unit
    warm(iso)
    call(iso, 'convert_pressure', verbose=True, **target)
    dump(iso)
    revalidate(iso)

# 4. refused conversions: supercritical / no backend / no temperature
for kw, target in [
    (dict(temp=300), dict(mode_to='relative')),
    (dict(temp=300), dict(mode_to='relative%')),
    (dict(temp=300), dict(unit_to='kPa')),
    (dict(temp=300, pm='relative'), dict(mode_to='absolute', unit_to='bar')),
    (dict(temp=300, pm='relative'), dict(mode_to='relative%')),
    (dict(ads='notAGas'), dict(mode_to='relative')),
    (dict(ads='notAGas'), dict(unit_to='Pa')),
    (dict(ads='notAGas', pm='relative%'), dict(mode_to='relative')),
    (dict(ads='notAGas', pm='relative%'), dict(mode_to='absolute', unit_to='Pa')),
    (dict(temp=0), dict(mode_to='relative')),
    (dict(temp=0, pm='relative'), dict(mode_to='relative%')),
    (dict(temp=-196, tu='°C'), dict(mode_to='relative')),
    (dict(temp=-196, tu='°C', pm='relative%'), dict(mode_to='absolute', unit_to='torr')),
    (dict(mat=MATERIAL_BARE), dict(mode_to='relative')),
]:
    n += 1
    case(n, f"refusal/edge make={ {k: str(v) for k, v in kw.items()} } target={target}")
    iso = make(**kw)
    warm(iso)
    call(iso, 'convert_pressure', verbose=True, **target)
    dump(iso)
    revalidate(iso)

# 4b. the kelvin temperature itself cannot be produced (hand-set temperature unit)
for target in [dict(mode_to='relative'), dict(unit_to='kPa'), dict(), dict(mode_to='absolute', unit_to='bar')]:
    n += 1
    case(n, f"hand-set temperature unit 'F', target={target}")
    iso = make()
    iso.temperature_unit = 'F'
    call(iso, 'convert_pressure', verbose=True, **target)
    dump(iso)

# 5. histories: chains of conversions, dump after each step, then go back
CHAINS = [
    [dict(unit_to='kPa'), dict(mode_to='relative'), dict(mode_to='relative%'), dict(mode_to='absolute', unit_to='torr'),
     dict(unit_to='bar')],
    [dict(mode_to='relative%'), dict(), dict(mode_to='relative%'), dict(mode_to='relative'),
     dict(mode_to='absolute', unit_to='bar')],
    [dict(mode_to='relative'), dict(mode_to='absolute'), dict(unit_to='nounit'), dict(mode_to='absolute', unit_to='atm'),
     dict(mode_to='nomode'), dict(unit_to='bar')],
    [dict(unit_to='Pa'), dict(unit_to='MPa'), dict(unit_to='mbar'), dict(unit_to='atm'), dict(unit_to='mmHg'),
     dict(unit_to='torr'), dict(unit_to='bar')],
]
for chain in CHAINS:
    n += 1
    case(n, f"chain {chain}")
    iso = make()
    for i, step in enumerate(chain):
        warm(iso)
        call(iso, 'convert_pressure', **step)
        dump(iso, tag=f"step{i}")
    revalidate(iso)

# 6. convert() driving convert_pressure together with the other steps
for kw in [
    dict(pressure_mode='relative'),
    dict(pressure_unit='kPa'),
    dict(pressure_mode='relative%', loading_basis='mass', loading_unit='g'),
    dict(pressure_mode='absolute', pressure_unit='Pa', material_basis='volume', material_unit='cm3'),
    dict(pressure_mode='nomode', loading_unit='mol'),
    dict(pressure_unit='nounit', loading_unit='mol'),
    dict(pressure_mode='relative', material_unit='nounit', loading_unit='mol'),
    dict(pressure_mode='relative', material_unit='kg', loading_basis='nobasis'),
    dict(),
    dict(verbose=True, pressure_mode='relative', pressure_unit='bar'),
]:
    n += 1
    case(n, f"convert({kw})")
    iso = make()
    warm(iso)
    call(iso, 'convert', **kw)
    dump(iso)
    revalidate(iso)

print(f"total cases: {n}")
