"""Shared helpers for the differential scripts diffN.py (canonical text + log capture)."""
import logging
import sys
import warnings
from pathlib import Path

import numpy

warnings.filterwarnings("ignore")
numpy.seterr(all="ignore")

ROOT = Path(__file__).resolve().parent.parent
DATA = ROOT / "docs" / "examples" / "data"
DATA_N77 = DATA / "characterisation"
DATA_ISOSTERIC = DATA / "isosteric"

import pygaps  # noqa: E402
import pygaps.parsing.json as pgpj  # noqa: E402

assert str(ROOT / "src") in str(Path(pygaps.__file__).resolve()), pygaps.__file__

# silence the console handler, capture records instead
_plog = logging.getLogger("pygaps")
for _h in list(_plog.handlers):
    _plog.removeHandler(_h)


class _Capture(logging.Handler):
    def __init__(self):
        super().__init__(level=logging.DEBUG)
        self.records = []

    def emit(self, record):
        self.records.append(f"{record.levelname}:{record.getMessage()}")


CAPTURE = _Capture()
_plog.addHandler(CAPTURE)


def canon(obj):
    """Canonical text of a result (12 significant digits for floats)."""
    if obj is None or isinstance(obj, (bool, numpy.bool_)):
        return repr(bool(obj)) if obj is not None else "None"
    if isinstance(obj, (int, numpy.integer)):
        return f"i{int(obj)}"
    if isinstance(obj, (float, numpy.floating)):
        return f"{float(obj):.12g}"
    if isinstance(obj, str):
        return repr(obj)
    if isinstance(obj, numpy.ndarray):
        if obj.ndim == 0:
            return "a0(" + canon(obj.item()) + ")"
        return f"arr{list(obj.shape)}[" + ", ".join(canon(x) for x in obj.ravel().tolist()) + "]"
    if isinstance(obj, dict):
        return "{" + ", ".join(f"{k!r}: {canon(obj[k])}" for k in sorted(obj, key=str)) + "}"
    if isinstance(obj, tuple):
        return "(" + ", ".join(canon(x) for x in obj) + ")"
    if isinstance(obj, list):
        return "[" + ", ".join(canon(x) for x in obj) + "]"
    if isinstance(obj, slice):
        return repr(obj)
    return f"<{type(obj).__name__}>"


def typesig(obj):
    """Type structure of a result (to detect int/numpy.int64/list/array changes)."""
    if isinstance(obj, dict):
        return "{" + ", ".join(f"{k!r}: {typesig(obj[k])}" for k in sorted(obj, key=str)) + "}"
    if isinstance(obj, (tuple, list)):
        inner = [typesig(x) for x in obj]
        if len(set(inner)) == 1 and len(inner) > 3:
            inner = [inner[0] + f"*{len(inner)}"]
        return type(obj).__name__ + "(" + ", ".join(inner) + ")"
    if isinstance(obj, numpy.ndarray):
        return f"ndarray[{obj.dtype}]"
    return type(obj).__name__


def run(label, func, *args, **kwargs):
    """Run a case; print label, result (or exception) and captured log records."""
    CAPTURE.records.clear()
    try:
        res = func(*args, **kwargs)
        print(f"## {label}\n  -> {canon(res)}\n  :: {typesig(res)}")
    except Exception as err:  # noqa
        print(f"## {label}\n  !! {type(err).__name__}: {err}")
    for rec in CAPTURE.records:
        print(f"  log {rec}")
    sys.stdout.flush()


def load_n77(name):
    return pgpj.isotherm_from_json(DATA_N77 / f"{name} N2 77.355.json")


N77_NAMES = ["MCM-41", "NaY", "SiO2", "Takeda 5A", "UiO-66(Zr)"]


def load_isosteric():
    return [
        pgpj.isotherm_from_json(DATA_ISOSTERIC / f"BAX 1500 - Isosteric Heat - {t}.json")
        for t in (298, 323, 348)
    ]
