"""Differential script for change 4: PointIsotherm.from_modelisotherm and split_ads_data."""
import logging
import warnings

import numpy
import pandas

warnings.simplefilter("ignore")

import pygaps  # noqa: E402
from pygaps.core.modelisotherm import ModelIsotherm  # noqa: E402
from pygaps.core.pointisotherm import PointIsotherm  # noqa: E402
from pygaps.modelling import get_isotherm_model  # noqa: E402
from pygaps.utilities.math_utilities import split_ads_data  # noqa: E402

LOG = []


class _H(logging.Handler):
    def emit(self, record):
        LOG.append(f"{record.levelname} {record.getMessage()}")


pygaps.logger.addHandler(_H())
pygaps.logger.setLevel(logging.DEBUG)


def fmt(v):
    if isinstance(v, dict):
        return "{" + ", ".join(f"{k!r}: {fmt(x)}" for k, x in v.items()) + "}"
    if isinstance(v, (list, tuple)):
        return "[" + ", ".join(fmt(x) for x in v) + "]"
    if isinstance(v, numpy.ndarray):
        return f"arr<{v.dtype}>[" + ", ".join(fmt(x) for x in v.ravel().tolist()) + "]"
    if isinstance(v, (float, numpy.floating)):
        return f"{type(v).__name__}:{float(v):.12g}"
    if isinstance(v, (int, numpy.integer)) and not isinstance(v, bool):
        return f"{type(v).__name__}:{int(v)}"
    return repr(v)


def case(label, fn):
    del LOG[:]
    try:
        res = fn()
        print(f"[{label}] OK {fmt(res)}")
    except Exception as err:  # noqa: BLE001
        print(f"[{label}] EXC {type(err).__name__}: {err}")
    for msg in LOG:
        print(f"[{label}] LOG {msg}")


# ---------------------------------------------------------------------------
# A. split_ads_data
# ---------------------------------------------------------------------------
def split(pressures, index=None, key="p", extra=True):
    df = pandas.DataFrame({key: pressures})
    if extra:
        df["n"] = numpy.arange(len(df), dtype=float)
    if index is not None:
        df.index = index
    before = df.to_csv()
    out = split_ads_data(df, key)
    return {"out": out, "type": type(out).__name__, "untouched": before == df.to_csv()}


SERIES = {
    "increasing": [0.1, 0.2, 0.3, 0.5, 0.9],
    "up-down": [0.1, 0.4, 0.9, 0.5, 0.2],
    "peak-second": [0.1, 0.9, 0.5, 0.2, 0.1],
    "peak-first": [0.9, 0.5, 0.3, 0.2, 0.1],
    "peak-before-last": [0.1, 0.2, 0.3, 0.9, 0.5],
    "tie-max": [0.1, 0.9, 0.9, 0.5],
    "tie-max-end": [0.1, 0.5, 0.9, 0.9],
    "tie-first-last": [0.9, 0.5, 0.9],
    "constant": [0.5, 0.5, 0.5],
    "single": [0.5],
    "two-up": [0.1, 0.2],
    "two-down": [0.2, 0.1],
    "two-equal": [0.2, 0.2],
    "empty": [],
    "nan-mid": [0.1, numpy.nan, 0.9, 0.5],
    "nan-first": [numpy.nan, 0.1, 0.9, 0.5],
    "nan-last": [0.1, 0.9, 0.5, numpy.nan],
    "all-nan": [numpy.nan, numpy.nan],
    "inf": [0.1, numpy.inf, 0.5],
    "negative": [-3.0, -1.0, -2.0],
    "ints": [1, 5, 9, 4, 2],
    "zigzag": [0.1, 0.5, 0.3, 0.9, 0.2, 0.95, 0.1],
    "long": list(numpy.r_[numpy.linspace(0, 1, 40), numpy.linspace(0.98, 0.1, 25)]),
}
for name, values in SERIES.items():
    case(f"split-{name}", lambda values=values: split(values))
    n = len(values)
    case(f"split-{name}-shifted", lambda values=values, n=n: split(values, index=numpy.arange(n) + 10))
    case(f"split-{name}-reversed", lambda values=values, n=n: split(values, index=numpy.arange(n)[::-1]))
    case(f"split-{name}-labels", lambda values=values, n=n: split(values, index=[f"r{i}" for i in range(n)]))
case("split-dup-index-peak-unique", lambda: split([0.1, 0.4, 0.9, 0.5, 0.2], index=[0, 1, 2, 0, 1]))
case("split-dup-index-peak-dup", lambda: split([0.1, 0.4, 0.9, 0.5, 0.2], index=[0, 1, 2, 2, 1]))
case("split-dup-index-peak-dup-apart", lambda: split([0.1, 0.4, 0.9, 0.5, 0.2], index=[2, 1, 2, 0, 3]))
case("split-dup-index-all-same", lambda: split([0.1, 0.4, 0.9], index=[7, 7, 7]))
case("split-other-key", lambda: split([0.1, 0.9, 0.5], key="pressure"))
case("split-no-extra", lambda: split([0.1, 0.9, 0.5], extra=False))
case("split-wrong-key", lambda: split_ads_data(pandas.DataFrame({"p": [1.0, 2.0]}), "q"))
case("split-str-col", lambda: split(["a", "c", "b"]))
case("split-multiindex", lambda: split([0.1, 0.9, 0.5], index=pandas.MultiIndex.from_tuples([(0, 0), (0, 1), (1, 0)])))
case("split-float-index", lambda: split([0.1, 0.9, 0.5, 0.4], index=[0.5, 1.5, 2.5, 3.5]))
case("split-datetime-index", lambda: split([0.1, 0.9, 0.5, 0.4], index=pandas.date_range("2020-01-01", periods=4)))


# the branch guess as the isotherm classes see it
def point_branches(pressures, **kw):
    iso = PointIsotherm(pressure=pressures, loading=list(range(len(pressures))), material="m", adsorbate="N2",
                        temperature=77, pressure_mode="absolute", pressure_unit="bar", material_basis="mass",
                        material_unit="g", loading_basis="molar", loading_unit="mmol", temperature_unit="K", **kw)
    return {"branch": iso.data_raw["branch"].to_numpy(), "dtype": str(iso.data_raw["branch"].dtype),
            "ads": iso.pressure(branch="ads"), "des": iso.pressure(branch="des")}


for name in ("increasing", "up-down", "peak-first", "tie-max", "single", "zigzag"):
    case(f"pointiso-branches-{name}", lambda name=name: point_branches(SERIES[name]))

# ---------------------------------------------------------------------------
# B. PointIsotherm.from_modelisotherm
# ---------------------------------------------------------------------------
UNITS = dict(
    pressure_mode="absolute", pressure_unit="bar", material_basis="mass", material_unit="g",
    loading_basis="molar", loading_unit="mmol", temperature_unit="K",
)
META = dict(material="carbon", adsorbate="N2", temperature=77.0, **UNITS)

PARAMS = {
    "Henry": {"K": 2.5},
    "Langmuir": {"K": 3.0, "n_m": 5.0},
    "Toth": {"n_m": 5.0, "K": 3.0, "t": 0.7},
    "DR": {"n_m": 6.0, "e": 4000.0},
    "Freundlich": {"K": 2.0, "m": 2.5},
    "Virial": {"K": 2.0, "A": 0.3, "B": -0.05, "C": 0.01},
    "FHVST": {"n_m": 6.0, "K": 4.0, "a1v": 0.5},
}


def model_iso(name, branch="ads", meta=None, pr=(0.01, 0.9), lr=(0.05, 4.0)):
    model = get_isotherm_model(name, parameters=dict(PARAMS[name]), pressure_range=pr, loading_range=lr, rmse=0.0)
    return ModelIsotherm(model=model, branch=branch, **(META if meta is None else meta))


def describe(iso, ref):
    df = iso.data_raw
    p = df[iso.pressure_key].to_numpy()
    n = df[iso.loading_key].to_numpy()
    d = iso.to_dict()
    # the points must lie on the model
    if ref.model.calculates == "loading":
        off = numpy.max(numpy.abs(ref.model.loading(p) - n)) if len(p) else 0.0
    else:
        off = numpy.max(numpy.abs(ref.model.pressure(n) - p)) if len(p) else 0.0
    return {
        "npts": len(df), "cols": list(df.columns), "keys": [iso.pressure_key, iso.loading_key],
        "p": p, "n": n, "branch": df["branch"].to_numpy(),
        "meta": {k: (str(v) if k in ("material", "adsorbate") else v) for k, v in sorted(d.items())},
        "off_model": round(float(off), 9),
    }


def from_model(name, pp=None, lp=None, branch="ads", meta=None):
    ref = model_iso(name, branch=branch, meta=meta)
    return describe(PointIsotherm.from_modelisotherm(ref, pressure_points=pp, loading_points=lp), ref)


def template(kind="both", **kw):
    p = numpy.r_[numpy.linspace(0.05, 0.8, 6), numpy.linspace(0.7, 0.1, 4)]
    n = numpy.r_[numpy.linspace(0.3, 3.5, 6), numpy.linspace(3.4, 1.0, 4)]
    if kind == "ads":
        p, n = p[:6], n[:6]
    return PointIsotherm(pressure=p, loading=n, **{**META, **kw})


for name in PARAMS:
    case(f"fm-{name}-default", lambda name=name: from_model(name))
    case(f"fm-{name}-pp-list", lambda name=name: from_model(name, pp=[0.05, 0.1, 0.3, 0.6]))
    case(f"fm-{name}-pp-array", lambda name=name: from_model(name, pp=numpy.linspace(0.02, 0.8, 7)))
    case(f"fm-{name}-lp-list", lambda name=name: from_model(name, lp=[0.2, 0.5, 1.0, 2.0]))
    case(f"fm-{name}-lp-array", lambda name=name: from_model(name, lp=numpy.linspace(0.1, 2.0, 5)))
    case(f"fm-{name}-pp-iso", lambda name=name: from_model(name, pp=template()))
    case(f"fm-{name}-lp-iso", lambda name=name: from_model(name, lp=template()))
    case(f"fm-{name}-both", lambda name=name: from_model(name, pp=[0.1, 0.2], lp=[0.5, 1.0]))
    case(f"fm-{name}-both-iso", lambda name=name: from_model(name, pp=template(), lp=template()))
    case(f"fm-{name}-pp-empty", lambda name=name: from_model(name, pp=[]))
    case(f"fm-{name}-lp-empty", lambda name=name: from_model(name, lp=[]))
    case(f"fm-{name}-pp-scalar", lambda name=name: from_model(name, pp=0.3))
    case(f"fm-{name}-lp-scalar", lambda name=name: from_model(name, lp=1.0))
    case(f"fm-{name}-pp-single", lambda name=name: from_model(name, pp=[0.3]))
    case(f"fm-{name}-pp-zero", lambda name=name: from_model(name, pp=[0.0, 0.3]))
    case(f"fm-{name}-pp-tuple", lambda name=name: from_model(name, pp=(0.1, 0.4, 0.2)))
    case(f"fm-{name}-pp-series", lambda name=name: from_model(name, pp=pandas.Series([0.1, 0.4, 0.6])))
    case(f"fm-{name}-lp-series", lambda name=name: from_model(name, lp=pandas.Series([0.2, 0.4, 0.6])))
    case(f"fm-{name}-pp-false", lambda name=name: from_model(name, pp=False))
    case(f"fm-{name}-pp-str", lambda name=name: from_model(name, pp="abc"))

# branch of the model isotherm and of the template
for name in ("Langmuir", "Virial"):
    for br in ("ads", "des"):
        case(f"fm-{name}-{br}-default", lambda name=name, br=br: from_model(name, branch=br))
        case(f"fm-{name}-{br}-pp-iso", lambda name=name, br=br: from_model(name, pp=template(), branch=br))
        case(f"fm-{name}-{br}-lp-iso", lambda name=name, br=br: from_model(name, lp=template(), branch=br))
        case(f"fm-{name}-{br}-pp-iso-adsonly", lambda name=name, br=br: from_model(name, pp=template("ads"), branch=br))
        case(f"fm-{name}-{br}-lp-iso-adsonly", lambda name=name, br=br: from_model(name, lp=template("ads"), branch=br))

# metadata and units are carried over; template in other units is used as it is
META2 = dict(material="zeolite", adsorbate="CO2", temperature=25.0, pressure_mode="absolute", pressure_unit="kPa",
             material_basis="mass", material_unit="kg", loading_basis="mass", loading_unit="g",
             temperature_unit="°C", user="me", comment="hello", iso_type="sim")
META3 = dict(material="m3", adsorbate="N2", temperature=77.0, pressure_mode="relative", material_basis="volume",
             material_unit="cm3", loading_basis="volume_gas", loading_unit="cm3(STP)", temperature_unit="K")
for name in ("Langmuir", "DR", "Virial"):
    case(f"fm-{name}-meta2", lambda name=name: from_model(name, meta=META2))
    case(f"fm-{name}-meta2-pp", lambda name=name: from_model(name, pp=[1.0, 20.0, 80.0], meta=META2))
    case(f"fm-{name}-meta2-lp", lambda name=name: from_model(name, lp=[0.5, 1.0, 3.0], meta=META2))
    case(f"fm-{name}-meta3", lambda name=name: from_model(name, meta=META3))
    case(f"fm-{name}-meta2-template-bar", lambda name=name: from_model(name, pp=template(), meta=META2))
    case(f"fm-{name}-meta2-ltemplate", lambda name=name: from_model(name, lp=template(), meta=META2))


# round trip: a fitted model -> points -> same model again
def round_trip(name, npts, **kw):
    gen = get_isotherm_model(name, parameters=dict(PARAMS[name]))
    gen.__init_parameters__({"temperature": 77.0})
    if gen.calculates == "loading":
        p = numpy.linspace(0.02, 0.9, npts)
        n = gen.loading(p)
    else:
        n = numpy.linspace(0.05, 4.0, npts)
        p = gen.pressure(n)
    first = ModelIsotherm(pressure=p, loading=n, model=name, **META)
    points = PointIsotherm.from_modelisotherm(first, **kw)
    second = ModelIsotherm.from_pointisotherm(points, model=name)
    return {"first": first.model.params, "second": second.model.params, "rmse2": second.model.rmse,
            "points": describe(points, first)}


for name in ("Henry", "Langmuir", "Toth", "DR", "Freundlich", "Virial"):
    case(f"roundtrip-{name}", lambda name=name: round_trip(name, 25))
    case(f"roundtrip-{name}-pp", lambda name=name: round_trip(name, 12, pressure_points=numpy.linspace(0.05, 0.8, 9)))
    case(f"roundtrip-{name}-lp", lambda name=name: round_trip(name, 12, loading_points=numpy.linspace(0.3, 2.5, 9)))


# a model which calculates neither quantity falls through to the PointIsotherm constructor
class Odd:
    branch = "ads"

    class model:
        calculates = "nothing"
        name = "odd"

    def to_dict(self):
        return dict(META)


case("fm-odd", lambda: PointIsotherm.from_modelisotherm(Odd()))
case("fm-odd-pp", lambda: PointIsotherm.from_modelisotherm(Odd(), pressure_points=[0.1, 0.2]))
case("fm-odd-both", lambda: PointIsotherm.from_modelisotherm(Odd(), pressure_points=[0.1], loading_points=[0.2]))
case("fm-none", lambda: PointIsotherm.from_modelisotherm(None))
