"""Differential script for change 1: area_BET_raw (Rouquerol limit search / p_limits handling)."""
import copy
import logging
import warnings
from pathlib import Path

import numpy

import pygaps
import pygaps.parsing as pgp
from pygaps.characterisation import area_bet as ab

warnings.filterwarnings("ignore")

ROOT = Path(__file__).resolve().parent.parent
DATA = ROOT / 'docs' / 'examples' / 'data' / 'characterisation'


class ListHandler(logging.Handler):
    def __init__(self):
        super().__init__()
        self.msgs = []

    def emit(self, record):
        self.msgs.append(f"{record.levelname}:{record.getMessage()}")


HANDLER = ListHandler()
pygaps.logger.addHandler(HANDLER)
pygaps.logger.propagate = False


def canon(obj):
    if isinstance(obj, dict):
        return "{" + ", ".join(f"{k!r}: {canon(v)}" for k, v in sorted(obj.items(), key=lambda kv: str(kv[0]))) + "}"
    if isinstance(obj, numpy.ndarray):
        return f"array<{obj.dtype}>[" + ", ".join(canon(v) for v in obj.tolist()) + "]"
    if isinstance(obj, (list, tuple)):
        return type(obj).__name__ + "(" + ", ".join(canon(v) for v in obj) + ")"
    if isinstance(obj, (bool, numpy.bool_)):
        return f"{type(obj).__name__}:{bool(obj)}"
    if isinstance(obj, (int, numpy.integer)):
        return f"{type(obj).__name__}:{int(obj)}"
    if isinstance(obj, (float, numpy.floating)):
        return f"{type(obj).__name__}:{float(obj):.12g}"
    return f"{type(obj).__name__}:{obj!r}"


def run(label, func, *args, **kwargs):
    HANDLER.msgs.clear()
    try:
        res = canon(func(*args, **kwargs))
    except Exception as err:  # noqa
        res = f"EXC {type(err).__name__}: {err}"
    print(f"--- {label}")
    print(res)
    for msg in HANDLER.msgs:
        print("   log:", msg)


isos = {p.stem.split(' N2')[0]: pgp.isotherm_from_json(p) for p in sorted(DATA.glob('*.json'))}

# 1. high level, every sample, default limits, many stored-unit representations
conversions = [
    {},
    {'pressure_unit': 'Pa'},
    {'pressure_unit': 'torr'},
    {'pressure_mode': 'relative'},
    {'pressure_mode': 'relative%'},
    {'loading_unit': 'mol'},
    {'loading_basis': 'mass', 'loading_unit': 'g'},
    {'loading_basis': 'volume_gas', 'loading_unit': 'cm3'},
    {'loading_basis': 'volume_liquid', 'loading_unit': 'cm3'},
    {'loading_basis': 'percent', 'loading_unit': None},
    {'pressure_mode': 'relative', 'loading_basis': 'mass', 'loading_unit': 'mg'},
]
for name, iso in isos.items():
    for conv in conversions:
        c_iso = copy.deepcopy(iso)
        try:
            if conv:
                c_iso.convert(**{k: v for k, v in conv.items() if v is not None})
        except Exception as err:  # noqa
            print(f"--- convert {name} {conv}: EXC {type(err).__name__}: {err}")
            continue
        run(f"area_BET {name} {conv}", ab.area_BET, c_iso)

# 2. high level, manual limits and branches
limits = [
    None, (None, None), (0.05, 0.3), (0.05, None), (None, 0.3), (0, 0.2), (0.1, 0), [0.02, 0.15], (0.2, 0.21),
    (0.9, 0.1), (0.5, 2), (-1, 0.3), (1e-9, 1), (0.3, 0.3)
]
for name, iso in isos.items():
    for lim in limits:
        run(f"area_BET {name} p_limits={lim}", ab.area_BET, iso, p_limits=lim)
for name, iso in isos.items():
    run(f"area_BET {name} des", ab.area_BET, iso, branch='des')
    run(f"area_BET {name} des lim", ab.area_BET, iso, branch='des', p_limits=(0.05, 0.3))

# 3. raw function, synthetic inputs
rng = numpy.random.default_rng(15)


def bet_curve(p, nm=2.0, c=120.0):
    return nm * c * p / (1 - p) / (1 - p + c * p)


p_lin = numpy.linspace(0.01, 0.95, 40)
p_log = numpy.logspace(-5, -0.02, 60)
raw_cases = {
    'bet_lin': (p_lin, bet_curve(p_lin)),
    'bet_log': (p_log, bet_curve(p_log)),
    'bet_lowC': (p_lin, bet_curve(p_lin, 0.5, 3.0)),
    'bet_lists': (p_lin.tolist(), bet_curve(p_lin).tolist()),
    'langmuir_like': (p_lin, 3 * 50 * p_lin / (1 + 50 * p_lin)),  # roq decreasing early
    'henry_like': (p_lin, 2 * p_lin),  # roq increases then decreases at p>0.5
    'roq_never_decreasing': (numpy.linspace(0.01, 0.45, 25), 2 * numpy.linspace(0.01, 0.45, 25)),
    'roq_decreasing_first': (numpy.array([0.1, 0.2, 0.3, 0.4, 0.5]), numpy.array([5.0, 4.0, 3.0, 2.0, 1.0])),
    'roq_equal_values': (numpy.array([0.1, 0.2, 0.3, 0.4, 0.5, 0.6]), 1 / (1 - numpy.array([0.1, 0.2, 0.3, 0.4, 0.5, 0.6]))),
    'noisy': (p_lin, bet_curve(p_lin) * (1 + 0.05 * rng.standard_normal(40))),
    'with_nan': (p_lin, numpy.where(numpy.arange(40) == 20, numpy.nan, bet_curve(p_lin))),
    'nan_first': (p_lin, numpy.where(numpy.arange(40) == 0, numpy.nan, bet_curve(p_lin))),
    'short3': (numpy.array([0.05, 0.1, 0.2]), bet_curve(numpy.array([0.05, 0.1, 0.2]))),
    'short2': (numpy.array([0.05, 0.1]), bet_curve(numpy.array([0.05, 0.1]))),
    'single': (numpy.array([0.05]), numpy.array([1.0])),
    'empty': (numpy.array([]), numpy.array([])),
    'empty_lists': ([], []),
    'mismatch': (p_lin, bet_curve(p_lin)[:-1]),
    'scaled_x1000': (p_lin, 1000 * bet_curve(p_lin)),
    'int_loading': (numpy.array([0.05, 0.1, 0.15, 0.2, 0.3, 0.5, 0.7]), numpy.array([10, 14, 16, 18, 21, 30, 50])),
    'p_above_one': (numpy.linspace(0.1, 1.2, 20), bet_curve(numpy.linspace(0.1, 0.9, 20))),
}
for name, (p, l) in raw_cases.items():
    for lim in [None, (None, None), (0.05, 0.35), (0.05, None), (None, 0.35), (0, 0), [0.1, 0.3], (0.2, 0.21), (0.5, 0.1)]:
        for cs in (0.162, ):
            run(f"area_BET_raw {name} p_limits={lim}", ab.area_BET_raw, p, l, cs, lim)
run("area_BET_raw no p_limits arg", ab.area_BET_raw, p_lin, bet_curve(p_lin), 0.162)
run("area_BET_raw kw p_limits", ab.area_BET_raw, pressure=p_lin, loading=bet_curve(p_lin), cross_section=0.2, p_limits=(0.1, 0.4))

# helper functions
run("roq_transform", ab.roq_transform, p_lin, bet_curve(p_lin))
run("bet_transform", ab.bet_transform, p_lin, bet_curve(p_lin))
run("bet_parameters", ab.bet_parameters, 0.5, 0.004, 0.162)
