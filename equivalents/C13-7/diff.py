"""Differential script for change 3: PointIsotherm.spreading_pressure_at segment helper."""
import numpy

import _fixtures as fx
import pygaps
import pygaps.iast.pgiast as pgi

M = fx.models()
P = fx.points()
ch4, c2h6 = fx.real()
run = fx.run

# unsorted / duplicate / tiny isotherms
P["UNS"] = pygaps.PointIsotherm(
    pressure=[0.1, 0.5, 0.3, 1.0, 2.0, 1.5, 4.0], loading=[0.2, 0.9, 0.6, 1.5, 2.2, 1.9, 3.0],
    material="M", adsorbate="methane", temperature=298.0
)
P["DUP"] = pygaps.PointIsotherm(
    pressure=[0.1, 0.5, 0.5, 1.0, 2.0], loading=[0.2, 0.9, 1.0, 1.5, 2.2],
    material="M", adsorbate="methane", temperature=298.0
)
P["ONE"] = pygaps.PointIsotherm(
    pressure=[1.0], loading=[2.0], material="M", adsorbate="methane", temperature=298.0
)
P["TWO"] = pygaps.PointIsotherm(
    pressure=[1.0, 3.0], loading=[2.0, 2.5], material="M", adsorbate="methane", temperature=298.0
)
P["ZERO"] = pygaps.PointIsotherm(
    pressure=[0.0, 1.0, 3.0], loading=[0.0, 2.0, 2.5], material="M", adsorbate="methane", temperature=298.0
)
P["N2"] = fx.point_iso(
    fx.lang(8.0, 40.0), pmin=0.001, pmax=0.9, n=30, adsorbate="nitrogen", temperature=77.0,
    des=True
)

# --- direct calls: pressures across all regimes
for key in ("P1", "P3", "PS", "PD", "P5", "UNS", "DUP", "ONE", "TWO", "ZERO", "N2"):
    iso = P[key]
    pr = iso.pressure(branch="ads")
    pmin, pmax = pr.min(), pr.max()
    probes = [
        pmin / 2, pmin, float(pr[0]), (pmin + pmax) / 2, float(pr[len(pr) // 2]),
        float(pr[len(pr) // 2]) * 1.0000001, pmax * 0.999, pmax, pmax * 1.5, 0.0, -1.0, numpy.nan, numpy.inf,
        numpy.float64(pmax / 3), numpy.array(pmax / 3), numpy.array([pmax / 3]), 1e-300,
    ]
    for q in probes:
        run(f"sp {key} {q!r}", iso.spreading_pressure_at, q)
    for q in (pmin / 2, (pmin + pmax) / 2, pmax * 1.5, pmax * 100):
        run(f"sp {key} {q!r} fill=extrapolate", iso.spreading_pressure_at, q, interp_fill="extrapolate")
        run(f"sp {key} {q!r} fill=const", iso.spreading_pressure_at, q, interp_fill=(0.0, 3.3))
        run(f"sp {key} {q!r} fill=0", iso.spreading_pressure_at, q, interp_fill=0)

# --- branches
for br in ("ads", "des", None, "all", "bad"):
    run(f"sp PD branch={br}", P["PD"].spreading_pressure_at, 5.0, branch=br)
    run(f"sp P1 branch={br}", P["P1"].spreading_pressure_at, 5.0, branch=br)
    run(f"sp N2 branch={br}", P["N2"].spreading_pressure_at, 0.2, branch=br)

# --- units and modes
for kw in (
    dict(pressure_unit="Pa"), dict(pressure_unit="kPa"), dict(pressure_unit="torr"),
    dict(pressure_mode="relative"), dict(pressure_mode="relative%"), dict(pressure_mode="absolute"),
    dict(pressure_mode="absolute", pressure_unit="atm"), dict(pressure_mode="bad"), dict(pressure_unit="bad"),
    dict(loading_unit="mol"), dict(loading_unit="cm3(STP)", loading_basis="volume_gas"),
    dict(loading_basis="mass", loading_unit="g"), dict(loading_basis="mass"), dict(material_unit="kg"),
    dict(material_basis="volume", material_unit="cm3"), dict(loading_basis="percent", loading_unit="%"),
    dict(loading_basis="fraction"), dict(loading_unit="bad"),
    dict(pressure_unit="kPa", loading_unit="mol", material_unit="kg", interp_fill="extrapolate"),
):
    for q in (0.004, 0.05, 0.3, 60.0, 5e4):
        run(f"sp N2 {q} {kw}", P["N2"].spreading_pressure_at, q, **kw)
        run(f"sp real {q} {kw}", ch4.spreading_pressure_at, q, **kw)

# --- interpolator cache interplay: loading_at with other settings in between
iso = P["PD"]
run("cache 1", iso.spreading_pressure_at, 5.0)
run("cache 2 loading des", iso.loading_at, 5.0, branch="des")
run("cache 3", iso.spreading_pressure_at, 5.0)
run("cache 4 loading cubic", iso.loading_at, 5.0, interpolation_type="cubic")
run("cache 5", iso.spreading_pressure_at, 7.0)
run("cache 6 des", iso.spreading_pressure_at, 7.0, branch="des")
run("cache 7 interp", lambda: (iso.l_interpolator.interp_branch, iso.l_interpolator.interp_kind,
                               iso.l_interpolator.interp_fill))

# --- through IAST
for pp in ([1.0, 1.0], [0.01, 0.02], [50.0, 3.0], [150.0, 150.0], [0.5, 30.0], [0.06, 0.06], [3.0, 0.2]):
    run(f"iast pts {pp}", pgi.iast_point, [P["P1"], P["P2"]], pp)
    run(f"iast mix {pp}", pgi.iast_point, [P["P1"], M["L2"]], pp)
    run(f"iast real {pp}", pgi.iast_point, [ch4, c2h6], pp, verbose=True)
    run(f"iast uns {pp}", pgi.iast_point, [P["UNS"], P["DUP"]], pp)
for x in ([0.5, 0.5], [0.125, 0.875]):
    for pt in (0.1, 2.0, 40.0):
        run(f"reverse pts {x} {pt}", pgi.reverse_iast, [P["P1"], P["P2"]], x, pt)
        run(f"reverse real {x} {pt}", pgi.reverse_iast, [ch4, c2h6], x, pt)
run("iast 3 pts", pgi.iast_point, [P["P1"], P["P2"], P["P3"]], [1.0, 0.5, 3.0])
run("iast des", pgi.iast_point, [P["PD"], P["PD"]], [1.0, 2.0], branch="des")
run("vle real", pgi.iast_binary_vle, [ch4, c2h6], 2.0, npoints=7)
run("svp real", pgi.iast_binary_svp, [ch4, c2h6], [0.5, 0.5], [0.5, 1.0, 2.0])
