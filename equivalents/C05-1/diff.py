"""Differential for change 1: BaseIsotherm.to_dict."""
import copy

import eqlib
from eqlib import attempt
from eqlib import emit

built = eqlib.build_all(deep=True)
eqlib.cross_equalities(built)
eqlib.roundtrips(built)


def mutate(label, base_label, func):
    """Copy an isotherm, poke at its instance dictionary, look at to_dict / id."""
    iso = copy.deepcopy(built[base_label])
    try:
        func(iso)
    except Exception as err:  # noqa: BLE001
        emit(f"{label}.mutate", f"EXC {type(err).__name__}: {err}")
        return
    attempt(f"{label}.to_dict", iso.to_dict)
    attempt(f"{label}.iso_id", lambda: iso.iso_id)
    attempt(f"{label}.vars_after", lambda: list(vars(iso)))
    attempt(f"{label}.props_after", lambda: iso.properties)


for kind in ("base.meta", "point.meta", "model.langmuir_meta"):
    mutate(f"{kind}+prop_named_properties", kind, lambda i: i.properties.update(properties=1))
    mutate(f"{kind}+prop_named_material", kind, lambda i: i.properties.update(material='shadow'))
    mutate(f"{kind}+prop_named_adsorbate", kind, lambda i: i.properties.update(adsorbate='shadow', temperature=1))
    mutate(f"{kind}+prop_named_reserved", kind, lambda i: i.properties.update(_material='x', data_raw='y', model='z', m=1))
    mutate(f"{kind}+prop_named_unit", kind, lambda i: i.properties.update(pressure_unit='torr'))
    mutate(f"{kind}+props_none", kind, lambda i: setattr(i, 'properties', None))
    mutate(f"{kind}+props_list", kind, lambda i: setattr(i, 'properties', [('k', 'v')]))
    mutate(f"{kind}+props_empty", kind, lambda i: setattr(i, 'properties', {}))
    mutate(f"{kind}+no_props", kind, lambda i: vars(i).pop('properties'))
    mutate(f"{kind}+no_ads", kind, lambda i: vars(i).pop('_adsorbate'))
    mutate(f"{kind}+no_mat", kind, lambda i: vars(i).pop('_material'))
    mutate(f"{kind}+no_temp", kind, lambda i: vars(i).pop('_temperature'))
    mutate(f"{kind}+mat_none", kind, lambda i: vars(i).update(_material=None))
    mutate(f"{kind}+inst_adsorbate_key", kind, lambda i: vars(i).update(adsorbate='direct'))
    mutate(f"{kind}+inst_material_first", kind, lambda i: (
        vars(i).update({'material': 'direct', **{k: vars(i).pop(k) for k in list(vars(i))}})
    ))
    mutate(f"{kind}+inst_shorthand", kind, lambda i: vars(i).update(m='M', t='T', a='A', extra_attr=5))
    mutate(f"{kind}+extra_attr", kind, lambda i: setattr(i, 'note_attr', 'kept'))
    mutate(f"{kind}+mat_props_added", kind, lambda i: i.material.properties.update(zz=1))
    mutate(f"{kind}+convert_T", kind, lambda i: i.convert_temperature('°C'))
    mutate(f"{kind}+del_unit", kind, lambda i: vars(i).pop('loading_unit'))

# to_dict must not alias / mutate the isotherm
for label, iso in built.items():
    before = list(vars(iso))
    one = iso.to_dict()
    one['poke'] = 1
    one.pop('adsorbate')
    two = iso.to_dict()
    emit(f"{label}.no_alias", f"{'poke' in two} {'adsorbate' in two} {before == list(vars(iso))} {'poke' in iso.properties}")

eqlib.flush()
