"""Shared corpus + canonical printing for the C07 differential scripts."""
import logging
import os
import re
import shutil
import tempfile
import warnings

warnings.simplefilter("ignore")

import numpy
import pandas

import pygaps
from pygaps.core.baseisotherm import BaseIsotherm
from pygaps.core.modelisotherm import ModelIsotherm
from pygaps.core.pointisotherm import PointIsotherm
from pygaps.modelling import model_from_dict

assert pygaps.__file__.startswith("/tmp/eq2/C07/src"), pygaps.__file__


class _Grab(logging.Handler):
    def __init__(self):
        super().__init__(level=logging.DEBUG)
        self.msgs = []

    def emit(self, record):
        self.msgs.append(f"{record.levelname}:{record.getMessage()}")


GRAB = _Grab()
pygaps.logger.addHandler(GRAB)
pygaps.logger.setLevel(logging.DEBUG)
for _h in list(pygaps.logger.handlers):
    if _h is not GRAB:
        pygaps.logger.removeHandler(_h)
pygaps.logger.propagate = False

TMP = tempfile.mkdtemp(prefix="c07eq_")


def scrub(text):
    return re.sub(r"0x[0-9a-fA-F]+", "0xADDR", text.replace(TMP, "<TMP>"))


def tmp(name):
    return os.path.join(TMP, name)


def cleanup():
    shutil.rmtree(TMP, ignore_errors=True)


def canon(x):
    """Canonical text of any value."""
    if isinstance(x, (bool, numpy.bool_)):
        return f"bool:{bool(x)}"
    if isinstance(x, (int, numpy.integer)):
        return f"int:{int(x)}"
    if isinstance(x, (float, numpy.floating)):
        return f"float:{float(x):.12g}"
    if x is None:
        return "None"
    if isinstance(x, str):
        return "str:" + repr(scrub(x))
    if isinstance(x, bytes):
        return "bytes:" + repr(x)
    if isinstance(x, dict):
        return "{" + ", ".join(f"{canon(k)}: {canon(v)}" for k, v in x.items()) + "}"
    if isinstance(x, (list, tuple)):
        o, c = ("[", "]") if isinstance(x, list) else ("(", ")")
        return o + ", ".join(canon(v) for v in x) + c
    if isinstance(x, numpy.ndarray):
        return f"ndarray<{x.dtype}>" + canon(x.tolist())
    if isinstance(x, pandas.Series):
        return f"Series<{x.dtype},{x.name!r}>" + canon(x.tolist())
    if isinstance(x, pandas.DataFrame):
        cols = "; ".join(
            f"{c!r}<{x[c].dtype}>=" + canon(x[c].tolist()) for c in x.columns
        )
        return f"DataFrame(index={canon(list(x.index))}; {cols})"
    if isinstance(x, BaseIsotherm):
        return canon_iso(x)
    return f"{type(x).__name__}:{x!r}"


def canon_iso(iso):
    parts = [type(iso).__name__]
    parts.append("id=" + iso.iso_id)
    parts.append("dict=" + canon(iso.to_dict()))
    parts.append("material=" + canon(iso.material.to_dict()))
    parts.append("adsorbate=" + canon(str(iso.adsorbate)))
    parts.append("T=" + canon(iso.temperature))
    if isinstance(iso, PointIsotherm):
        parts.append("pkey=" + canon(iso.pressure_key))
        parts.append("lkey=" + canon(iso.loading_key))
        parts.append("okeys=" + canon(iso.other_keys))
        parts.append("data=" + canon(iso.data_raw))
    if isinstance(iso, ModelIsotherm):
        m = iso.model
        parts.append("branch=" + canon(iso.branch))
        parts.append("model=" + canon(m.name))
        parts.append("rmse=" + canon(m.rmse))
        parts.append("prange=" + canon(m.pressure_range))
        parts.append("lrange=" + canon(m.loading_range))
        parts.append("params=" + canon(m.params))
    return "\n    ".join(parts)


def run(label, func, *args, **kwargs):
    """Run func, print canonical result or exception, and captured log lines."""
    GRAB.msgs.clear()
    try:
        res = func(*args, **kwargs)
        text = "OK " + canon(res)
    except BaseException as err:  # noqa
        text = f"EXC {type(err).__module__}.{type(err).__name__}: " + scrub(str(err))
        cause = err.__cause__
        while cause is not None:
            text += f"\n    <- {type(cause).__name__}: " + scrub(str(cause))
            cause = cause.__cause__
        res = err
    print(f"## {label}\n  {text}")
    for m in GRAB.msgs:
        print("  LOG " + scrub(m))
    return res


###############################################################################
# corpus

UNIT_CONFIGS = {
    "default": dict(),
    "relmass": dict(
        pressure_mode="relative", pressure_unit=None, loading_basis="mass", loading_unit="g",
        material_basis="mass", material_unit="kg", temperature_unit="°C"
    ),
    "relpct_vol": dict(
        pressure_mode="relative%", pressure_unit=None, loading_basis="volume_gas",
        loading_unit="cm3", material_basis="volume", material_unit="cm3", temperature_unit="K"
    ),
    "Pa_percent": dict(
        pressure_mode="absolute", pressure_unit="Pa", loading_basis="percent", loading_unit=None,
        material_basis="mass", material_unit=None, temperature_unit="K"
    ),
    "torr_fraction": dict(
        pressure_mode="absolute", pressure_unit="torr", loading_basis="fraction",
        loading_unit=None, material_basis="molar", material_unit=None, temperature_unit="K"
    ),
    "kPa_molmol": dict(
        pressure_mode="absolute", pressure_unit="kPa", loading_basis="molar", loading_unit="mol",
        material_basis="molar", material_unit="mol", temperature_unit="°C"
    ),
    "mbar_stp_vol": dict(
        pressure_mode="absolute", pressure_unit="mbar", loading_basis="molar",
        loading_unit="cm3(STP)", material_basis="volume", material_unit="L", temperature_unit="K"
    ),
    "atm_volliq": dict(
        pressure_mode="absolute", pressure_unit="atm", loading_basis="volume_liquid",
        loading_unit="mL", material_basis="mass", material_unit="mg", temperature_unit="K"
    ),
}

_FULL_UNITS = dict(
    pressure_mode="absolute", pressure_unit="bar", loading_basis="molar", loading_unit="mmol",
    material_basis="mass", material_unit="g", temperature_unit="K"
)


def units(name):
    u = dict(_FULL_UNITS)
    u.update(UNIT_CONFIGS[name])
    return u


META_SETS = {
    "none": {},
    "scalars": {"n": 3, "f": 1.5, "neg": -2.25e-7, "flag": True, "nflag": False, "txt": "hello"},
    "text": {"comment": "some text here", "user": "TU", "date": "26/06/92", "DOI": "dx.doi/10.0"},
    "aifnamed": {
        "user": "op", "date": "2020-01-01", "instrument": "inst 1", "material_mass": 0.5,
        "material_mass_unit": "mg", "activation_temperature": 120.0, "material_batch": "b1"
    },
    "odd": {
        "empty": "", "nonestr": "None", "none": None, "numstr": "12", "fstr": "1e5",
        "boolstr": "true", "lst": [1, 2.5, 3], "tup": (1, 2), "big": 12345678901234567890,
        "inf": float("inf"), "liststr": "[a b]"
    },
    "spacekey": {"a key": "v", "other key": 2, "_pygaps_x": "y", "sample_z": 4, "data_x": 1},
    "modelkey": {"model_extra": 5, "isotherm_data": "x", "iso_id": "abc", "file_version": "9.9"},
    "sepval": {"comma": "a,b", "quote": "it's", "hash": "#x", "dq": 'say "x"', "nl": "a\nb"},
    "unicode": {"µ": "é°", "lab": "Å lab"},
}

MATERIALS = {
    "plain": "mat1",
    "props": {"name": "mat2", "density": 2.5, "batch": "b7", "molar_mass": 10, "ok": True},
    "nested": {"name": "mat3", "_material_x": 1, "sample_y": 2.0},
    "space": {"name": "mat 4", "some prop": "a b"},
    "noneprop": {"name": "mat5", "nothing": None, "zero": 0, "blank": ""},
}


def _mat(key):
    m = MATERIALS[key]
    return dict(m) if isinstance(m, dict) else m


DATA = {
    "one": dict(pressure=[1.0], loading=[0.5]),
    "ads": dict(pressure=[0.1, 0.2, 0.3, 0.4], loading=[1.0, 2.0, 2.5, 2.75]),
    "two": dict(
        pressure=[0.1, 0.5, 1.0, 2.0, 1.5, 0.7, 0.2],
        loading=[0.123456789123, 1.00000000049, 2.5, 3.99999999951, 3.7, 3.2, 1.1],
    ),
    "desonly": dict(pressure=[3.0, 2.0, 1.0], loading=[3.0, 2.5, 1.5]),
}


def point(data="two", unit="default", meta="none", material="plain", other=None, adsorbate="N2",
          temperature=77.0, branch=None, keys=("pressure", "loading")):
    d = DATA[data]
    frame = {keys[0]: d["pressure"], keys[1]: d["loading"]}
    n = len(d["pressure"])
    other_keys = []
    for o in (other or []):
        if o == "enthalpy":
            frame[o] = [5.0 + 0.111111111111 * i for i in range(n)]
        elif o == "ints":
            frame[o] = list(range(n))
        elif o == "text":
            frame[o] = [f"t{i}" for i in range(n)]
        elif o == "flags":
            frame[o] = [i % 2 == 0 for i in range(n)]
        elif o == "nans":
            frame[o] = [numpy.nan if i % 2 else 1.5 * i for i in range(n)]
        else:
            frame[o] = [0.25 * i for i in range(n)]
        other_keys.append(o)
    kw = dict(units(unit))
    kw.update(META_SETS[meta])
    if branch is not None:
        kw["branch"] = branch
    kw.pop("isotherm_data", None)
    return PointIsotherm(
        isotherm_data=pandas.DataFrame(frame), pressure_key=keys[0], loading_key=keys[1],
        material=_mat(material), adsorbate=adsorbate,
        temperature=temperature, **kw
    )


MODELS = {
    "Henry": {"K": 2.5},
    "Langmuir": {"K": 3.1234567890123, "n_m": 7.5},
    "DSLangmuir": {"n_m1": 1.0, "K1": 2.0, "n_m2": 3.0, "K2": 0.004},
    "BET": {"n_m": 4.0, "C": 120.0, "N": 1e-3},
    "Toth": {"n_m": 5.5, "K": 1e9, "t": 0.33},
    "Freundlich": {"K": 2, "m": 3},
}


def model(name="Langmuir", unit="default", meta="none", material="plain", adsorbate="N2",
          temperature=77.0, rmse=0.0123456789, prange=(0.1, 10.0), lrange=(0.0, 7.25),
          branch="ads"):
    kw = dict(units(unit))
    kw.update(META_SETS[meta])
    kw.pop("isotherm_data", None)
    mdl = model_from_dict({
        "name": name, "rmse": rmse, "pressure_range": prange, "loading_range": lrange,
        "parameters": dict(MODELS[name])
    })
    return ModelIsotherm(
        model=mdl, branch=branch, material=_mat(material), adsorbate=adsorbate,
        temperature=temperature, **kw
    )


def base(unit="default", meta="none", material="plain", adsorbate="N2", temperature=77.0):
    kw = dict(units(unit))
    kw.update(META_SETS[meta])
    return BaseIsotherm(material=_mat(material), adsorbate=adsorbate, temperature=temperature, **kw)


def corpus():
    """Yield (label, factory) pairs - factories so each use gets a fresh isotherm."""
    out = []

    def add(label, f, **kw):
        out.append((label, lambda f=f, kw=kw: f(**kw)))

    # point isotherms
    for u in UNIT_CONFIGS:
        add(f"point/two/{u}", point, unit=u)
    for d in DATA:
        add(f"point/{d}/scalars", point, data=d, meta="scalars", material="props")
    for m in META_SETS:
        add(f"point/ads/meta-{m}", point, data="ads", meta=m)
    for m in MATERIALS:
        add(f"point/two/mat-{m}", point, material=m, meta="text")
    add("point/two/other-f", point, other=["enthalpy"], meta="scalars")
    add("point/two/other-mix", point, other=["enthalpy", "ints", "text"], material="props")
    add("point/two/other-flags", point, other=["flags", "extra"], unit="relmass")
    add("point/two/other-nans", point, other=["nans"], unit="kPa_molmol")
    add("point/one/other", point, data="one", other=["enthalpy", "text"])
    add("point/desonly/branch-des", point, data="desonly", branch="des")
    add("point/ads/branch-des", point, data="ads", branch="des")
    add("point/two/keys", point, keys=("p [bar]", "n [mmol/g]"), other=["enthalpy"])
    add("point/two/adsorbate-unknown", point, adsorbate="weird gas", temperature=300)
    add("point/two/aifnamed-props", point, meta="aifnamed", material="props", unit="relpct_vol")
    # model isotherms
    for n in MODELS:
        add(f"model/{n}", model, name=n, meta="scalars")
    for u in UNIT_CONFIGS:
        add(f"model/Langmuir/{u}", model, unit=u, material="props")
    for m in META_SETS:
        add(f"model/Henry/meta-{m}", model, name="Henry", meta=m)
    add("model/Henry/nan", model, name="Henry", rmse=float("nan"), prange=(float("nan"), float("nan")),
        lrange=(float("nan"), float("nan")))
    add("model/Toth/des-int", model, name="Toth", branch="des", prange=(0, 1), lrange=(1, 20),
        rmse=0, material="nested")
    add("model/BET/list-range", model, name="BET", prange=[0.05, 0.35], lrange=[0.5, 4.5],
        material="space")
    # base isotherms
    for u in UNIT_CONFIGS:
        add(f"base/{u}", base, unit=u, meta="text")
    for m in META_SETS:
        add(f"base/meta-{m}", base, meta=m, material="props")
    for m in MATERIALS:
        add(f"base/mat-{m}", base, material=m)
    add("base/unknown", base, adsorbate="mystery", temperature="298.15")
    return out
