"""Shared canonical printing helpers for the differential scripts."""
import hashlib
import warnings

import numpy

warnings.simplefilter("ignore")


def fmt_scalar(v):
    if isinstance(v, (bool, numpy.bool_)):
        return f"bool:{bool(v)}"
    if isinstance(v, (int, numpy.integer)):
        return f"{type(v).__name__}:{int(v)}"
    if isinstance(v, (float, numpy.floating)):
        return f"{type(v).__name__}:{float(v):.12g}"
    return f"{type(v).__name__}:{v!r}"


def fmt_array(a, full=False):
    a = numpy.asarray(a)
    flat = a.ravel()
    if a.dtype.kind in "fc":
        items = [f"{x:.12g}" for x in flat]
    else:
        items = [repr(x.item()) if hasattr(x, "item") else repr(x) for x in flat]
    text = ",".join(items)
    digest = hashlib.sha1(text.encode()).hexdigest()[:16]
    if full or len(items) <= 12:
        shown = text
    else:
        shown = ",".join(items[:5]) + ",...," + ",".join(items[-5:])
    return f"ndarray shape={a.shape} dtype={a.dtype} sha={digest} [{shown}]"


def fmt(v, full=False):
    if isinstance(v, numpy.ndarray):
        return fmt_array(v, full)
    if isinstance(v, tuple):
        return "(" + ", ".join(fmt(x, full) for x in v) + ")"
    if isinstance(v, list):
        return "[" + ", ".join(fmt(x, full) for x in v) + "]"
    if isinstance(v, dict):
        return "{" + ", ".join(f"{k!r}: {fmt(x, full)}" for k, x in v.items()) + "}"
    return fmt_scalar(v)


def run(label, func, *args, full=False, **kwargs):
    try:
        out = func(*args, **kwargs)
    except Exception as err:  # noqa
        cause = err.__cause__
        extra = f" <- {type(cause).__name__}: {cause}" if cause is not None else ""
        print(f"{label}: RAISED {type(err).__name__}: {err}{extra}")
        return None
    print(f"{label}: {fmt(out, full)}")
    return out
