"""Differential script for C14 patches (linearised characterisation methods).

Run with PYTHONPATH=<tree>/src; prints a deterministic transcript.
Sections: BET (raw + isotherm), Langmuir, t-plot, alpha-s, DR/DA.
"""
import logging
import sys
import warnings

import numpy

warnings.simplefilter("ignore")

import pygaps
import pygaps.characterisation.alphas_plots as als
import pygaps.characterisation.area_bet as ab
import pygaps.characterisation.area_lang as al
import pygaps.characterisation.dr_da_plots as dr
import pygaps.characterisation.t_plots as tp
from pygaps.characterisation.models_thickness import get_thickness_model

FOCUS = sys.argv[1:] or ["tplot"]  # all: bet lang tplot alphas dr


class Collect(logging.Handler):
    def __init__(self):
        super().__init__(level=logging.WARNING)
        self.msgs = []

    def emit(self, record):
        self.msgs.append(f"{record.levelname}:{record.getMessage()}")


collector = Collect()
logging.getLogger("pygaps").addHandler(collector)
for h in logging.getLogger("pygaps").handlers:
    if h is not collector:
        h.setLevel(logging.CRITICAL)


def fmt(val):
    """Exact, deterministic representation."""
    if isinstance(val, numpy.ndarray):
        return f"ndarray{val.shape}{val.dtype}" + repr([fmt(v) for v in val.ravel().tolist()])
    if isinstance(val, (float, numpy.floating)):
        return float(val).hex() if numpy.isfinite(val) else repr(float(val))
    if isinstance(val, (bool, numpy.bool_)):
        return repr(bool(val))
    if isinstance(val, numpy.integer):
        return f"{type(val).__name__}({int(val)})"
    if isinstance(val, (list, tuple)):
        return type(val).__name__ + repr([fmt(v) for v in val])
    if isinstance(val, dict):
        return repr({k: fmt(v) for k, v in val.items()})
    return repr(val)


def show(label, fn):
    del collector.msgs[:]
    with warnings.catch_warnings(record=True) as wlist:
        warnings.simplefilter("always")
        try:
            res = fn()
            print(label, "->", type(res).__name__, fmt(res))
        except Exception as err:  # noqa
            print(label, "!!", type(err).__name__, repr(str(err)))
    for msg in collector.msgs:
        print("    log:", msg)
    for w in wlist:
        print("    warning:", w.category.__name__, str(w.message)[:120])


def iso_state(iso):
    return fmt(iso.to_dict()) + fmt(iso.data_raw.values)


def make_iso(pressure, loading, **over):
    args = dict(
        pressure=list(pressure),
        loading=list(loading),
        material='synthetic',
        adsorbate='N2',
        temperature=77.355,
        pressure_mode='relative',
        loading_basis='molar',
        loading_unit='mmol',
        material_basis='mass',
        material_unit='g',
    )
    args.update(over)
    return pygaps.PointIsotherm(**args)


rng = numpy.random.RandomState(20240404)
grids = {
    "lin25": numpy.linspace(0.02, 0.98, 25),
    "lin60": numpy.linspace(0.005, 0.6, 60),
    "log40": numpy.logspace(-5, -0.02, 40),
    "coarse6": numpy.array([0.05, 0.1, 0.15, 0.2, 0.25, 0.3]),
    "three": numpy.array([0.1, 0.2, 0.3]),
    "two": numpy.array([0.1, 0.2]),
    "one": numpy.array([0.2]),
    "random": numpy.sort(rng.uniform(0.001, 0.95, 30)),
}
limit_sets = [
    None, (0.05, 0.3), (0.05, 0.35), [0.1, 0.2], (None, 0.3), (0.05, None), (None, None), (0, 0), (0.0, 0.3),
    (0.3, 0.05), (0.2, 0.2), (0.2, 0.21), (0.9, 0.99), (1e-9, 1e-8), (-1, 2), (0.05, 0.3, 0.7), (0.05, ), (), "ab",
    0.3, (numpy.nan, 0.3), (0.05, numpy.inf), (numpy.float64(0.05), numpy.float64(0.3)), numpy.array([0.05, 0.3]),
]

# ------------------------------------------------------------------ BET
if "bet" in FOCUS:
    print("==== BET")
    cs = 0.162
    for gname, p in grids.items():
        for n_m, c in [(1.0, 100.0), (0.0034, 250.0), (5.0, 3.0), (2.0, 1.0), (1.0, -20.0)]:
            n = ab.simple_bet(p, n_m, c)
            for lim in limit_sets:
                show(f"bet_raw {gname} nm={n_m} C={c} lim={lim!r}", lambda: ab.area_BET_raw(p, n, cs, lim))
            # list inputs
            show(f"bet_raw lists {gname} nm={n_m} C={c}", lambda: ab.area_BET_raw(list(p), list(n), cs))
    # shapes of the Rouquerol curve: monotonic, early drop, plateau (equal values), all decreasing, noisy
    shapes = {
        "increasing": (numpy.linspace(0.01, 0.5, 20), numpy.linspace(1, 5, 20)),
        "plateau": (numpy.linspace(0.05, 0.9, 18), numpy.full(18, 2.0)),
        "const-roq": (numpy.array([0.1, 0.2, 0.3, 0.4, 0.5]), 1 / (1 - numpy.array([0.1, 0.2, 0.3, 0.4, 0.5]))),
        "equal-then-drop": (numpy.array([0.1, 0.2, 0.3, 0.4, 0.5, 0.6]), numpy.array([1.0, 2.0, 2.0 * 0.8 / 0.7, 2.0, 1.5, 1.0])),
        "decreasing": (numpy.linspace(0.05, 0.9, 18), numpy.linspace(5, 1, 18)),
        "drop-at-1": (numpy.array([0.1, 0.2, 0.3, 0.4]), numpy.array([5.0, 1.0, 2.0, 3.0])),
        "noisy": (numpy.linspace(0.01, 0.95, 40), ab.simple_bet(numpy.linspace(0.01, 0.95, 40), 1, 80) * (1 + 0.05 * rng.standard_normal(40))),
        "with-nan": (numpy.array([0.05, 0.1, 0.15, 0.2, 0.3, 0.4]), numpy.array([1.0, 1.5, numpy.nan, 2.0, 2.2, 2.1])),
        "nan-pressure": (numpy.array([0.05, 0.1, numpy.nan, 0.2, 0.3, 0.4]), numpy.array([1.0, 1.5, 1.8, 2.0, 2.2, 2.1])),
        "zeros": (numpy.zeros(5), numpy.zeros(5)),
        "p-above-1": (numpy.array([0.5, 0.9, 1.0, 1.1, 1.5]), numpy.array([1.0, 2.0, 3.0, 4.0, 5.0])),
        "unsorted": (numpy.array([0.3, 0.1, 0.2, 0.05, 0.4, 0.25]), numpy.array([3.0, 1.0, 2.0, 0.5, 3.5, 2.5])),
        "ints": (numpy.array([0, 0, 1]), numpy.array([1, 2, 3])),
        "2d": (numpy.array([[0.1, 0.2], [0.3, 0.4]]), numpy.array([[1.0, 2.0], [3.0, 4.0]])),
    }
    for sname, (p, n) in shapes.items():
        for lim in (None, (0.05, 0.35), (None, 0.3)):
            show(f"bet_raw shape {sname} lim={lim!r}", lambda: ab.area_BET_raw(p, n, cs, lim))
        if hasattr(ab, "roq_transform"):
            show(f"roq_transform {sname}", lambda: ab.roq_transform(p, n))
    show("bet_raw empty", lambda: ab.area_BET_raw([], [], cs))
    show("bet_raw mismatch", lambda: ab.area_BET_raw([0.1, 0.2], [1.0], cs))
    show("bet_raw strings", lambda: ab.area_BET_raw(["a", "b", "c", "d"], [1, 2, 3, 4], cs))
    show("bet_raw none cs", lambda: ab.area_BET_raw(grids["lin25"], ab.simple_bet(grids["lin25"], 1, 100), None))
    show("bet_raw scalar", lambda: ab.area_BET_raw(0.1, 1.0, cs))
    # isotherm level
    for gname in ("lin25", "lin60", "log40", "three", "random"):
        p = grids[gname]
        iso = make_iso(p, ab.simple_bet(p, 2.5, 120.0))
        st = iso_state(iso)
        for lim in (None, (0.05, 0.3), (0.06, 0.2), (0.5, 0.1)):
            show(f"area_BET {gname} lim={lim!r}", lambda: ab.area_BET(iso, p_limits=lim))
        show(f"area_BET {gname} des", lambda: ab.area_BET(iso, branch='des'))
        print(f"area_BET {gname} iso unchanged:", st == iso_state(iso))
    p = numpy.concatenate([grids["lin25"], grids["lin25"][::-1][1:]])
    n = numpy.concatenate([ab.simple_bet(grids["lin25"], 2.5, 120.0), ab.simple_bet(grids["lin25"], 2.7, 60.0)[::-1][1:]])
    iso = make_iso(p, n)
    for br in ("ads", "des", "all", None):
        show(f"area_BET hysteresis branch={br!r}", lambda: ab.area_BET(iso, branch=br))
    show("area_BET mass basis", lambda: ab.area_BET(make_iso(grids["lin25"], ab.simple_bet(grids["lin25"], 2.5, 120.0), loading_basis='mass', loading_unit='mg')))
    show("area_BET abs pressure", lambda: ab.area_BET(make_iso(grids["lin25"] * 1.0, ab.simple_bet(grids["lin25"], 2.5, 120.0), pressure_mode='absolute', pressure_unit='bar')))

# ------------------------------------------------------------------ Langmuir
if "lang" in FOCUS:
    print("==== Langmuir")
    cs = 0.162
    for gname, p in grids.items():
        for n_m, k in [(1.0, 20.0), (0.004, 500.0), (3.0, 0.5), (1.0, -0.5)]:
            n = al.simple_lang(p, n_m, k)
            for lim in limit_sets:
                show(f"lang_raw {gname} nm={n_m} K={k} lim={lim!r}", lambda: al.area_langmuir_raw(p, n, cs, lim))
    show("lang_raw empty", lambda: al.area_langmuir_raw([], [], cs))
    show("lang_raw mismatch", lambda: al.area_langmuir_raw([0.1, 0.2], [1.0], cs))
    for gname in ("lin25", "log40", "three"):
        p = grids[gname]
        iso = make_iso(p, al.simple_lang(p, 2.5, 30.0))
        st = iso_state(iso)
        for lim in (None, (0.05, 0.9), (0.06, 0.2), (0.5, 0.1)):
            show(f"area_langmuir {gname} lim={lim!r}", lambda: al.area_langmuir(iso, p_limits=lim))
        print(f"area_langmuir {gname} iso unchanged:", st == iso_state(iso))

# ------------------------------------------------------------------ t-plot
t_limit_sets = [
    None, (0.3, 0.8), (0.35, 0.5), [0.0, 10.0], (0.8, 0.3), (0.4, 0.4), (5.0, 6.0), (0.3, None), (None, 0.8), (0.3, ),
    (0.3, 0.8, 1.0), "ab", 0.5, (numpy.nan, 1.0), (-numpy.inf, numpy.inf), numpy.array([0.3, 0.8]),
]
if "tplot" in FOCUS:
    print("==== t-plot")
    for mname in ("Halsey", "Harkins/Jura"):
        t_model = get_thickness_model(mname)
        for gname in ("lin25", "lin60", "coarse6", "three", "two", "one", "random"):
            p = grids[gname]
            t = t_model(p)
            curves = {
                "line": 3.0 * t + 0.5,
                "origin": 2.0 * t,
                "flat": numpy.full(len(p), 4.0),
                "steep": 40.0 * t + 0.1,
                "negative": -2.0 * t + 5.0,
                "kink": numpy.where(t < numpy.median(t), 8.0 * t, 8.0 * numpy.median(t) + 1.0 * (t - numpy.median(t))),
                "noisy": (3.0 * t + 0.5) * (1 + 0.02 * rng.standard_normal(len(p))),
            }
            for cname, n in curves.items():
                for lim in t_limit_sets:
                    show(
                        f"t_plot_raw {mname} {gname} {cname} lim={lim!r}",
                        lambda: tp.t_plot_raw(n, p, t_model, 0.808, 28.0134, lim)
                    )
    t_model = get_thickness_model("Halsey")
    show("t_plot_raw empty", lambda: tp.t_plot_raw([], [], t_model, 0.808, 28.0134))
    show("t_plot_raw mismatch", lambda: tp.t_plot_raw([1.0], [0.1, 0.2], t_model, 0.808, 28.0134))
    show("t_plot_raw lists", lambda: tp.t_plot_raw([1.0, 2.0, 3.0, 4.0], [0.1, 0.2, 0.3, 0.4], t_model, 0.808, 28.0134, (0, 10)))
    show("t_plot_raw zero density", lambda: tp.t_plot_raw([1.0, 2.0, 3.0, 4.0], [0.1, 0.2, 0.3, 0.4], t_model, 0.0, 28.0134, (0, 10)))
    show("t_plot_raw model None", lambda: tp.t_plot_raw([1.0, 2.0, 3.0, 4.0], [0.1, 0.2, 0.3, 0.4], None, 0.8, 28.0134, (0, 10)))
    show("t_plot_raw nan", lambda: tp.t_plot_raw([1.0, numpy.nan, 3.0, 4.0], [0.1, 0.2, 0.3, 0.4], t_model, 0.8, 28.0134, (0, 10)))
    for sec in (slice(0, 3), slice(0, 1), slice(5, 5), numpy.array([0, 2, 4]), numpy.array([], dtype=int), [1, 2, 3], numpy.array([True, False] * 3)):
        tc = t_model(grids["coarse6"])
        for n in (3.0 * tc + 0.5, 50 * tc, numpy.zeros(6), -tc):
            show(f"t_plot_parameters sec={sec!r} n0={fmt(n[0])}", lambda: tp.t_plot_parameters(tc, n, sec, 28.0134, 0.808))
    for gname in ("lin25", "lin60", "three"):
        p = grids[gname]
        iso = make_iso(p, 3.0 * t_model(p) + 0.5)
        st = iso_state(iso)
        for lim in (None, (0.3, 0.8), (0.35, 0.5), (3, 4)):
            for model in ("Halsey", "Harkins/Jura", t_model, None, "bogus"):
                show(f"t_plot {gname} lim={lim!r} model={model if isinstance(model, (str, type(None))) else 'callable'}",
                     lambda: tp.t_plot(iso, thickness_model=model, t_limits=lim))
        print(f"t_plot {gname} iso unchanged:", st == iso_state(iso))

# ------------------------------------------------------------------ alpha-s
if "alphas" in FOCUS:
    print("==== alpha-s")
    for gname in ("lin25", "lin60", "coarse6", "three", "one"):
        p = grids[gname]
        ref = ab.simple_bet(p, 2.0, 100.0)
        for cname, n in {"self": ref, "scaled": 2.5 * ref, "offset": 1.5 * ref + 0.7, "steep": 60 * ref}.items():
            for lim in t_limit_sets:
                show(
                    f"alpha_s_raw {gname} {cname} lim={lim!r}",
                    lambda: als.alpha_s_raw(n, ref, ref[len(ref) // 2], 120.0, 0.808, 28.0134, lim)
                )
    show("alpha_s_raw empty", lambda: als.alpha_s_raw([], [], 1.0, 120.0, 0.808, 28.0134))
    show("alpha_s_raw mismatch", lambda: als.alpha_s_raw([1.0], [1.0, 2.0], 1.0, 120.0, 0.808, 28.0134))
    p = grids["lin25"]
    iso = make_iso(p, ab.simple_bet(p, 2.0, 100.0))
    ref_iso = make_iso(p, ab.simple_bet(p, 2.0, 100.0), material='reference')
    st = (iso_state(iso), iso_state(ref_iso))
    for ra in ("BET", "langmuir", 150.0, 150, "other", None):
        for lim in (None, (0.5, 1.5), (0.9, 1.0)):
            show(f"alpha_s self ref_area={ra!r} lim={lim!r}", lambda: als.alpha_s(iso, ref_iso, reference_area=ra, t_limits=lim))
    show("alpha_s no ref", lambda: als.alpha_s(iso, None))
    show("alpha_s red.p", lambda: als.alpha_s(iso, ref_iso, reducing_pressure=1.2))
    print("alpha_s isos unchanged:", st == (iso_state(iso), iso_state(ref_iso)))

# ------------------------------------------------------------------ DR / DA
if "dr" in FOCUS:
    print("==== DR/DA")
    R, T, M, rho = 8.314462618, 77.355, 28.0134, 0.808

    def da_loading(p, v0, e_kj, exp):
        return v0 * rho / M * numpy.exp(-((R * T / (e_kj * 1000) * numpy.log(1 / p))**exp))

    for gname in ("lin25", "lin60", "log40", "coarse6", "three", "two", "one", "random"):
        p = grids[gname]
        for v0, e_kj, gen_exp in [(0.3, 5.0, 2.0), (0.05, 12.0, 2.0), (0.3, 5.0, 1.5), (0.3, 5.0, 2.7), (1.0, 1.0, 3.0)]:
            n = da_loading(p, v0, e_kj, gen_exp)
            for exp in (None, 2, 2.0, gen_exp, 1, 3.5, 0.5, 0, -1, numpy.nan, "2"):
                for lim in (None, (0.05, 0.3), (None, 0.1), (1e-4, None), (0.3, 0.05), (0.2, 0.2), (0.05, 0.3, 1), (0.05, ), "ab"):
                    show(
                        f"da_plot_raw {gname} v0={v0} E={e_kj} n={gen_exp} exp={exp!r} lim={lim!r}",
                        lambda: dr.da_plot_raw(p, n, T, M, rho, exp, lim)
                    )
    show("da_plot_raw empty", lambda: dr.da_plot_raw([], [], T, M, rho))
    show("da_plot_raw mismatch", lambda: dr.da_plot_raw([0.1, 0.2, 0.3], [1.0], T, M, rho))
    show("da_plot_raw lists", lambda: dr.da_plot_raw([0.1, 0.2, 0.3, 0.4], [1.0, 1.2, 1.3, 1.35], T, M, rho))
    show("da_plot_raw lists exp2", lambda: dr.da_plot_raw([0.1, 0.2, 0.3, 0.4], [1.0, 1.2, 1.3, 1.35], T, M, rho, 2))
    show("da_plot_raw flat", lambda: dr.da_plot_raw([0.1, 0.2, 0.3, 0.4], [1.0, 1.0, 1.0, 1.0], T, M, rho))
    show("da_plot_raw zeros", lambda: dr.da_plot_raw([0.1, 0.2, 0.3, 0.4], [0.0, 0.0, 0.0, 0.0], T, M, rho))
    show("da_plot_raw p>1", lambda: dr.da_plot_raw([0.5, 1.0, 1.5, 2.0], [1.0, 1.2, 1.3, 1.35], T, M, rho))
    show("da_plot_raw p>1 exp2", lambda: dr.da_plot_raw([0.5, 1.0, 1.5, 2.0], [1.0, 1.2, 1.3, 1.35], T, M, rho, 2))
    show("da_plot_raw nan", lambda: dr.da_plot_raw([0.1, 0.2, numpy.nan, 0.4], [1.0, 1.2, 1.3, 1.35], T, M, rho))
    show("da_plot_raw T=0", lambda: dr.da_plot_raw([0.1, 0.2, 0.3, 0.4], [1.0, 1.2, 1.3, 1.35], 0, M, rho, 2))
    show("da_plot_raw rho=0", lambda: dr.da_plot_raw([0.1, 0.2, 0.3, 0.4], [1.0, 1.2, 1.3, 1.35], T, M, 0, 2))
    for gname in ("lin25", "log40", "three"):
        p = grids[gname]
        iso = make_iso(p, da_loading(p, 0.3, 6.0, 2.0) * 1000)
        st = iso_state(iso)
        for lim in (None, (0.01, 0.3), (None, 0.1), (0.3, 0.01)):
            show(f"dr_plot {gname} lim={lim!r}", lambda: dr.dr_plot(iso, p_limits=lim))
            for exp in (None, 2, 1.7, 0, -2):
                show(f"da_plot {gname} lim={lim!r} exp={exp!r}", lambda: dr.da_plot(iso, exp=exp, p_limits=lim))
        print(f"dr/da {gname} iso unchanged:", st == iso_state(iso))
