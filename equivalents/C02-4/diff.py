"""Differential script for change 4: BaseIsotherm.__init__ label checks and BaseIsotherm.convert_temperature."""
import itertools

import pygaps
from pygaps.core.baseisotherm import BaseIsotherm

from common import LABELS
from common import MATERIAL
from common import P
from common import L
from common import call
from common import case
from common import dump
from common import fmt
from common import fmt_exc
from common import make
from common import revalidate

n = 0

DEFAULT = dict(
    pressure_mode='absolute',
    pressure_unit='bar',
    loading_basis='molar',
    loading_unit='mmol',
    material_basis='mass',
    material_unit='g',
    temperature_unit='K',
)


def build(cls, labels, **extra):
    kw = dict(material=MATERIAL, adsorbate='N2', temperature=77.35, note='x')
    kw.update(labels)
    kw.update(extra)
    if cls is pygaps.PointIsotherm:
        kw.update(pressure=P, loading=L)
    try:
        iso = cls(**kw)
    except Exception as err:  # noqa
        print(f"  <- raised {fmt_exc(err)}")
        return None
    print("  <- built: " + ", ".join(f"{k}={getattr(iso, k)!r}" for k in LABELS))
    print(f"     _temperature={fmt(iso._temperature)} temperature={fmt(iso.temperature)} properties={fmt(iso.properties)}")
    print(f"     units={iso.units!r}")
    return iso


# 1. one label at a time replaced by a set of candidate values (valid, invalid, None, empty)
CANDIDATES = {
    'pressure_mode': ['absolute', 'relative', 'relative%', 'nomode', '', 'Absolute', 'relative_x'],
    'pressure_unit': ['bar', 'Pa', 'torr', 'nounit', None, '', 'BAR'],
    'loading_basis': ['molar', 'mass', 'volume_gas', 'volume_liquid', 'percent', 'fraction', 'volume', 'nobasis', None, ''],
    'loading_unit': ['mmol', 'g', 'cm3', 'cm3(STP)', 'nounit', None, ''],
    'material_basis': ['mass', 'volume', 'molar', 'volume_gas', 'percent', 'nobasis', None, ''],
    'material_unit': ['g', 'kg', 'cm3', 'mol', 'nounit', None, ''],
    'temperature_unit': ['K', '°C', 'C', 'degC', 'F', 'k', None, ''],
}
for key, values in CANDIDATES.items():
    for value in values:
        for cls in (BaseIsotherm, pygaps.PointIsotherm):
            n += 1
            case(n, f"{cls.__name__} with {key}={value!r}")
            labels = dict(DEFAULT)
            labels[key] = value
            build(cls, labels)

# 2. pairs of labels: every loading basis x unit, material basis x unit, pressure mode x unit
for lb, lu in itertools.product(CANDIDATES['loading_basis'], ['mmol', 'mg', 'L', None, 'nounit']):
    n += 1
    case(n, f"loading {lb!r}/{lu!r}")
    build(BaseIsotherm, dict(DEFAULT, loading_basis=lb, loading_unit=lu))
for mb, mu in itertools.product(CANDIDATES['material_basis'], ['g', 'cm3', 'mmol', None, 'nounit']):
    for lb, lu in [('molar', 'mmol'), ('mass', 'g'), ('volume_gas', 'cm3'), ('volume_liquid', 'cm3'), ('percent', None),
                   ('fraction', 'g')]:
        n += 1
        case(n, f"material {mb!r}/{mu!r} with loading {lb!r}/{lu!r}")
        build(BaseIsotherm, dict(DEFAULT, material_basis=mb, material_unit=mu, loading_basis=lb, loading_unit=lu))
for pm, pu in itertools.product(CANDIDATES['pressure_mode'], ['bar', 'mmHg', None, 'nounit']):
    n += 1
    case(n, f"pressure {pm!r}/{pu!r}")
    build(pygaps.PointIsotherm, dict(DEFAULT, pressure_mode=pm, pressure_unit=pu))

# 3. several labels wrong at once: which refusal comes first
for combo in [
    dict(pressure_mode='nomode', loading_basis='nobasis', material_basis='nobasis'),
    dict(loading_basis='nobasis', material_basis='nobasis', pressure_unit='nounit'),
    dict(material_basis='nobasis', pressure_unit='nounit', loading_unit='nounit'),
    dict(pressure_unit='nounit', loading_unit='nounit', material_unit='nounit', temperature_unit='F'),
    dict(loading_unit='nounit', material_unit='nounit', temperature_unit='F'),
    dict(material_unit='nounit', temperature_unit='F'),
    dict(loading_basis='percent', loading_unit='nounit', material_unit='nounit', temperature_unit='F'),
    dict(loading_basis='fraction', loading_unit='nounit', material_unit='nounit'),
    dict(pressure_mode='relative', pressure_unit='nounit', temperature_unit='F'),
    dict(pressure_mode=None),
    dict(pressure_mode=5),
]:
    n += 1
    case(n, f"several wrong {combo}")
    build(BaseIsotherm, dict(DEFAULT, **combo))

# 4. labels left out (defaults + warnings), shorthands, missing required parameters, model isotherm
for drop in [(), ('pressure_mode', ), ('pressure_unit', 'loading_unit'), ('temperature_unit', ), tuple(DEFAULT)]:
    n += 1
    case(n, f"left out {drop}")
    build(BaseIsotherm, {k: v for k, v in DEFAULT.items() if k not in drop})
n += 1
case(n, "shorthands m/a/t")
try:
    iso = BaseIsotherm(m='EqShort', a='N2', t=300, **DEFAULT)
    print(f"  <- built {iso.material!s} {iso.adsorbate!s} {fmt(iso.temperature)} {iso.units!r}")
except Exception as err:  # noqa
    print(f"  <- raised {fmt_exc(err)}")
for missing in ('material', 'adsorbate', 'temperature'):
    n += 1
    case(n, f"missing {missing}")
    kw = dict(material=MATERIAL, adsorbate='N2', temperature=77.35, **DEFAULT)
    kw.pop(missing)
    try:
        BaseIsotherm(**kw)
        print("  <- built")
    except Exception as err:  # noqa
        print(f"  <- raised {fmt_exc(err)}")
for labels in [dict(DEFAULT), dict(DEFAULT, pressure_mode='relative'), dict(DEFAULT, loading_basis='nobasis'),
               dict(DEFAULT, material_unit='nounit'), dict(DEFAULT, temperature_unit='°C'),
               dict(DEFAULT, temperature_unit='F')]:
    n += 1
    case(n, f"ModelIsotherm {labels}")
    try:
        iso = pygaps.ModelIsotherm(
            model='Henry',
            pressure=[0.1, 0.2, 0.3, 0.4],
            loading=[0.2, 0.4, 0.6, 0.8],
            material=MATERIAL,
            adsorbate='N2',
            temperature=77.35,
            **labels
        )
        print("  <- built: " + ", ".join(f"{k}={getattr(iso, k)!r}" for k in LABELS) + f" T={fmt(iso.temperature)}")
    except Exception as err:  # noqa
        print(f"  <- raised {fmt_exc(err)}")

# 5. convert_temperature: every start unit x many targets, verbose on/off
T_TARGETS = ['K', '°C', 'C', 'c', 'degC', 'Celsius', 'celsius', 'F', 'k', 'Kelvin', 'kc', '', None, 5, 'K ', ' °C']
for (tu, temp), target, verbose in itertools.product([('K', 77.35), ('K', 0.0), ('°C', -195.8), ('°C', 25.0)], T_TARGETS,
                                                     (False, True)):
    n += 1
    case(n, f"convert_temperature start={tu}/{temp} target={target!r} verbose={verbose}")
    iso = make(tu=tu, temp=temp)
    call(iso, 'convert_temperature', target, verbose=verbose)
    dump(iso)
    revalidate(iso)
for cls in (BaseIsotherm, ):
    for target in T_TARGETS:
        n += 1
        case(n, f"BaseIsotherm.convert_temperature target={target!r}")
        iso = cls(material=MATERIAL, adsorbate='N2', temperature=300, **DEFAULT)
        call(iso, 'convert_temperature', unit_to=target)
        print(f"  unit={iso.temperature_unit!r} _temperature={fmt(iso._temperature)} temperature={fmt(iso.temperature)}")

# 6. hand-set temperature unit before converting
for tu, target in itertools.product(['F', None, '', 'C', 'degC', 'k'], ['K', '°C', 'C', 'F', None]):
    n += 1
    case(n, f"hand-set temperature_unit={tu!r} target={target!r}")
    iso = make()
    iso.temperature_unit = tu
    call(iso, 'convert_temperature', target, True)
    dump(iso)

# 7. temperature histories, mixed with the other conversions
CHAINS = [
    ['°C', 'K', 'C', 'degC', 'K', 'K', 'F', 'celsius', 'K'],
    ['C', 'C', '°C', None, 'K'],
]
for chain in CHAINS:
    n += 1
    case(n, f"temperature chain {chain}")
    iso = make()
    for i, target in enumerate(chain):
        call(iso, 'convert_temperature', target)
        dump(iso, tag=f"step{i}")
    revalidate(iso)
n += 1
case(n, "temperature mixed with other conversions")
iso = make()
for i, (name, kw) in enumerate([
    ('convert_temperature', dict(unit_to='C')),
    ('convert_pressure', dict(mode_to='relative')),
    ('convert_loading', dict(basis_to='volume_liquid', unit_to='cm3')),
    ('convert_temperature', dict(unit_to='K')),
    ('convert_material', dict(basis_to='volume', unit_to='cm3')),
    ('convert_temperature', dict(unit_to='degC')),
    ('convert', dict(pressure_mode='absolute', pressure_unit='bar', loading_basis='molar', loading_unit='mmol',
                     material_basis='mass', material_unit='g')),
    ('convert_temperature', dict(unit_to='K')),
]):
    call(iso, name, **kw)
    dump(iso, tag=f"step{i}")
revalidate(iso)

print(f"total cases: {n}")
