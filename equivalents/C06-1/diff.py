"""Differential script for change 1: pygaps.parsing.json.isotherm_to_json."""
import json
import os
import shutil

import numpy

import eqlib
from eqlib import run
from pygaps.parsing.json import isotherm_to_json

eqlib.setup_materials()
tmpdir = os.path.join(os.path.dirname(os.path.abspath(__file__)), 'tmp_d1')
shutil.rmtree(tmpdir, ignore_errors=True)
os.makedirs(tmpdir)


def to_file(iso, name, **kw):
    path = os.path.join(tmpdir, name)
    ret = isotherm_to_json(iso, path, **kw)
    with open(path, 'rb') as f:
        raw = f.read()
    return f"ret={ret!r} bytes={raw!r}"


# 1. every isotherm in the catalogue: to a string, to a file, through the method
for n, (label, factory) in enumerate(eqlib.iso_catalogue()):
    run(f"to_json str | {label}", lambda f=factory: isotherm_to_json(f()))
    run(f"to_json file | {label}", lambda f=factory, n=n: to_file(f(), f"iso{n}.json"))
    run(f"iso.to_json() | {label}", lambda f=factory: f().to_json())


# 2. the source isotherm is not modified by the export, and exporting twice is stable
def export_twice(factory):
    iso = factory()
    before = eqlib.canon_iso(iso)
    one = isotherm_to_json(iso)
    two = isotherm_to_json(iso)
    after = eqlib.canon_iso(iso)
    return f"same_text={one == two} untouched={before == after}\n{after}"


for label, factory in eqlib.iso_catalogue()[::5]:
    run(f"export twice | {label}", lambda f=factory: export_twice(f))

# 3. json arguments
pt = lambda: eqlib.make_point(data='extra_text', meta='unicode', material='dict_props')
run("kw indent=2", lambda: isotherm_to_json(pt(), indent=2))
run("kw indent=0 separators", lambda: isotherm_to_json(pt(), indent=0, separators=(',', ':')))
run("kw ensure_ascii=False", lambda: isotherm_to_json(pt(), ensure_ascii=False))
run("kw sort_keys=False is overridden", lambda: isotherm_to_json(pt(), sort_keys=False))
run("kw allow_nan=False on nan data", lambda: isotherm_to_json(eqlib.make_point(data='nan_vals'), allow_nan=False))
run("kw allow_nan=False on clean data", lambda: isotherm_to_json(eqlib.make_point(data='both'), allow_nan=False))
run("kw default=str", lambda: isotherm_to_json(eqlib.make_base(meta='plain'), default=str))
run("kw bogus keyword", lambda: isotherm_to_json(eqlib.make_base(), bogus=1))
run("kw file indent=4 ensure_ascii=False", lambda: to_file(pt(), "kw.json", indent=4, ensure_ascii=False))
run("kw file bogus keyword", lambda: to_file(pt(), "kwbogus.json", bogus=1))


class RawOrderEncoder(json.JSONEncoder):
    """An encoder that shows the document exactly as it was handed over (key order included)."""
    def encode(self, o):
        return f"sort_keys={self.sort_keys} " + eqlib.canon(o)

    def iterencode(self, o, _one_shot=False):
        yield self.encode(o)


for data in ('both', 'extra_text', 'with_branch', 'odd_marks', 'empty'):
    run(f"kw cls=RawOrderEncoder str | {data}", lambda d=data: isotherm_to_json(eqlib.make_point(data=d, meta='oddkeys'), cls=RawOrderEncoder))
run("kw cls=RawOrderEncoder file", lambda: to_file(pt(), "raw.json", cls=RawOrderEncoder))
run("kw cls=RawOrderEncoder model", lambda: isotherm_to_json(eqlib.make_modeliso(meta='typed'), cls=RawOrderEncoder))
run("method kwargs", lambda: pt().to_json(indent=1))
run("method path", lambda: (pt().to_json(os.path.join(tmpdir, 'm.json')), open(os.path.join(tmpdir, 'm.json')).read()))

# 4. path variants
run("path=None", lambda: isotherm_to_json(eqlib.make_base(), None))
run("path='' (falsy: string returned)", lambda: isotherm_to_json(eqlib.make_base(), ''))
run("path=0 (falsy: string returned)", lambda: isotherm_to_json(eqlib.make_base(), 0))
run("path=pathlib", lambda: to_file(eqlib.make_base(), __import__('pathlib').Path(tmpdir) / 'pl.json'))
run("path in missing directory", lambda: isotherm_to_json(eqlib.make_base(), os.path.join(tmpdir, 'nodir', 'x.json')))
run("path is a directory", lambda: type(isotherm_to_json(eqlib.make_base(), tmpdir)).__name__)
run("path overwrite existing longer file", lambda: (to_file(pt(), "ow.json"), to_file(eqlib.make_base(), "ow.json")))


# 5. error paths / unusual states
def unserialisable():
    iso = eqlib.make_base()
    iso.properties['obj'] = object
    return isotherm_to_json(iso)


def unserialisable_file():
    iso = eqlib.make_base()
    iso.properties['arr'] = numpy.array([1, 2])
    return to_file(iso, "bad.json")


def no_branch_column():
    iso = eqlib.make_point()
    iso.data_raw = iso.data_raw.drop(columns='branch')
    return isotherm_to_json(iso)


def float_branch_column():
    iso = eqlib.make_point()
    iso.data_raw['branch'] = iso.data_raw['branch'].astype(float)
    return isotherm_to_json(iso)


def nan_branch_column():
    iso = eqlib.make_point()
    col = iso.data_raw['branch'].astype(float)
    col.iloc[1] = float('nan')
    iso.data_raw['branch'] = col
    return isotherm_to_json(iso)


def bool_branch_column():
    iso = eqlib.make_point()
    iso.data_raw['branch'] = iso.data_raw['branch'].astype(bool)
    return isotherm_to_json(iso)


def text_branch_column():
    iso = eqlib.make_point(data='two')
    iso.data_raw['branch'] = ['ads', 'des']
    return isotherm_to_json(iso)


def duplicated_index():
    iso = eqlib.make_point(data='two')
    iso.data_raw.index = [0, 0]
    return isotherm_to_json(iso)


def numpy_metadata():
    iso = eqlib.make_base()
    iso.properties['np'] = numpy.float64(1.5)
    return isotherm_to_json(iso)


def meta_named_like_payload():
    iso = eqlib.make_point(data='two')
    iso.properties['isotherm_data'] = 'user text'
    iso.properties['file_version'] = 'user version'
    iso.properties['branch'] = 'user branch'
    return isotherm_to_json(iso)


def meta_named_like_model():
    iso = eqlib.make_modeliso()
    iso.properties['isotherm_model'] = 'user text'
    return isotherm_to_json(iso)


def not_an_isotherm():
    return isotherm_to_json("text")


def dict_like():
    class Fake:
        def to_dict(self):
            return {'b': 1, 'a': [1, 2]}

    return isotherm_to_json(Fake())


for fn in (
    unserialisable, unserialisable_file, no_branch_column, float_branch_column, nan_branch_column, bool_branch_column,
    text_branch_column, duplicated_index, numpy_metadata, meta_named_like_payload, meta_named_like_model, not_an_isotherm,
    dict_like
):
    run(f"state {fn.__name__}", fn)

# 6. decoded documents: row dictionaries and branch marks
for data in list(eqlib.POINT_DATA) + eqlib.FRAME_KINDS:

    def rows(d=data):
        doc = json.loads(isotherm_to_json(eqlib.make_point(data=d)))
        return {'branch': doc.get('branch', '<absent>'), 'rows': doc['isotherm_data']}

    run(f"decoded rows | {data}", rows)

shutil.rmtree(tmpdir, ignore_errors=True)
