"""Differential script for change 3: saturated-state helper used by the density / surface tension methods."""
import io
import logging
import math

import pygaps
from pygaps import ADSORBATE_LIST
from pygaps.core.adsorbate import Adsorbate
from pygaps.units.converter_unit import _PRESSURE_UNITS

LOG = io.StringIO()
_h = logging.StreamHandler(LOG)
_h.setLevel(logging.DEBUG)
logging.getLogger('pygaps').addHandler(_h)
# keep stdout for our own canonical text only
for h in list(logging.getLogger('pygaps').handlers):
    if h is not _h:
        logging.getLogger('pygaps').removeHandler(h)


def canon(v):
    if isinstance(v, bool) or v is None:
        return repr(v)
    if isinstance(v, (int, float)):
        return f"{v:.12g}"
    if isinstance(v, (list, tuple)):
        return "[" + ", ".join(canon(x) for x in v) + "]"
    return repr(v)


def call(func, *args, **kwargs):
    LOG.seek(0)
    LOG.truncate()
    try:
        out = canon(func(*args, **kwargs))
    except BaseException as err:  # noqa
        out = f"EXC {type(err).__name__}: {err}"
        if err.__cause__ is not None:
            out += f" <- {type(err.__cause__).__name__}"
    log = LOG.getvalue().strip().replace("\n", " | ")
    return out + (f"  [log: {log}]" if log else "")


METHODS = ["liquid_density", "liquid_molar_density", "gas_density", "gas_molar_density", "surface_tension"]

backed = [a for a in ADSORBATE_LIST if a.properties.get("backend_name")]
unbacked = [a for a in ADSORBATE_LIST if not a.properties.get("backend_name")]
print("backed", len(backed), "unbacked", len(unbacked))

print("# all backend-linked adsorbates across the subcritical range (and just outside)")
FRACTIONS = [-0.05, 0.0, 0.02, 0.25, 0.5, 0.75, 0.98, 1.0, 1.05]
for ads in backed:
    tt = ads.t_triple()
    tc = ads.t_critical()
    mm = ads.molar_mass()
    print(f"## {ads.name!r} backend={ads.backend_name!r} Tt={canon(tt)} Tc={canon(tc)} M={canon(mm)}")
    for frac in FRACTIONS:
        temp = tt + frac * (tc - tt)
        for meth in METHODS:
            print(f"{ads.name}.{meth}(f={frac}) -> {call(getattr(ads, meth), temp)}")
        # the state object must be left at the last requested point
        print(f"{ads.name}.state(f={frac}) -> {call(lambda: (ads.backend.T(), ads.backend.Q()))}")
    # consistency the property talks about
    temp = tt + 0.5 * (tc - tt)
    print(
        f"{ads.name}.consistency -> "
        f"{canon(ads.liquid_density(temp) - ads.liquid_molar_density(temp) * mm)} "
        f"{canon(ads.gas_density(temp) - ads.gas_molar_density(temp) * mm)}"
    )

print("# odd temperatures on a few fluids")
ODD = [0, 0.0, -10, 1e-9, 1e9, float("nan"), float("inf"), None, "77", [77.0], True, 77, 77.344]
for name in ["nitrogen", "argon", "carbon dioxide", "water", "helium"]:
    ads = Adsorbate.find(name)
    for temp in ODD:
        for meth in METHODS:
            print(f"{name}.{meth}({temp!r}) -> {call(getattr(ads, meth), temp)}")
            print(f"{name}.{meth}({temp!r}, calculate=False) -> {call(getattr(ads, meth), temp, calculate=False)}")
            print(f"{name}.{meth}({temp!r}, False) -> {call(getattr(ads, meth), temp, False)}")

print("# keyword spelling / missing arguments")
n2 = Adsorbate.find("N2")
for meth in METHODS:
    print(f"kw {meth} -> {call(getattr(n2, meth), temp=77.0, calculate=True)}")
    print(f"noarg {meth} -> {call(getattr(n2, meth))}")

print("# adsorbates without a backend")
for ads in unbacked:
    for meth in METHODS:
        print(f"{ads.name}.{meth}(300) -> {call(getattr(ads, meth), 300)}")

print("# user-made adsorbates: fallbacks, partial properties, bad backend")
USER = {
    "full-user": dict(
        liquid_density=0.8, liquid_molar_density=0.03, gas_density=0.005, gas_molar_density=0.0002, surface_tension=8.9
    ),
    "partial-user": dict(liquid_density=0.8, surface_tension=0),
    "none-values": dict(liquid_density=None, gas_density=None),
    "bad-backend": dict(backend_name="NoSuchFluid", liquid_density=1.23, gas_molar_density=4.5e-5),
    "bad-backend-empty": dict(backend_name="NoSuchFluid"),
    "empty-backend-name": dict(backend_name="", gas_density=2.0),
    "good-backend+user": dict(
        backend_name="Nitrogen", liquid_density=111.0, liquid_molar_density=222.0, gas_density=333.0,
        gas_molar_density=444.0, surface_tension=555.0
    ),
    "string-props": dict(liquid_density="0.8", surface_tension="x"),
}
for label, props in USER.items():
    ads = Adsorbate(label, **props)
    for temp in [77.344, 10.0, 500.0, None]:
        for meth in METHODS:
            print(f"{label}.{meth}({temp!r}) -> {call(getattr(ads, meth), temp)}")
            print(f"{label}.{meth}({temp!r}, calculate=False) -> {call(getattr(ads, meth), temp, calculate=False)}")

print("# backend object bookkeeping")
fresh = Adsorbate("fresh-n2", backend_name="Nitrogen")
print("before", fresh._state, fresh._backend_mode)
print("ld", call(fresh.liquid_density, 77.344))
state = fresh._state
print("mode", fresh._backend_mode, "state kept", fresh.backend is state)
print("gd", call(fresh.gas_density, 77.344), "same state", fresh._state is state, canon(state.Q()))
print("st", call(fresh.surface_tension, 90.0), "same state", fresh._state is state, canon(state.T()), canon(state.Q()))
print("fail", call(fresh.liquid_molar_density, 1000.0), "same state", fresh._state is state)

print("# neighbours that share the state: saturation pressure in every unit, enthalpy")
for name in ["nitrogen", "carbon dioxide", "n-butane"]:
    ads = Adsorbate.find(name)
    tt, tc = ads.t_triple(), ads.t_critical()
    for frac in [0.1, 0.6]:
        temp = tt + frac * (tc - tt)
        print(f"{name}.ld -> {call(ads.liquid_density, temp)}")
        for unit in [None] + list(_PRESSURE_UNITS) + ["bad-unit"]:
            print(f"{name}.psat({frac}, {unit!r}) -> {call(ads.saturation_pressure, temp, unit)}")
        print(f"{name}.gmd -> {call(ads.gas_molar_density, temp)}")
        print(f"{name}.hvap -> {call(ads.enthalpy_vaporisation, temp)}")

print("# consumers elsewhere in the library")
iso = pygaps.PointIsotherm(
    pressure=[0.1, 0.5, 1.0],
    loading=[1.0, 2.0, 3.0],
    material="m",
    adsorbate="nitrogen",
    temperature=77.344,
    pressure_mode='absolute',
    pressure_unit='bar',
    material_basis='mass',
    material_unit='g',
    loading_basis='molar',
    loading_unit='mmol',
    temperature_unit='K',
)
for basis, unit in [("volume_liquid", "cm3"), ("volume_gas", "cm3(STP)"), ("mass", "g"), ("percent", None),
                    ("fraction", None)]:
    def conv(basis=basis, unit=unit):
        iso.convert_loading(basis_to=basis, unit_to=unit)
        return list(iso.loading())
    print(f"convert_loading {basis} -> {call(conv)}")
print("relative pressure ->", call(lambda: (iso.convert_pressure(mode_to="relative"), list(iso.pressure()))[1]))
