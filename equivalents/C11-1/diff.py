"""Differential script for change 1: PointIsotherm.spreading_pressure_at."""
import itertools
import logging
import os
import warnings

import numpy

import pygaps

warnings.simplefilter("ignore")
logging.disable(logging.CRITICAL)

# 12 significant digits by default; EQ_DIGITS=17 compares bit for bit
DIGITS = int(os.environ.get("EQ_DIGITS", "12"))


def fmt(v):
    """Canonical text of a result, 12 significant digits."""
    if isinstance(v, (list, tuple)):
        return "[" + ", ".join(fmt(x) for x in v) + "]"
    if isinstance(v, numpy.ndarray):
        return f"ndarray{v.shape}" + fmt(v.ravel().tolist())
    if isinstance(v, (float, numpy.floating)):
        return f"{type(v).__name__}:{float(v):.{DIGITS}g}"
    if isinstance(v, (int, numpy.integer)):
        return f"{type(v).__name__}:{int(v)}"
    return f"{type(v).__name__}:{v!r}"


def run(label, func, *args, **kwargs):
    try:
        res = fmt(func(*args, **kwargs))
    except Exception as e:  # noqa
        res = f"EXC {type(e).__name__}: {' '.join(str(e).split())}"
    print(f"{label} -> {res}")


pygaps.ADSORBATE_LIST.append(
    pygaps.Adsorbate(
        'TA',
        backend_name='NITROGEN',
        molar_mass=28.01348,
        saturation_pressure=101325.0,
        liquid_density=0.806,
        gas_density=0.00461214,
    )
)
pygaps.MATERIAL_LIST.append(pygaps.Material('TEST', density=2.0, molar_mass=10.0))

UNITS = dict(
    material='TEST',
    adsorbate='TA',
    temperature=100.0,
    temperature_unit='K',
    pressure_mode='absolute',
    pressure_unit='bar',
    loading_basis='molar',
    loading_unit='mmol',
    material_basis='mass',
    material_unit='g',
)

rng = numpy.random.default_rng(20240611)

ISOTHERMS = {}
ISOTHERMS['lin'] = dict(pressure=[1.0, 2.0, 3.0, 4.0, 5.0, 6.0], loading=[1.0, 2.0, 3.0, 4.0, 5.0, 6.0])
ISOTHERMS['lang'] = dict(
    pressure=[0.01, 0.05, 0.1, 0.5, 1.0, 2.0, 5.0, 10.0],
    loading=[5 * 3 * p / (1 + 3 * p) for p in [0.01, 0.05, 0.1, 0.5, 1.0, 2.0, 5.0, 10.0]],
)
ISOTHERMS['two'] = dict(pressure=[0.5, 7.5], loading=[0.25, 3.0])
ISOTHERMS['one'] = dict(pressure=[2.0], loading=[1.5])
ISOTHERMS['plateau'] = dict(pressure=[0.1, 0.2, 0.4, 0.8, 1.6], loading=[1.0, 2.0, 2.0, 2.0, 2.0])
ISOTHERMS['hyst'] = dict(
    pressure=[1.0, 2.0, 3.0, 4.0, 5.0, 6.0, 4.5, 2.5, 1.2],
    loading=[1.0, 2.5, 3.5, 4.0, 4.3, 4.5, 4.4, 4.0, 2.0],
)
p_r = numpy.cumsum(rng.uniform(0.01, 2.0, size=15))
l_r = numpy.cumsum(rng.uniform(0.0, 1.0, size=15))
ISOTHERMS['random'] = dict(pressure=p_r.tolist(), loading=l_r.tolist())
ISOTHERMS['intdata'] = dict(pressure=[1, 2, 3, 4, 6], loading=[1, 3, 4, 5, 6])
ISOTHERMS['zero_first_loading'] = dict(pressure=[0.5, 1.0, 2.0, 3.0], loading=[0.0, 1.0, 1.5, 1.75])

built = {}
for name, data in ISOTHERMS.items():
    try:
        built[name] = pygaps.PointIsotherm(**data, **UNITS)
    except Exception as e:  # noqa
        print(f"BUILD {name} EXC {type(e).__name__}: {e}")

# a relative-mode isotherm as well
built['rel'] = pygaps.PointIsotherm(
    pressure=[0.01, 0.05, 0.1, 0.3, 0.6, 0.9],
    loading=[0.5, 1.5, 2.0, 2.6, 3.0, 3.2],
    **{
        **UNITS, 'pressure_mode': 'relative',
        'pressure_unit': None
    },
)

# 1. plain queries in internal units: below, inside, on points, at the edge, above
for name, iso in built.items():
    ps = iso.pressure(branch='ads')
    queries = [0.0, ps[0] / 10, ps[0] / 2, ps[0], float(numpy.nextafter(ps[0], numpy.inf))]
    for a, b in itertools.pairwise(ps):
        queries += [0.25 * a + 0.75 * b, b]
    queries += [ps.max(), float(numpy.nextafter(ps.max(), 0)), ps.max() * 1.0001, ps.max() * 3]
    for q in queries:
        run(f"[{name}] p={fmt(q)}", iso.spreading_pressure_at, q)
    # extrapolation
    for fill in (0.0, float(iso.loading(branch='ads')[-1]), 'extrapolate', (0.0, 9.0)):
        for q in (ps.max() * 1.5, ps.max() * 4, ps[0] / 3, 0.5 * (ps[0] + ps[-1])):
            run(f"[{name}] p={fmt(q)} fill={fill!r}", iso.spreading_pressure_at, q, interp_fill=fill)
    # odd inputs
    for q in (-1.0, float('nan'), float('inf'), numpy.array([ps[0] * 1.5]), numpy.array([ps[0] / 2]),
              numpy.array([ps[0], ps[-1]]), [ps[0] * 1.5], None, "1"):
        run(f"[{name}] odd p={q!r}", iso.spreading_pressure_at, q)
    run(f"[{name}] odd array+fill", iso.spreading_pressure_at, numpy.array([ps[0], ps[-1]]), interp_fill=1.0)

# 2. branches
for q in (0.5, 1.1, 1.2, 2.0, 2.5, 3.3, 4.5, 5.9, 6.0, 6.5):
    for br in ('ads', 'des', 'all', 'bad', None):
        run(f"[hyst] branch={br!r} p={q}", built['hyst'].spreading_pressure_at, q, branch=br)
run("[lin] branch=des (no desorption data)", built['lin'].spreading_pressure_at, 2.5, branch='des')
run("[lin] branch=des (no desorption data) fill", built['lin'].spreading_pressure_at, 2.5, branch='des', interp_fill=1.0)
run("[two] array of data length + fill", built['two'].spreading_pressure_at, numpy.array([1.0, 9.0]), interp_fill=1.0)
run("[two] array of data length + fill", built['two'].spreading_pressure_at, numpy.array([0.1, 0.2]), interp_fill=1.0)

# 3. units and modes of the pressure argument
P_ARGS = [
    dict(pressure_unit='kPa'),
    dict(pressure_unit='Pa'),
    dict(pressure_unit='torr'),
    dict(pressure_unit='bar', pressure_mode='absolute'),
    dict(pressure_mode='relative'),
    dict(pressure_mode='relative%'),
    dict(pressure_mode='relative', pressure_unit='kPa'),
    dict(pressure_mode='absolute'),
    dict(pressure_unit='bad'),
    dict(pressure_mode='bad'),
]
for name in ('lang', 'random', 'rel', 'two'):
    iso = built[name]
    for kw in P_ARGS:
        try:
            ps = iso.pressure(branch='ads', **kw)
        except Exception as e:  # noqa
            run(f"[{name}] {kw}", iso.spreading_pressure_at, 1.0, **kw)
            continue
        for q in (ps[0] * 0.3, ps[0], 0.4 * ps[0] + 0.6 * ps[1], ps[-1] * 0.77, ps[-1], ps[-1] * 1.2):
            run(f"[{name}] {kw} p={fmt(q)}", iso.spreading_pressure_at, q, **kw)

# 4. units and bases of the loading / material
L_ARGS = [
    dict(loading_unit='mol'),
    dict(loading_basis='mass', loading_unit='g'),
    dict(loading_basis='volume_gas', loading_unit='cm3'),
    dict(loading_basis='volume_liquid', loading_unit='cm3'),
    dict(loading_basis='percent', material_basis='mass', material_unit='g'),
    dict(loading_basis='fraction'),
    dict(material_unit='kg'),
    dict(material_basis='volume', material_unit='cm3'),
    dict(material_basis='molar', material_unit='mmol'),
    dict(loading_basis='mass', loading_unit='mg', material_basis='volume', material_unit='cm3'),
    dict(loading_unit='bad'),
    dict(material_basis='bad'),
]
for name in ('lang', 'hyst'):
    iso = built[name]
    for kw in L_ARGS:
        for extra in ({}, dict(pressure_unit='kPa'), dict(pressure_mode='relative%')):
            allkw = {**kw, **extra}
            try:
                ps = iso.pressure(branch='ads', **extra)
            except Exception:  # noqa
                ps = numpy.array([1.0, 2.0])
            for q in (ps[0] * 0.5, 0.5 * (ps[0] + ps[1]), ps[2], ps.max()):
                run(f"[{name}] {allkw} p={fmt(q)}", iso.spreading_pressure_at, q, **allkw)
            run(
                f"[{name}] {allkw} p=1.3max fill", iso.spreading_pressure_at, ps.max() * 1.3, interp_fill='extrapolate',
                **allkw
            )

# 5. additivity / monotony fingerprints on a dense grid
for name in ('lang', 'random', 'plateau', 'zero_first_loading'):
    iso = built[name]
    ps = iso.pressure(branch='ads')
    grid = numpy.linspace(ps[0] / 20, ps.max(), 57)
    vals = [iso.spreading_pressure_at(float(g)) for g in grid]
    print(f"[{name}] grid -> {fmt(vals)}")
