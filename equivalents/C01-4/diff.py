"""Differential script for change 4: Adsorbate saturated-state helper."""
import itertools
import warnings

import numpy as np

import pygaps
from pygaps.core.adsorbate import Adsorbate
from pygaps.units.converter_mode import c_loading
from pygaps.units.converter_mode import c_pressure
from pygaps.utilities.coolprop_utilities import CP
from pygaps.utilities.coolprop_utilities import thermodynamic_backend

warnings.simplefilter("ignore")


def canon(x):
    if isinstance(x, np.ndarray):
        return f"ndarray(dtype={x.dtype}, shape={x.shape}, values={[repr(v) for v in x.ravel().tolist()]})"
    if isinstance(x, (float, np.floating)):
        return f"{type(x).__name__}:{float(x)!r}"
    return f"{type(x).__name__}:{x!r}"


def run(label, func, *args, **kwargs):
    try:
        res = func(*args, **kwargs)
        print(f"{label} -> {canon(res)}")
    except BaseException as err:  # noqa
        print(f"{label} !! {type(err).__name__}: {err} || cause={type(err.__cause__).__name__}: {err.__cause__}")


class FakeState:
    """Stand-in for the CoolProp AbstractState which records all calls."""
    def __init__(self, fail=()):
        self.calls = []
        self.fail = fail
        self.quality = None
        self.temp = None

    def _rec(self, name, *args):
        self.calls.append((name, ) + args)
        if name in self.fail:
            raise RuntimeError(f"fake failure in {name}")

    def update(self, inputs, q, t):
        self._rec("update", inputs, q, t)
        self.quality, self.temp = q, t

    def p(self):
        self._rec("p")
        return 1000.0 * self.temp + self.quality

    def rhomass(self):
        self._rec("rhomass")
        return (808.0 if self.quality == 0.0 else 4.6) + self.temp / 7

    def rhomolar(self):
        self._rec("rhomolar")
        return (28800.0 if self.quality == 0.0 else 164.0) + self.temp / 3

    def surface_tension(self):
        self._rec("surface_tension")
        return 0.0088 + self.temp / 1e5

    def molar_mass(self):
        self._rec("molar_mass")
        return 0.02801348


def with_fake(fail=(), **props):
    ads = Adsorbate("eq_fake", backend_name="nitrogen", **props)
    ads._state = FakeState(fail=fail)
    ads._backend_mode = thermodynamic_backend()
    return ads


TEMP_METHODS = [
    "saturation_pressure", "pressure_saturation", "surface_tension", "liquid_density", "liquid_molar_density",
    "gas_density", "gas_molar_density"
]
UNITS = [None, "Pa", "kPa", "MPa", "mbar", "bar", "atm", "mmHg", "torr"]

REAL = [
    ("nitrogen", [63.151, 70.0, 77.355, 100.0, 126.19]),
    ("carbon dioxide", [216.592, 250.0, 273.15, 304.12]),
    ("water", [273.16, 298.15, 373.15, 600.0, 647.09]),
    ("argon", [83.8058, 87.3, 150.0]),
    ("methane", [90.7, 111.5, 190.0]),
    ("butane", [135.0, 273.15, 298.15, 425.0]),
    ("hydrogen", [13.96, 20.0, 33.0]),
    ("helium", [2.18, 4.2, 5.19]),
    ("ethanol", [160.0, 298.15, 500.0]),
    ("benzene", [278.7, 298.15, 350.0, 562.0]),
]

print("# section 1: real fluids over their saturation range, all methods")
for name, temps in REAL:
    ads = Adsorbate.find(name)
    run(f"S1 {name} molar_mass", ads.molar_mass)
    run(f"S1 {name} t_triple", ads.t_triple)
    run(f"S1 {name} t_critical", ads.t_critical)
    for temp in temps:
        for meth in TEMP_METHODS:
            run(f"S1 {name} {meth}({temp})", getattr(ads, meth), temp)
        for unit in UNITS:
            run(f"S1 {name} saturation_pressure({temp}, {unit!r})", ads.saturation_pressure, temp, unit)
            run(f"S1 {name} pressure_saturation({temp}, unit={unit!r})", ads.pressure_saturation, temp, unit=unit)
    # interleaving of liquid / gas calls on the shared state object
    t = temps[1]
    for m1, m2 in itertools.permutations(TEMP_METHODS[2:], 2):
        a = getattr(ads, m1)(t)
        b = getattr(ads, m2)(t)
        c = getattr(ads, m1)(t)
        print(f"S1 {name} interleave {m1},{m2} {a!r} {b!r} {c!r}")

print("# section 2: temperatures outside the range, odd arguments, bad units")
n2 = Adsorbate.find("nitrogen")
for temp in [0, 0.0, 1.0, 63.0, 126.2, 300.0, 1e6, -10.0, float("nan"), float("inf"), None, "77", np.float64(77.0),
             np.array([77.0]), [77.0]]:
    for meth in TEMP_METHODS:
        run(f"S2 nitrogen {meth}({temp!r})", getattr(n2, meth), temp)
for unit in ["", "bad", "BAR", 0, "K"]:
    run(f"S2 saturation_pressure(77, {unit!r})", n2.saturation_pressure, 77.0, unit)
    run(f"S2 saturation_pressure(77, {unit!r}, False)", n2.saturation_pressure, 77.0, unit, False)
    run(f"S2 saturation_pressure(500, {unit!r})", n2.saturation_pressure, 500.0, unit)

print("# section 3: calculate=False and dictionary fallback")
full = dict(
    saturation_pressure=101000.0, surface_tension=8.9, liquid_density=0.807, liquid_molar_density=0.0288,
    gas_density=0.0046, gas_molar_density=1.64e-4, molar_mass=28.0
)
cases = [
    ("nobackend_full", Adsorbate("eq_full", **full)),
    ("nobackend_empty", Adsorbate("eq_empty")),
    ("badbackend_full", Adsorbate("eq_bad", backend_name="not_a_fluid", **full)),
    ("badbackend_empty", Adsorbate("eq_bad2", backend_name="not_a_fluid")),
    ("realbackend_full", Adsorbate("eq_real", backend_name="nitrogen", **full)),
    ("realbackend_strprops", Adsorbate("eq_real2", backend_name="nitrogen", saturation_pressure="12", gas_density="x")),
]
for cname, ads in cases:
    for meth in TEMP_METHODS:
        for temp in [77.0, 500.0]:
            run(f"S3 {cname} {meth}({temp})", getattr(ads, meth), temp)
            run(f"S3 {cname} {meth}({temp}, calculate=False)", getattr(ads, meth), temp, calculate=False)
    for unit in UNITS + ["bad"]:
        for calc in [True, False, 0, 1, None]:
            run(f"S3 {cname} saturation_pressure(500, {unit!r}, {calc!r})", ads.saturation_pressure, 500.0, unit, calc)
            run(f"S3 {cname} pressure_saturation(77, {unit!r}, {calc!r})", ads.pressure_saturation, 77.0, unit, calc)

print("# section 4: exact calls made on the backend state")
for meth in TEMP_METHODS:
    for temp in [77.0, 0.0, None, "x"]:
        ads = with_fake(**full)
        run(f"S4 {meth}({temp!r})", getattr(ads, meth), temp)
        print(f"   calls={ads._state.calls!r}")
        run(f"S4 {meth}({temp!r}, calculate=False)", getattr(ads, meth), temp, calculate=False)
        print(f"   calls={ads._state.calls!r}")
for fail in [("update", ), ("p", ), ("rhomass", ), ("rhomolar", ), ("surface_tension", ), ("update", "p")]:
    for props in [full, {}]:
        for meth in TEMP_METHODS:
            ads = with_fake(fail=fail, **props)
            run(f"S4 fail={fail} props={'full' if props else 'none'} {meth}", getattr(ads, meth), 90.0)
            print(f"   calls={ads._state.calls!r}")
        ads = with_fake(fail=fail, **props)
        run(f"S4 fail={fail} props={'full' if props else 'none'} satp bar", ads.saturation_pressure, 90.0, "bar")
        run(f"S4 fail={fail} props={'full' if props else 'none'} satp bad", ads.saturation_pressure, 90.0, "bad")
        print(f"   calls={ads._state.calls!r}")

print("# section 5: the state object is created lazily and re-used")
ads = Adsorbate("eq_lazy", backend_name="argon")
print("S5 before", ads._state is None if hasattr(ads, "_state") else "no attr", getattr(ads, "_backend_mode", "no attr"))
run("S5 liquid_density", ads.liquid_density, 87.3)
st = ads._state
run("S5 gas_density", ads.gas_density, 87.3)
run("S5 saturation_pressure", ads.saturation_pressure, 87.3, "bar")
print("S5 same state", ads._state is st, ads._backend_mode, type(st).__name__)
print("S5 attrs", sorted(k for k in vars(ads)))

print("# section 6: converters on top of the adsorbate methods")
for name, temps in REAL[:6]:
    ads = Adsorbate.find(name)
    for temp in temps:
        for unit in UNITS[1:]:
            run(f"S6 {name}@{temp} abs/{unit}->rel", c_pressure, 0.5, "absolute", "relative", unit, None, ads, temp)
            run(f"S6 {name}@{temp} rel%->abs/{unit}", c_pressure, 50.0, "relative%", "absolute", None, unit, ads, temp)
        for (bf, uf), (bt, ut) in itertools.permutations([("molar", "mmol"), ("mass", "mg"), ("volume_gas", "cm3"),
                                                          ("volume_liquid", "cm3"), ("percent", None)], 2):
            run(f"S6 {name}@{temp} {bf}/{uf}->{bt}/{ut}", c_loading, 1.5, bf, bt, uf, ut, ads, temp, "mass", "g")

print("# section 7: isotherm-level users of the saturated state")
iso = pygaps.PointIsotherm(
    pressure=[0.1, 0.2, 0.5, 1.0],
    loading=[1.0, 2.0, 3.0, 3.5],
    material="eq_mat",
    adsorbate="nitrogen",
    temperature=77.355,
)
run("S7 rel", iso.pressure, pressure_mode="relative")
run("S7 vol liq", iso.loading, loading_basis="volume_liquid", loading_unit="cm3")
run("S7 vol gas", iso.loading, loading_basis="volume_gas", loading_unit="cm3")
run("S7 mass", iso.loading, loading_basis="mass", loading_unit="g")
