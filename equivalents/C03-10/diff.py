"""Differential transcript for the data accessors of PointIsotherm / ModelIsotherm and the branch splitting.

Run:  cd <worktree> && PYTHONPATH=<worktree>/src /venv/bin/python diff.py > transcript.txt
The transcript is deterministic; it must be byte-identical on the untouched and on the patched tree.
"""
import logging
import warnings

import numpy
import pandas

import pygaps
from pygaps.core.baseisotherm import BaseIsotherm
from pygaps.modelling import get_isotherm_model
from pygaps.utilities.math_utilities import split_ads_data

warnings.simplefilter("ignore")
numpy.seterr(all="ignore")


def out(*args):
    print(*args)


class _H(logging.Handler):
    def emit(self, record):
        out("    LOG", record.levelname, repr(record.getMessage()))


lg = logging.getLogger("pygaps")
for h in list(lg.handlers):
    lg.removeHandler(h)
hh = _H()
hh.setLevel(logging.INFO)
lg.addHandler(hh)


def fl(x):
    try:
        return float(x).hex()
    except (TypeError, ValueError):
        return repr(x)


def show(v):
    if isinstance(v, pandas.DataFrame):
        return ("DataFrame cols=" + repr(list(v.columns)) + " index=" + repr(list(v.index)) + " dtypes=" +
                repr([str(d) for d in v.dtypes]) + " values=[" + "; ".join(show(v[c].values) for c in v.columns) + "]")
    if isinstance(v, pandas.Series):
        return f"Series name={v.name!r} index={list(v.index)!r} " + show(v.values)
    if isinstance(v, numpy.ndarray):
        if v.dtype.kind == 'f':
            return f"ndarray{v.shape}{v.dtype}[" + ", ".join(fl(x) for x in v.ravel()) + "]"
        return f"ndarray{v.shape}{v.dtype}[" + ", ".join(repr(x) for x in v.ravel()) + "]"
    if isinstance(v, (float, numpy.floating)):
        return f"{type(v).__name__}:{float(v).hex()}"
    if isinstance(v, (list, tuple)):
        return type(v).__name__ + "(" + ", ".join(show(x) for x in v) + ")"
    return f"{type(v).__name__}:{v!r}"


def run(label, fn, *args, **kwargs):
    out(f"--- {label}")
    try:
        res = fn(*args, **kwargs)
        out("    ->", show(res))
        return res
    except BaseException as err:  # noqa
        cause = err.__cause__
        out("    !!", type(err).__name__, repr(str(err)), "cause=" + (type(cause).__name__ if cause is not None else "None"))
    return None


# ---------------------------------------------------------------- fixtures
pygaps.ADSORBATE_LIST.append(
    pygaps.Adsorbate(
        name='TA', alias=['ta1', 'ta2', 'ta'], formula='TA21', backend_name='NITROGEN', molar_mass=28.01348,
        gas_density=0.00461214, liquid_density=0.806, saturation_pressure=101325, p_critical=33.95, t_critical=126.2,
    )
)
pygaps.MATERIAL_LIST.append(pygaps.Material(name='TEST', density=2.0, molar_mass=10.0))

PARAMS = dict(
    material='TEST', temperature=100.0, adsorbate='TA', material_basis='mass', material_unit='g', loading_basis='molar',
    loading_unit='mmol', pressure_mode='absolute', pressure_unit='bar', temperature_unit='K'
)


def frame():
    return pandas.DataFrame({
        "pressure": [1.0, 2.0, 3.0, 4.0, 5.0, 6.0, 4.5, 2.5],
        "loading": [1.0, 2.0, 3.0, 4.0, 5.0, 6.0, 4.5, 2.5],
        "enthalpy": [5.2, 5.1, 5.0, 5.0, 5.0, 5.0, 4.0, 4.0],
        "text_data": ["a", "b", "c", "d", "e", "f", "g", "h"],
    })


def point(**kw):
    p = dict(PARAMS)
    p.update(kw)
    return pygaps.PointIsotherm(isotherm_data=frame(), loading_key="loading", pressure_key="pressure", **p)


iso = point()
iso_nl = pygaps.PointIsotherm(
    pressure=[0.1, 0.5, 1.2, 2.9, 7.0, 3.3, 0.7], loading=[0.3, 1.1, 1.9, 2.6, 3.1, 2.9, 1.8], **PARAMS
)
iso_ads = pygaps.PointIsotherm(pressure=[1.0, 2.0, 3.0], loading=[1.5, 2.5, 3.0], **PARAMS)
iso_des = pygaps.PointIsotherm(pressure=[3.0, 2.0, 1.0], loading=[3.0, 2.5, 1.5], **PARAMS)
iso_rel = point(pressure_mode='relative', pressure_unit=None)
iso_idx = pygaps.PointIsotherm(
    isotherm_data=frame().set_index(pandas.Index(list("stuvwxyz"))), loading_key="loading", pressure_key="pressure",
    **PARAMS
)
iso_unk = point(adsorbate='unknown_gas_xyz', material='unknown_material_xyz')

BRANCHES = [None, 'ads', 'des', 'all', 'all-nol', '', 'bad', 0]
LIMITS = [
    None, (None, None), (2.3, 5.0), [2.3, 5.0], (None, 3), (2, None), (), [], (0, 0), (5.0, 2.3), (3, 3),
    (-numpy.inf, numpy.inf), (numpy.nan, 4), (2.5, ), (None, ), 4, "ab", numpy.array([2.3, 5.0]), (None, None, None),
    (1, 6, 3), {0: 1, 1: 5}
]

out("=== PointIsotherm.data")
for name, i in (("iso", iso), ("ads-only", iso_ads), ("des-only", iso_des), ("idx", iso_idx)):
    for b in BRANCHES:
        run(f"data {name} branch={b!r}", i.data, branch=b)
    out("    data() is data_raw:", i.data() is i.data_raw, " positional:", show(i.data('des')))

out("=== PointIsotherm.pressure")
for name, i in (("iso", iso), ("nl", iso_nl), ("ads-only", iso_ads), ("des-only", iso_des), ("idx", iso_idx)):
    for b in BRANCHES:
        run(f"pressure {name} branch={b!r}", i.pressure, branch=b)
        run(f"pressure {name} branch={b!r} indexed", i.pressure, branch=b, indexed=True)
for lim in LIMITS:
    for b in (None, 'ads', 'des'):
        run(f"pressure iso branch={b!r} limits={lim!r}", iso.pressure, branch=b, limits=lim)
    run(f"pressure iso indexed limits={lim!r}", iso.pressure, limits=lim, indexed=True)
    run(f"pressure ads-only des limits={lim!r}", iso_ads.pressure, branch='des', limits=lim)
for kw in (
    dict(pressure_unit='Pa'), dict(pressure_unit='torr'), dict(pressure_mode='relative'), dict(pressure_mode='relative%'),
    dict(pressure_mode='relative', pressure_unit='Pa'), dict(pressure_mode='absolute'), dict(pressure_mode='absolute', pressure_unit='kPa'),
    dict(pressure_unit='bad'), dict(pressure_mode='bad'), dict(pressure_unit=''), dict(pressure_mode=''),
    dict(pressure_unit='Pa', limits=(150000, 450000)), dict(pressure_mode='relative', limits=(0.2, None), indexed=True),
    dict(pressure_unit='Pa', branch='des', limits=(None, 300000)),
):
    run(f"pressure iso {kw!r}", iso.pressure, **kw)
    run(f"pressure rel {kw!r}", iso_rel.pressure, **kw)
    run(f"pressure unknown-adsorbate {kw!r}", iso_unk.pressure, **kw)
    run(f"pressure ads-only des {kw!r}", iso_ads.pressure, **{**kw, 'branch': 'des'})
run("pressure positional", iso.pressure, 'ads', 'Pa', 'absolute', (150000, None), True)

out("=== PointIsotherm.loading")
for name, i in (("iso", iso), ("nl", iso_nl), ("des-only", iso_des), ("idx", iso_idx)):
    for b in BRANCHES:
        run(f"loading {name} branch={b!r}", i.loading, branch=b)
        run(f"loading {name} branch={b!r} indexed", i.loading, branch=b, indexed=True)
for lim in LIMITS:
    for b in (None, 'ads', 'des'):
        run(f"loading nl branch={b!r} limits={lim!r}", iso_nl.loading, branch=b, limits=lim)
    run(f"loading nl indexed limits={lim!r}", iso_nl.loading, limits=lim, indexed=True)
    run(f"loading des-only ads limits={lim!r}", iso_des.loading, branch='ads', limits=lim)
LOADING_KW = (
    dict(loading_unit='mol'), dict(loading_basis='volume_gas', loading_unit='cm3'), dict(material_unit='kg'),
    dict(material_basis='volume', material_unit='cm3'), dict(loading_basis='fraction'), dict(loading_basis='percent'),
    dict(loading_basis='fraction', material_basis='molar', material_unit='mmol'),
    dict(loading_basis='fraction', material_basis='volume', material_unit='cm3'),
    dict(loading_basis='mass', loading_unit='kg', material_basis='volume', material_unit='m3'),
    dict(loading_basis='mass'), dict(material_basis='volume'), dict(loading_unit='bad'), dict(material_unit='bad'),
    dict(loading_basis='bad', loading_unit='g'), dict(material_basis='bad', material_unit='g'),
    dict(loading_basis='volume_liquid', loading_unit='cm3'), dict(loading_unit=''), dict(material_basis=''),
    dict(loading_unit='mol', limits=(0.002, 0.005)), dict(material_unit='kg', limits=(None, 3000), indexed=True),
    dict(loading_basis='mass', loading_unit='g', branch='des', limits=(0.05, None)),
)
for kw in LOADING_KW:
    run(f"loading iso {kw!r}", iso.loading, **kw)
    run(f"loading unknown {kw!r}", iso_unk.loading, **kw)
    run(f"loading ads-only des {kw!r}", iso_ads.loading, **{**kw, 'branch': 'des'})
run("loading positional", iso.loading, 'des', 'mol', 'molar', 'kg', 'mass', (None, 4), True)

out("=== PointIsotherm.other_data / other_keys")
for name, i in (("iso", iso), ("nl", iso_nl), ("idx", iso_idx)):
    out("    other_keys", name, i.other_keys)
    for key in ('enthalpy', 'text_data', 'bad', 'branch', 'pressure', 'loading', None, 0):
        for b in (None, 'ads', 'des', 'bad'):
            run(f"other_data {name} {key!r} branch={b!r}", i.other_data, key, branch=b)
        run(f"other_data {name} {key!r} indexed", i.other_data, key, indexed=True)
for lim in LIMITS + [(4.5, 5.1), (None, 5.0), (5.15, None), ("b", "e"), ("c", None)]:
    run(f"other_data enthalpy limits={lim!r}", iso.other_data, 'enthalpy', limits=lim)
    run(f"other_data enthalpy des indexed limits={lim!r}", iso.other_data, 'enthalpy', branch='des', limits=lim, indexed=True)
    run(f"other_data text limits={lim!r}", iso.other_data, 'text_data', limits=lim)
    run(f"other_data bad key limits={lim!r}", iso.other_data, 'nokey', limits=lim)
    run(f"other_data bad key bad branch limits={lim!r}", iso.other_data, 'nokey', branch='bad', limits=lim)
    run(f"other_data idx ads-empty limits={lim!r}", iso_ads.other_data, 'enthalpy', branch='des', limits=lim)
iso_ads_e = pygaps.PointIsotherm(
    isotherm_data=frame().iloc[:4], loading_key="loading", pressure_key="pressure", **PARAMS
)
for lim in LIMITS:
    run(f"other_data ads-only des (empty) limits={lim!r}", iso_ads_e.other_data, 'enthalpy', branch='des', limits=lim)
run("other_data positional", iso.other_data, 'enthalpy', 'des', (None, 4.5), True)

out("=== PointIsotherm.has_branch")
for i in (iso, iso_ads, iso_des):
    for b in BRANCHES:
        run(f"has_branch {b!r}", i.has_branch, b)


def interp_state(i):
    res = []
    for itp in (i.l_interpolator, i.p_interpolator):
        if itp is None:
            res.append(None)
        else:
            res.append((itp.interp_branch, itp.interp_kind, repr(itp.interp_fill)))
    return res


out("=== PointIsotherm.loading_at / pressure_at")
AT_KW = (
    dict(), dict(branch='ads'), dict(branch='des'), dict(branch='bad'), dict(branch=None), dict(pressure_unit='Pa'), dict(pressure_mode='relative'),
    dict(pressure_mode='relative%'), dict(pressure_mode='absolute'), dict(pressure_mode='absolute', pressure_unit='Pa'),
    dict(loading_unit='mol'), dict(loading_basis='mass', loading_unit='g'), dict(loading_basis='mass'),
    dict(material_unit='kg'), dict(material_basis='volume', material_unit='cm3'), dict(material_basis='volume'),
    dict(loading_basis='fraction'), dict(loading_basis='percent', material_basis='molar', material_unit='mmol'),
    dict(pressure_mode='relative', pressure_unit='Pa', loading_basis='mass', loading_unit='g', material_basis='volume',
         material_unit='cm3'),
    dict(interpolation_type='cubic'), dict(interpolation_type='nearest'), dict(interpolation_type='zero'),
    dict(interpolation_type='bad'), dict(interp_fill='extrapolate'), dict(interp_fill=0.0), dict(interp_fill=(0.0, 10.0)),
    dict(interp_fill=(0.0, 10.0), branch='des'), dict(pressure_unit='bad'), dict(loading_unit='bad'),
    dict(material_unit='bad'), dict(pressure_mode='bad'), dict(loading_basis='bad', loading_unit='g'),
)
for kw in AT_KW:
    for val in (1, 2.5, 4.25, [1.0, 1.5, 6.0], numpy.array([2.0, 3.0]), 0.5, 7.0, [0.5, 3.0], 1e5, 0.2, 0.03, [], numpy.nan):
        fresh = point()
        run(f"loading_at {val!r} {kw!r}", fresh.loading_at, val, **kw)
        out("    state", interp_state(fresh))
        fresh = point()
        run(f"pressure_at {val!r} {kw!r}", fresh.pressure_at, val, **kw)
        out("    state", interp_state(fresh))
for kw in AT_KW:
    run(f"loading_at nl 1.0 {kw!r}", iso_nl.loading_at, 1.0, **kw)
    out("    state", interp_state(iso_nl))
    run(f"pressure_at nl 2.0 {kw!r}", iso_nl.pressure_at, 2.0, **kw)
    out("    state", interp_state(iso_nl))
    run(f"loading_at unknown 2.0 {kw!r}", iso_unk.loading_at, 2.0, **kw)
    run(f"pressure_at unknown 2.0 {kw!r}", iso_unk.pressure_at, 2.0, **kw)
    run(f"loading_at rel 2.0 {kw!r}", iso_rel.loading_at, 2.0, **kw)
    run(f"pressure_at ads-only 2.0 {kw!r}", iso_ads.pressure_at, 2.0, **kw)
# interpolator caching
c = point()
c.loading_at(2.0)
first = c.l_interpolator
c.loading_at(3.0)
out("    cache kept", c.l_interpolator is first)
c.loading_at(3.0, branch='des')
out("    cache replaced on branch", c.l_interpolator is first, interp_state(c))
second = c.l_interpolator
c.loading_at(3.0, branch='des', interp_fill=0)
out("    cache replaced on fill", c.l_interpolator is second, interp_state(c))
c.pressure_at(3.0)
firstp = c.p_interpolator
c.pressure_at(3.5)
out("    p cache kept", c.p_interpolator is firstp)
c.pressure_at(3.5, interpolation_type='cubic')
out("    p cache replaced on kind", c.p_interpolator is firstp, interp_state(c))
for x in (1.0, 2.0, 3.0, 4.0, 5.0, 6.0):
    out("    at data point", fl(iso.loading_at(x)), fl(iso.pressure_at(x)), fl(iso.loading_at(x, branch='ads')))
run("loading_at positional", iso.loading_at, 2.0, 'des', 'linear', None, 'bar', 'absolute', 'mol', 'molar', 'kg', 'mass')
run("pressure_at positional", iso.pressure_at, 2.0, 'des', 'linear', None, 'Pa', 'absolute', 'mmol', 'molar', 'g', 'mass')


# ---------------------------------------------------------------- ModelIsotherm
def model_iso(name, params, prange=(0.5, 6.0), lrange=(0.5, 6.0), branch="ads", **props):
    model = get_isotherm_model(name, parameters=params, pressure_range=prange, loading_range=lrange)
    p = dict(PARAMS)
    p.update(props)
    return pygaps.ModelIsotherm(model=model, branch=branch, **p)


m_henry = pygaps.ModelIsotherm(isotherm_data=frame(), loading_key="loading", pressure_key="pressure", model="Henry", **PARAMS)
m_des = pygaps.ModelIsotherm(
    isotherm_data=frame(), loading_key="loading", pressure_key="pressure", model="Henry", branch='des', **PARAMS
)
m_lang = model_iso("Langmuir", {"K": 0.7, "n_m": 8.0})
m_vir = model_iso("Virial", {"K": 1.3, "A": 0.11, "B": 0.013, "C": 0.0017})
m_rel = model_iso("Langmuir", {"K": 5.0, "n_m": 8.0}, prange=(0.01, 0.9), pressure_mode='relative', pressure_unit=None)
m_unk = model_iso("Langmuir", {"K": 0.7, "n_m": 8.0}, adsorbate='unknown_gas_xyz', material='unknown_material_xyz')
out("    fitted", show(m_henry.model.params["K"]), m_henry.branch, show(m_des.model.params["K"]), m_des.branch)
MODELS = (("henry", m_henry), ("henry-des", m_des), ("langmuir", m_lang), ("virial", m_vir), ("rel", m_rel), ("unk", m_unk))

out("=== ModelIsotherm.pressure / loading")
for name, m in MODELS:
    for b in (None, 'ads', 'des', 'all', '', 'bad', 0):
        run(f"m.pressure {name} branch={b!r}", m.pressure, 5, branch=b)
        run(f"m.loading {name} branch={b!r}", m.loading, 5, branch=b)
        run(f"m.has_branch {name} {b!r}", m.has_branch, b)
    run(f"m.pressure {name} default points", m.pressure)
    run(f"m.loading {name} default points indexed", m.loading, indexed=True)
    for pts in (0, 1, 2, 3.0, -1, None):
        run(f"m.pressure {name} points={pts!r}", m.pressure, pts)
        run(f"m.loading {name} points={pts!r}", m.loading, points=pts)
    for lim in LIMITS:
        run(f"m.pressure {name} limits={lim!r}", m.pressure, 7, limits=lim)
        run(f"m.loading {name} limits={lim!r} indexed", m.loading, 7, limits=lim, indexed=True)
    for kw in (
        dict(pressure_unit='Pa'), dict(pressure_mode='relative'), dict(pressure_mode='relative%'),
        dict(pressure_mode='relative', pressure_unit='Pa'), dict(pressure_mode='absolute'), dict(pressure_unit='bad'),
        dict(pressure_mode='bad'), dict(pressure_unit='Pa', limits=(150000, 450000), indexed=True),
        dict(pressure_mode='absolute', pressure_unit='kPa'),
    ):
        run(f"m.pressure {name} {kw!r}", m.pressure, 4, **kw)
    for kw in LOADING_KW:
        kw = dict(kw)
        kw.pop('branch', None)
        run(f"m.loading {name} {kw!r}", m.loading, 4, **kw)
run("m.pressure positional", m_lang.pressure, 4, 'ads', 'Pa', 'absolute', (150000, None), True)
run("m.loading positional", m_lang.loading, 4, 'ads', 'mol', 'molar', 'kg', 'mass', (None, 4), True)

out("=== ModelIsotherm.pressure_at / loading_at")
for name, m in MODELS:
    for kw in AT_KW:
        if 'interpolation_type' in kw or 'interp_fill' in kw:
            continue
        for val in (1, 2.5, [1.0, 1.5, 6.0], numpy.array([2.0, 3.0]), 0.0, -1.0, 1e5, 0.03, [], numpy.nan):
            run(f"m.loading_at {name} {val!r} {kw!r}", m.loading_at, val, **kw)
            run(f"m.pressure_at {name} {val!r} {kw!r}", m.pressure_at, val, **kw)
run("m.loading_at positional", m_lang.loading_at, 2.0, 'ads', 'bar', 'absolute', 'mol', 'molar', 'kg', 'mass')
run("m.pressure_at positional", m_lang.pressure_at, 2.0, 'ads', 'Pa', 'absolute', 'mmol', 'molar', 'g', 'mass')
run("m.loading_at positional des", m_lang.loading_at, 2.0, 'des')
run("m.pressure_at positional des", m_des.pressure_at, 2.0, 'ads')

out("=== agreement with permanent conversion")
for kw in (dict(pressure_unit='Pa'), dict(pressure_mode='relative'), dict(pressure_mode='relative%')):
    cp = point()
    cp.convert_pressure(mode_to=kw.get('pressure_mode'), unit_to=kw.get('pressure_unit'))
    out("    pressure", kw, show(iso.pressure(**kw)), show(cp.pressure()), bool(numpy.array_equal(iso.pressure(**kw), cp.pressure())))
for kw in (dict(loading_unit='mol'), dict(loading_basis='mass', loading_unit='g'), dict(loading_basis='percent')):
    cp = point()
    cp.convert_loading(basis_to=kw.get('loading_basis'), unit_to=kw.get('loading_unit'))
    out("    loading", kw, show(iso.loading(**kw)), show(cp.loading()), bool(numpy.array_equal(iso.loading(**kw), cp.loading())))

# ---------------------------------------------------------------- splitting
out("=== split_ads_data / _splitdata")
SPLITS = {
    "fixture": [1.0, 2.0, 3.0, 4.0, 5.0, 6.0, 4.5, 2.5],
    "increasing": [1.0, 2.0, 3.0],
    "decreasing": [3.0, 2.0, 1.0],
    "single": [1.0],
    "two up": [1.0, 2.0],
    "two down": [2.0, 1.0],
    "two equal": [2.0, 2.0],
    "tie max middle": [1.0, 3.0, 3.0, 2.0],
    "tie max ends": [3.0, 1.0, 3.0],
    "peak second": [1.0, 5.0, 2.0, 1.0],
    "peak second-last": [1.0, 2.0, 5.0, 1.0],
    "all equal": [1.0, 1.0, 1.0, 1.0],
    "nan first": [numpy.nan, 1.0, 2.0, 1.0],
    "nan at peak": [1.0, numpy.nan, 2.0, 1.0],
    "all nan": [numpy.nan, numpy.nan],
    "with inf": [1.0, numpy.inf, 2.0],
    "neg": [-3.0, -1.0, -2.0],
    "ints": [1, 2, 3, 2],
    "zigzag": [1.0, 3.0, 2.0, 4.0, 1.0, 5.0, 0.5],
    "empty": [],
    "strings": ["a", "c", "b"],
    "objects mixed": [1.0, "c", 2.0],
    "bools": [False, True, False],
}
for label, press in SPLITS.items():
    df = pandas.DataFrame({"p": press, "l": list(range(len(press)))})
    before = df.copy()
    run(f"split {label}", split_ads_data, df, "p")
    run(f"_splitdata {label}", BaseIsotherm._splitdata, df, "p")
    run(f"_splitdata via instance {label}", iso._splitdata, df, "p")
    out("    input untouched", df.equals(before), list(df.columns))
    n = len(press)
    for idx_label, idx in (
        ("str index", [f"r{k}" for k in range(n)]), ("reversed int index", list(range(n))[::-1]),
        ("offset index", list(range(10, 10 + n))), ("dup index", [0] * n), ("float index", [k / 2 for k in range(n)]),
        ("label index types", ['ads', 'des', 'x', 1, 2.0, None, 'y', 'z', 'w'][:n] if n <= 9 else None),
    ):
        if idx is None:
            continue
        dfi = pandas.DataFrame({"p": press, "l": list(range(n))}, index=idx)
        run(f"split {label} / {idx_label}", split_ads_data, dfi, "p")
df = pandas.DataFrame({"p": [1.0, 3.0, 2.0], "l": [1, 2, 3]})
run("split missing key", split_ads_data, df, "q")
run("split None key", split_ads_data, df, None)
run("split on loading col", split_ads_data, df, "l")
run("split series data", split_ads_data, df["p"], "p")
run("split dict data", split_ads_data, {"p": [1, 2]}, "p")
run("split None data", split_ads_data, None, "p")
run("split ndarray data", split_ads_data, numpy.array([[1.0, 2.0], [3.0, 1.0]]), 0)
run("split multi-col key", split_ads_data, df, ["p"])
run("_splitdata keyword", BaseIsotherm._splitdata, data=df, pressure_key="p")
mi = pandas.DataFrame({"p": [1.0, 3.0, 2.0]}, index=pandas.MultiIndex.from_tuples([(0, 'a'), (0, 'b'), (1, 'a')]))
run("split multiindex", split_ads_data, mi, "p")
res = split_ads_data(df, "p")
out("    result type", type(res).__name__, res.dtype, res.flags.writeable, res.shape)

out("=== branch guessing through constructors")
for label, press in SPLITS.items():
    load = [float(k) for k in range(len(press))]
    r = run(f"PointIsotherm guess {label}", lambda: pygaps.PointIsotherm(pressure=press, loading=load, **PARAMS).data_raw)
    run(
        f"PointIsotherm frame guess {label}", lambda: pygaps.PointIsotherm(
            isotherm_data=pandas.DataFrame({"pp": press, "ll": load, "zz": load}, index=[f"i{k}" for k in range(len(press))]),
            pressure_key="pp", loading_key="ll", **PARAMS
        ).data_raw
    )
    for b in ('ads', 'des'):
        run(
            f"ModelIsotherm guess {label} {b}", lambda: (lambda m: (m.branch, m.model.pressure_range, m.model.loading_range, m.model.params))(
                pygaps.ModelIsotherm(
                    isotherm_data=pandas.DataFrame({"pp": press, "ll": load}), pressure_key="pp", loading_key="ll", model="Henry", branch=b,
                    **PARAMS
                )
            )
        )
for br in ('ads', 'des', 'guess', 'bad', [True, False, True], [0, 1], numpy.array([0, 0, 1]), None, 1, ['a', 'b', 'c'], [0.5, 1, 0]):
    run(f"PointIsotherm branch={br!r}", lambda: pygaps.PointIsotherm(pressure=[1.0, 3.0, 2.0], loading=[1.0, 2.0, 3.0], branch=br, **PARAMS).data_raw)
withb = frame()
withb['branch'] = [0, 1, 0, 1, 0, 1, 0, 1]
run("PointIsotherm with branch column", lambda: pygaps.PointIsotherm(isotherm_data=withb, pressure_key="pressure", loading_key="loading", **PARAMS).pressure(branch='des'))
run("ModelIsotherm with branch column", lambda: pygaps.ModelIsotherm(isotherm_data=withb, pressure_key="pressure", loading_key="loading", model='Henry', branch='des', **PARAMS).model.params)

out("=== odd branch arguments")


class S(str):
    pass


for b in (S('ads'), S('des'), S('all'), b'ads', ['ads'], ('des', ), 1.5, True, 'ADS', ' ads', 'all_nol', 'allx', {'ads'}):
    run(f"data branch={b!r}", iso.data, b)
    run(f"pressure branch={b!r}", iso.pressure, branch=b, limits=(None, 3))
    run(f"loading branch={b!r}", iso.loading, b, 'mol')
    run(f"other_data branch={b!r}", iso.other_data, 'enthalpy', b, (4.5, None))
    run(f"has_branch branch={b!r}", iso.has_branch, b)
    run(f"loading_at branch={b!r}", point().loading_at, 2.0, b)
    run(f"m.loading branch={b!r}", m_lang.loading, 3, b)
    run(f"m.pressure branch={b!r}", m_lang.pressure, 3, b)
    run(f"m.loading_at branch={b!r}", m_lang.loading_at, 3, b)
    run(f"m.pressure_at branch={b!r}", m_lang.pressure_at, 3, b)

out("=== ModelIsotherm branch refusal in every entry point (incl. spreading_pressure_at)")
for name, m in MODELS:
    for b in (None, 'ads', 'des', 'all', '', 'bad', 0, 1, S('ads'), S('des'), ('des', ), ['ads'], b'ads', numpy.array(['ads']),
              numpy.array(['ads', 'des']), numpy.array(['des']), float('nan'), {'ads': 1}, True):
        run(f"m.spreading_pressure_at {name} {b!r}", m.spreading_pressure_at, 2.0, b)
        run(f"m.loading {name} {b!r}", m.loading, 3, b)
        run(f"m.pressure {name} {b!r}", m.pressure, 3, b)
        run(f"m.loading_at {name} {b!r}", m.loading_at, [1.0, 2.0], b)
        run(f"m.pressure_at {name} {b!r}", m.pressure_at, [1.0, 2.0], b)
    for kw in (dict(pressure_unit='Pa'), dict(pressure_mode='relative'), dict(pressure_mode='absolute'), dict(pressure_unit='bad')):
        run(f"m.spreading_pressure_at {name} {kw!r}", m.spreading_pressure_at, [1.0, 2.0], **kw)

out("=== ModelIsotherm.loading_at material defaults for fractional loadings")
for name, m in MODELS:
    for kw in (
        dict(loading_basis='fraction'), dict(loading_basis='percent'), dict(loading_basis='fraction', material_unit='kg'),
        dict(loading_basis='fraction', material_basis='volume'), dict(loading_basis='fraction', material_basis='volume', material_unit='cm3'),
        dict(loading_basis='percent', material_basis='molar', material_unit='mol'), dict(loading_unit='g', loading_basis='mass', material_unit='mg'),
        dict(loading_basis='fraction', material_unit=''), dict(loading_basis='fraction', material_basis='', material_unit=None),
        dict(loading_basis='fraction', material_unit=0), dict(loading_basis='fraction', material_basis=0),
        dict(loading_unit='mol', material_unit=[]), dict(loading_unit='mol', material_basis=()),
    ):
        run(f"m.loading_at {name} {kw!r}", m.loading_at, [0.7, 2.0, 5.5], **kw)
        run(f"m.loading {name} {kw!r}", m.loading, 3, **kw)
