"""Differential script for change 3: IsothermInterpolator construction (bounds / fill rule) and its users."""
import numpy
from eqcommon import COUNT
from eqcommon import LOAD
from eqcommon import PRESS
from eqcommon import STORED
from eqcommon import kw
from eqcommon import point_iso
from eqcommon import point_iso_adsonly
from eqcommon import run

from pygaps.utilities.isotherm_interpolator import IsothermInterpolator

X = [0.1, 0.2, 0.4, 0.7, 1.0]
Y = [1.0, 1.9, 3.0, 3.6, 4.0]
QUERIES = {
    "nodes": X,
    "inside": [0.15, 0.3, 0.55, 0.85, 0.999],
    "scalar": 0.25,
    "scalar_node": 0.4,
    "below": [0.05, 0.2],
    "above": [0.5, 1.5],
    "both": [-1.0, 0.5, 2.0],
    "scalar_below": 0.0,
    "empty": [],
    "nan": [numpy.nan, 0.3],
    "2d": [[0.1, 0.3], [0.5, 1.0]],
    "edge_lo": 0.1,
    "edge_hi": 1.0,
}
KINDS = ["linear", "nearest", "zero", "slinear", "quadratic", "cubic", "previous", "next", "bad", 1, None]
FILLS = [
    None, 0, 0.0, 2.5, -1.0, numpy.nan, (0.0, 9.0), (None, 9.0), "extrapolate", "bad", numpy.array(7.0),
    numpy.array([1.0, 2.0]), [1.0], False, ""
]

print("== direct use")
for kind in KINDS:
    for fill in FILLS:

        def make():
            return IsothermInterpolator(X, Y, interp_branch="ads", interp_kind=kind, interp_fill=fill)

        try:
            interp = make()
        except Exception as err:  # noqa: BLE001
            run(f"I[{kind!r}|{fill!r}]", make)
            continue
        run(
            f"I[{kind!r}|{fill!r}].attrs",
            lambda: [interp.interp_branch, interp.interp_kind, repr(interp.interp_fill),
                     sorted(vars(interp))]
        )
        for qname, q in QUERIES.items():
            run(f"I[{kind!r}|{fill!r}]({qname})", lambda: interp(q))

print("== degenerate data")
for name, (x, y) in {
    "none": (None, None),
    "none_y": (None, Y),
    "x_none": (X, None),
    "single": ([1.0], [2.0]),
    "two": ([1.0, 2.0], [2.0, 5.0]),
    "empty": ([], []),
    "mismatch": ([1.0, 2.0, 3.0], [1.0, 2.0]),
    "descending": (X[::-1], Y[::-1]),
    "unsorted": ([0.4, 0.1, 1.0, 0.2, 0.7], [3.0, 1.0, 4.0, 1.9, 3.6]),
    "dup_x": ([0.1, 0.2, 0.2, 0.4], [1.0, 2.0, 2.5, 3.0]),
    "nan_x": ([0.1, numpy.nan, 0.4], [1.0, 2.0, 3.0]),
    "ndarray": (numpy.array(X), numpy.array(Y)),
    "ints": ([1, 2, 3], [10, 20, 40]),
}.items():
    for fill in (None, 0, "extrapolate", (1.0, 2.0)):
        for kind in ("linear", "cubic"):
            for branch in ("ads", "des", None):

                def both():
                    interp = IsothermInterpolator(x, y, interp_branch=branch, interp_kind=kind, interp_fill=fill)
                    return [
                        interp.interp_branch, interp.interp_kind, repr(interp.interp_fill),
                        sorted(vars(interp)),
                        interp([1.5, 0.3])
                    ]

                run(f"D[{name}|{fill!r}|{kind}|{branch}]", both)
run("defaults", lambda: sorted((k, v) for k, v in vars(IsothermInterpolator(X, Y)).items() if k != "interp_fun"))
run("defaults.fun", lambda: type(IsothermInterpolator(X, Y).interp_fun).__name__)
run("positional", lambda: IsothermInterpolator(X, Y, "des", "nearest", 3.0)([0.0, 0.3]))

print("== PointIsotherm.loading_at / pressure_at (interpolator cache included)")
P_Q = [0.05, 0.1, 0.15, 0.33, 0.5, 0.9]
L_Q = [1.0, 1.8, 2.2, 3.7, 5.0, 5.5]
for sname, stored in STORED.items():
    iso = point_iso(**stored)
    p_nat = iso.pressure(branch="ads")
    l_nat = iso.loading(branch="ads")
    p_mid = (p_nat[:-1] + p_nat[1:]) / 2
    l_mid = (l_nat[:-1] + l_nat[1:]) / 2
    for branch in ("ads", "des"):
        for kind in ("linear", "cubic", "nearest"):
            for fill in (None, 0, "extrapolate", (0.0, 99.0)):
                tag = f"[{sname}|{branch}|{kind}|{fill!r}]"
                args = dict(branch=branch, interpolation_type=kind, interp_fill=fill)
                run("LA.nodes" + tag, lambda: iso.loading_at(iso.pressure(branch=branch), **args))
                run("LA.mid" + tag, lambda: iso.loading_at(p_mid[:5], **args))
                run("LA.out" + tag, lambda: iso.loading_at([p_nat.min() / 2, p_nat.max() * 2], **args))
                run("LA.scalar" + tag, lambda: iso.loading_at(float(p_mid[2]), **args))
                run("PA.nodes" + tag, lambda: iso.pressure_at(iso.loading(branch=branch), **args))
                run("PA.mid" + tag, lambda: iso.pressure_at(l_mid[:5], **args))
                run("PA.out" + tag, lambda: iso.pressure_at([l_nat.min() / 2, l_nat.max() * 2], **args))
                run(
                    "cache" + tag, lambda: [
                        iso.l_interpolator.interp_branch, iso.l_interpolator.interp_kind,
                        repr(iso.l_interpolator.interp_fill), iso.p_interpolator.interp_branch,
                        iso.p_interpolator.interp_kind,
                        repr(iso.p_interpolator.interp_fill)
                    ]
                )

print("== foreign units in and out")
iso = point_iso()
REQS = [
    dict(pressure_unit="Pa"),
    dict(pressure_mode="relative"),
    dict(pressure_mode="relative%", loading_unit="mol"),
    dict(loading_basis="mass", loading_unit="g"),
    dict(material_unit="kg"),
    dict(material_basis="volume", material_unit="cm3"),
    dict(loading_basis="percent"),
    dict(loading_basis="fraction", material_basis="molar", material_unit="mmol"),
    dict(
        pressure_unit="Pa",
        pressure_mode="relative",
        loading_basis="mass",
        loading_unit="g",
        material_basis="volume",
        material_unit="cm3"
    ),
    dict(pressure_mode="absolute"),
    dict(loading_basis="mass"),
    dict(material_basis="volume"),
    dict(pressure_unit="bad"),
]
for req in REQS:
    for fill in (None, "extrapolate"):
        for branch in ("ads", "des"):
            p_req = {k: v for k, v in req.items() if k.startswith("pressure")}
            l_req = {k: v for k, v in req.items() if not k.startswith("pressure")}
            run(
                f"LA[{kw(req)}|{fill}|{branch}]", lambda: iso.
                loading_at(iso.pressure(branch=branch, **p_req)[1:3], branch=branch, interp_fill=fill, **req)
            )
            run(
                f"PA[{kw(req)}|{fill}|{branch}]", lambda: iso.
                pressure_at(iso.loading(branch=branch, **l_req)[1:3], branch=branch, interp_fill=fill, **req)
            )
            run(f"LAraw[{kw(req)}|{fill}|{branch}]", lambda: iso.loading_at(P_Q, branch=branch, interp_fill=fill, **req))
            run(f"PAraw[{kw(req)}|{fill}|{branch}]", lambda: iso.pressure_at(L_Q, branch=branch, interp_fill=fill, **req))

print("== empty branch, conversion resets cache")
iso = point_iso_adsonly()
for fill in (None, 0):
    run(f"adsonly.LA.des[{fill}]", lambda: iso.loading_at(0.3, branch="des", interp_fill=fill))
    run(f"adsonly.PA.des[{fill}]", lambda: iso.pressure_at(3.0, branch="des", interp_fill=fill))
    run(f"adsonly.LA.ads[{fill}]", lambda: iso.loading_at([0.3, 5.0], branch="ads", interp_fill=fill))
    run(f"adsonly.LA.bad[{fill}]", lambda: iso.loading_at(0.3, branch="bad", interp_fill=fill))
iso = point_iso()
run("before", lambda: iso.loading_at([0.3, 0.4]))
iso.convert_pressure(unit_to="Pa")
run("after.cache", lambda: [iso.l_interpolator, iso.p_interpolator])
run("after", lambda: iso.loading_at([30000, 40000]))
run("after.old-units", lambda: iso.loading_at([0.3, 0.4]))
run("after.old-units-fill", lambda: iso.loading_at([0.3, 0.4], interp_fill=(0.0, -1.0)))
run("spreading", lambda: iso.spreading_pressure_at([20000, 40000]))
run("data-untouched", lambda: [PRESS == list(point_iso().pressure()), LOAD == list(point_iso().loading())])

print("cases:", COUNT[0])
