"""Differential script for change 2: ModelIsotherm.guess (try a list of models, return the best)."""
import logging
import os
import warnings

os.environ.setdefault("MPLBACKEND", "Agg")

import numpy
import pandas

warnings.filterwarnings("ignore")

import pygaps  # noqa: E402
from pygaps.core.modelisotherm import ModelIsotherm  # noqa: E402
from pygaps.core.pointisotherm import PointIsotherm  # noqa: E402
from pygaps.modelling import model_iso  # noqa: E402
from pygaps.modelling.base_model import IsothermBaseModel  # noqa: E402
from pygaps.utilities.exceptions import CalculationError  # noqa: E402


class ListHandler(logging.Handler):
    """Record what is logged (order of the attempts is part of the behaviour)."""
    def __init__(self):
        super().__init__(level=logging.DEBUG)
        self.records = []

    def emit(self, record):
        self.records.append(f"{record.levelname}:{record.getMessage()}".replace("\n", "\\n")[:160])


handler = ListHandler()
pygaps.logger.addHandler(handler)
pygaps.logger.setLevel(logging.DEBUG)
pygaps.logger.propagate = False
for h in list(pygaps.logger.handlers):
    if h is not handler:
        pygaps.logger.removeHandler(h)


def fmt(x):
    if isinstance(x, dict):
        return "{" + ", ".join(f"{k!r}: {fmt(x[k])}" for k in x) + "}"
    if isinstance(x, (list, tuple)):
        return "[" + ", ".join(fmt(v) for v in x) + "]"
    if isinstance(x, numpy.ndarray):
        return "arr" + str(x.shape) + "[" + ", ".join(fmt(v) for v in x.ravel()) + "]"
    if isinstance(x, (float, numpy.floating)):
        return "%.12g" % float(x)
    return repr(x)


def iso_state(iso):
    m = iso.model
    return " ".join([
        type(iso).__name__,
        "model=" + m.name,
        "branch=" + repr(iso.branch),
        "params=" + fmt(m.params),
        "rmse=" + fmt(m.rmse) + "/" + float(m.rmse).hex(),
        "prange=" + fmt(m.pressure_range),
        "lrange=" + fmt(m.loading_range),
        "meta=" + repr((str(iso.material), str(iso.adsorbate), iso.temperature, iso.pressure_unit,
                        iso.pressure_mode, iso.loading_unit, iso.loading_basis, iso.material_unit)),
        "extra=" + repr(sorted((k, v) for k, v in iso.to_dict().items() if k in ("note", "plot_fit", "zzz"))),
    ])


def report(tag, fn):
    handler.records.clear()
    try:
        res = fn()
        print(tag, "->", res)
    except Exception as err:  # noqa: BLE001
        print(tag, "-> EXC", type(err).__name__, str(err).replace("\n", "\\n"))
    print("   log:", handler.records)


rng = numpy.random.RandomState(99)
base_kw = dict(material="m", adsorbate="N2", temperature=77.355)

p = numpy.linspace(0.05, 0.9, 15)
data = {
    "lang": (p, 5 * 0.8 * p / (1 + 0.8 * p)),
    "henry": (p, 2.5 * p),
    "noisy": (p, (4 * 3 * p / (1 + 3 * p)) * (1 + 0.04 * rng.standard_normal(15))),
    "freund": (p, 2.5 * p**0.6),
}
p40 = numpy.linspace(0.01, 0.9, 40)
data["bet"] = (p40, 3.0 * 40 * p40 / ((1 - 0.9 * p40) * (1 + 39 * 0.9 * p40)))
p30 = numpy.geomspace(1e-3, 2, 30)
data["toth"] = (p30, 7 * (2 * p30) / (1 + (2 * p30)**0.7)**(1 / 0.7))

model_lists = {
    "HL": ["Henry", "Langmuir"],
    "LH": ["Langmuir", "Henry"],
    "lower": ["henry", "langmuir", "freundlich"],
    "dup": ["Langmuir", "Langmuir", "langmuir"],
    "tuple": ("Toth", "Henry", "JensenSeaton"),
    "many": ["Henry", "Langmuir", "DSLangmuir", "Freundlich", "TemkinApprox", "Toth", "JensenSeaton", "BET"],
    "withvirial": ["Virial", "Henry", "Langmuir"],
    "single": ["Freundlich"],
    "guess": "guess",
}

# 1. real fits
for dname, (pr, ld) in data.items():
    for lname, models in model_lists.items():
        report(
            f"guess[{dname}][{lname}]",
            lambda: iso_state(ModelIsotherm.guess(pressure=pr, loading=ld, models=models, **base_kw)),
        )

# 2. malformed model lists
pr, ld = data["lang"]
bad_lists = {
    "empty": [],
    "unknown": ["Henry", "NotAModel"],
    "string": "Langmuir",
    "int": 5,
    "none": None,
    "nonstr-item": ["Henry", 3],
    "generator": (m for m in ["Henry", "Langmuir"]),
    "set": {"Henry"},
    "dict": {"Henry": 1, "Langmuir": 2},
}
for lname, models in bad_lists.items():
    report(
        f"badlist[{lname}]",
        lambda: iso_state(ModelIsotherm.guess(pressure=pr, loading=ld, models=models, **base_kw)),
    )

# 3. argument forwarding
df = pandas.DataFrame({"p": numpy.r_[pr, pr[::-1][1:]], "l": numpy.r_[ld, 1.1 * ld[::-1][1:]]})
report("df-ads", lambda: iso_state(
    ModelIsotherm.guess(isotherm_data=df, pressure_key="p", loading_key="l", models=["Henry", "Langmuir"], **base_kw)))
report("df-des", lambda: iso_state(
    ModelIsotherm.guess(isotherm_data=df, pressure_key="p", loading_key="l", branch="des",
                        models=["Henry", "Langmuir", "Toth"], **base_kw)))
report("df-badbranch", lambda: iso_state(
    ModelIsotherm.guess(isotherm_data=df, pressure_key="p", loading_key="l", branch="all",
                        models=["Henry", "Langmuir"], **base_kw)))
report("df-nokeys", lambda: iso_state(
    ModelIsotherm.guess(isotherm_data=df, models=["Henry", "Langmuir"], **base_kw)))
report("no-data", lambda: iso_state(ModelIsotherm.guess(models=["Henry", "Langmuir"], **base_kw)))
report("only-pressure", lambda: iso_state(ModelIsotherm.guess(pressure=pr, models=["Henry"], **base_kw)))
report("collide-model", lambda: iso_state(
    ModelIsotherm.guess(pressure=pr, loading=ld, models=["Henry"], model="Langmuir", **base_kw)))
report("collide-model-emptylist", lambda: iso_state(
    ModelIsotherm.guess(pressure=pr, loading=ld, models=[], model="Langmuir", **base_kw)))
report("collide-param_guess", lambda: iso_state(
    ModelIsotherm.guess(pressure=pr, loading=ld, models=["Henry"], param_guess={"K": 1}, **base_kw)))
report("collide-plot_fit", lambda: iso_state(
    ModelIsotherm.guess(pressure=pr, loading=ld, models=["Henry"], plot_fit=True, **base_kw)))
report("extra-props", lambda: iso_state(
    ModelIsotherm.guess(pressure=pr, loading=ld, models=["Henry", "Langmuir"], note="hello", zzz=3, **base_kw)))
report("units", lambda: iso_state(
    ModelIsotherm.guess(pressure=pr * 100, loading=ld, models=["Henry", "Langmuir", "Toth"],
                        pressure_unit="kPa", loading_unit="mol", material_unit="kg", **base_kw)))
report("opt-maxnfev", lambda: iso_state(
    ModelIsotherm.guess(pressure=pr, loading=ld, models=["Henry", "Langmuir", "Toth"],
                        optimization_params={"max_nfev": 3}, **base_kw)))
report("opt-allfail", lambda: iso_state(
    ModelIsotherm.guess(pressure=pr, loading=ld, models=["Langmuir", "Toth"],
                        optimization_params={"max_nfev": 1}, **base_kw)))
opt = {"add_point": True, "xtol": 1e-10}
report("opt-virial-addpoint", lambda: iso_state(
    ModelIsotherm.guess(pressure=pr, loading=ld, models=["Virial", "Henry", "Virial"],
                        optimization_params=opt, **base_kw)) + " opt_after=" + repr(opt))
report("missing-meta", lambda: iso_state(ModelIsotherm.guess(pressure=pr, loading=ld, models=["Henry"])))
report("verbose", lambda: iso_state(
    ModelIsotherm.guess(pressure=pr, loading=ld, models=["Henry", "Langmuir"], verbose=True, **base_kw)))

# 4. through the point isotherm front doors
piso = PointIsotherm(isotherm_data=df, pressure_key="p", loading_key="l", note="hello", **base_kw)
report("from_point-list", lambda: iso_state(ModelIsotherm.from_pointisotherm(piso, model=["Henry", "Langmuir"])))
report("from_point-guess", lambda: iso_state(ModelIsotherm.from_pointisotherm(piso, model="guess")))
report("from_point-des", lambda: iso_state(
    ModelIsotherm.from_pointisotherm(piso, branch="des", model=["Henry", "Langmuir", "Freundlich"])))
report("model_iso-list", lambda: iso_state(model_iso(piso, model=["Toth", "Langmuir"])))
report("model_iso-emptylist", lambda: iso_state(model_iso(piso, model=[])))
report("model_iso-badlist", lambda: iso_state(model_iso(piso, model=["Toth", "x"])))

# 5. selection rule on controlled errors (ties, NaN, inf, failures) - the fit is replaced by a stub
real_fit = IsothermBaseModel.fit
table = {}


def stub_fit(self, pressure, loading, param_guess, optimization_params=None, verbose=False):
    val = table[self.name]
    if val == "fail":
        raise CalculationError(f"stub failure {self.name}")
    if val == "boom":
        raise RuntimeError(f"stub crash {self.name}")
    for k in self.params:
        self.params[k] = 1.0
    self.rmse = val


IsothermBaseModel.fit = stub_fit
nan = float("nan")
inf = float("inf")
f64 = numpy.float64
scenarios = [
    [("Henry", 1.0), ("Langmuir", 0.5), ("Toth", 0.7)],
    [("Henry", 0.5), ("Langmuir", 0.5), ("Toth", 0.5)],
    [("Henry", 1.0), ("Langmuir", 0.5), ("Toth", 0.5)],
    [("Henry", nan), ("Langmuir", 0.5), ("Toth", 0.7)],
    [("Henry", 1.0), ("Langmuir", nan), ("Toth", 0.7)],
    [("Henry", 1.0), ("Langmuir", 0.5), ("Toth", nan)],
    [("Henry", nan), ("Langmuir", nan)],
    [("Henry", f64(nan)), ("Langmuir", f64(0.1)), ("Toth", f64(0.1))],
    [("Henry", f64(2.0)), ("Langmuir", f64(nan)), ("Toth", f64(3.0)), ("BET", f64(1.0))],
    [("Henry", inf), ("Langmuir", nan)],
    [("Henry", inf), ("Langmuir", inf)],
    [("Henry", -1.0), ("Langmuir", 0.0), ("Toth", -0.0)],
    [("Henry", 0.0), ("Langmuir", -0.0)],
    [("Henry", "fail"), ("Langmuir", 0.5), ("Toth", 0.2)],
    [("Henry", 0.1), ("Langmuir", "fail"), ("Toth", 0.2)],
    [("Henry", "fail"), ("Langmuir", "fail")],
    [("Henry", 0.1), ("Langmuir", "boom"), ("Toth", 0.01)],
    [("Henry", 1), ("Langmuir", 1.0), ("Toth", True)],
    [("Henry", 3), ("Langmuir", 2), ("Toth", 2.0), ("BET", 2)],
]
for i, sc in enumerate(scenarios):
    table.clear()
    table.update(dict(sc))
    names = [n for n, _ in sc]

    def run():
        best = ModelIsotherm.guess(pressure=pr, loading=ld, models=names, **base_kw)
        return f"{best.model.name} rmse={best.model.rmse!r}:{type(best.model.rmse).__name__}"

    report(f"select[{i}] {sc!r}", run)

# whole default list with a stubbed table
table.clear()
table.update({
    "Henry": 0.9, "Langmuir": 0.3, "DSLangmuir": "fail", "DR": 0.3, "Freundlich": nan,
    "Quadratic": 0.31, "BET": "fail", "TemkinApprox": 0.3, "Toth": 0.30000000000000004, "JensenSeaton": 0.4,
})
report("select[default list]", lambda: ModelIsotherm.guess(pressure=pr, loading=ld, **base_kw).model.name)
report("select[default list, positional-free 'guess']",
       lambda: ModelIsotherm.guess(pressure=pr, loading=ld, models="guess", **base_kw).model.name)
IsothermBaseModel.fit = real_fit
