"""Differential script for change 3: t_plot_raw / t_plot_parameters."""
import numpy

from eqcommon import bet_iso
from eqcommon import grid
from eqcommon import lang_iso
from eqcommon import run_case

import pygaps
from pygaps.characterisation.models_thickness import get_thickness_model
from pygaps.characterisation.t_plots import t_plot
from pygaps.characterisation.t_plots import t_plot_parameters
from pygaps.characterisation.t_plots import t_plot_raw

MM, RHO = 28.0134, 0.8064
halsey = get_thickness_model("Halsey")
hj = get_thickness_model("Harkins/Jura")
zero = get_thickness_model("zero thickness")


def custom(p):
    return 0.3 + 1.1 * p**0.5


# ---- exact straight t-plots: auto sections and manual limits
n = 0
for name, model in (("halsey", halsey), ("hj", hj), ("custom", custom)):
    for slope, icpt in ((0.5, 0.0), (12.0, 3.0), (150.0, 0.2), (3.3, 40.0)):
        n += 1
        kind = ("lin", "log", "rnd")[n % 3]
        npts = (5, 8, 20, 50, 100)[n % 5]
        p = grid(npts, 0.01, 0.9, kind, seed=n)
        tc = model(p)
        load = slope * tc + icpt
        run_case(f"auto {name} s={slope} i={icpt} {npts}{kind}", t_plot_raw, load, p, model, RHO, MM)
        lo, hi = numpy.quantile(tc, 0.2), numpy.quantile(tc, 0.8)
        run_case(f"manual {name} s={slope} i={icpt} {npts}{kind}", t_plot_raw, load, p, model, RHO, MM, (lo, hi))
        run_case(f"manual all {name} s={slope} i={icpt}", t_plot_raw, list(load), list(p), model, RHO, MM, (0, 100))

# ---- other adsorbate constants
p = grid(30, 0.02, 0.85)
for mm, rho in ((39.948, 1.395), (44.01, 0.93), (18.015, 0.997)):
    run_case(f"consts mm={mm} auto", t_plot_raw, 7 * halsey(p) + 1, p, halsey, rho, mm)
    run_case(f"consts mm={mm} manual", t_plot_raw, 7 * halsey(p) + 1, p, halsey, rho, mm, t_limits=(0.4, 0.8))

# ---- realistic, non-linear curves (several or no linear sections)
p = grid(60, 0.005, 0.95)
run_case("bet data auto halsey", t_plot_raw, bet_iso(p, 3.0, 100), p, halsey, RHO, MM)
run_case("bet data auto hj", t_plot_raw, bet_iso(p, 3.0, 100), p, hj, RHO, MM)
run_case("bet data manual", t_plot_raw, bet_iso(p, 3.0, 100), p, hj, RHO, MM, (0.35, 0.5))
run_case("langmuir data auto", t_plot_raw, lang_iso(p, 5.0, 200), p, halsey, RHO, MM)
load = numpy.where(p < 0.4, 10 * halsey(p), 10 * halsey(0.4) + 2 * (halsey(p) - halsey(0.4)))
run_case("two-slope data auto", t_plot_raw, load, p, halsey, RHO, MM)
run_case("two-slope data manual low", t_plot_raw, load, p, halsey, RHO, MM, (0.3, 0.45))
run_case("two-slope data manual high", t_plot_raw, load, p, halsey, RHO, MM, (0.6, 1.0))
rng = numpy.random.default_rng(5)
run_case("noisy data auto", t_plot_raw, 5 * halsey(p) * (1 + 0.2 * rng.standard_normal(p.size)), p, halsey, RHO, MM)

# ---- slope check failures, degenerate sections
p = grid(25, 0.05, 0.9)
tc = halsey(p)
t0 = 0.8 * tc.max()
steep = numpy.where(tc < t0, 0.0, 50 * (tc - t0))
run_case("steep section rejected manual", t_plot_raw, steep, p, halsey, RHO, MM, (t0, 2.0))
run_case("steep section accepted manual", t_plot_raw, steep + 40, p, halsey, RHO, MM, (t0, 2.0))
run_case("steep section auto", t_plot_raw, steep, p, halsey, RHO, MM)
run_case("no point in limits", t_plot_raw, 3 * tc, p, halsey, RHO, MM, (5.0, 6.0))
run_case("one point in limits", t_plot_raw, 3 * tc, p, halsey, RHO, MM, (tc[3] - 1e-6, tc[3] + 1e-6))
run_case("two points in limits", t_plot_raw, 3 * tc, p, halsey, RHO, MM, (tc[3] - 1e-6, tc[4] + 1e-6))
run_case("reversed limits", t_plot_raw, 3 * tc, p, halsey, RHO, MM, (0.8, 0.4))
run_case("limits as list", t_plot_raw, 3 * tc, p, halsey, RHO, MM, [0.4, 0.8])
run_case("one-element limits", t_plot_raw, 3 * tc, p, halsey, RHO, MM, (0.4, ))
run_case("zero thickness manual", t_plot_raw, 3 * tc, p, zero, RHO, MM, (-1, 1))
run_case("zero thickness auto", t_plot_raw, 3 * tc, p, zero, RHO, MM)
run_case("negative slope manual", t_plot_raw, 10 - 3 * tc, p, halsey, RHO, MM, (0.3, 1.0))
loadn = 3 * tc
loadn[4] = numpy.nan
run_case("nan loading manual", t_plot_raw, loadn, p, halsey, RHO, MM, (0.3, 1.0))
run_case("nan loading auto", t_plot_raw, loadn, p, halsey, RHO, MM)

# ---- invalid input
run_case("empty", t_plot_raw, [], [], halsey, RHO, MM)
run_case("mismatch", t_plot_raw, [1.0, 2.0], [0.1, 0.2, 0.3], halsey, RHO, MM)
run_case("short auto 3", t_plot_raw, [1.0, 2.0, 3.0], [0.1, 0.2, 0.3], halsey, RHO, MM)
run_case("short auto 1", t_plot_raw, [1.0], [0.1], halsey, RHO, MM)

# ---- t_plot_parameters directly
p = grid(20, 0.05, 0.9)
tc = hj(p)
load = 4.2 * tc + 0.7
for sec in (slice(None), slice(3, 12), [0, 1, 2, 3], numpy.arange(5, 15), [2], [], slice(0, 0)):
    run_case(f"params section={sec!r}", t_plot_parameters, tc, load, sec, MM, RHO)
t0 = 0.8 * tc.max()
run_case("params steep", t_plot_parameters, tc, numpy.where(tc < t0, 0.0, 9 * (tc - t0)), tc >= t0, MM, RHO)
run_case("params boundary", t_plot_parameters, numpy.array([1.0, 2.0, 3.0]), numpy.array([1.0, 2.0, 3.0]), slice(None), MM, RHO)
run_case("params exactly 3", t_plot_parameters, numpy.array([0.0, 2.0, 3.0]), numpy.array([0.0, 0.0, 1.0]), slice(1, None), MM, RHO)
run_case("params boundary 3", t_plot_parameters, numpy.array([0.0, 1.0, 3.0]), numpy.array([0.0, 0.0, 1.0]) * 1.5, slice(1, None), MM, RHO)
run_case("params nan", t_plot_parameters, tc, load * numpy.nan, slice(None), MM, RHO)


# ---- isotherm entry point
def make_iso(pp, ll):
    return pygaps.PointIsotherm(
        pressure=pp,
        loading=ll,
        material="gen",
        adsorbate="N2",
        temperature=77.355,
        temperature_unit="K",
        pressure_unit="bar",
        pressure_mode="relative",
        loading_basis="molar",
        loading_unit="mmol",
        material_basis="mass",
        material_unit="g",
    )


pp = grid(40, 0.01, 0.9)
iso = make_iso(pp, 6.5 * halsey(pp) + 2.0)
run_case("iso halsey auto", t_plot, iso, "Halsey")
run_case("iso halsey manual", t_plot, iso, thickness_model="Halsey", t_limits=(0.4, 0.9))
run_case("iso hj manual", t_plot, iso, thickness_model="Harkins/Jura", t_limits=(0.4, 0.9))
run_case("iso callable", t_plot, iso, thickness_model=custom, t_limits=(0.5, 1.2))
run_case("iso empty limits", t_plot, iso, thickness_model="Halsey", t_limits=(3, 4))
run_case("iso no model", t_plot, iso, None)
run_case("iso bad model", t_plot, iso, "nope")
run_case("iso des branch", t_plot, iso, "Halsey", branch="des")
