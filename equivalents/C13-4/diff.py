import hashlib
import logging
import warnings

import numpy

import pygaps
import pygaps.iast.pgiast as pgi
import pygaps.modelling as pgm
from pygaps.core.modelisotherm import ModelIsotherm
from pygaps.core.pointisotherm import PointIsotherm

assert pygaps.__file__.startswith("/tmp/eq/C13/src"), pygaps.__file__

UNITS = dict(
    pressure_mode="absolute",
    pressure_unit="bar",
    material_basis="mass",
    material_unit="g",
    loading_basis="molar",
    loading_unit="mmol",
    temperature_unit="K",
)


# ---------------------------------------------------------------- canonical text
def fmt(obj):
    """Canonical text of a result: floats with 12 significant digits."""
    if isinstance(obj, dict):
        return "{" + ", ".join(f"{k!r}: {fmt(v)}" for k, v in obj.items()) + "}"
    if isinstance(obj, tuple):
        return "(" + ", ".join(fmt(v) for v in obj) + ")"
    if isinstance(obj, list):
        return "[" + ", ".join(fmt(v) for v in obj) + "]"
    if isinstance(obj, numpy.ndarray):
        if obj.ndim == 0:
            return f"arr0<{obj.dtype}>({fmt(obj.item())})"
        return f"arr<{obj.dtype},{obj.shape}>[" + ", ".join(fmt(v) for v in obj.tolist()) + "]"
    if isinstance(obj, (bool, numpy.bool_)):
        return f"{type(obj).__name__}:{bool(obj)}"
    if isinstance(obj, (float, numpy.floating)):
        return f"{type(obj).__name__}:{float(obj):.12g}"
    if isinstance(obj, (int, numpy.integer)):
        return f"{type(obj).__name__}:{int(obj)}"
    return f"{type(obj).__name__}:{obj!r}"


# ---------------------------------------------------------------- log capture
class _ListHandler(logging.Handler):
    def __init__(self):
        super().__init__(level=logging.DEBUG)
        self.records = []

    def emit(self, record):
        self.records.append(f"{record.levelname}|{record.getMessage()}")


LOGS = _ListHandler()
pygaps.logger.addHandler(LOGS)
pygaps.logger.setLevel(logging.DEBUG)
for _h in list(pygaps.logger.handlers):
    if _h is not LOGS:
        pygaps.logger.removeHandler(_h)
pygaps.logger.propagate = False

# ---------------------------------------------------------------- call trace
TRACE = []


def _traced(cls, name):
    original = getattr(cls, name)

    def wrapper(self, pressure, *args, **kwargs):
        try:
            ptxt = fmt(numpy.asarray(pressure, dtype=float))
        except Exception:  # pragma: no cover
            ptxt = repr(pressure)
        TRACE.append(f"{getattr(self, '_tag', '?')}.{name}({ptxt}, {args!r}, {sorted(kwargs.items())!r})")
        return original(self, pressure, *args, **kwargs)

    setattr(cls, name, wrapper)


for _cls in (ModelIsotherm, PointIsotherm):
    for _name in ("spreading_pressure_at", "loading_at"):
        _traced(_cls, _name)


# ---------------------------------------------------------------- runner
def run(label, func, *args, **kwargs):
    LOGS.records.clear()
    TRACE.clear()
    print(f"=== {label}")
    with warnings.catch_warnings(record=True) as caught:
        warnings.simplefilter("always")
        try:
            result = func(*args, **kwargs)
            print("  result:", fmt(result))
        except BaseException as err:  # noqa
            print(f"  raised: {type(err).__name__}: {str(err)!r}")
    for rec in LOGS.records:
        print("  log:", repr(rec))
    for w in caught:
        print(f"  warning: {w.category.__name__}: {str(w.message)!r}")
    digest = hashlib.sha1("\n".join(TRACE).encode()).hexdigest()
    print(f"  calls: {len(TRACE)} sha1={digest}")


# ---------------------------------------------------------------- isotherms
def model_iso(tag, name, params, prange=(0.01, 20.0), lrange=(0.0, 10.0), branch="ads", **over):
    model = pgm.get_isotherm_model(
        name, parameters=params, pressure_range=prange, loading_range=lrange
    )
    props = dict(UNITS)
    props.update(material="M", adsorbate="N2", temperature=300)
    props.update(over)
    iso = ModelIsotherm(model=model, branch=branch, **props)
    iso._tag = tag
    return iso


def point_iso(tag, func, pmax=20.0, npts=40, **over):
    pressure = numpy.geomspace(0.005, pmax, npts)
    loading = func(pressure)
    props = dict(UNITS)
    props.update(material="M", adsorbate="N2", temperature=300)
    props.update(over)
    iso = PointIsotherm(pressure=pressure, loading=loading, **props)
    iso._tag = tag
    return iso


LA = model_iso("LA", "Langmuir", {"K": 1.5, "n_m": 4.0})
LB = model_iso("LB", "Langmuir", {"K": 0.2, "n_m": 6.5}, adsorbate="CO2")
LC = model_iso("LC", "Langmuir", {"K": 7.0, "n_m": 4.0}, adsorbate="CH4")  # same capacity as LA
LD = model_iso("LD", "Langmuir", {"K": 0.05, "n_m": 4.0}, adsorbate="O2", prange=(0.01, 2.0))
HA = model_iso("HA", "Henry", {"K": 0.7})
HB = model_iso("HB", "Henry", {"K": 3.1}, adsorbate="CO2")
DS = model_iso("DS", "DSLangmuir", {"n_m1": 2.0, "K1": 4.0, "n_m2": 3.0, "K2": 0.1})
TS = model_iso(
    "TS", "TSLangmuir", {"n_m1": 1.0, "n_m2": 2.0, "n_m3": 1.5, "K1": 9.0, "K2": 0.8, "K3": 0.05}
)
QU = model_iso("QU", "Quadratic", {"n_m": 3.0, "Ka": 0.9, "Kb": 0.4})
BE = model_iso("BE", "BET", {"n_m": 2.5, "C": 30.0, "N": 0.01})
TE = model_iso("TE", "TemkinApprox", {"n_m": 5.0, "K": 0.6, "tht": -0.1})
TO = model_iso("TO", "Toth", {"n_m": 5.0, "K": 1.2, "t": 0.7})
JS = model_iso("JS", "JensenSeaton", {"K": 6.0, "a": 3.0, "b": 0.05, "c": 1.3})
FR = model_iso("FR", "Freundlich", {"K": 1.0, "m": 2.0})  # not IAST capable
REL = model_iso("REL", "Langmuir", {"K": 50.0, "n_m": 4.0}, pressure_mode="relative")
DES = model_iso("DES", "Langmuir", {"K": 1.1, "n_m": 3.0}, branch="des")
PA = point_iso("PA", lambda p: 4.0 * 1.5 * p / (1 + 1.5 * p))
PB = point_iso("PB", lambda p: 6.5 * 0.2 * p / (1 + 0.2 * p), adsorbate="CO2")
PC = point_iso("PC", lambda p: 3.0 * 0.9 * p / (1 + 0.9 * p), pmax=5.0, npts=15, adsorbate="CH4")

# ================================================================= cases (change 4: svp / vle helpers)
import matplotlib
matplotlib.use("Agg")
import matplotlib.pyplot as plt

ipf = pgi.iast_point_fraction
svp, vle = pgi.iast_binary_svp, pgi.iast_binary_vle

PAIRS = [[LA, LB], [LB, LA], [HA, HB], [LA, LC], [HA, LA], [DS, TS], [QU, BE], [TE, TO], [JS, LA], [PA, PB], [PA, LB]]
for pair in PAIRS:
    label = "+".join(i._tag for i in pair)
    run(f"svp {label}", svp, pair, [0.25, 0.75], [0.1, 0.5, 1.0, 2.0, 5.0], warningoff=True)
    run(f"vle {label}", vle, pair, 2.0, npoints=7, warningoff=True)

# the helpers return what the point calculation gives
def svp_vs_point(pair, y, pressures):
    res = svp(pair, y, pressures, warningoff=True)
    direct = [ipf(pair, y, p, warningoff=True) for p in pressures]
    sel = [(l[0] / y[0]) / (l[1] / y[1]) for l in direct]
    return [type(s).__name__ for s in res["selectivity"]], [a == b for a, b in zip(res["selectivity"], sel)], type(res["selectivity"]).__name__, res
def vle_vs_point(pair, pt, npoints):
    res = vle(pair, pt, npoints=npoints, warningoff=True)
    ys = numpy.linspace(0.01, 0.99, npoints)
    direct = [ipf(pair, [y, 1 - y], pt, warningoff=True) for y in ys]
    xs = [l[0] / (l[0] + l[1]) for l in direct]
    return [a == b for a, b in zip(res["x"][1:-1], xs)], list(res.keys()), res
run("svp vs point LA+LB", svp_vs_point, [LA, LB], [0.5, 0.5], [0.5, 1.0, 3.0])
run("svp vs point TO+JS", svp_vs_point, [TO, JS], [0.125, 0.875], [0.5, 1.0, 3.0])
run("svp vs point DS+QU", svp_vs_point, [DS, QU], [0.125, 0.875], [0.5, 1.0, 3.0])
run("vle vs point LA+LB", vle_vs_point, [LA, LB], 1.0, 5)
run("vle vs point BE+JS", vle_vs_point, [BE, JS], 0.5, 4)
run("vle vs point PA+PB", vle_vs_point, [PA, PB], 3.0, 6)

# argument kinds
run("svp pressures ndarray", svp, [LA, LB], numpy.array([0.5, 0.5]), numpy.array([1.0, 2.0]))
run("svp pressures tuple/ints", svp, [LA, LB], (0.5, 0.5), (1, 2, 3))
run("svp pressures empty", svp, [LA, LB], [0.5, 0.5], [])
run("svp single pressure", svp, [LA, LB], [0.5, 0.5], [1.0])
run("svp scalar pressure", svp, [LA, LB], [0.5, 0.5], 1.0)
run("svp 2d pressures", svp, [LA, LB], [0.5, 0.5], [[1.0, 2.0]])
run("svp int fractions [1, 0]", svp, [LA, LB], [1, 0], [1.0, 2.0])
run("svp int fractions [0, 1]", svp, [LA, LB], [0, 1], [1.0, 2.0])
run("svp fractions 0.1/0.9", svp, [LA, LB], [0.1, 0.9], [1.0, 2.0])
run("svp fractions 0.3/0.7", svp, [LA, LB], [0.3, 0.7], [1.0, 2.0])
run("svp fractions bad sum", svp, [LA, LB], [0.3, 0.6], [1.0, 2.0])
run("svp fractions negative", svp, [LA, LB], [1.5, -0.5], [1.0, 2.0])
run("svp three fractions", svp, [LA, LB], [0.25, 0.25, 0.5], [1.0])
run("svp three isotherms", svp, [LA, LB, HA], [0.5, 0.5], [1.0])
run("svp one isotherm", svp, [LA], [0.5, 0.5], [1.0])
run("svp relative", svp, [LA, REL], [0.5, 0.5], [1.0])
run("svp non IAST", svp, [LA, FR], [0.5, 0.5], [1.0])
run("svp non IAST no pressures", svp, [LA, FR], [0.5, 0.5], [])
run("svp guess", svp, [LA, LB], [0.5, 0.5], [1.0, 2.0], adsorbed_mole_fraction_guess=[0.75, 0.25])
run("svp bad guess", svp, [LA, LB], [0.5, 0.5], [1.0, 2.0], adsorbed_mole_fraction_guess=[0.75, 0.35])
run("svp branch des", svp, [LA, LB], [0.5, 0.5], [1.0, 2.0], branch="des")
run("svp des models", svp, [DES, DES], [0.5, 0.5], [1.0, 2.0], branch="des")
run("svp extrapolation warnings", svp, [LA, LD], [0.5, 0.5], [1.0, 30.0])
run("svp points out of range", svp, [PA, PC], [0.5, 0.5], [1.0, 30.0])
run("svp negative pressure", svp, [LA, LB], [0.5, 0.5], [1.0, -1.0])
run("svp nan pressure", svp, [LA, LB], [0.5, 0.5], [numpy.nan])

run("vle npoints default", vle, [LA, LB], 1.5, warningoff=True)
run("vle npoints 1", vle, [LA, LB], 1.5, npoints=1)
run("vle npoints 2", vle, [LA, LB], 1.5, npoints=2)
run("vle npoints 0", vle, [LA, LB], 1.5, npoints=0)
run("vle npoints negative", vle, [LA, LB], 1.5, npoints=-1)
run("vle npoints float", vle, [LA, LB], 1.5, npoints=3.0)
run("vle int pressure", vle, [LA, LB], 2, npoints=3)
run("vle tiny pressure", vle, [LA, LB], 1e-7, npoints=3)
run("vle big pressure", vle, [LA, LB], 1e4, npoints=3, warningoff=True)
run("vle big pressure warnings", vle, [LA, LD], 50.0, npoints=3)
run("vle three isotherms", vle, [LA, LB, HA], 1.5)
run("vle one isotherm", vle, [LA], 1.5)
run("vle relative", vle, [REL, LA], 1.5)
run("vle non IAST", vle, [FR, LA], 1.5)
run("vle non IAST npoints 0", vle, [FR, LA], 1.5, npoints=0)
run("vle guess", vle, [LA, LB], 1.5, npoints=3, adsorbed_mole_fraction_guess=[0.75, 0.25])
run("vle bad guess", vle, [LA, LB], 1.5, npoints=3, adsorbed_mole_fraction_guess=[0.75, 0.35])
run("vle branch des", vle, [LA, LB], 1.5, npoints=3, branch="des")
run("vle points out of range", vle, [PA, PC], 30.0, npoints=3)
run("vle negative pressure", vle, [LA, LB], -1.0, npoints=3)

# verbose = plotting path
def plotted(func, *args, **kwargs):
    fig, ax = plt.subplots()
    res = func(*args, verbose=True, ax=ax, **kwargs)
    lines = [(l.get_xdata(), l.get_ydata()) for l in ax.get_lines()]
    out = (res, [(numpy.asarray(a, dtype=float), numpy.asarray(b, dtype=float)) for a, b in lines],
           ax.get_xlabel(), ax.get_ylabel(), ax.get_title())
    plt.close(fig)
    return out
run("svp verbose plot", plotted, svp, [LA, LB], [0.25, 0.75], [0.5, 1.0, 2.0], warningoff=True)
run("vle verbose plot", plotted, vle, [LA, LB], 2.0, npoints=4, warningoff=True)
