"""Differential script for C19-2 (enth_sorp_whittaker.py refactoring).

Prints a deterministic transcript; run on the untouched and the patched tree.
"""
import logging
import warnings

import matplotlib
matplotlib.use('Agg')
import numpy

import pygaps
import pygaps.modelling as pgm
from pygaps.characterisation.enth_sorp_whittaker import enthalpy_sorption_whittaker as whittaker

R = 8.314462618


class Capture(logging.Handler):
    def emit(self, record):
        print(f"    LOG {record.levelname}: {record.getMessage()!r}")


pygaps.logger.handlers[:] = [Capture()]
pygaps.logger.setLevel(logging.DEBUG)


def show_warning(message, category, filename, lineno, file=None, line=None):
    print(f"    PYWARN {category.__name__}: {message}")


warnings.showwarning = show_warning
warnings.simplefilter('always')


def full(x):
    """Exact, deterministic rendering."""
    if isinstance(x, dict):
        return '{' + ', '.join(f"{k!r}: {full(v)}" for k, v in x.items()) + '}'
    if isinstance(x, numpy.ndarray):
        return f"ndarray{x.shape}{x.dtype}" + full(x.tolist())
    if isinstance(x, (list, tuple)):
        o, c = ('[', ']') if isinstance(x, list) else ('(', ')')
        return o + ', '.join(full(v) for v in x) + c
    if isinstance(x, (float, numpy.floating)):
        return f"{type(x).__name__}:{float(x)!r}:{float(x).hex()}"
    return f"{type(x).__name__}:{x!r}"


def run(label, fn, *args, **kwargs):
    print(f"CALL {label}")
    try:
        print(f"    RET {full(fn(*args, **kwargs))}")
    except BaseException as err:  # noqa
        print(f"    EXC {type(err).__module__}.{type(err).__name__}: {err!r}")


def model_iso(name, temp, adsorbate, pressure_unit='Pa', l_range=(0.05, 4.5), p_range=(1.0, 1e5), **params):
    model = pgm.get_isotherm_model(name, parameters=params, pressure_range=p_range, loading_range=l_range)
    return pygaps.ModelIsotherm(
        model=model, material='mat', adsorbate=adsorbate, temperature=temp, pressure_mode='absolute',
        pressure_unit=pressure_unit, material_basis='mass', material_unit='g', loading_basis='molar',
        loading_unit='mmol', temperature_unit='K',
    )


def point_iso(temp, adsorbate, n_m=5.0, K=2e-4, t=None, pressures=None, desorption=False, **units):
    """Exact Langmuir/Toth points, pressures in Pa, converted afterwards."""
    p = numpy.asarray(pressures if pressures is not None else numpy.geomspace(10, 9e4, 35))
    if t is None:
        n = n_m * K * p / (1 + K * p)
    else:
        n = n_m * K * p / (1 + (K * p)**t)**(1 / t)
    if desorption:
        p = numpy.concatenate([p, p[::-1][1:]])
        n = numpy.concatenate([n, 1.1 * n[::-1][1:]])
    iso = pygaps.PointIsotherm(
        pressure=p, loading=n, material='mat', adsorbate=adsorbate, temperature=temp,
        pressure_mode='absolute', pressure_unit='Pa', material_basis='mass', material_unit='g',
        loading_basis='molar', loading_unit='mmol', temperature_unit='K',
    )
    if units:
        iso.convert_pressure(mode_to=units.get('pressure_mode', 'absolute'), unit_to=units.get('pressure_unit'))
    return iso


def closed_form(iso, loadings):
    """lambda + dH_vap + RT, written independently, for comparison in the transcript."""
    ads = iso.adsorbate
    prm = iso.model.params
    t = prm.get('t', 1)
    T = iso.temperature
    p_sat = ads.saturation_pressure(temp=T)
    out = []
    for n in loadings:
        p = iso.pressure_at(n, pressure_unit='Pa')
        p = max(p, ads.p_triple())
        th = (n / prm['n_m'])**t
        lam = R * T * numpy.log(p_sat / ((1 / prm['K']**t)**(1 / t)) * (th / (1 - th))**((t - 1) / t))
        out.append((lam + ads.enthalpy_vaporisation(press=p) * 1000 + R * T) / 1000)
    return out


print("== model isotherms, Langmuir and Toth, default and given loadings")
CASES = [
    ('Langmuir', 77.0, 'nitrogen', dict(n_m=5.0, K=2e-4)),
    ('Langmuir', 87.0, 'argon', dict(n_m=3.0, K=5e-5)),
    ('Langmuir', 250.0, 'carbon dioxide', dict(n_m=8.0, K=1e-5)),
    ('Langmuir', 298.15, 'butane', dict(n_m=2.5, K=3e-4)),
    ('Toth', 77.0, 'nitrogen', dict(n_m=5.0, K=2e-4, t=0.6)),
    ('Toth', 250.0, 'carbon dioxide', dict(n_m=8.0, K=1e-5, t=1.4)),
    ('Toth', 298.15, 'butane', dict(n_m=2.5, K=3e-4, t=1.0)),
    ('Toth', 87.0, 'argon', dict(n_m=3.0, K=5e-5, t=0.25)),
]
for name, temp, ads, prm in CASES:
    iso = model_iso(name, temp, ads, **prm)
    run(f"{name} {ads} {temp} default loading", whittaker, iso)
    pts = [0.1, 0.5, 1.0, 2.0, 2.4]
    run(f"{name} {ads} {temp} given loading", whittaker, iso, loading=pts)
    run(f"{name} {ads} {temp} closed form", closed_form, iso, pts)
    run(f"{name} {ads} {temp} array loading", whittaker, iso, 'ignored', numpy.array(pts))
    run(f"{name} {ads} {temp} zero / full / over loadings", whittaker, iso,
        loading=[0, 0.0, 1e-12, 1.0, prm['n_m'], prm['n_m'] * 1.5, -1.0, numpy.nan, numpy.inf])
    run(f"{name} {ads} {temp} numpy zero / full", whittaker, iso,
        loading=numpy.array([0.0, 1e-9, prm['n_m'], 2 * prm['n_m']]))
    run(f"{name} {ads} {temp} empty", whittaker, iso, loading=[])
    run(f"{name} {ads} {temp} tuple ints", whittaker, iso, loading=(1, 2))

print("== pressures outside the range of the vaporisation enthalpy")
run("above saturation pressure (weak affinity)", whittaker, model_iso('Langmuir', 77.0, 'nitrogen', n_m=5.0, K=1e-6),
    loading=[0.1, 0.3, 0.45, 0.5, 1.0, 2.5, 4.0])
run("above critical pressure", whittaker, model_iso('Langmuir', 120.0, 'nitrogen', n_m=5.0, K=1e-7),
    loading=[0.1, 0.5, 1.0, 1.2, 1.3, 2.0, 4.0])
run("below triple point pressure", whittaker, model_iso('Langmuir', 220.0, 'carbon dioxide', n_m=5.0, K=1e-3),
    loading=[0.001, 0.1, 1.0, 4.0, 4.99])
run("supercritical: pseudo saturation pressure", whittaker, model_iso('Langmuir', 298.15, 'nitrogen', n_m=5.0, K=1e-6),
    loading=[0.1, 1.0, 3.0, 3.8, 4.5])
run("supercritical Toth", whittaker, model_iso('Toth', 320.0, 'carbon dioxide', n_m=5.0, K=1e-6, t=0.8))
run("supercritical default loading", whittaker, model_iso('Langmuir', 200.0, 'argon', n_m=5.0, K=1e-6))
run("all excluded", whittaker, model_iso('Langmuir', 77.0, 'nitrogen', n_m=5.0, K=1e-9), loading=[1.0, 2.0])

print("== degenerate parameters")
run("K zero", whittaker, model_iso('Langmuir', 77.0, 'nitrogen', n_m=5.0, K=0.0), loading=[1.0])
run("K negative", whittaker, model_iso('Langmuir', 77.0, 'nitrogen', n_m=5.0, K=-2e-4), loading=[1.0])
run("n_m zero", whittaker, model_iso('Langmuir', 77.0, 'nitrogen', n_m=0.0, K=2e-4), loading=[1.0])
run("n_m int", whittaker, model_iso('Langmuir', 77.0, 'nitrogen', n_m=5, K=2e-4), loading=[1, 5, 2.5])
run("t zero", whittaker, model_iso('Toth', 77.0, 'nitrogen', n_m=5.0, K=2e-4, t=0.0), loading=[1.0])
run("t negative", whittaker, model_iso('Toth', 77.0, 'nitrogen', n_m=5.0, K=2e-4, t=-1.0), loading=[1.0])
run("t int one", whittaker, model_iso('Toth', 77.0, 'nitrogen', n_m=5.0, K=2e-4, t=1), loading=[1.0, 5.0])
run("nan params", whittaker, model_iso('Toth', 77.0, 'nitrogen', n_m=numpy.nan, K=numpy.nan, t=numpy.nan), loading=[1.0])
run("numpy params", whittaker, model_iso('Toth', 77.0, 'nitrogen', n_m=numpy.float64(5), K=numpy.float64(2e-4),
                                         t=numpy.float64(0.5)), loading=[1.0, 5.0, 6.0])
iso = model_iso('Langmuir', 77.0, 'nitrogen', n_m=5.0, K=2e-4)
iso.model.loading_range = (numpy.nan, numpy.nan)
run("nan loading range default", whittaker, iso)
iso.model.loading_range = (0.0, 5.0)
run("loading range hitting 0 and n_m", whittaker, iso)
iso.model.loading_range = (4.0, 1.0)
run("reversed loading range", whittaker, iso)
iso.model.loading_range = (1.0, )
run("short loading range", whittaker, iso)
iso.model.loading_range = (1.0, 2.0, 3.0)
run("long loading range", whittaker, iso)
iso = model_iso('Toth', 77.0, 'nitrogen', n_m=5.0, K=2e-4, t=0.5)
del iso.model.params['t']
run("Toth missing t", whittaker, iso, loading=[1.0])
iso = model_iso('Langmuir', 77.0, 'nitrogen', n_m=5.0, K=2e-4)
del iso.model.params['K']
run("Langmuir missing K", whittaker, iso, loading=[1.0])
iso = model_iso('Langmuir', 77.0, 'nitrogen', n_m=5.0, K=2e-4)
iso.model.params = {}
run("no params", whittaker, iso, loading=[1.0])

print("== refusals")
run("model isotherm in bar", whittaker, model_iso('Langmuir', 77.0, 'nitrogen', pressure_unit='bar', n_m=5.0, K=2e-4))
run("model isotherm in kPa, bad model too", whittaker, model_iso('Henry', 77.0, 'nitrogen', pressure_unit='kPa', K=2e-4))
run("Henry model", whittaker, model_iso('Henry', 77.0, 'nitrogen', K=2e-4))
run("DSLangmuir model", whittaker, model_iso('DSLangmuir', 77.0, 'nitrogen', n_m1=1.0, K1=1e-4, n_m2=1.0, K2=1e-5))
run("model argument ignored for model isotherm", whittaker, model_iso('Langmuir', 77.0, 'nitrogen', n_m=5.0, K=2e-4),
    'Henry', [1.0])
run("unknown adsorbate", whittaker, model_iso('Langmuir', 77.0, 'unobtainium', n_m=5.0, K=2e-4), loading=[1.0])
base = pygaps.core.baseisotherm.BaseIsotherm(
    material='mat', adsorbate='nitrogen', temperature=77, pressure_mode='absolute', pressure_unit='Pa',
    material_basis='mass', material_unit='g', loading_basis='molar', loading_unit='mmol', temperature_unit='K')
run("base isotherm", whittaker, base)
run("base isotherm bad model", whittaker, base, 'Henry')
run("base isotherm model None", whittaker, base, None)
run("None", whittaker, None)
run("string", whittaker, 'iso', 'Langmuir')
run("2-d loading", whittaker, model_iso('Langmuir', 77.0, 'nitrogen', n_m=5.0, K=2e-4), loading=[[1.0, 2.0]])
run("string loading", whittaker, model_iso('Langmuir', 77.0, 'nitrogen', n_m=5.0, K=2e-4), loading='12')
run("scalar loading", whittaker, model_iso('Langmuir', 77.0, 'nitrogen', n_m=5.0, K=2e-4), loading=1.0)

print("== point isotherms (fitted inside)")


def snapshot(iso):
    return (iso.pressure_mode, iso.pressure_unit, iso.pressure().tolist(), iso.loading().tolist())


for model in ('Langmuir', 'Toth', 'langmuir', 'TOTH', 'Henry', 'nonsense', ['Langmuir', 'Toth'], None):
    for units in ({}, {'pressure_unit': 'bar'}, {'pressure_mode': 'relative'}):
        iso = point_iso(77.0, 'nitrogen', **units)
        before = snapshot(iso)
        run(f"point Langmuir-data model={model!r} units={units}", whittaker, iso, model, [0.5, 1.0, 2.0])
        print("    caller isotherm untouched:", before == snapshot(iso))
iso = point_iso(250.0, 'carbon dioxide', n_m=6.0, K=3e-5, t=0.7, pressures=numpy.geomspace(50, 1.5e6, 40))
run("point Toth-data default model", whittaker, iso)
run("point Toth-data Langmuir", whittaker, iso, 'Langmuir')
run("point default loading kw", lambda: whittaker(isotherm=iso, model='Toth', loading=None, verbose=False))
run("point hysteretic uses ads branch", whittaker, point_iso(77.0, 'nitrogen', desorption=True), 'Langmuir', [1.0, 2.0])
run("point supercritical", whittaker, point_iso(298.15, 'nitrogen', K=1e-6, pressures=numpy.geomspace(1e3, 3e6, 30)), 'Langmuir')
run("point too few points", whittaker, point_iso(77.0, 'nitrogen', pressures=[10.0, 100.0]), 'Toth')

print("== verbose")
run("verbose model", whittaker, model_iso('Toth', 77.0, 'nitrogen', n_m=5.0, K=2e-4, t=0.6), loading=[1.0, 2.0], verbose=True)
run("verbose model nothing kept", whittaker, model_iso('Langmuir', 77.0, 'nitrogen', n_m=5.0, K=1e-9), loading=[1.0], verbose=True)
matplotlib.pyplot.close('all')

print("== result object identity")
iso = model_iso('Langmuir', 77.0, 'nitrogen', n_m=5.0, K=2e-4)
pts = [1.0, 0, 2.0]
res = whittaker(iso, loading=pts)
print(res['model_params'] is iso.model.params, pts, [type(v).__name__ for v in res['loading']],
      [type(v).__name__ for v in res['enthalpy_sorption']], list(res))
arr = numpy.array([1.0, 2.0])
res = whittaker(iso, loading=arr)
print([type(v).__name__ for v in res['loading']], [type(v).__name__ for v in res['enthalpy_sorption']], arr.tolist())
