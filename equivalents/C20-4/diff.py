"""Differential script for change 4: adsorbates_from_db property / alias grouping."""
import json
import os
import shutil
import sqlite3
import sys

sys.path.insert(0, os.path.dirname(os.path.abspath(__file__)))
from eqcommon import call  # noqa: E402
from eqcommon import fmt  # noqa: E402

import pygaps  # noqa: E402
from pygaps import Adsorbate  # noqa: E402
from pygaps.data import ADSORBATE_LIST  # noqa: E402
from pygaps.data import DATABASE  # noqa: E402
from pygaps.parsing import sqlite as pgsql  # noqa: E402
from pygaps.utilities.sqlite_db_creator import db_create  # noqa: E402


def dump(adsorbates):
    """Canonical text for a list of adsorbates, keeps order of list and of dictionary keys."""
    out = []
    for ads in adsorbates:
        props = [(k, type(v).__name__, v) for k, v in ads.properties.items()]
        out.append(f"  {ads.name!r}: alias={fmt(ads.alias)} props={fmt(props)}")
    return "\n".join([f"n={len(adsorbates)}"] + out)


def pcall(label, func, *args, **kwargs):
    call(label, lambda: print(dump(func(*args, **kwargs))))


tmpdir = os.path.join(os.path.dirname(os.path.abspath(__file__)), 'tmpdb')
shutil.rmtree(tmpdir, ignore_errors=True)
os.makedirs(tmpdir)
try:
    # ------------------------------------------------------------------
    # 1. the packaged database (a copy, never the original)
    packaged = os.path.join(tmpdir, 'packaged.db')
    shutil.copy(str(DATABASE), packaged)
    pcall("packaged db", pgsql.adsorbates_from_db, db_path=packaged, verbose=False)
    pcall("packaged db positional/verbose", pgsql.adsorbates_from_db, packaged)
    print("master list at import:")
    print(dump(ADSORBATE_LIST))

    # ------------------------------------------------------------------
    # 2. a database freshly created from the JSON source list
    fresh = os.path.join(tmpdir, 'fresh.db')
    n_before = len(ADSORBATE_LIST)
    db_create(fresh)
    del ADSORBATE_LIST[n_before:]
    pcall("fresh db from json", pgsql.adsorbates_from_db, db_path=fresh, verbose=False)
    loaded = pgsql.adsorbates_from_db(db_path=fresh, verbose=False)
    src = os.path.join(os.path.dirname(pygaps.__file__), 'data', 'adsorbates.json')
    with open(src, encoding='utf8') as f:
        ads_json = json.load(f)
    for entry, ads in zip(ads_json, loaded):
        ref = Adsorbate(**dict(entry))
        same = (ref.name == ads.name and ref.alias == ads.alias and ref.properties == ads.properties)
        print(f"json-vs-db[{entry['name']}]: {same}")

    # ------------------------------------------------------------------
    # 3. round trips of user adsorbates with all kinds of property shapes
    user = os.path.join(tmpdir, 'user.db')
    db_create(user)
    del ADSORBATE_LIST[n_before:]
    USER = [
        Adsorbate('eq-plain'),
        Adsorbate('EQ-Upper'),
        Adsorbate('eq-one-alias', alias='single'),
        Adsorbate('eq-one-alias-list', alias=['eq-one-alias-list']),
        Adsorbate('eq-many', alias=['A1', 'a2', 'A3', 'a4']),
        Adsorbate('eq-dupes', alias=['x', 'X', 'x']),
        Adsorbate('eq-props', alias=['p1'], formula='X_{2}', backend_name='Nitrogen', molar_mass=28.0, t_critical=126),
        Adsorbate('eq-listprop', alias=['lp'], family=['a', 'b', 'c'], inchikey=('k1', 'k2'), molar_mass=[1.5]),
        Adsorbate('eq-listprop-single', family=['only']),
        Adsorbate('eq-emptylist', alias=['el'], family=[], formula='F'),
        Adsorbate('eq-types', alias=['ty'], molar_mass=5, t_triple=1.25, formula='12', inchikey='1.50', family='abc'),
        Adsorbate('eq-mixedlist', family=[1, 'two', 3.5, '4']),
        Adsorbate('eq-order', zeta=1, alpha=2, mid=[3, 4], alias=['o1', 'o2'], beta=5),
        Adsorbate('eq-set', family={'only-one'}),
    ]
    for ads in USER:
        call(f"upload[{ads.name}]", pgsql.adsorbate_to_db, ads, db_path=user, verbose=False)
    del ADSORBATE_LIST[n_before:]
    pcall("user db", pgsql.adsorbates_from_db, db_path=user, verbose=False)
    call("upload[None prop]", pgsql.adsorbate_to_db, Adsorbate('eq-none', formula=None), db_path=user, verbose=False)
    call("upload[duplicate]", pgsql.adsorbate_to_db, Adsorbate('eq-plain'), db_path=user, verbose=False)
    call(
        "overwrite[eq-many]", pgsql.adsorbate_to_db, Adsorbate('eq-many', alias=['b1'], formula=['f1', 'f2']),
        db_path=user, overwrite=True, verbose=False
    )
    call("delete[eq-dupes]", pgsql.adsorbate_delete_db, Adsorbate('eq-dupes'), db_path=user, verbose=False)
    del ADSORBATE_LIST[n_before:]
    pcall("user db after changes", pgsql.adsorbates_from_db, db_path=user, verbose=True)

    # ------------------------------------------------------------------
    # 4. hand-made tables, driving the reader through an explicit cursor
    def handmade(rows_ads, rows_props, typed=False):
        conn = sqlite3.connect(':memory:')
        conn.row_factory = sqlite3.Row
        cur = conn.cursor()
        cur.execute("CREATE TABLE adsorbates (id INTEGER PRIMARY KEY, name TEXT)")
        vtype = "REAL" if typed else ""
        cur.execute(f"CREATE TABLE adsorbate_properties (id INTEGER PRIMARY KEY, ads_id INTEGER, type TEXT, value {vtype})")
        cur.executemany("INSERT INTO adsorbates (id, name) VALUES (?, ?)", rows_ads)
        cur.executemany("INSERT INTO adsorbate_properties (ads_id, type, value) VALUES (?, ?, ?)", rows_props)
        return conn, cur

    HAND = {
        'empty tables': ([], []),
        'no properties': ([(1, 'a'), (2, 'B')], []),
        'single alias': ([(1, 'a')], [(1, 'alias', 'x')]),
        'two aliases': ([(1, 'a')], [(1, 'alias', 'x'), (1, 'alias', 'Y')]),
        'three aliases': ([(1, 'a')], [(1, 'alias', 'x'), (1, 'alias', 'y'), (1, 'alias', 'z')]),
        'five aliases with repeats': ([(1, 'a')], [(1, 'alias', v) for v in ('x', 'x', 'A', 'y', 'x')]),
        'interleaved types': ([(1, 'a')], [(1, 'alias', 'x'), (1, 'formula', 'F'), (1, 'alias', 'y'), (1, 'family', 'f1'),
                                           (1, 'family', 'f2'), (1, 'alias', 'z'), (1, 'molar_mass', 2.5)]),
        'first occurrence order': ([(1, 'a')], [(1, 'zz', 1), (1, 'aa', 2), (1, 'zz', 3), (1, 'mm', 4), (1, 'aa', 5)]),
        'null values': ([(1, 'a')], [(1, 'formula', None), (1, 'family', None), (1, 'family', None), (1, 'family', 'f')]),
        'null alias single': ([(1, 'a')], [(1, 'alias', None)]),
        'null alias in list': ([(1, 'a')], [(1, 'alias', 'x'), (1, 'alias', None)]),
        'numeric alias': ([(1, 'a')], [(1, 'alias', 5)]),
        'blob values': ([(1, 'a')], [(1, 'family', b'ab'), (1, 'family', b'cd'), (1, 'formula', b'F')]),
        'mixed numeric': ([(1, 'a')], [(1, 'molar_mass', 1), (1, 'molar_mass', 2.5), (1, 'molar_mass', '3'), (1, 't', 0),
                                       (1, 't', 0.0)]),
        'falsy values': ([(1, 'a')], [(1, 'f', 0), (1, 'g', ''), (1, 'g', ''), (1, 'h', 0.0), (1, 'h', 0)]),
        'several adsorbates': ([(3, 'c'), (1, 'a'), (2, 'b')], [(2, 'alias', 'b2'), (1, 'alias', 'a1'), (3, 'alias', 'c1'),
                                                                 (1, 'alias', 'a2'), (2, 'formula', 'B'), (9, 'alias', 'orphan')]),
        'name is alias': ([(1, 'Name')], [(1, 'alias', 'NAME'), (1, 'alias', 'other')]),
        'name key in props': ([(1, 'a')], [(1, 'name', 'clash')]),
        'store key in props': ([(1, 'a')], [(1, 'store', 1)]),
        'null name': ([(1, None)], [(1, 'alias', 'x')]),
        'numeric name': ([(1, 5)], []),
        'empty type': ([(1, 'a')], [(1, '', 'x'), (1, '', 'y')]),
        'null type': ([(1, 'a')], [(1, None, 'x')]),
        'many values': ([(1, 'a')], [(1, 'family', i) for i in range(50)]),
    }
    for label, (rows_ads, rows_props) in HAND.items():
        for typed in (False, True):
            conn, cur = handmade(rows_ads, rows_props, typed)
            n0 = len(ADSORBATE_LIST)
            pcall(f"hand[{label}, typed={typed}]", pgsql.adsorbates_from_db, cursor=cur, verbose=False)
            print("   master list growth:", len(ADSORBATE_LIST) - n0)
            conn.close()

    # broken schema -> error path
    conn = sqlite3.connect(':memory:')
    conn.row_factory = sqlite3.Row
    call("hand[no tables]", pgsql.adsorbates_from_db, cursor=conn.cursor(), verbose=False)
    cur = conn.cursor()
    cur.execute("CREATE TABLE adsorbates (id INTEGER PRIMARY KEY, name TEXT)")
    cur.execute("INSERT INTO adsorbates (id, name) VALUES (1, 'a')")
    call("hand[no property table]", pgsql.adsorbates_from_db, cursor=cur, verbose=False)
    conn.close()
    conn = sqlite3.connect(':memory:')  # tuple rows instead of sqlite3.Row
    cur = conn.cursor()
    cur.execute("CREATE TABLE adsorbates (id INTEGER PRIMARY KEY, name TEXT)")
    cur.execute("INSERT INTO adsorbates (id, name) VALUES (1, 'a')")
    call("hand[tuple rows]", pgsql.adsorbates_from_db, cursor=cur, verbose=False)
    conn.close()
    call("missing file dir", pgsql.adsorbates_from_db, db_path=os.path.join(tmpdir, 'nodir', 'x.db'), verbose=False)
    call("empty new file", pgsql.adsorbates_from_db, db_path=os.path.join(tmpdir, 'new.db'), verbose=False)

    # ------------------------------------------------------------------
    # 5. load_data semantics: everything loaded resolves uniquely by alias in any case
    loaded = pgsql.adsorbates_from_db(db_path=packaged, verbose=False)
    problems = 0
    for ads in loaded:
        for al in ads.alias:
            for variant in (al, al.upper(), al.title(), al.swapcase()):
                hits = [a.name for a in loaded if a == variant]
                if hits != [ads.name]:
                    problems += 1
                    print("   ambiguous", variant, hits)
    print("resolution problems:", problems)
finally:
    shutil.rmtree(tmpdir, ignore_errors=True)
