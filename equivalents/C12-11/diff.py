"""Differential transcript for C12-3: ModelIsotherm.from_isotherm / from_pointisotherm / guess."""
import logging
import sys
import warnings

import numpy
import pandas

import pygaps
from pygaps import logger
from pygaps.core.material import Material
from pygaps.core.modelisotherm import ModelIsotherm
from pygaps.core.pointisotherm import PointIsotherm

warnings.simplefilter("ignore")
numpy.seterr(all="ignore")


class Capture(logging.Handler):
    """Print every log record of the library into the transcript."""
    def emit(self, record):
        print(f"    LOG {record.levelname}: {record.getMessage()!r}")


for h in list(logger.handlers):
    logger.removeHandler(h)
logger.addHandler(Capture(level=logging.DEBUG))


def hx(v):
    try:
        return float(v).hex()
    except (TypeError, ValueError):
        return repr(v)


def hexes(seq):
    return [hx(v) for v in numpy.ravel(numpy.asarray(seq, dtype=object))]


def snap(iso):
    print("    labels:", repr({k: iso.__dict__.get(k) for k in iso._unit_params}))
    print("    _temperature:", float(iso._temperature).hex())
    if hasattr(iso, "data_raw"):
        print("    columns:", list(iso.data_raw.columns), "index:", list(iso.data_raw.index))
        for col in iso.data_raw.columns:
            print(f"    {col} [{iso.data_raw[col].dtype}]:", hexes(iso.data_raw[col]))
        print("    interpolators:", iso.l_interpolator is None, iso.p_interpolator is None)
    print("    properties:", repr(iso.properties))
    print("    material:", repr(iso.material), repr(iso.material.properties))
    print("    keys:", list(vars(iso)))


def attempt(label, fn):
    print(f"  > {label}")
    try:
        res = fn()
        print("    returned:", repr(res))
        return res
    except BaseException as err:  # noqa
        print(f"    raised {type(err).__name__}: {str(err)!r}")
        cause = err.__cause__
        while cause is not None:
            print(f"    cause {type(cause).__name__}: {str(cause)!r}")
            cause = cause.__cause__
        return None


UNITS = dict(
    pressure_mode="absolute",
    pressure_unit="bar",
    loading_basis="molar",
    loading_unit="mmol",
    material_basis="mass",
    material_unit="g",
    temperature_unit="K",
)


def make_point(adsorbate="N2", temperature=77.355, material="TestMat", **kw):
    params = dict(UNITS, material=material, adsorbate=adsorbate, temperature=temperature,
                  comment="a comment", number=7)
    params.update(kw)
    data = pandas.DataFrame({
        "p": [0.01, 0.05, 0.1, 0.3, 0.6, 0.9, 0.5, 0.2],
        "l": [0.5, 1.1, 1.9, 3.2, 4.4, 5.0, 4.6, 3.5],
        "extra": [9.0, 8.0, 7.0, 6.0, 5.0, 4.0, 3.0, 2.0],
        "zeta": list("abcdefgh"),
    })
    return PointIsotherm(isotherm_data=data, pressure_key="p", loading_key="l", **params)


# ---------------------------------------------------------------- C12-3 body
import itertools

import matplotlib
matplotlib.use("Agg")
import matplotlib.pyplot as plt

from pygaps.core.baseisotherm import BaseIsotherm
from pygaps.modelling import model_iso


def show(iso):
    if iso is None:
        return
    print("    type:", type(iso).__name__, "branch:", repr(iso.branch))
    print("    model:", iso.model.name, [(k, hx(v)) for k, v in iso.model.params.items()], "rmse:", hx(iso.model.rmse))
    print("    ranges:", hexes(iso.model.pressure_range), hexes(iso.model.loading_range))
    print("    units:", repr(iso.units))
    print("    properties:", repr(iso.properties))
    print("    material:", repr(iso.material), repr(iso.material.properties), "adsorbate:", repr(iso.adsorbate))
    print("    to_dict keys:", list(iso.to_dict()))
    print("    vars:", list(vars(iso)))


P_ADS = numpy.array([0.02, 0.05, 0.1, 0.2, 0.4, 0.7, 1.0, 1.5, 2.0, 3.0])
L_ADS = 5.0 * 1.7 * P_ADS / (1 + 1.7 * P_ADS) * (1 + 0.02 * numpy.cos(numpy.arange(10) * 1.9))
P_DES = numpy.array([2.5, 1.8, 1.2, 0.8, 0.5, 0.3])
L_DES = 5.2 * 2.5 * P_DES / (1 + 2.5 * P_DES)

META = dict(UNITS, material="TestMat", adsorbate="N2", temperature=77.355,
            comment="hello", user=3, zlast=[1, 2])


def fresh(**kw):
    """A new copy of the shared keyword arguments (the material setter consumes a dictionary)."""
    params = {k: (dict(v) if isinstance(v, dict) else v) for k, v in META.items()}
    params.update(kw)
    return params


DENSE = {"name": "DenseMat", "density": 2.5}


def point(**kw):
    data = pandas.DataFrame({
        "pp": numpy.concatenate([P_ADS, P_DES]),
        "ll": numpy.concatenate([L_ADS, L_DES]),
        "other": numpy.arange(16.0),
    })
    params = fresh(**kw)
    return PointIsotherm(isotherm_data=data, pressure_key="pp", loading_key="ll", **params)


# ---- from_pointisotherm / model_iso
print("== from_pointisotherm")
MODELS = ["Langmuir", "langmuir", "Henry", "guess", ["Henry", "Langmuir"], ("Langmuir", "Henry", "Toth"),
          ["Langmuir", "Langmuir"], ["Henry"], [], None, "", "Nope", ["Langmuir", "Nope"], 5, ["Virial"],
          ["DR", "Freundlich", "Quadratic"], "GUESS", {"Langmuir": 1, "Henry": 2}]
for model, branch in itertools.product(MODELS, ["ads", "des"]):
    print(f"-- model={model!r} branch={branch!r}")
    iso = point()
    before = repr(iso.to_dict()), hexes(iso.data_raw["ll"])
    show(attempt("from_pointisotherm", lambda: ModelIsotherm.from_pointisotherm(iso, branch=branch, model=model)))
    print("    source untouched:", before == (repr(iso.to_dict()), hexes(iso.data_raw["ll"])))
for branch in [None, "all", "bogus", 1]:
    print(f"-- branch={branch!r}")
    show(attempt("single", lambda: ModelIsotherm.from_pointisotherm(point(), branch=branch, model="Langmuir")))
    show(attempt("list", lambda: ModelIsotherm.from_pointisotherm(point(), branch=branch, model=["Langmuir", "Henry"])))
print("-- material with properties")
show(attempt("single", lambda: ModelIsotherm.from_pointisotherm(point(material=dict(DENSE)), model="Langmuir")))
attempt("list (material dictionary is consumed by the first candidate)", lambda: vars(
    ModelIsotherm.from_pointisotherm(point(material=dict(DENSE)), model=["Henry", "Langmuir"]))["_material"].name)
print("-- options")
show(attempt("guess+bounds+opt", lambda: ModelIsotherm.from_pointisotherm(
    point(), model="Langmuir", param_guess=dict(K=1.0, n_m=4.0), param_bounds=dict(K=(0.0, 10.0), n_m=(0.0, 4.5)),
    optimization_params=dict(xtol=1e-12))))
show(attempt("bad guess", lambda: ModelIsotherm.from_pointisotherm(point(), model="Langmuir", param_guess=dict(Q=1.0))))
show(attempt("list with opt + verbose", lambda: ModelIsotherm.from_pointisotherm(
    point(), model=["Henry", "Langmuir", "Toth"], optimization_params=dict(max_nfev=3), verbose=True)))
print("    figures:", len(plt.get_fignums()))
plt.close("all")
show(attempt("single verbose", lambda: ModelIsotherm.from_pointisotherm(point(), model="Henry", verbose=True)))
print("    figures:", len(plt.get_fignums()))
plt.close("all")
show(attempt("model_iso relative", lambda: model_iso(point(pressure_mode="relative"), model=["BET", "GAB", "Henry"])))
show(attempt("model_iso celsius", lambda: model_iso(point(temperature=-195.8, temperature_unit="°C"), model="DR")))
show(attempt("not a point isotherm", lambda: ModelIsotherm.from_pointisotherm(
    BaseIsotherm(**fresh()), model="Henry")))
show(attempt("a model isotherm", lambda: ModelIsotherm.from_pointisotherm(
    ModelIsotherm.from_pointisotherm(point(), model="Henry"), model="Henry")))

# ---- from_isotherm
print("== from_isotherm")
templates = {
    "base": lambda: BaseIsotherm(**fresh()),
    "base, material with properties": lambda: BaseIsotherm(**fresh(material=dict(DENSE))),
    "point, material with properties": lambda: point(material=dict(DENSE)),
    "point": point,
    "model": lambda: ModelIsotherm.from_pointisotherm(point(), model="Henry", branch="des"),
}
frame = pandas.DataFrame({"a": P_ADS, "b": L_ADS})
for tname, tfactory in templates.items():
    print(f"-- template {tname}")
    template = attempt("make template", tfactory)
    show(attempt("arrays", lambda: ModelIsotherm.from_isotherm(template, pressure=P_ADS, loading=L_ADS, model="Langmuir")))
    show(attempt("frame", lambda: ModelIsotherm.from_isotherm(
        template, isotherm_data=frame, pressure_key="a", loading_key="b", model="Toth", branch="ads",
        param_guess=dict(n_m=5.0, K=1.0, t=1.0), param_bounds=None, optimization_params=dict(max_nfev=200))))
    show(attempt("frame, des branch empty", lambda: ModelIsotherm.from_isotherm(
        template, isotherm_data=frame, pressure_key="a", loading_key="b", model="Henry", branch="des")))
    show(attempt("frame without keys", lambda: ModelIsotherm.from_isotherm(template, isotherm_data=frame, model="Henry")))
    show(attempt("no model", lambda: ModelIsotherm.from_isotherm(template, pressure=P_ADS, loading=L_ADS)))
    show(attempt("no data", lambda: ModelIsotherm.from_isotherm(template, model="Henry")))
    show(attempt("only pressure", lambda: ModelIsotherm.from_isotherm(template, pressure=P_ADS, model="Henry")))
    show(attempt("unequal", lambda: ModelIsotherm.from_isotherm(template, pressure=P_ADS, loading=L_ADS[:4], model="Henry")))
    show(attempt("unknown model", lambda: ModelIsotherm.from_isotherm(template, pressure=P_ADS, loading=L_ADS, model="Nope")))
    show(attempt("bad branch", lambda: ModelIsotherm.from_isotherm(
        template, isotherm_data=frame, pressure_key="a", loading_key="b", model="Henry", branch="both")))
    show(attempt("positional", lambda: ModelIsotherm.from_isotherm(
        template, P_ADS, L_ADS, None, None, None, "ads", "Henry", None, None, None, False)))
    if template is not None:
        print("    template dict:", repr(template.to_dict())[:300])

# ---- guess
print("== guess")
GUESS_MODELS = [["Henry", "Langmuir", "Toth"], ["Toth", "Langmuir", "Henry"], ["Langmuir", "langmuir", "LANGMUIR"],
                ("DSLangmuir", "Langmuir"), ["Virial", "Langmuir"], ["Virial"], ["DA"], [], "Langmuir", 5, None,
                ["Nope"], ["Henry", 3]]
for models in GUESS_MODELS:
    print(f"-- models={models!r}")
    show(attempt("arrays", lambda: ModelIsotherm.guess(pressure=P_ADS, loading=L_ADS, models=models, **fresh())))
show(attempt("frame des", lambda: ModelIsotherm.guess(isotherm_data=point().data_raw, pressure_key="pp", loading_key="ll",
                                                      branch="des", models=["Henry", "Langmuir"], **fresh())))
show(attempt("frame verbose", lambda: ModelIsotherm.guess(isotherm_data=frame, pressure_key="a", loading_key="b",
                                                          models=["Henry", "Langmuir"], verbose=True, **fresh())))
print("    figures:", len(plt.get_fignums()))
plt.close("all")
show(attempt("default list", lambda: ModelIsotherm.guess(pressure=P_ADS, loading=L_ADS, **fresh())))
show(attempt("default list, relative", lambda: ModelIsotherm.guess(
    pressure=P_ADS / 4, loading=L_ADS, **fresh(pressure_mode="relative"))))

# ---- selection rule with rigged errors (ties, nan, inf, numpy scalars)
print("== selection")
created = []


class Rigged(ModelIsotherm):
    values = iter(())

    def __init__(self, *args, **kwargs):
        super().__init__(*args, **kwargs)
        self.model.rmse = next(Rigged.values)
        created.append(self)


nan = float("nan")
SEQS = [[3.0, 1.0, 2.0], [1.0, 1.0, 1.0], [2.0, 1.0, 1.0], [nan, 1.0, 0.5], [1.0, nan, 0.5], [1.0, 0.5, nan],
        [nan, nan, nan], [float("inf"), 1.0, float("-inf")], [numpy.float64(0.2), 0.2, numpy.float64(0.1)],
        [numpy.float64(nan), numpy.float64(0.1), numpy.float64(0.1)], [0.0, -0.0, 0.0], [1, 1.0, True],
        [numpy.float32(0.1), 0.1, numpy.float64(0.1)]]
for seq in SEQS:
    for wrap in (list, lambda s: [numpy.float64(v) for v in s]):
        vals = wrap(seq)
        created.clear()
        Rigged.values = iter(vals)
        best = attempt(f"rigged {vals!r}", lambda: Rigged.guess(pressure=P_ADS, loading=L_ADS,
                                                               models=["Henry", "Langmuir", "Toth"], **fresh()))
        print("    chosen index:", [i for i, c in enumerate(created) if c is best], "of", len(created),
              "name:", None if best is None else best.model.name)
