"""Differential script for C04-1 (IsothermInterpolator construction refactoring).

Run with PYTHONPATH=<tree>/src; prints a deterministic transcript.
"""
import logging
import warnings

import numpy

warnings.simplefilter("ignore")

import pygaps
from pygaps.utilities.isotherm_interpolator import IsothermInterpolator

logging.getLogger("pygaps").setLevel(logging.ERROR)


def fmt(val):
    """Exact, deterministic representation."""
    if isinstance(val, numpy.ndarray):
        return f"ndarray{val.shape}{val.dtype}" + repr([fmt(v) for v in val.ravel().tolist()])
    if isinstance(val, (float, numpy.floating)):
        return float(val).hex() if numpy.isfinite(val) else repr(float(val))
    if isinstance(val, (list, tuple)):
        return type(val).__name__ + repr([fmt(v) for v in val])
    if isinstance(val, dict):
        return repr({k: fmt(v) for k, v in val.items()})
    return repr(val)


def show(label, fn):
    try:
        res = fn()
        print(label, "->", type(res).__name__, fmt(res))
    except Exception as err:  # noqa
        print(label, "!!", type(err).__name__, str(err)[:300])


def state(iso):
    """Observable state of an isotherm, including cache settings."""
    out = [fmt(iso.to_dict()), fmt(iso.data_raw.values), repr(list(iso.data_raw.columns))]
    for name in ("l_interpolator", "p_interpolator"):
        itp = getattr(iso, name)
        if itp is None:
            out.append(f"{name}=None")
        else:
            out.append(
                f"{name}=({itp.interp_branch!r},{itp.interp_kind!r},{fmt(itp.interp_fill)},"
                f"{hasattr(itp, 'interp_fun')},{sorted(vars(itp))})"
            )
    return " | ".join(out)


# ---------------------------------------------------------------- direct use
xs = [0.1, 0.2, 0.4, 0.8, 1.6]
ys = [1.0, 1.5, 1.9, 2.1, 2.2]
queries = [0.1, 0.15, 0.3, 1.6, 0.05, 2.0, [0.1, 0.5, 1.0], [], numpy.array([[0.2, 0.3], [0.4, 0.5]])]
kinds = ["linear", "nearest", "zero", "slinear", "quadratic", "cubic", "previous", "next", 1, 3, "bogus", None]
fills = [None, 0, 0.0, 5.5, (0.5, 9.0), "extrapolate", numpy.nan, "nonsense", (1, 2, 3), [7.0]]

for kind in kinds:
    for fill in fills:
        tag = f"direct kind={kind!r} fill={fill!r}"
        try:
            itp = IsothermInterpolator(xs, ys, interp_branch='des', interp_kind=kind, interp_fill=fill)
        except Exception as err:  # noqa
            print(tag, "ctor !!", type(err).__name__, str(err)[:300])
            continue
        print(
            tag, "attrs", sorted(vars(itp)), itp.interp_branch, itp.interp_kind, fmt(itp.interp_fill),
            itp.interp_fun.bounds_error, fmt(itp.interp_fun.fill_value)
        )
        for q in queries:
            show(f"{tag} q={q!r}", lambda: itp(q))

# positional use, defaults
itp = IsothermInterpolator(xs, ys)
print("defaults", itp.interp_branch, itp.interp_kind, itp.interp_fill, sorted(vars(itp)))
show("defaults q", lambda: itp([0.1, 0.25]))
itp = IsothermInterpolator(xs, ys, 'ads', 'cubic', 3.0)
show("positional q", lambda: itp([0.01, 0.25, 3]))

# no data: the interpolating function is never created
for fill in (None, 1.0):
    itp = IsothermInterpolator(None, ys, interp_fill=fill)
    print("nodata", sorted(vars(itp)), hasattr(itp, "interp_fun"))
    show("nodata call", lambda: itp(0.3))
    itp = IsothermInterpolator(None, None, interp_fill=fill)
    print("nodata2", sorted(vars(itp)), hasattr(itp, "interp_fun"))

# bad data
show("mismatch", lambda: IsothermInterpolator([1, 2, 3], [1, 2]))
show("mismatch fill", lambda: IsothermInterpolator([1, 2, 3], [1, 2], interp_fill=0))
show("single", lambda: IsothermInterpolator([1], [1])(1))
show("empty", lambda: IsothermInterpolator([], [])(1))
show("empty fill", lambda: IsothermInterpolator([], [], interp_fill=2)(1))
show("strings", lambda: IsothermInterpolator(["a", "b"], [1, 2])(1))
show("unsorted", lambda: IsothermInterpolator([3, 1, 2], [1, 2, 3])([1.5, 2.5]))
show("dup x", lambda: IsothermInterpolator([1, 1, 2], [1, 2, 3], interp_fill=0)([0, 1, 1.5]))
show("int interp_data None", lambda: IsothermInterpolator([1, 2], None))
show("nan data", lambda: IsothermInterpolator([1, numpy.nan, 3], [1, 2, 3], interp_fill="extrapolate")([2, 4]))

# ---------------------------------------------------------------- via PointIsotherm
pres = [0.01, 0.05, 0.1, 0.2, 0.4, 0.6, 0.8, 0.95, 0.7, 0.5, 0.3, 0.1]
load = [0.5, 1.2, 1.8, 2.4, 3.0, 3.3, 3.6, 4.5, 3.9, 3.5, 3.0, 2.0]


def make():
    return pygaps.PointIsotherm(
        pressure=pres,
        loading=load,
        material='carbon-x',
        adsorbate='N2',
        temperature=77.355,
        pressure_mode='relative',
        loading_basis='molar',
        loading_unit='mmol',
        material_basis='mass',
        material_unit='g',
    )


iso = make()
print("fresh", state(iso))
calls = [
    ("l ads lin", lambda i: i.loading_at(0.3)),
    ("l ads lin oob", lambda i: i.loading_at(0.99)),
    ("l ads fill", lambda i: i.loading_at([0.001, 0.3, 0.99], interp_fill=0.0)),
    ("l ads fill tuple", lambda i: i.loading_at([0.001, 0.3, 0.99], interp_fill=(0.0, 4.5))),
    ("l ads extrap", lambda i: i.loading_at([0.001, 0.3, 0.99], interp_fill="extrapolate")),
    ("l ads cubic", lambda i: i.loading_at([0.02, 0.3, 0.9], interpolation_type='cubic')),
    ("l ads bogus", lambda i: i.loading_at(0.3, interpolation_type='bogus')),
    ("l des lin", lambda i: i.loading_at([0.2, 0.6], branch='des')),
    ("l des fill", lambda i: i.loading_at([0.05, 0.6, 0.99], branch='des', interp_fill=1.0)),
    ("l bad branch", lambda i: i.loading_at(0.3, branch='sideways')),
    ("l units", lambda i: i.loading_at(0.3, loading_unit='mol', material_unit='kg')),
    ("l ads lin again", lambda i: i.loading_at(0.3)),
    ("p ads lin", lambda i: i.pressure_at(2.0)),
    ("p ads lin oob", lambda i: i.pressure_at(10.0)),
    ("p ads fill", lambda i: i.pressure_at([0.1, 2.0, 10.0], interp_fill=0.5)),
    ("p ads next", lambda i: i.pressure_at([0.6, 2.0], interpolation_type='next')),
    ("p des", lambda i: i.pressure_at([2.5, 3.7], branch='des')),
    ("p des extrap", lambda i: i.pressure_at([1.0, 5.0], branch='des', interp_fill='extrapolate')),
    ("p ads lin again", lambda i: i.pressure_at(2.0)),
    ("spread", lambda i: i.spreading_pressure_at(0.5)),
    ("spread oob", lambda i: i.spreading_pressure_at(0.99)),
    ("spread fill", lambda i: i.spreading_pressure_at(0.99, interp_fill=4.5)),
    ("spread des", lambda i: i.spreading_pressure_at(0.5, branch='des')),
]
for label, fn in calls:
    show("chain " + label, lambda: fn(iso))
    print("   state", state(iso))
# each call on a fresh isotherm gives the same value as in the chain
for label, fn in calls:
    fresh = make()
    show("fresh " + label, lambda: fn(fresh))
# reversed chain
iso = make()
for label, fn in reversed(calls):
    show("rev " + label, lambda: fn(iso))
print("final", state(iso))
