"""Differential script for change 2: c_pressure restructured into guard clauses + saturation factor helper."""
import itertools

import numpy
import pandas
from _common import call
from _common import make_iso
from _common import setup_lists
from _common import step

import pygaps
from pygaps.units.converter_mode import c_pressure

mat, ads = setup_lists()
nobackend = pygaps.Adsorbate("fakegas")

MODES = ["absolute", "relative", "relative%"]
UNITS = ["Pa", "kPa", "MPa", "mbar", "bar", "atm", "mmHg", "torr"]
values = {
    "float": 0.35,
    "zero": 0.0,
    "int": 2,
    "neg": -1.5,
    "array": numpy.array([0.0, 0.01, 0.5, 1.0, 1e5]),
    "series": pandas.Series([0.0, 0.01, 0.5, 1.0, 97152.27]),
}

# ---- 1. every mode pair x every unit pair (scalar)
for mf, mt in itertools.product(MODES, MODES):
    for uf, ut in itertools.product(UNITS + [None], UNITS + [None]):
        call(f"grid {mf}/{uf}->{mt}/{ut}", c_pressure, 0.35, mf, mt, uf, ut, adsorbate=ads, temp=77.0)

# ---- 2. every mode pair x value kinds
for mf, mt in itertools.product(MODES, MODES):
    for (vname, val), (uf, ut) in zip(values.items(), itertools.cycle([("bar", "kPa"), ("torr", "atm"), ("Pa", "Pa")])):
        call(f"kind {vname} {mf}/{uf}->{mt}/{ut}", c_pressure, val, mf, mt, uf, ut, adsorbate=ads, temp=77.0)

# ---- 3. temperatures: sub/supercritical, zero, None, positional arguments
for temp in (65.0, 77.35, 100.0, 126.19, 126.3, 300.0, 0, 0.0, None, -5.0):
    for mf, mt, uf, ut in (("absolute", "relative", "bar", None), ("relative%", "absolute", None, "kPa"),
                           ("relative", "relative%", None, None), ("absolute", "absolute", "bar", "Pa")):
        call(f"temp {temp!r} {mf}->{mt}", c_pressure, 0.5, mf, mt, uf, ut, ads, temp)

# ---- 4. error paths
call("bad mode from", c_pressure, 1.0, "gauge", "absolute", "bar", "bar", ads, 77.0)
call("bad mode to", c_pressure, 1.0, "absolute", "gauge", "bar", "bar", ads, 77.0)
call("None mode from", c_pressure, 1.0, None, "absolute", "bar", "bar", ads, 77.0)
call("None mode to", c_pressure, 1.0, "absolute", None, "bar", "bar", ads, 77.0)
call("empty mode to", c_pressure, 1.0, "absolute", "", "bar", "bar", ads, 77.0)
call("unhashable mode", c_pressure, 1.0, ["absolute"], "absolute", "bar", "bar", ads, 77.0)
call("both bad", c_pressure, 1.0, "x", "y", "bar", "bar", ads, 77.0)
call("abs->rel bad unit_from", c_pressure, 1.0, "absolute", "relative", "psi", None, ads, 77.0)
call("abs->rel None unit_from", c_pressure, 1.0, "absolute", "relative", None, "bar", ads, 77.0)
call("abs->rel bad unit_from + no temp", c_pressure, 1.0, "absolute", "relative", "psi", None, ads, None)
call("rel->abs bad unit_to", c_pressure, 1.0, "relative", "absolute", None, "psi", ads, 77.0)
call("rel->abs None unit_to", c_pressure, 1.0, "relative", "absolute", "bar", None, ads, 77.0)
call("rel->abs empty unit_to, no temp, no ads", c_pressure, 1.0, "relative", "absolute", "bar", "")
call("rel->abs no temp", c_pressure, 1.0, "relative", "absolute", None, "bar", ads)
call("rel->abs no temp no ads", c_pressure, 1.0, "relative", "absolute", None, "bar")
call("rel->abs no ads", c_pressure, 1.0, "relative", "absolute", None, "bar", None, 77.0)
call("abs->rel% no ads", c_pressure, 1.0, "absolute", "relative%", "bar", None, None, 77.0)
call("rel->abs no backend", c_pressure, 1.0, "relative", "absolute", None, "bar", nobackend, 77.0)
call("abs->rel% no backend", c_pressure, 1.0, "absolute", "relative%", "bar", None, nobackend, 77.0)
call("rel->rel% no ads no temp", c_pressure, 1.0, "relative", "relative%", None, None)
call("rel%->rel units given", c_pressure, 1.0, "relative%", "relative", "bar", "Pa")
call("abs same bad unit_to", c_pressure, 1.0, "absolute", "absolute", "bar", "psi")
call("abs same bad unit_from", c_pressure, 1.0, "absolute", "absolute", "psi", "bar")
call("abs same None unit_from", c_pressure, 1.0, "absolute", "absolute", None, "bar")
call("abs same None unit_to", c_pressure, 1.0, "absolute", "absolute", "psi", None)
call("rel same units given", c_pressure, 1.0, "relative", "relative", "psi", "psi")
call("string value abs", c_pressure, "x", "absolute", "absolute", "bar", "Pa")
call("string value rel", c_pressure, "x", "relative", "relative%", None, None)
call("list value rel%->rel", c_pressure, [1.0, 2.0], "relative%", "relative", None, None)
call("None value", c_pressure, None, "relative", "absolute", None, "bar", ads, 77.0)

# ---- 5. through the isotherm: histories over all modes / units, incl. refused calls
iso = make_iso()
k = 0
for mode, unit in [("relative", None), ("relative%", None), ("absolute", "kPa"), ("absolute", "torr"), ("relative%", None),
                   ("relative", None), ("absolute", "bar"), (None, "atm"), ("absolute", None), ("relative", "bar"),
                   (None, "bar"), (None, None), ("absolute", None), ("absolute", "psi"), ("absolute", "mmHg"),
                   ("gauge", None), ("relative%", "Pa"), ("relative%", None), ("absolute", "Pa"), ("absolute", "bar")]:
    k += 1
    step(iso, f"hist{k}", "convert_pressure", mode_to=mode, unit_to=unit, verbose=bool(k % 2))
step(iso, "conv1", "convert", pressure_mode="relative", loading_basis="mass", loading_unit="g")
step(iso, "conv2", "convert", pressure_mode="absolute", pressure_unit="psi", loading_unit="mg")
step(iso, "conv3", "convert", pressure_mode="absolute", pressure_unit="Pa", material_unit="kg")

hot = make_iso(temperature=200.0)
step(hot, "supercritical", "convert_pressure", mode_to="relative")
step(hot, "supercritical units", "convert_pressure", unit_to="Pa")
celsius = make_iso(temperature=-196.15, temperature_unit="°C")
step(celsius, "celsius rel", "convert_pressure", mode_to="relative%")
step(celsius, "celsius abs", "convert_pressure", mode_to="absolute", unit_to="mbar")
nb = make_iso(adsorbate="fakegas2")
step(nb, "nobackend rel", "convert_pressure", mode_to="relative")
step(nb, "nobackend unit", "convert_pressure", unit_to="kPa")
