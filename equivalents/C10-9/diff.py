"""Differential transcript for patch C10-1 (ModelIsotherm.pressure_at / loading_at / spreading_pressure_at)."""
import itertools
import warnings

import numpy

import pygaps
from pygaps.modelling import get_isotherm_model

assert pygaps.__file__.startswith('/var/tmp/wt/eq3-10/'), pygaps.__file__
warnings.simplefilter('ignore')
numpy.seterr(all='ignore')


def show(label, fn):
    try:
        res = fn()
        if isinstance(res, numpy.ndarray):
            print(label, '->', type(res).__name__, res.dtype, res.shape, repr(res.tolist()))
        else:
            print(label, '->', type(res).__name__, repr(res))
    except BaseException as err:  # noqa
        print(label, '!!', type(err).__name__, str(err), '| cause', type(err.__cause__).__name__)


material = pygaps.Material('diff-c10-1-carbon', density=2.1, molar_mass=12.011)

MODELS = {
    'Henry': {'K': 2.5},
    'Langmuir': {'K': 3.0, 'n_m': 5.0},
    'DSLangmuir': {'n_m1': 2.0, 'K1': 10.0, 'n_m2': 4.0, 'K2': 0.5},
    'BET': {'n_m': 4.0, 'C': 80.0, 'N': 0.9},
    'GAB': {'n_m': 4.0, 'C': 20.0, 'K': 0.8},
    'Freundlich': {'K': 2.0, 'm': 1.7},
    'DR': {'n_m': 6.0, 'e': 900.0},
    'DA': {'n_m': 6.0, 'e': 900.0, 'm': 2.4},
    'Quadratic': {'n_m': 3.0, 'Ka': 2.0, 'Kb': 5.0},
    'TemkinApprox': {'n_m': 5.0, 'K': 3.0, 'tht': -0.2},
    'Toth': {'n_m': 5.0, 'K': 3.0, 't': 0.7},
    'JensenSeaton': {'K': 20.0, 'a': 5.0, 'b': 0.3, 'c': 1.2},
    'Virial': {'K': 4.0, 'A': 0.2, 'B': 0.05, 'C': 0.001},
}


def make_iso(model_name, branch='ads', **kw):
    model = get_isotherm_model(
        model_name, parameters=dict(MODELS[model_name]), pressure_range=(0.01, 0.9), loading_range=(0.0, 5.0)
    )
    props = dict(
        material=material,
        adsorbate='N2',
        temperature=77.355,
        pressure_mode='absolute',
        pressure_unit='bar',
        loading_basis='molar',
        loading_unit='mmol',
        material_basis='mass',
        material_unit='g',
    )
    props.update(kw)
    return pygaps.ModelIsotherm(model=model, branch=branch, **props)


PRESSURES = [0, 0.0, 0.05, 0.5, 1, [0.0, 0.1, 0.35, 0.8], numpy.array([0.2, 0.4]), (0.3, ), -0.1, float('nan'), []]
LOADINGS = [0, 0.0, 0.05, 1.5, 2, [0.0, 0.1, 1.0, 2.5], numpy.array([0.5, 1.7]), (0.3, ), -0.1, float('nan'), 100.0]

# ---- bare model against isotherm in internal units, all models, scalars/arrays/zero
for name in MODELS:
    iso = make_iso(name, pressure_mode='relative', pressure_unit=None)
    print('=====', name, iso.model.params, repr(getattr(iso.model, 'minus_rt', None)))
    for p in PRESSURES:
        show(f'{name}.loading_at({p!r})', lambda: iso.loading_at(p))
        show(f'{name}.model.loading({p!r})', lambda: iso.model.loading(numpy.asarray(p)))
    for n in LOADINGS:
        show(f'{name}.pressure_at({n!r})', lambda: iso.pressure_at(n))
    for p in (0.0, 0.3, [0.1, 0.2]):
        show(f'{name}.pressure_at(loading_at({p!r}))', lambda: iso.pressure_at(iso.loading_at(p)))
    for p in (0.3, 0):
        show(f'{name}.spreading_pressure_at({p!r})', lambda: iso.spreading_pressure_at(p))

# ---- branch argument
for iso_branch in ('ads', 'des'):
    iso = make_iso('Langmuir', branch=iso_branch)
    for br in (None, 'ads', 'des', '', 'all', 'ADS', 0, 1, False, True, [], ['ads'], ('des', ), 5.5, b'ads'):
        show(f'[{iso_branch}] loading_at(branch={br!r})', lambda: iso.loading_at(0.5, branch=br))
        show(f'[{iso_branch}] pressure_at(branch={br!r})', lambda: iso.pressure_at(1.0, branch=br))
        show(f'[{iso_branch}] spreading_pressure_at(branch={br!r})', lambda: iso.spreading_pressure_at(0.5, branch=br))
    show(f'[{iso_branch}] positional branch', lambda: (iso.loading_at(0.5, 'ads'), iso.pressure_at(0.5, 'des')))
    show(f'[{iso_branch}] branch array', lambda: iso.loading_at(0.5, branch=numpy.array(['ads', 'des'])))
    show(f'[{iso_branch}] branch 0-d array', lambda: iso.loading_at(0.5, branch=numpy.array('ads')))
# branch error comes before any other argument is looked at
iso = make_iso('Langmuir')
show('branch error first', lambda: iso.loading_at('not a number', branch='des', pressure_unit='zzz'))
show('branch ok then bad value', lambda: iso.loading_at('not a number', branch='ads'))
iso.branch = None
show('iso.branch None, ask ads', lambda: iso.loading_at(0.5, branch='ads'))
show('iso.branch None, ask None', lambda: iso.loading_at(0.5, branch=None))

# ---- unit / mode / basis conversions in both directions
P_OPTS = [
    dict(),
    dict(pressure_unit='Pa'),
    dict(pressure_unit='torr', pressure_mode='absolute'),
    dict(pressure_mode='absolute'),
    dict(pressure_mode='relative'),
    dict(pressure_mode='relative%'),
    dict(pressure_mode='relative', pressure_unit='kPa'),
    dict(pressure_unit='zzz'),
    dict(pressure_mode='zzz'),
    dict(pressure_unit=''),
]
L_OPTS = [
    dict(),
    dict(loading_unit='mol'),
    dict(loading_unit='cm3(STP)', loading_basis='molar'),
    dict(loading_basis='mass'),
    dict(loading_basis='mass', loading_unit='mg'),
    dict(loading_basis='volume_gas', loading_unit='cm3'),
    dict(loading_basis='volume_liquid', loading_unit='mL'),
    dict(loading_basis='fraction'),
    dict(loading_basis='percent'),
    dict(loading_basis='fraction', loading_unit='g'),
    dict(loading_unit='zzz'),
    dict(loading_basis='zzz', loading_unit='g'),
]
M_OPTS = [
    dict(),
    dict(material_unit='kg'),
    dict(material_basis='mass'),
    dict(material_basis='volume', material_unit='cm3'),
    dict(material_basis='molar', material_unit='mol'),
    dict(material_basis='volume'),
    dict(material_unit='zzz'),
    dict(material_basis='zzz', material_unit='g'),
]
ISOS = [
    ('abs/molar/mass', make_iso('Langmuir')),
    ('rel/mass/volume', make_iso(
        'DR', pressure_mode='relative', pressure_unit=None, loading_basis='mass', loading_unit='mg',
        material_basis='volume', material_unit='cm3'
    )),
    ('rel%/fraction/mass', make_iso(
        'Toth', pressure_mode='relative%', pressure_unit=None, loading_basis='fraction', loading_unit=None,
        material_basis='mass', material_unit='g'
    )),
    ('abs-kPa/volgas/molar', make_iso(
        'BET', pressure_mode='absolute', pressure_unit='kPa', loading_basis='volume_gas', loading_unit='cm3',
        material_basis='molar', material_unit='mmol'
    )),
]
for label, iso in ISOS:
    print('=====', label)
    for po, lo, mo in itertools.product(P_OPTS, L_OPTS, M_OPTS):
        kw = {**po, **lo, **mo}
        tag = ','.join(f'{k}={v}' for k, v in kw.items())
        show(f'{label} loading_at(0.04; {tag})', lambda: iso.loading_at(0.04, **kw))
        show(f'{label} pressure_at(0.3; {tag})', lambda: iso.pressure_at(0.3, **kw))
    for po in P_OPTS:
        show(f'{label} spreading_pressure_at(0.04; {po})', lambda: iso.spreading_pressure_at(0.04, **po))
    for kw in (dict(loading_unit='mol', material_unit='kg'), dict(pressure_unit='Pa', loading_basis='mass', loading_unit='g')):
        show(f'{label} array loading_at {kw}', lambda: iso.loading_at([0.0, 0.01, 0.2], **kw))
        show(f'{label} array pressure_at {kw}', lambda: iso.pressure_at([0.0, 0.01, 0.2], **kw))

# ---- isotherm without material properties / with an adsorbate lacking a backend
plain = make_iso('Langmuir', material='diff-c10-1-unknown-material', adsorbate='diff-c10-1-unknown-gas')
for kw in (dict(), dict(material_basis='volume', material_unit='cm3'), dict(loading_basis='mass', loading_unit='g'),
           dict(pressure_mode='relative'), dict(loading_unit='mol'), dict(material_unit='kg')):
    show(f'plain loading_at {kw}', lambda: plain.loading_at(0.5, **kw))
    show(f'plain pressure_at {kw}', lambda: plain.pressure_at(0.5, **kw))

# arguments are not mutated
arr = numpy.array([0.1, 0.2, 0.3])
lst = [0.1, 0.2]
iso = ISOS[0][1]
iso.loading_at(arr, pressure_unit='Pa', loading_unit='mol')
iso.pressure_at(arr, pressure_unit='Pa', loading_unit='mol')
iso.loading_at(lst)
print('inputs after', arr.tolist(), lst)
