"""Differential script for change 1 (c_material): prints canonical text of results."""
import itertools
import warnings

import numpy as np
import pandas as pd

warnings.simplefilter("ignore")

import pygaps
from pygaps.units import converter_mode as cm
from pygaps.units.converter_mode import _MATERIAL_MODE
from pygaps.units.converter_mode import c_material


def fmt(v):
    if isinstance(v, pd.Series):
        return "Series[" + ",".join(fmt(x) for x in v.tolist()) + "]idx" + repr(list(v.index))
    if isinstance(v, np.ndarray):
        return f"ndarray{v.shape}{v.dtype}[" + ",".join(fmt(x) for x in v.ravel().tolist()) + "]"
    if isinstance(v, (list, tuple)):
        return type(v).__name__ + "[" + ",".join(fmt(x) for x in v) + "]"
    if isinstance(v, (float, np.floating)):
        return type(v).__name__ + ":" + repr(float(v))
    return type(v).__name__ + ":" + repr(v)


def run(label, *args, **kwargs):
    try:
        res = c_material(*args, **kwargs)
        print(label, "->", fmt(res))
    except BaseException as e:  # noqa
        print(label, "-> EXC", type(e).__name__, str(e))


reps = [(b, u) for b, units in _MATERIAL_MODE.items() for u in units]
assert len(reps) == 19

mat = pygaps.Material("m1", density=1.732, molar_mass=641.3)
mat_int = pygaps.Material("m2", density=2, molar_mass=100)
mat_nodens = pygaps.Material("m3", molar_mass=55.5)
mat_nomm = pygaps.Material("m4", density=0.41)
mat_empty = pygaps.Material("m5")
mat_zero = pygaps.Material("m6", density=0.0, molar_mass=0.0)


class Weird:
    """Material-like object counting attribute accesses."""
    def __init__(self):
        self.log = []

    @property
    def density(self):
        self.log.append("density")
        return 3.25

    @property
    def molar_mass(self):
        self.log.append("molar_mass")
        return 77.7


values = [
    1, 1.0, 0.0, -2.5, 3.3e-30, 7.7e25, float("inf"), float("nan"),
    np.float64(12.125), np.array([0.0, 1.0, 2.5, -4.0, 1e-12]),
    np.array([[1, 2], [3, 4]]), pd.Series([0.1, 0.2, 5.0], index=[3, 1, 2]),
    np.array([]),
]

# 1. all ordered pairs, several values, full material
for (bf, uf), (bt, ut) in itertools.product(reps, reps):
    for i, val in enumerate(values):
        run(f"P {bf}/{uf}->{bt}/{ut} v{i}", val, bf, bt, uf, ut, material=mat)

# 2. all ordered pairs with other materials, scalar value
for name, m in [("int", mat_int), ("nodens", mat_nodens), ("nomm", mat_nomm), ("empty", mat_empty),
                ("zero", mat_zero), ("None", None), ("str", "m1")]:
    for (bf, uf), (bt, ut) in itertools.product(reps, reps):
        run(f"M[{name}] {bf}/{uf}->{bt}/{ut}", 1.5, bf, bt, uf, ut, material=m)

# 3. attribute-access order
for (bf, uf), (bt, ut) in itertools.product(reps[::3], reps[::2]):
    w = Weird()
    run(f"W {bf}/{uf}->{bt}/{ut}", 2.0, bf, bt, uf, ut, material=w)
    print("   accesses", w.log)

# 4. error paths: bad / missing bases and units
bad_bases = [None, "", "percent", "fraction", "Mass", "volume_liquid", "volume_gas", 0, "molar "]
bad_units = [None, "", "G", "cm3(STP)", "L", "g", "mol", "kg", 0, "amu"]
for bf, bt in itertools.product(bad_bases + ["mass", "volume", "molar"], repeat=2):
    for uf, ut in [("g", "g"), ("g", "cm3"), ("cm3", "mol"), (None, None), ("mol", None), (None, "kg")]:
        run(f"B {bf!r}/{uf!r}->{bt!r}/{ut!r}", 1.0, bf, bt, uf, ut, material=mat)
for bf, bt in itertools.product(["mass", "volume", "molar"], repeat=2):
    for uf, ut in itertools.product(bad_units, repeat=2):
        run(f"U {bf!r}/{uf!r}->{bt!r}/{ut!r}", 1.0, bf, bt, uf, ut, material=mat)
        run(f"Un {bf!r}/{uf!r}->{bt!r}/{ut!r}", 1.0, bf, bt, uf, ut)

# 5. positional / keyword call variants
run("K1", value=4.0, basis_from="mass", basis_to="molar", unit_from="kg", unit_to="mmol", material=mat)
run("K2", 4.0, "mass", "molar", "kg", "mmol", mat)
run("K3", 4.0, "mass", "mass", "kg", "mg")
run("K4", 4.0, "mass", "mass", "kg", None)
run("K5", "abc", "mass", "volume", "kg", "cm3", mat)
run("K6", None, "mass", "volume", "kg", "cm3", mat)
run("K7", [1, 2], "mass", "mass", "kg", "kg", mat)
run("K8", [1, 2], "mass", "mass", "kg", "g", mat)

# 6. composition / there-and-back
for (bf, uf), (bt, ut) in itertools.product(reps, reps):
    try:
        there = c_material(0.37, bf, bt, uf, ut, material=mat)
        back = c_material(there, bt, bf, ut, uf, material=mat)
        print(f"RT {bf}/{uf}->{bt}/{ut}", fmt(there), fmt(back))
    except BaseException as e:  # noqa
        print("RT EXC", type(e).__name__, e)

print("public names", sorted(n for n in dir(cm) if not n.startswith("_")))
