"""Differential script for change 2 of C09 (parent-row helper of adsorbate_to_db / material_to_db). See _eq/notes.md."""

# ---------------------------------------------------------------------------
# Common differential harness (identical text in diff1..diff4).
#
# * a small template database is built with the library's own schema
# * every scenario runs on a fresh copy of the template
# * pygaps.parsing.sqlite sees a shim of the sqlite3 module whose connections
#   and cursors log every call (SQL text + parameters, commit, rollback, close)
#   and can raise a chosen sqlite3 error / kill the process at statement k
# * after each run the file is inspected through an independent connection
# ---------------------------------------------------------------------------
import hashlib
import logging
import os
import shutil
import sqlite3 as real_sqlite3
import sys
import tempfile
import warnings

import numpy
import pandas

warnings.simplefilter("ignore")

import pygaps  # noqa: E402
from pygaps.parsing import sqlite as pgsql  # noqa: E402
from pygaps.utilities.sqlite_db_pragmas import PRAGMAS  # noqa: E402
from pygaps.utilities.sqlite_utilities import db_execute_general  # noqa: E402

OUT = []


def emit(*parts):
    OUT.append(" ".join(str(p) for p in parts))


def canon(val):
    """Canonical text of a value (floats to 12 significant digits)."""
    if isinstance(val, bool) or val is None:
        return repr(val)
    if isinstance(val, (float, numpy.floating)):
        return format(float(val), ".12g")
    if isinstance(val, (int, numpy.integer)):
        return repr(int(val))
    if isinstance(val, bytes):
        return "b" + repr(val.decode("utf8", "replace"))
    if isinstance(val, str):
        return repr(val)
    if isinstance(val, dict):
        return "{" + ", ".join(f"{canon(k)}: {canon(v)}" for k, v in val.items()) + "}"
    if isinstance(val, (list, tuple)):
        return "[" + ", ".join(canon(v) for v in val) + "]"
    if isinstance(val, (set, frozenset)):
        return "set[" + ", ".join(sorted(canon(v) for v in val)) + "]"
    if isinstance(val, real_sqlite3.Row):
        return "Row" + canon(dict(zip(val.keys(), tuple(val))))
    if isinstance(val, (pygaps.Adsorbate, pygaps.Material)):
        return f"<{type(val).__name__} {val.name!r} {canon(val.to_dict())}>"
    if isinstance(val, pygaps.core.baseisotherm.BaseIsotherm):
        return f"<{type(val).__name__} {val.iso_id}>"
    return f"<{type(val).__name__}>"


# ----------------------------------------------------------------- fault shim


class Plan:
    """What to do at which statement."""
    def __init__(self):
        self.reset()

    def reset(self):
        self.events = []
        self.count = 0
        self.fault_at = None  # statement index (1-based)
        self.fault = None  # exception class, 'exit_before', 'exit_after'
        self.commit_fault = None  # 'raise', 'exit_before', 'exit_after'
        self.sink = None  # file for the events of a forked child


PLAN = Plan()


def log_event(text):
    PLAN.events.append(text)
    if PLAN.sink is not None:
        PLAN.sink.write(text + "\n")
        PLAN.sink.flush()


class FaultCursor(real_sqlite3.Cursor):
    def execute(self, sql, params=()):
        PLAN.count += 1
        k = PLAN.count
        log_event(f"exec#{k} {' '.join(sql.split())} <- {canon(params)}")
        if PLAN.fault_at == k:
            if PLAN.fault == "exit_before":
                os._exit(41)
            if PLAN.fault == "exit_after":
                super().execute(sql, params)
                os._exit(42)
            log_event(f"fault#{k} {PLAN.fault.__name__}")
            raise PLAN.fault(f"injected fault at statement {k}")
        return super().execute(sql, params)

    def executemany(self, sql, seq):
        seq = list(seq)
        log_event(f"executemany {' '.join(sql.split())} <- {canon(seq)}")
        return super().executemany(sql, seq)


class FaultConn(real_sqlite3.Connection):
    def cursor(self, factory=FaultCursor):
        log_event("cursor")
        return super().cursor(factory)

    def commit(self):
        log_event("commit")
        if PLAN.commit_fault == "raise":
            raise real_sqlite3.OperationalError("injected commit failure")
        if PLAN.commit_fault == "exit_before":
            os._exit(43)
        super().commit()
        if PLAN.commit_fault == "exit_after":
            os._exit(44)

    def rollback(self):
        log_event("rollback")
        super().rollback()

    def close(self):
        log_event("close")
        super().close()


class Sqlite3Shim:
    """Stands in for the sqlite3 module inside pygaps.parsing.sqlite."""
    def __getattr__(self, name):
        return getattr(real_sqlite3, name)

    @staticmethod
    def connect(path, *args, **kwargs):
        log_event(f"connect {os.path.basename(str(path))}")
        kwargs.setdefault("factory", FaultConn)
        return real_sqlite3.connect(path, *args, **kwargs)


pgsql.sqlite3 = Sqlite3Shim()


class LogCatcher(logging.Handler):
    def emit(self, record):
        log_event(f"log {record.levelname} {record.getMessage()}")


pygaps.logger.addHandler(LogCatcher())
pygaps.logger.propagate = False
for _h in list(pygaps.logger.handlers):
    if not isinstance(_h, LogCatcher):
        pygaps.logger.removeHandler(_h)

# ----------------------------------------------------------------- databases

TMP = tempfile.mkdtemp(prefix="c09eq_")
TEMPLATE = os.path.join(TMP, "template.db")
WORK = os.path.join(TMP, "work.db")

TABLES = [
    "adsorbates", "adsorbate_properties_type", "adsorbate_properties", "materials",
    "material_properties_type", "material_properties", "isotherm_type", "isotherms",
    "isotherm_properties", "isotherm_data"
]


def dump_db(path):
    """Read all tables through an independent connection."""
    conn = real_sqlite3.connect(path)
    try:
        lines = []
        counts = []
        for table in TABLES:
            rows = conn.execute(f'SELECT * FROM "{table}" ORDER BY rowid').fetchall()
            counts.append(len(rows))
            for row in rows:
                lines.append(f"{table}|" + "|".join(canon(v) for v in row))
        seqs = conn.execute("SELECT name, seq FROM sqlite_sequence ORDER BY name").fetchall()
        lines.append("seq|" + canon([list(s) for s in seqs]))
        fk = conn.execute("PRAGMA foreign_key_check").fetchall()
        integ = conn.execute("PRAGMA integrity_check").fetchall()
    finally:
        conn.close()
    digest = hashlib.sha256("\n".join(lines).encode("utf8")).hexdigest()[:16]
    return lines, counts, digest, len(fk), integ[0][0]


def fresh_db():
    for ext in ("", "-journal", "-wal", "-shm"):
        if os.path.exists(WORK + ext):
            os.remove(WORK + ext)
    shutil.copyfile(TEMPLATE, WORK)
    return WORK


def reset_lists():
    """Module-level object lists start each case in the same state."""
    pygaps.ADSORBATE_LIST[:] = list(BASE_ADS_LIST)
    pygaps.MATERIAL_LIST[:] = list(BASE_MAT_LIST)


def list_state():
    return (
        f"ADS{[a.name if hasattr(a, 'name') else a for a in pygaps.ADSORBATE_LIST[len(BASE_ADS_LIST) - 2:]]}"
        f" MAT{[m.name if hasattr(m, 'name') else m for m in pygaps.MATERIAL_LIST]}"
    )


def describe_exc(err):
    text = f"{type(err).__name__}: {err}"
    cause = err.__cause__
    ctx = err.__context__
    text += f" | cause={type(cause).__name__ + ': ' + str(cause) if cause is not None else None}"
    text += f" | context={type(ctx).__name__ if ctx is not None else None}"
    text += f" | suppress={err.__suppress_context__}"
    if cause is not None:
        c2 = cause.__cause__
        x2 = cause.__context__
        text += (
            f" | cause.cause={type(c2).__name__ if c2 is not None else None}"
            f" cause.context={type(x2).__name__ if x2 is not None else None}"
            f" cause.suppress={cause.__suppress_context__}"
        )
    return text


def run_op(op, path):
    """Run op(path); return canonical text of result/exception."""
    try:
        ret = op(path)
        return "ok " + canon(ret)
    except BaseException as err:  # noqa: B902
        return "raised " + describe_exc(err)


def report_db(tag, path, full=False):
    lines, counts, digest, nfk, integ = dump_db(path)
    emit(f"  {tag}: counts={counts} digest={digest} fk_violations={nfk} integrity={integ}")
    if full:
        for line in lines:
            if not line.startswith(("adsorbate_properties_type|", "isotherm_type|")):
                emit("      " + line)


def case(name, op, fault_at=None, fault=None, commit_fault=None, full=False, retry=True):
    """One in-process case: run op with the given fault, report, then repeat op without fault."""
    path = fresh_db()
    reset_lists()
    PLAN.reset()
    PLAN.fault_at, PLAN.fault, PLAN.commit_fault = fault_at, fault, commit_fault
    fname = fault.__name__ if isinstance(fault, type) else fault
    emit(f"CASE {name} fault_at={fault_at} fault={fname} commit_fault={commit_fault}")
    res = run_op(op, path)
    events = PLAN.events
    n = PLAN.count
    emit("  result:", res)
    for ev in events:
        emit("    ~", ev)
    emit("  lists:", list_state())
    report_db("after", path, full=full)
    if retry:
        PLAN.reset()
        res = run_op(op, path)
        emit("  repeat:", res, f"statements={PLAN.count}")
        emit("  lists:", list_state())
        report_db("after-repeat", path)
    PLAN.reset()
    return n


def crash_case(name, op, fault_at=None, fault=None, commit_fault=None):
    """The process running op dies abruptly; the survivor inspects the file."""
    path = fresh_db()
    reset_lists()
    PLAN.reset()
    emit(f"CRASH {name} fault_at={fault_at} fault={fault} commit_fault={commit_fault}")
    evfile = os.path.join(TMP, "child_events.txt")
    sys.stdout.flush()
    pid = os.fork()
    if pid == 0:
        try:
            PLAN.sink = open(evfile, "w", encoding="utf8")
            PLAN.fault_at, PLAN.fault, PLAN.commit_fault = fault_at, fault, commit_fault
            res = run_op(op, path)
            PLAN.sink.write("child-result " + res + "\n")
            PLAN.sink.flush()
        finally:
            os._exit(0)
    _, status = os.waitpid(pid, 0)
    emit(f"  child exit={os.WEXITSTATUS(status)}")
    with open(evfile, encoding="utf8") as f:
        for line in f.read().splitlines():
            emit("    ~", line)
    emit(f"  journal_left={os.path.exists(path + '-journal')}")
    report_db("after-crash", path)
    res = run_op(op, path)
    emit("  repeat:", res, f"statements={PLAN.count}")
    report_db("after-repeat", path)
    PLAN.reset()


FAULTS = [real_sqlite3.IntegrityError, real_sqlite3.InterfaceError, real_sqlite3.OperationalError]


def sweep(name, op, crash=True, full=True):
    """No-fault run, then every statement position x every fault kind (+ crashes, commit faults)."""
    n = case(name, op, full=full)
    for k in range(1, n + 1):
        for fault in FAULTS:
            case(name, op, fault_at=k, fault=fault)
        if crash:
            crash_case(name, op, fault_at=k, fault="exit_before")
            crash_case(name, op, fault_at=k, fault="exit_after")
    case(name, op, commit_fault="raise")
    if crash:
        crash_case(name, op, commit_fault="exit_before")
        crash_case(name, op, commit_fault="exit_after")


# ----------------------------------------------------------------- test objects


def make_adsorbate(name="eq_ads", **props):
    base = {"formula": "X2", "molar_mass": 28.5, "backend_name": "nitrogen_eq"}
    base.update(props)
    return pygaps.Adsorbate(name, store=False, **base)


def make_material(name="eq_mat", **props):
    base = {"density": 1.25, "comment": "fresh", "batch": "b7"}
    base.update(props)
    return pygaps.Material(name, store=False, **base)


ISO_PARAMS = {
    "material": "eq_mat0",
    "adsorbate": "eq_ads0",
    "temperature": 77.5,
    "pressure_mode": "absolute",
    "pressure_unit": "bar",
    "loading_basis": "molar",
    "loading_unit": "mmol",
    "material_basis": "mass",
    "material_unit": "g",
    "temperature_unit": "K",
    "lab": "TL",
    "is_real": True,
    "is_fake": False,
    "count": 3,
    "ratio": 0.1 + 0.2,
}


def iso_params(**over):
    params = dict(ISO_PARAMS)
    params.update(over)
    return params


def make_point(**over):
    extra = over.pop("_extra", {})
    data = pandas.DataFrame({
        "pressure": [0.1, 0.5, 1.0, 2.0, 3.5, 2.0, 1.0],
        "loading": [0.5, 1.1, 1.9, 2.4, 2.7, 2.5, 2.1],
        "enthalpy": [5.5, 5.25, 5.0, 4.75, 4.5, 4.6, 4.9],
        "note": list("abcdefg"),
    })
    for col, vals in over.pop("_cols", {}).items():
        data[col] = vals
    return pygaps.PointIsotherm(
        isotherm_data=data,
        pressure_key="pressure",
        loading_key="loading",
        **iso_params(**over),
        **extra,
    )


def make_model(**over):
    model = pygaps.modelling.get_isotherm_model("Langmuir", parameters={"K": 2.5, "n_m": 4.0})
    model.rmse = 0.01
    model.pressure_range = [0.1, 5.0]
    model.loading_range = [0.2, 3.7]
    return pygaps.ModelIsotherm(model=model, **iso_params(**over))


def make_base(**over):
    return pygaps.core.baseisotherm.BaseIsotherm(**iso_params(**over))


def build_template():
    for pragma in PRAGMAS:
        db_execute_general(pragma, TEMPLATE)
    for typ in ("isotherm", "pointisotherm", "modelisotherm"):
        pgsql.isotherm_type_to_db({"type": typ}, db_path=TEMPLATE, verbose=False)
    for typ in ("formula", "molar_mass"):
        pgsql.adsorbate_property_type_to_db({"type": typ, "unit": "u", "description": "d " + typ},
                                            db_path=TEMPLATE, verbose=False)
    for typ in ("density", "comment"):
        pgsql.material_property_type_to_db({"type": typ, "unit": "u"}, db_path=TEMPLATE, verbose=False)
    # prior content: two adsorbates, two materials, three isotherms
    pgsql.adsorbate_to_db(make_adsorbate("eq_ads0", alias=["a0", "A-zero"]), db_path=TEMPLATE, verbose=False)
    pgsql.adsorbate_to_db(pygaps.Adsorbate("eq_bare", store=False), db_path=TEMPLATE, verbose=False)
    pgsql.material_to_db(make_material("eq_mat0", tags=["t1", "t2"]), db_path=TEMPLATE, verbose=False)
    pgsql.material_to_db(pygaps.Material("eq_plain", store=False), db_path=TEMPLATE, verbose=False)
    reset_lists()  # isotherm ids depend on what the module lists know about material/adsorbate
    pgsql.isotherm_to_db(make_point(), db_path=TEMPLATE, verbose=False)
    pgsql.isotherm_to_db(make_model(), db_path=TEMPLATE, verbose=False)
    pgsql.isotherm_to_db(make_base(), db_path=TEMPLATE, verbose=False)


BASE_ADS_LIST = list(pygaps.ADSORBATE_LIST)
BASE_MAT_LIST = list(pygaps.MATERIAL_LIST)
build_template()
PLAN.reset()
reset_lists()


# ----------------------------------------------------------------- scenarios


class Weird:
    """A value sqlite cannot bind."""
    def __repr__(self):
        return "Weird()"


def bad_point():
    """Point isotherm whose last data column cannot be stored."""
    return make_point(lab="badcol", _cols={"zobjs": [Weird() for _ in range(7)]})


SCEN = {
    # adsorbates
    "ads_new": lambda p: pgsql.adsorbate_to_db(make_adsorbate("eq_new", alias=["n1", "n2"], extra=7), db_path=p),
    "ads_new_quiet": lambda p: pgsql.adsorbate_to_db(make_adsorbate("eq_new2", tags={"only"}), db_path=p, verbose=False),
    "ads_new_noprops": lambda p: pgsql.adsorbate_to_db(pygaps.Adsorbate("eq_empty"), db_path=p),
    "ads_dup": lambda p: pgsql.adsorbate_to_db(make_adsorbate("eq_ads0"), db_path=p),
    "ads_overwrite": lambda p: pgsql.adsorbate_to_db(make_adsorbate("eq_ads0", formula="Y3", novel=("p", "q")), db_path=p, overwrite=True),
    "ads_overwrite_bare": lambda p: pgsql.adsorbate_to_db(pygaps.Adsorbate("eq_bare", formula="B"), db_path=p, overwrite=True),
    "ads_overwrite_missing": lambda p: pgsql.adsorbate_to_db(make_adsorbate("eq_nobody"), db_path=p, overwrite=True),
    "ads_noauto_unknown": lambda p: pgsql.adsorbate_to_db(make_adsorbate("eq_new3", unknown_prop=1), db_path=p, autoinsert_properties=False),
    "ads_noauto_known": lambda p: pgsql.adsorbate_to_db(pygaps.Adsorbate("eq_new4", formula="K", molar_mass=1.5), db_path=p, autoinsert_properties=False),
    "ads_unbindable": lambda p: pgsql.adsorbate_to_db(make_adsorbate("eq_new5", odd=Weird()), db_path=p),
    "ads_none_value": lambda p: pgsql.adsorbate_to_db(make_adsorbate("eq_new6", nothing=None), db_path=p),
    "ads_emptylist_value": lambda p: pgsql.adsorbate_to_db(make_adsorbate("eq_new7", nolist=[]), db_path=p),
    "ads_delete_obj": lambda p: pgsql.adsorbate_delete_db(make_adsorbate("eq_bare"), db_path=p),
    "ads_delete_str": lambda p: pgsql.adsorbate_delete_db("eq_bare", db_path=p),
    "ads_delete_missing": lambda p: pgsql.adsorbate_delete_db("eq_nobody", db_path=p),
    "ads_delete_referenced": lambda p: pgsql.adsorbate_delete_db("eq_ads0", db_path=p),
    "ads_get": lambda p: pgsql.adsorbates_from_db(db_path=p),
    # materials
    "mat_new": lambda p: pgsql.material_to_db(make_material("eq_newm", tags=["x", "y", "z"], porosity=0.4), db_path=p),
    "mat_new_quiet": lambda p: pgsql.material_to_db(make_material("eq_newm2", pair=(1, 2.5)), db_path=p, verbose=False),
    "mat_new_noprops": lambda p: pgsql.material_to_db(pygaps.Material("eq_emptym"), db_path=p),
    "mat_dup": lambda p: pgsql.material_to_db(make_material("eq_mat0"), db_path=p),
    "mat_overwrite": lambda p: pgsql.material_to_db(make_material("eq_mat0", comment="again", fresh=["f1", "f2"]), db_path=p, overwrite=True),
    "mat_overwrite_plain": lambda p: pgsql.material_to_db(pygaps.Material("eq_plain", density=2.0), db_path=p, overwrite=True),
    "mat_overwrite_missing": lambda p: pgsql.material_to_db(make_material("eq_nomat"), db_path=p, overwrite=True),
    "mat_noauto_unknown": lambda p: pgsql.material_to_db(make_material("eq_newm3"), db_path=p, autoinsert_properties=False),
    "mat_noauto_known": lambda p: pgsql.material_to_db(pygaps.Material("eq_newm4", density=3.0, comment="c"), db_path=p, autoinsert_properties=False),
    "mat_unbindable": lambda p: pgsql.material_to_db(make_material("eq_newm5", odd=Weird()), db_path=p),
    "mat_none_value": lambda p: pgsql.material_to_db(make_material("eq_newm6", nothing=None), db_path=p),
    "mat_delete_obj": lambda p: pgsql.material_delete_db(make_material("eq_plain"), db_path=p),
    "mat_delete_str": lambda p: pgsql.material_delete_db("eq_plain", db_path=p),
    "mat_delete_missing": lambda p: pgsql.material_delete_db("eq_nomat", db_path=p),
    "mat_delete_referenced": lambda p: pgsql.material_delete_db("eq_mat0", db_path=p),
    "mat_get": lambda p: pgsql.materials_from_db(db_path=p),
    # isotherms
    "iso_point_existing_parents": lambda p: pgsql.isotherm_to_db(make_point(lab="second"), db_path=p),
    "iso_point_autoinsert_both": lambda p: pgsql.isotherm_to_db(
        make_point(material=make_material("eq_am", tags=["q"]), adsorbate="eq_aa"), db_path=p),
    "iso_point_autoinsert_mat": lambda p: pgsql.isotherm_to_db(make_point(material="eq_am2"), db_path=p, verbose=False),
    "iso_model_autoinsert_ads": lambda p: pgsql.isotherm_to_db(make_model(adsorbate="eq_aa2"), db_path=p),
    "iso_model_existing": lambda p: pgsql.isotherm_to_db(make_model(lab="m2"), db_path=p),
    "iso_base_existing": lambda p: pgsql.isotherm_to_db(make_base(lab="b2"), db_path=p),
    "iso_base_minimal": lambda p: pgsql.isotherm_to_db(
        pygaps.core.baseisotherm.BaseIsotherm(material="eq_plain", adsorbate="eq_bare", temperature=300), db_path=p),
    "iso_dup": lambda p: pgsql.isotherm_to_db(make_point(), db_path=p),
    "iso_noauto_missing_mat": lambda p: pgsql.isotherm_to_db(make_base(material="eq_ghost"), db_path=p, autoinsert_material=False),
    "iso_noauto_missing_ads": lambda p: pgsql.isotherm_to_db(make_model(adsorbate="eq_ghost"), db_path=p, autoinsert_adsorbate=False),
    "iso_noauto_existing": lambda p: pgsql.isotherm_to_db(
        make_point(lab="na"), db_path=p, autoinsert_material=False, autoinsert_adsorbate=False),
    "iso_unbindable_prop": lambda p: pgsql.isotherm_to_db(make_base(lab="lst", things=[1, 2]), db_path=p),
    "iso_explicit_other_keys": lambda p: pgsql.isotherm_to_db(
        make_point(lab="ok", _extra={"other_keys": ["enthalpy", "note"]}), db_path=p),
    "iso_bool_column": lambda p: pgsql.isotherm_to_db(
        make_point(lab="flag", _cols={"zflag": [True, False, True, True, False, False, True]}), db_path=p),
    "iso_int_column": lambda p: pgsql.isotherm_to_db(make_point(lab="step", _cols={"astep": [1, 2, 3, 4, 5, 6, 7]}), db_path=p),
    "iso_bad_column": lambda p: pgsql.isotherm_to_db(bad_point(), db_path=p),
    "iso_not_isotherm": lambda p: pgsql.isotherm_to_db("not an isotherm", db_path=p, autoinsert_material=False, autoinsert_adsorbate=False),
    "iso_delete_obj": lambda p: pgsql.isotherm_delete_db(make_point(), db_path=p),
    "iso_delete_id": lambda p: pgsql.isotherm_delete_db(make_model().iso_id, db_path=p),
    "iso_delete_base_quiet": lambda p: pgsql.isotherm_delete_db(make_base(), db_path=p, verbose=False),
    "iso_delete_missing": lambda p: pgsql.isotherm_delete_db(make_base(lab="never"), db_path=p),
    "iso_delete_missing_id": lambda p: pgsql.isotherm_delete_db("deadbeef", db_path=p),
    "iso_get_all": lambda p: pgsql.isotherms_from_db(db_path=p),
    "iso_get_criteria": lambda p: pgsql.isotherms_from_db({"material": "eq_mat0", "temperature": 77.5}, db_path=p),
    # type tables
    "type_ads_new": lambda p: pgsql.adsorbate_property_type_to_db({"type": "tnew", "unit": "u", "description": "d"}, db_path=p),
    "type_ads_dup": lambda p: pgsql.adsorbate_property_type_to_db({"type": "formula"}, db_path=p),
    "type_ads_overwrite": lambda p: pgsql.adsorbate_property_type_to_db({"type": "formula", "unit": "n"}, db_path=p, overwrite=True),
    "type_ads_delete_used": lambda p: pgsql.adsorbate_property_type_delete_db("formula", db_path=p),
    "type_mat_delete_unused": lambda p: pgsql.material_property_type_delete_db("batch", db_path=p),
    "type_mat_delete_missing": lambda p: pgsql.material_property_type_delete_db("zzz", db_path=p),
    "type_iso_new": lambda p: pgsql.isotherm_type_to_db({"type": "calorimetry", "description": "c"}, db_path=p),
    "type_iso_delete_used": lambda p: pgsql.isotherm_type_delete_db("pointisotherm", db_path=p),
    "type_isoprop_delete": lambda p: pgsql.isotherm_property_type_delete_db("lab", db_path=p),
    "type_isoprop_get": lambda p: pgsql.isotherm_property_types_from_db(db_path=p),
}


def own_cursor(op_with_cursor, finish_with):
    """The caller owns connection and cursor (nested use); finish_with is 'commit' or 'rollback'."""
    def op(path):
        conn = real_sqlite3.connect(path, factory=FaultConn)
        conn.row_factory = real_sqlite3.Row
        try:
            cur = conn.cursor()
            cur.execute("PRAGMA foreign_keys = ON")
            try:
                return op_with_cursor(cur)
            finally:
                getattr(conn, finish_with)()
        finally:
            conn.close()
    return op


def finish():
    shutil.rmtree(TMP, ignore_errors=True)
    sys.stdout.write("\n".join(OUT) + "\n")

# ----------------------------------------------------------------- diff2: parent row of adsorbate_to_db / material_to_db
emit("== all adsorbate / material scenarios: every statement position x every fault kind, crashes, commit faults")
EXTRA = {
    "ads_overwrite_truthy_int": lambda p: pgsql.adsorbate_to_db(make_adsorbate("eq_ads0", formula="T1"), db_path=p, overwrite=1),
    "ads_overwrite_truthy_str": lambda p: pgsql.adsorbate_to_db(make_adsorbate("eq_bare"), db_path=p, overwrite="yes"),
    "ads_overwrite_falsy_zero": lambda p: pgsql.adsorbate_to_db(make_adsorbate("eq_z0"), db_path=p, overwrite=0),
    "ads_overwrite_falsy_none": lambda p: pgsql.adsorbate_to_db(make_adsorbate("eq_ads0"), db_path=p, overwrite=None),
    "ads_overwrite_falsy_emptylist": lambda p: pgsql.adsorbate_to_db(make_adsorbate("eq_z1"), db_path=p, overwrite=[]),
    "ads_name_quotes": lambda p: pgsql.adsorbate_to_db(pygaps.Adsorbate("it's \"q\"; DROP", formula="Q"), db_path=p),
    "ads_name_unicode": lambda p: pgsql.adsorbate_to_db(pygaps.Adsorbate("éthane α", formula="U"), db_path=p),
    "ads_name_empty": lambda p: pgsql.adsorbate_to_db(pygaps.Adsorbate("", formula="E"), db_path=p),
    "ads_overwrite_name_quotes_missing": lambda p: pgsql.adsorbate_to_db(pygaps.Adsorbate("o'no"), db_path=p, overwrite=True),
    "ads_not_an_adsorbate": lambda p: pgsql.adsorbate_to_db("eq_ads0", db_path=p),
    "ads_not_an_adsorbate_overwrite": lambda p: pgsql.adsorbate_to_db("eq_ads0", db_path=p, overwrite=True),
    "ads_overwrite_noauto_unknown": lambda p: pgsql.adsorbate_to_db(
        make_adsorbate("eq_ads0", mystery=2), db_path=p, overwrite=True, autoinsert_properties=False),
    "mat_overwrite_truthy_int": lambda p: pgsql.material_to_db(make_material("eq_mat0", density=9.5), db_path=p, overwrite=1),
    "mat_overwrite_falsy_zero": lambda p: pgsql.material_to_db(make_material("eq_mz0"), db_path=p, overwrite=0),
    "mat_overwrite_falsy_none_dup": lambda p: pgsql.material_to_db(make_material("eq_mat0"), db_path=p, overwrite=None),
    "mat_name_none": lambda p: pgsql.material_to_db(pygaps.Material(None, density=1.0), db_path=p),
    "mat_name_int": lambda p: pgsql.material_to_db(pygaps.Material(5, density=1.0), db_path=p),
    "mat_name_int_overwrite_missing": lambda p: pgsql.material_to_db(pygaps.Material(6), db_path=p, overwrite=True),
    "mat_name_quotes": lambda p: pgsql.material_to_db(pygaps.Material("m'at \"x\"", comment="c"), db_path=p),
    "mat_name_unbindable": lambda p: pgsql.material_to_db(pygaps.Material(("tu", "ple")), db_path=p),
    "mat_name_unbindable_overwrite": lambda p: pgsql.material_to_db(pygaps.Material(("tu", "ple")), db_path=p, overwrite=True),
    "mat_not_a_material": lambda p: pgsql.material_to_db({"name": "x"}, db_path=p, overwrite=True),
    "mat_overwrite_twice": lambda p: (
        pgsql.material_to_db(make_material("eq_mat0", comment="one"), db_path=p, overwrite=True),
        pgsql.material_to_db(make_material("eq_mat0", comment="two", tags=["k"]), db_path=p, overwrite=True),
    ),
    "mat_insert_then_overwrite": lambda p: (
        pgsql.material_to_db(make_material("eq_two"), db_path=p),
        pgsql.material_to_db(pygaps.Material("eq_two"), db_path=p, overwrite=True),
    ),
}
ALL = {k: v for k, v in SCEN.items() if k.startswith(("ads_", "mat_")) and not k.endswith("_get") and "delete" not in k}
ALL.update(EXTRA)
for name, op in ALL.items():
    sweep(name, op, crash=name in (
        "ads_new", "ads_overwrite", "ads_overwrite_bare", "mat_new", "mat_overwrite", "mat_overwrite_plain",
        "mat_overwrite_twice", "mat_insert_then_overwrite", "ads_overwrite_noauto_unknown",
    ))

emit("== through isotherm_to_db (shared cursor) and with a caller-owned cursor")
for name in ["iso_point_autoinsert_both", "iso_point_autoinsert_mat", "iso_model_autoinsert_ads"]:
    sweep(name, SCEN[name], full=False)
NESTED = {
    "mat_new_commit": own_cursor(lambda cur: pgsql.material_to_db(make_material("own_m", tags=["a", "b"]), cursor=cur), "commit"),
    "mat_overwrite_commit": own_cursor(
        lambda cur: pgsql.material_to_db(make_material("eq_mat0", comment="own"), cursor=cur, overwrite=True), "commit"),
    "ads_overwrite_missing_commit": own_cursor(
        lambda cur: pgsql.adsorbate_to_db(make_adsorbate("own_missing"), cursor=cur, overwrite=True), "commit"),
    "ads_overwrite_rollback": own_cursor(
        lambda cur: pgsql.adsorbate_to_db(make_adsorbate("eq_ads0", formula="own"), cursor=cur, overwrite=True), "rollback"),
}
for name, op in NESTED.items():
    n = case("nested/" + name, op, full=True)
    for k in range(2, n + 1):
        for fault in FAULTS:
            case("nested/" + name, op, fault_at=k, fault=fault)

finish()
