"""Differential script for change 1: interpolator cache staleness/reset helpers in PointIsotherm."""
import warnings

import numpy as np

warnings.filterwarnings("ignore")

import pygaps  # noqa: E402
from pygaps.core.pointisotherm import PointIsotherm  # noqa: E402


def fmt(v):
    if isinstance(v, (list, tuple)):
        return "[" + ", ".join(fmt(x) for x in v) + "]"
    if isinstance(v, np.ndarray):
        if v.ndim == 0:
            return "a0:" + fmt(v.item())
        return "arr[" + ", ".join(fmt(x) for x in v.tolist()) + "]"
    if isinstance(v, (float, np.floating)):
        return f"{float(v):.12g}"
    return repr(v)


def cache_state(iso):
    out = []
    for name in ("l_interpolator", "p_interpolator"):
        itp = getattr(iso, name)
        if itp is None:
            out.append(f"{name}=None")
        else:
            out.append(
                f"{name}=({itp.interp_branch!r},{itp.interp_kind!r},{fmt(itp.interp_fill)},"
                f"{type(itp.interp_fun).__name__})"
            )
    return " ".join(out)


def labels(iso):
    return (
        f"{iso.pressure_mode}/{iso.pressure_unit} {iso.loading_basis}/{iso.loading_unit} "
        f"{iso.material_basis}/{iso.material_unit}"
    )


def data_text(iso):
    return " ".join(
        f"{c}:" + fmt(iso.data_raw[c].to_numpy(dtype=float)) for c in iso.data_raw.columns
    )


def fresh():
    p_ads = [0.01, 0.05, 0.1, 0.2, 0.35, 0.5, 0.7, 0.9]
    l_ads = [0.8, 1.9, 2.6, 3.3, 4.1, 4.6, 5.4, 6.5]
    p_des = [0.8, 0.6, 0.4, 0.3, 0.15]
    l_des = [6.3, 5.6, 4.9, 4.2, 3.1]
    return PointIsotherm(
        pressure=p_ads + p_des,
        loading=l_ads + l_des,
        material="TEST",
        adsorbate="N2",
        temperature=77.0,
        temperature_unit="K",
        pressure_mode="absolute",
        pressure_unit="bar",
        loading_basis="molar",
        loading_unit="mmol",
        material_basis="mass",
        material_unit="g",
    )


CASE = [0]


def run(iso, what, func, *args, **kwargs):
    CASE[0] += 1
    try:
        res = fmt(func(*args, **kwargs))
    except Exception as err:  # noqa: BLE001
        res = f"EXC {type(err).__name__}: {err}"
    print(f"[{CASE[0]:03d}] {what} -> {res}")
    print(f"      cache: {cache_state(iso)}")
    print(f"      labels: {labels(iso)}")


# --------------------------------------------------------------------------
# the call menu: (name, method name, args, kwargs)
L_CALLS = [
    ("la default", "loading_at", (0.3, ), {}),
    ("la array", "loading_at", ([0.02, 0.3, 0.85], ), {}),
    ("la des", "loading_at", (0.5, ), dict(branch="des")),
    ("la des cubic", "loading_at", (0.5, ), dict(branch="des", interpolation_type="cubic")),
    ("la cubic", "loading_at", (0.3, ), dict(interpolation_type="cubic")),
    ("la quadratic", "loading_at", (0.3, ), dict(interpolation_type="quadratic")),
    ("la nearest", "loading_at", (0.3, ), dict(interpolation_type="nearest")),
    ("la zero", "loading_at", (0.3, ), dict(interpolation_type="zero")),
    ("la slinear", "loading_at", (0.3, ), dict(interpolation_type="slinear")),
    ("la out of range", "loading_at", (2.0, ), {}),
    ("la fill 7", "loading_at", (2.0, ), dict(interp_fill=7.0)),
    ("la fill 0", "loading_at", (2.0, ), dict(interp_fill=0)),
    ("la fill tuple", "loading_at", ([0.001, 2.0], ), dict(interp_fill=(0.0, 9.0))),
    ("la fill extrapolate", "loading_at", (2.0, ), dict(interp_fill="extrapolate")),
    ("la fill nparray", "loading_at", (2.0, ), dict(interp_fill=np.array([0.0, 9.0]))),
    ("la kPa", "loading_at", (30.0, ), dict(pressure_unit="kPa")),
    ("la relative", "loading_at", (0.2, ), dict(pressure_mode="relative")),
    ("la relative%", "loading_at", (20.0, ), dict(pressure_mode="relative%")),
    ("la abs no unit", "loading_at", (0.3, ), dict(pressure_mode="absolute")),
    ("la bad unit", "loading_at", (0.3, ), dict(pressure_unit="furlong")),
    ("la mol out", "loading_at", (0.3, ), dict(loading_unit="mol")),
    ("la mass out", "loading_at", (0.3, ), dict(loading_basis="mass", loading_unit="g")),
    ("la per kg", "loading_at", (0.3, ), dict(material_unit="kg")),
    ("la bad branch", "loading_at", (0.3, ), dict(branch="xxx")),
    ("la bad kind", "loading_at", (0.3, ), dict(interpolation_type="septic")),
    ("la nan", "loading_at", (float("nan"), ), {}),
    ("la empty", "loading_at", ([], ), {}),
]
P_CALLS = [
    ("pa default", "pressure_at", (3.0, ), {}),
    ("pa array", "pressure_at", ([1.0, 3.0, 6.0], ), {}),
    ("pa des", "pressure_at", (5.0, ), dict(branch="des")),
    ("pa cubic", "pressure_at", (3.0, ), dict(interpolation_type="cubic")),
    ("pa nearest", "pressure_at", (3.0, ), dict(interpolation_type="nearest")),
    ("pa out of range", "pressure_at", (20.0, ), {}),
    ("pa fill 1", "pressure_at", (20.0, ), dict(interp_fill=1.0)),
    ("pa fill tuple", "pressure_at", ([0.1, 20.0], ), dict(interp_fill=(0.0, 1.0))),
    ("pa fill extrapolate", "pressure_at", (20.0, ), dict(interp_fill="extrapolate")),
    ("pa fill nparray", "pressure_at", (3.0, ), dict(interp_fill=np.array([0.0, 1.0]))),
    ("pa kPa out", "pressure_at", (3.0, ), dict(pressure_unit="kPa")),
    ("pa relative out", "pressure_at", (3.0, ), dict(pressure_mode="relative")),
    ("pa mol in", "pressure_at", (0.003, ), dict(loading_unit="mol")),
    ("pa basis no unit", "pressure_at", (3.0, ), dict(loading_basis="mass")),
    ("pa mat basis no unit", "pressure_at", (3.0, ), dict(material_basis="mass")),
    ("pa per kg", "pressure_at", (3000.0, ), dict(material_unit="kg")),
    ("pa bad branch", "pressure_at", (3.0, ), dict(branch="xxx")),
    ("pa bad kind", "pressure_at", (3.0, ), dict(interpolation_type="septic")),
]
CONVERTS = [
    ("cv pressure kPa", "convert_pressure", (), dict(unit_to="kPa")),
    ("cv pressure same", "convert_pressure", (), dict(mode_to="absolute", unit_to="bar")),
    ("cv pressure noargs", "convert_pressure", (), {}),
    ("cv pressure relative", "convert_pressure", (), dict(mode_to="relative")),
    ("cv pressure bad", "convert_pressure", (), dict(unit_to="furlong")),
    ("cv loading mol", "convert_loading", (), dict(unit_to="mol")),
    ("cv loading same", "convert_loading", (), dict(basis_to="molar", unit_to="mmol")),
    ("cv loading mass", "convert_loading", (), dict(basis_to="mass", unit_to="g")),
    ("cv loading fraction", "convert_loading", (), dict(basis_to="fraction")),
    ("cv loading bad", "convert_loading", (), dict(unit_to="furlong")),
    ("cv material kg", "convert_material", (), dict(unit_to="kg")),
    ("cv material same", "convert_material", (), dict(basis_to="mass", unit_to="g")),
    ("cv material bad", "convert_material", (), dict(unit_to="furlong")),
    ("cv material volume (no density)", "convert_material", (), dict(basis_to="volume", unit_to="cm3")),
]

print("=== A: every call first on a fresh isotherm")
for name, meth, args, kwargs in L_CALLS + P_CALLS + CONVERTS:
    iso = fresh()
    run(iso, name, getattr(iso, meth), *args, **kwargs)

print("=== B: every call after a history of differing queries (same object)")
for name, meth, args, kwargs in L_CALLS + P_CALLS:
    iso = fresh()
    iso.loading_at(0.4, branch="des", interpolation_type="cubic", interp_fill=(1.0, 2.0))
    iso.pressure_at(5.0, branch="des", interpolation_type="quadratic", interp_fill="extrapolate")
    run(iso, "hist+" + name, getattr(iso, meth), *args, **kwargs)

print("=== C: one long mixed sequence on one object, with conversions in between")
iso = fresh()
seq = []
for i, call in enumerate(L_CALLS):
    seq.append(call)
    seq.append(P_CALLS[i % len(P_CALLS)])
    if i % 4 == 3:
        seq.append(CONVERTS[(i // 4) % len(CONVERTS)])
# repeat the same call twice in a row (cache hit path), then differing in one field only
seq += [L_CALLS[0], L_CALLS[0], L_CALLS[2], L_CALLS[2], L_CALLS[10], L_CALLS[10], L_CALLS[11]]
seq += [P_CALLS[0], P_CALLS[0], P_CALLS[2], P_CALLS[6], P_CALLS[6], P_CALLS[7], P_CALLS[7]]
for name, meth, args, kwargs in seq:
    run(iso, "seq " + name, getattr(iso, meth), *args, **kwargs)
print("final data:", data_text(iso))

print("=== D: conversions always drop both caches")
for name, meth, args, kwargs in CONVERTS:
    iso = fresh()
    iso.loading_at(0.3, interp_fill=3.0)
    iso.pressure_at(5.0, branch="des")
    run(iso, "warm+" + name, getattr(iso, meth), *args, **kwargs)
    run(iso, "  then la", iso.loading_at, 0.3)
    run(iso, "  then pa", iso.pressure_at, 3.0)
    print("      data:", data_text(iso))

print("=== E: cache hit keeps the same interpolator object; miss replaces it")
iso = fresh()
iso.loading_at(0.3)
first = iso.l_interpolator
iso.loading_at(0.4)
print("same kwargs -> same object:", iso.l_interpolator is first)
for kw in (dict(branch="des"), dict(interpolation_type="cubic"), dict(interp_fill=1.0), dict(interp_fill=0)):
    iso.loading_at(0.3)
    base = iso.l_interpolator
    iso.loading_at(0.3, **kw)
    print(f"{kw} -> replaced:", iso.l_interpolator is not base)
iso.pressure_at(5.0)
first = iso.p_interpolator
iso.pressure_at(5.5)
print("same kwargs -> same object:", iso.p_interpolator is first)
for kw in (dict(branch="des"), dict(interpolation_type="cubic"), dict(interp_fill=1.0), dict(interp_fill=0)):
    iso.pressure_at(5.0)
    base = iso.p_interpolator
    iso.pressure_at(5.0, **kw)
    print(f"{kw} -> replaced:", iso.p_interpolator is not base)
# a failed interpolator build must leave the previous cache in place
iso = fresh()
iso.loading_at(0.3)
base = iso.l_interpolator
try:
    iso.loading_at(0.3, interpolation_type="septic")
except Exception as err:  # noqa: BLE001
    print("build failure:", type(err).__name__)
print("cache kept after failure:", iso.l_interpolator is base)
