"""Differential script for change 1: IsothermBaseModel.fit (generic least-squares fit + rmse)."""
import logging
import warnings

import numpy

warnings.filterwarnings("ignore")
logging.disable(logging.CRITICAL)

import pygaps  # noqa: E402
from pygaps.core.modelisotherm import ModelIsotherm  # noqa: E402
from pygaps.modelling import _MODELS  # noqa: E402
from pygaps.modelling import get_isotherm_model  # noqa: E402


def fmt(x):
    if isinstance(x, dict):
        return "{" + ", ".join(f"{k!r}: {fmt(x[k])}" for k in x) + "}"
    if isinstance(x, (list, tuple)):
        return "[" + ", ".join(fmt(v) for v in x) + "]"
    if isinstance(x, numpy.ndarray):
        return "arr" + str(x.shape) + "[" + ", ".join(fmt(v) for v in x.ravel()) + "]"
    if isinstance(x, (bool, numpy.bool_)):
        return repr(bool(x))
    if isinstance(x, (float, numpy.floating)):
        return "%.12g" % float(x)
    if isinstance(x, (int, numpy.integer)):
        return "i%d" % int(x)
    return repr(x)


def report(tag, fn):
    try:
        res = fn()
        print(tag, "->", res)
    except Exception as err:  # noqa: BLE001
        print(tag, "-> EXC", type(err).__name__, str(err).replace("\n", "\\n"))


def model_state(m):
    return " ".join([
        m.name,
        "params=" + fmt(m.params),
        "keys=" + repr(list(m.params)),
        "ptypes=" + repr([type(v).__name__ for v in m.params.values()]),
        "rmse=" + fmt(m.rmse) + ":" + type(m.rmse).__name__,
        "exact=" + repr([float(v).hex() for v in m.params.values()] + [float(m.rmse).hex()]),
        "prange=" + fmt(m.pressure_range),
        "lrange=" + fmt(m.loading_range),
        "bounds=" + fmt(m.param_bounds),
    ])


rng = numpy.random.RandomState(1234)

datasets = {}
p = numpy.linspace(0.05, 0.9, 15)
datasets["lang15"] = (p, 5 * 0.8 * p / (1 + 0.8 * p))
p = numpy.linspace(0.01, 0.95, 40)
datasets["bet40"] = (p, 3.0 * 40 * p / ((1 - 0.9 * p) * (1 + 39 * 0.9 * p)))
p = numpy.linspace(0.02, 0.8, 25)
datasets["noisy25"] = (p, (4 * 3 * p / (1 + 3 * p)) * (1 + 0.03 * rng.standard_normal(25)))
p = numpy.array([0.0, 0.1, 0.2, 0.3, 0.45, 0.6, 0.7, 0.85])
datasets["zero8"] = (p, 2.5 * p**0.6)
p = numpy.geomspace(1e-3, 5.0, 60)
datasets["wide60"] = (p, 7 * (2 * p) / (1 + (2 * p)**0.7)**(1 / 0.7))

base_kw = dict(material="m", adsorbate="N2", temperature=77.355)

# 1. every model (Virial has its own fit and is exercised anyway) on every dataset through the isotherm
for dname, (pr, ld) in datasets.items():
    for model in _MODELS:
        if model in ("WVST", ) and dname in ("wide60", ):
            continue

        def run(model=model, pr=pr, ld=ld):
            iso = ModelIsotherm(pressure=pr, loading=ld, model=model, **base_kw)
            return model_state(iso.model)

        report(f"iso[{dname}][{model}]", run)


# 2. direct fit() calls with explicit guesses / bounds / optimizer options
def direct(model, pr, ld, guess, bounds=None, opt=None, verbose=False, init=None):
    m = get_isotherm_model(
        model,
        pressure_range=(float(min(pr)), float(max(pr))),
        loading_range=(float(min(ld)), float(max(ld))),
        param_bounds=bounds,
    )
    m.__init_parameters__({"temperature": 77.355, **(init or {})})
    if guess == "auto":
        guess = m.initial_guess(pr, ld)
    opt_before = None if opt is None else dict(opt)
    m.fit(pr, ld, guess, opt, verbose)
    return model_state(m) + " opt_unchanged=" + repr(opt == opt_before)


pr, ld = datasets["lang15"]
cases = [
    ("L-auto", "Langmuir", "auto", None, None),
    ("L-guess", "Langmuir", {"K": 1.0, "n_m": 3.0}, None, None),
    ("L-guess-rev-order", "Langmuir", {"n_m": 3.0, "K": 1.0}, None, None),
    ("L-guess-extra-key", "Langmuir", {"n_m": 3.0, "K": 1.0, "zzz": 3}, None, None),
    ("L-guess-missing", "Langmuir", {"n_m": 3.0}, None, None),
    ("L-guess-empty", "Langmuir", {}, None, None),
    ("L-bounds-tight", "Langmuir", {"K": 0.5, "n_m": 3.5}, {"K": (0.1, 0.6), "n_m": (3, 4)}, None),
    ("L-bounds-list", "Langmuir", {"K": 0.5, "n_m": 3.5}, {"K": [0.1, 0.6], "n_m": [3, 4]}, None),
    ("L-bounds-3tuple", "Langmuir", {"K": 0.5, "n_m": 3.5}, {"K": (0.1, 0.6, 9), "n_m": (3, 4, 9)}, None),
    ("L-bounds-partial", "Langmuir", {"K": 0.5, "n_m": 3.5}, {"K": (0.1, 0.6)}, None),
    ("L-bounds-inverted", "Langmuir", {"K": 0.5, "n_m": 3.5}, {"K": (0.6, 0.1), "n_m": (3, 4)}, None),
    ("L-x0-infeasible", "Langmuir", {"K": 5.0, "n_m": 3.5}, {"K": (0.1, 0.6), "n_m": (3, 4)}, None),
    ("L-opt-maxnfev1", "Langmuir", "auto", None, {"max_nfev": 1}),
    ("L-opt-lm", "Langmuir", "auto", None, {"method": "lm"}),
    ("L-opt-dogbox", "Langmuir", "auto", None, {"method": "dogbox", "xtol": 1e-12}),
    ("L-opt-softl1", "Langmuir", "auto", None, {"loss": "soft_l1", "f_scale": 0.1}),
    ("L-opt-override-x0", "Langmuir", "auto", None, {"x0": numpy.array([1.0, 1.0])}),
    ("L-opt-override-bounds", "Langmuir", "auto", None, {"bounds": ([0, 0], [0.5, 4.2])}),
    ("L-opt-x0-short", "Langmuir", "auto", None, {"x0": numpy.array([1.0])}),
    ("L-opt-x0-short-scalarbounds", "Langmuir", "auto", None,
     {"x0": numpy.array([1.0]), "bounds": (0, numpy.inf)}),
    ("L-opt-x0-long-scalarbounds", "Langmuir", "auto", None,
     {"x0": numpy.array([1.0, 1.0, 2.0]), "bounds": (0, numpy.inf)}),
    ("L-opt-args-override", "Langmuir", "auto", None,
     {"args": (numpy.array([0.1, 0.2, 0.4]), numpy.array([0.5, 0.9, 1.5]))}),
    ("FHVST-opt-args-override", "FHVST", {"n_m": 6.0, "K": 4.0, "a1v": 0.1}, None,
     {"args": (numpy.array([0.1, 0.2, 0.4]), numpy.array([0.5, 0.9, 1.5]))}),
    ("L-opt-bad-key", "Langmuir", "auto", None, {"nonsense": 1}),
    ("L-opt-empty", "Langmuir", "auto", None, {}),
    ("H-auto", "Henry", "auto", None, None),
    ("H-verbose", "Henry", "auto", None, None),
    ("DSL-auto", "DSLangmuir", "auto", None, None),
    ("DSL-bounds", "DSLangmuir", "auto",
     {"n_m1": (0, 3), "K1": (0, 2), "n_m2": (0, 3), "K2": (0, 2)}, None),
    ("Toth-guess", "Toth", {"n_m": 5.0, "K": 1.0, "t": 1.0}, None, None),
    ("JS-auto", "JensenSeaton", "auto", None, None),
    ("Freundlich-auto", "Freundlich", "auto", None, None),
    ("Temkin-auto", "TemkinApprox", "auto", None, None),
    ("DR-auto", "DR", "auto", None, None),
    ("DA-auto", "DA", "auto", None, None),
    ("BET-auto", "BET", "auto", None, None),
    ("GAB-auto", "GAB", "auto", None, None),
    ("Quadratic-auto", "Quadratic", "auto", None, None),
    ("TSL-auto", "TSLangmuir", "auto", None, None),
    ("FHVST-auto", "FHVST", "auto", None, None),
    ("FHVST-guess", "FHVST", {"n_m": 6.0, "K": 4.0, "a1v": 0.1}, None, None),
    ("FHVST-bounds", "FHVST", {"n_m": 6.0, "K": 4.0, "a1v": 0.0},
     {"n_m": (4.5, 8), "K": (1, 8), "a1v": (-0.5, 0.5)}, None),
    ("WVST-auto", "WVST", "auto", None, None),
]
for tag, model, guess, bounds, opt in cases:
    report(f"direct[{tag}]", lambda: direct(model, pr, ld, guess, bounds, opt, verbose=(tag == "H-verbose")))

# 3. odd data passed straight to fit()
odd = {
    "nan-loading": (numpy.array([0.1, 0.2, 0.3, 0.4]), numpy.array([1.0, numpy.nan, 2.0, 2.5])),
    "inf-pressure": (numpy.array([0.1, 0.2, 0.3, numpy.inf]), numpy.array([1.0, 1.5, 2.0, 2.5])),
    "single-point": (numpy.array([0.3]), numpy.array([1.0])),
    "two-points": (numpy.array([0.3, 0.6]), numpy.array([1.0, 1.5])),
    "flat": (numpy.array([0.1, 0.2, 0.3, 0.4]), numpy.array([1.0, 1.0, 1.0, 1.0])),
    "int-data": (numpy.array([1, 2, 3, 4, 5]), numpy.array([2, 3, 4, 4, 5])),
    "decreasing": (numpy.array([0.5, 0.4, 0.3, 0.2]), numpy.array([2.0, 1.8, 1.5, 1.0])),
    "lists": ([0.1, 0.2, 0.3, 0.4], [1.0, 1.5, 2.0, 2.2]),
    "mismatch": (numpy.array([0.1, 0.2, 0.3]), numpy.array([1.0, 1.5, 2.0, 2.2])),
}
for dname, (opr, old) in odd.items():
    for model in ("Henry", "Langmuir", "Freundlich", "FHVST"):
        report(f"odd[{dname}][{model}]", lambda: direct(model, opr, old, "auto"))
        report(
            f"odd-fixedguess[{dname}][{model}]",
            lambda: direct(
                model, opr, old, {
                    "Henry": {"K": 1.0},
                    "Langmuir": {"K": 1.0, "n_m": 3.0},
                    "Freundlich": {"K": 1.0, "m": 1.0},
                    "FHVST": {"n_m": 6.0, "K": 4.0, "a1v": 0.1},
                }[model]
            ),
        )

# 4. the model is reusable: fit twice on different data, parameters and rmse follow the last fit
def refit():
    m = get_isotherm_model("Langmuir", pressure_range=(0.05, 0.9), loading_range=(0.1, 3.0))
    out = []
    for dname in ("lang15", "noisy25", "zero8"):
        a, b = datasets[dname]
        m.fit(a, b, m.initial_guess(a, b))
        out.append(model_state(m))
    return " | ".join(out)


report("refit", refit)

# 5. rmse identity against an independent evaluation
for model in ("Henry", "Langmuir", "Toth", "BET", "FHVST"):
    def ident(model=model):
        a, b = datasets["noisy25"]
        iso = ModelIsotherm(pressure=a, loading=b, model=model, **base_kw)
        if iso.model.calculates == "loading":
            res = iso.model.loading(a) - b
            rng_ = iso.model.loading_range[1] - iso.model.loading_range[0]
        else:
            res = iso.model.pressure(b) - a
            rng_ = iso.model.pressure_range[1] - iso.model.pressure_range[0]
        return fmt(iso.model.rmse) + " " + fmt(numpy.sqrt(numpy.sum(res**2) / len(b)) / rng_)
    report(f"identity[{model}]", ident)
