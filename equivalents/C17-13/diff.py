"""Differential transcript for psd_horvath_kawazoe_ry, cylinder branch."""
import copy
import warnings

import numpy

warnings.simplefilter("ignore")

import pygaps.characterisation.psd_micro as pm
from pygaps.characterisation.models_hk import PROPERTIES_AlSi_OXIDE_ION
from pygaps.characterisation.models_hk import PROPERTIES_CARBON

N2 = {
    'molecular_diameter': 0.3,
    'polarizability': 1.46E-3,
    'magnetic_susceptibility': 2E-8,
    'surface_density': 6.7E18,
    'liquid_density': 0.808,
    'adsorbate_molar_mass': 28.01348,
}
AR = {
    'molecular_diameter': 0.34,
    'polarizability': 1.63E-3,
    'magnetic_susceptibility': 3.25E-8,
    'surface_density': 8.52E18,
    'liquid_density': 1.395,
    'adsorbate_molar_mass': 39.948,
}


def fmt(x):
    if isinstance(x, numpy.ndarray):
        return f"{x.dtype}{list(x.shape)}[" + ",".join(float(v).hex() for v in x.ravel()) + "]"
    if isinstance(x, (float, numpy.floating)):
        return float(x).hex()
    if isinstance(x, (list, tuple)):
        return "(" + ";".join(fmt(v) for v in x) + ")"
    return repr(x)


def run(label, *args, **kwargs):
    args_before = copy.deepcopy((args, kwargs))
    try:
        res = pm.psd_horvath_kawazoe_ry(*args, **kwargs)
        print(label, "OK", fmt(res))
    except BaseException as e:  # noqa
        print(label, "EXC", type(e).__name__, str(e))
    same = repr(args_before) == repr((args, kwargs))
    print(label, "args-unchanged", same)


p_small = [1e-7, 1e-6, 1e-5, 1e-4, 1e-3, 1e-2, 0.05, 0.1, 0.2]
l_small = [0.5, 1.1, 2.0, 3.2, 4.1, 4.9, 5.4, 5.7, 6.0]
p_log = list(numpy.logspace(-8, -0.3, 30))
l_log = list(numpy.linspace(0.2, 9, 30)**0.7)

run("c1", p_small, l_small, 77.355, 'cylinder', N2, PROPERTIES_CARBON)
run("c2", p_small, l_small, 77.355, 'cylinder', N2, PROPERTIES_CARBON, use_cy=True)
run("c3", p_log, l_log, 87.3, 'cylinder', AR, PROPERTIES_AlSi_OXIDE_ION)
run("c4", p_log, l_log, 87.3, 'cylinder', AR, PROPERTIES_AlSi_OXIDE_ION, True)
run("c5", numpy.array(p_small), numpy.array(l_small), 298.0, 'cylinder', AR, PROPERTIES_CARBON)
# desorption-like (reversed) data
run("c6", p_small[::-1], l_small[::-1], 77.355, 'cylinder', N2, PROPERTIES_CARBON)
run("c6cy", p_small[::-1], l_small[::-1], 77.355, 'cylinder', N2, PROPERTIES_CARBON, use_cy=True)
# tiny inputs
run("t1", [1e-4], [1.0], 77.355, 'cylinder', N2, PROPERTIES_CARBON)
run("t2", [1e-4, 1e-3], [1.0, 2.0], 77.355, 'cylinder', N2, PROPERTIES_CARBON)
run("t0", [], [], 77.355, 'cylinder', N2, PROPERTIES_CARBON)
run("t0cy", [], [], 77.355, 'cylinder', N2, PROPERTIES_CARBON, use_cy=True)
# high pressures -> big pores -> many layers, early stop
run("h1", [0.3, 0.5, 0.7, 0.9, 0.95, 0.99], [1, 2, 3, 4, 5, 6], 77.355, 'cylinder', N2,
    PROPERTIES_CARBON)
run("h2", [0.9, 0.999, 1.0, 1.5], [1, 2, 3, 4], 77.355, 'cylinder', N2, PROPERTIES_CARBON)
# odd values
run("o1", [0.0, -0.1, numpy.nan, numpy.inf], [1, 2, 3, 4], 77.355, 'cylinder', N2,
    PROPERTIES_CARBON)
big = dict(N2, molecular_diameter=1.2)
run("o2", p_small, l_small, 77.355, 'cylinder', big, PROPERTIES_CARBON)
zero = dict(N2, molecular_diameter=0.0)
run("o3", p_small, l_small, 77.355, 'cylinder', zero, PROPERTIES_CARBON)
neg = dict(N2, molecular_diameter=-0.3)
run("o4", p_small, l_small, 77.355, 'cylinder', neg, PROPERTIES_CARBON)
zmat = dict(PROPERTIES_CARBON, molecular_diameter=0.0)
run("o5", p_small, l_small, 77.355, 'cylinder', zero, zmat)
run("o6", p_small, l_small, 77.355, 'cylinder', dict(N2, molecular_diameter=numpy.nan),
    PROPERTIES_CARBON)
run("o7", p_small, l_small, 77.355, 'cylinder', dict(N2, molecular_diameter=3),
    dict(PROPERTIES_CARBON, molecular_diameter=1))
run("o8", p_small, l_small, 0.0, 'cylinder', N2, PROPERTIES_CARBON)
# error paths
bad = dict(N2)
del bad['liquid_density']
run("e1", p_small, l_small, 77.355, 'cylinder', bad, PROPERTIES_CARBON)
badm = dict(PROPERTIES_CARBON)
del badm['polarizability']
run("e2", p_small, l_small, 77.355, 'cylinder', N2, badm)
run("e3", p_small, l_small, 77.355, 'hexagon', N2, PROPERTIES_CARBON)
run("e4", p_small, l_small[:-2], 77.355, 'cylinder', N2, PROPERTIES_CARBON)
run("e5", p_small, l_small[:-2], 77.355, 'cylinder', N2, PROPERTIES_CARBON, use_cy=True)
run("e6", ['a', 'b'], [1, 2], 77.355, 'cylinder', N2, PROPERTIES_CARBON)
# other geometries unaffected
run("s1", p_small, l_small, 77.355, 'slit', N2, PROPERTIES_CARBON)
run("s2", p_small, l_small, 77.355, 'sphere', N2, PROPERTIES_CARBON)


# Probe the nested potential directly through the solver hooks.
def probe(label, ads, mat, points, cy=False):
    seen = []
    orig, orig_cy = pm._solve_hk, pm._solve_hk_cy

    def grab(pressure, hk_fun, bound, geo):
        for x in points:
            try:
                seen.append((fmt(x), fmt(hk_fun(x)), type(hk_fun(x)).__name__))
            except BaseException as e:  # noqa
                seen.append((fmt(x), "EXC", type(e).__name__, str(e)))
        return orig(pressure, hk_fun, bound, geo)

    def grab_cy(pressure, loading, hk_fun, bound, geo):
        grab(pressure, hk_fun, bound, geo)
        return orig_cy(pressure, loading, hk_fun, bound, geo)

    pm._solve_hk, pm._solve_hk_cy = grab, grab_cy
    try:
        run(label, p_small[:3], l_small[:3], 77.355, 'cylinder', ads, mat, cy)
    finally:
        pm._solve_hk, pm._solve_hk_cy = orig, orig_cy
    for s in seen:
        print(label, "probe", *s)


pts = [
    0.32, 0.33, 0.4, 0.47, 0.4700000001, 0.62, 0.77, 0.7700000000000001, 0.92, 1.0, 1.07, 1.5, 3.0,
    10.0, 49.9, 79.99, 80.0, 80.01, 100.0, 0.1, 0.0, -1.0, -5.0,
    float('nan'), float('inf'), -float('inf'), 1e308,
    numpy.float64(0.62), numpy.float64(0.47), numpy.float64(2.5), numpy.float64(0.0),
    numpy.float64('nan'), numpy.float64('inf'), numpy.float32(0.9), 1, 2, 7,
]
probe("p1", N2, PROPERTIES_CARBON, pts)
probe("p2", AR, PROPERTIES_AlSi_OXIDE_ION, pts, cy=True)
probe("p3", zero, PROPERTIES_CARBON, pts)
probe("p4", neg, PROPERTIES_CARBON, pts)
probe("p5", dict(N2, molecular_diameter=numpy.nan), PROPERTIES_CARBON, pts)
probe("p6", dict(N2, molecular_diameter=numpy.float64(0.3)), PROPERTIES_CARBON, pts)
probe("p7", dict(N2, molecular_diameter=1), dict(PROPERTIES_CARBON, molecular_diameter=1), pts)
