"""Differential script for change 1: area_BET_raw automatic (Rouquerol) region selection."""
import copy

import numpy

from eqcommon import N77_NAMES, load_n77, run

import pygaps.characterisation.area_bet as ab

CONVERSIONS = [
    {},
    {"pressure_unit": "Pa"},
    {"pressure_unit": "torr"},
    {"pressure_mode": "relative"},
    {"pressure_mode": "relative%"},
    {"loading_unit": "mol"},
    {"loading_basis": "mass", "loading_unit": "g"},
    {"loading_basis": "volume_gas", "loading_unit": "cm3"},
    {"loading_basis": "volume_liquid", "loading_unit": "cm3"},
    {"material_unit": "kg"},
    {"pressure_unit": "kPa", "loading_basis": "mass", "loading_unit": "mg", "material_unit": "mg"},
]


def converted(iso, conv):
    iso = copy.deepcopy(iso)
    if conv:
        iso.convert(**conv)
    return iso


def main():
    isos = {n: load_n77(n) for n in N77_NAMES}

    # 1. public entry point on measured isotherms in every representation
    for name, iso in isos.items():
        for conv in CONVERSIONS:
            for branch in ("ads", "des"):
                run(f"area_BET {name} {conv} {branch}", ab.area_BET, converted(iso, conv), branch=branch)

    # 2. public entry point with limits
    for name, iso in isos.items():
        for lim in [(0.05, 0.3), (None, 0.2), (0.1, None), (None, None), (0, 0), (0.3, 0.05), [0.01, 0.1],
                    (0.9, 1.0), (1e-9, 1e-8)]:
            run(f"area_BET {name} limits={lim}", ab.area_BET, iso, p_limits=lim)

    # 3. scaled loadings
    for name, iso in isos.items():
        for k in (1e-3, 0.5, 7.0, 1e4):
            p = iso.pressure(branch="ads", pressure_mode="relative")
            l = iso.loading(branch="ads", loading_basis="molar", loading_unit="mol") * k
            run(f"raw scaled {name} k={k}", ab.area_BET_raw, p, l, 0.162)

    # 4. synthetic curves
    p = numpy.linspace(0.005, 0.95, 60)
    for c in (0.5, 2.0, 20.0, 150.0, 1e4):
        for nm in (1e-4, 3.0):
            l = ab.simple_bet(p, nm, c)
            run(f"raw synthetic C={c} nm={nm}", ab.area_BET_raw, p, l, 0.162)
            run(f"raw synthetic list C={c} nm={nm}", ab.area_BET_raw, list(p), list(l), 0.162)
            run(f"raw synthetic lim C={c} nm={nm}", ab.area_BET_raw, p, l, 0.162, (0.05, 0.35))

    rng = numpy.random.default_rng(15)
    for i in range(12):
        n = int(rng.integers(3, 40))
        p = numpy.sort(rng.uniform(1e-4, 0.999, n))
        l = numpy.cumsum(rng.uniform(0, 1, n)) * rng.choice([1e-3, 1, 50])
        if i % 3 == 0:
            l = l + rng.normal(0, 0.3, n)  # non-monotonic
        run(f"raw random {i} n={n}", ab.area_BET_raw, p, l, 0.2)

    # 5. edge cases for the Rouquerol scan
    edge = {
        "decrease at first step": ([0.01, 0.02, 0.03, 0.04, 0.05], [5.0, 1.0, 2.0, 3.0, 4.0]),
        "decrease at last step": ([0.001, 0.01, 0.1, 0.2, 0.3, 0.9], [1.0, 2.0, 3.0, 4.0, 5.0, 5.1]),
        "never decreasing": ([0.001, 0.01, 0.02, 0.05, 0.1, 0.2], [1.0, 2.0, 3.0, 4.0, 5.0, 7.0]),
        "all equal (ties)": ([0.0, 0.0, 0.0, 0.0], [1.0, 1.0, 1.0, 1.0]),
        "plateau then fall": ([0.001, 0.01, 0.05, 0.1, 0.2, 0.3, 0.5], [1.0, 2.0, 2.0, 2.0, 2.0, 2.0, 2.0]),
        "nan in loading": ([0.001, 0.01, 0.05, 0.1, 0.2, 0.3, 0.5], [1.0, 2.0, numpy.nan, 3.0, 4.0, 3.0, 2.0]),
        "nan in pressure": ([0.001, 0.01, numpy.nan, 0.1, 0.2, 0.3, 0.5], [1.0, 2.0, 2.5, 3.0, 4.0, 3.0, 2.0]),
        "inf in loading": ([0.001, 0.01, 0.05, 0.1, 0.2, 0.3, 0.5], [1.0, 2.0, numpy.inf, 3.0, 4.0, 3.0, 2.0]),
        "single point": ([0.1], [1.0]),
        "two points": ([0.1, 0.2], [1.0, 2.0]),
        "three points": ([0.01, 0.1, 0.2], [1.0, 2.0, 3.0]),
        "three points falling": ([0.01, 0.1, 0.2], [3.0, 2.0, 1.0]),
        "integers": ([0, 0, 0, 0, 0], [1, 2, 3, 4, 5]),
        "pressure above one": ([0.1, 0.5, 0.9, 1.1, 1.5, 2.0], [1.0, 2.0, 3.0, 4.0, 5.0, 6.0]),
        "zero loading": ([0.01, 0.05, 0.1, 0.2, 0.3], [0.0, 0.0, 0.0, 0.0, 0.0]),
        "negative loading": ([0.01, 0.05, 0.1, 0.2, 0.3], [-1.0, -2.0, -3.0, -2.0, -1.0]),
        "empty": ([], []),
        "length mismatch": ([0.1, 0.2, 0.3], [1.0, 2.0]),
        "unsorted pressure": ([0.3, 0.1, 0.2, 0.05, 0.4, 0.5], [1.0, 2.0, 3.0, 4.0, 5.0, 4.0]),
    }
    for label, (p, l) in edge.items():
        run(f"raw edge {label}", ab.area_BET_raw, p, l, 0.162)
        run(f"raw edge arrays {label}", ab.area_BET_raw, numpy.array(p), numpy.array(l), 0.162)
        run(f"raw edge limits {label}", ab.area_BET_raw, p, l, 0.162, (0.02, 0.4))

    # 6. the limit tuple variants (untouched branch, for completeness)
    p = numpy.linspace(0.005, 0.95, 60)
    l = ab.simple_bet(p, 2.0, 80.0)
    for lim in [(None, None), (0, 0), (0.05, None), (None, 0.3), (0.5, 0.1), (2, 3), (-1, 0.5), (0.05,), 5, "ab"]:
        run(f"raw limits {lim!r}", ab.area_BET_raw, p, l, 0.162, lim)


if __name__ == "__main__":
    main()
