"""Differential script for change 2: pygaps.parsing.json.isotherm_from_json (+ _load_json_dict)."""
import copy
import json
import os
import shutil
from pathlib import Path

import eqlib
from eqlib import run
from pygaps.core.material import Material
from pygaps.parsing.json import isotherm_from_json
from pygaps.parsing.json import isotherm_to_json

eqlib.setup_materials()
here = os.path.dirname(os.path.abspath(__file__))
root = os.path.dirname(here)
tmpdir = os.path.join(here, 'tmp_d2')
shutil.rmtree(tmpdir, ignore_errors=True)
os.makedirs(tmpdir)


def roundtrip(factory, via_file=None):
    """Import what was exported, show it, and export it again."""
    iso = factory()
    if via_file:
        path = os.path.join(tmpdir, via_file)
        isotherm_to_json(iso, path)
        text = open(path, encoding='utf-8').read()
        new = isotherm_from_json(path)
    else:
        text = isotherm_to_json(iso)
        new = isotherm_from_json(text)
    again = isotherm_to_json(new)
    return (
        f"equal={new == iso} same_id={new.iso_id == iso.iso_id} same_doc={again == text} "
        f"same_dict={eqlib.canon(new.to_dict()) == eqlib.canon(iso.to_dict())}\n" + eqlib.canon_iso(new)
    )


# 1. catalogue round trips, through a string and through a file
for n, (label, factory) in enumerate(eqlib.iso_catalogue()):
    run(f"roundtrip str | {label}", lambda f=factory: roundtrip(f))
    run(f"roundtrip file | {label}", lambda f=factory, n=n: roundtrip(f, via_file=f"rt{n}.json"))

# 2. documents shipped with the library
for rel in sorted(Path(root, 'docs', 'examples', 'data', 'parsing', 'json').glob('*.json')):
    run(f"shipped {rel.name}", lambda p=rel: isotherm_from_json(p))
    run(f"shipped str path {rel.name}", lambda p=rel: isotherm_from_json(str(p)))
    run(f"shipped as text {rel.name}", lambda p=rel: isotherm_from_json(p.read_text(encoding='utf-8')))
nist = Path(root, 'docs', 'examples', 'data', 'parsing', 'nist', 'nist_iso.json')
run("NIST file", lambda: isotherm_from_json(nist, fmt='NIST'))
run("NIST text", lambda: isotherm_from_json(nist.read_text(), fmt='NIST'))
run("NIST file read without fmt", lambda: isotherm_from_json(nist))
run("NIST fmt on a pyGAPS document", lambda: isotherm_from_json(isotherm_to_json(eqlib.make_point()), fmt='NIST'))
run("NIST fmt on a model document", lambda: isotherm_from_json(isotherm_to_json(eqlib.make_modeliso()), fmt='NIST'))
run("unknown fmt is ignored", lambda: isotherm_from_json(isotherm_to_json(eqlib.make_point()), fmt='whatever'))


def nist_variant(**changes):
    doc = json.loads(nist.read_text())
    for k, v in changes.items():
        if v is None:
            doc.pop(k, None)
        else:
            doc[k] = v
    return isotherm_from_json(json.dumps(doc), fmt='NIST')


run("NIST wt%", lambda: nist_variant(adsorptionUnits='wt%'))
run("NIST bad loading string", lambda: nist_variant(adsorptionUnits='mmol'))
run("NIST bad pressure unit", lambda: nist_variant(pressureUnits='psi'))
run("NIST two adsorbates", lambda: nist_variant(adsorbates=[{'name': 'a'}, {'name': 'b'}]))
run("NIST no data", lambda: nist_variant(isotherm_data=[]))

# 3. handcrafted documents
BASE_DOC = json.loads(isotherm_to_json(eqlib.make_base(meta='plain')))
ROWS = [{'pressure': 0.1, 'loading': 1.0}, {'pressure': 0.5, 'loading': 2.0}, {'pressure': 0.3, 'loading': 1.8, 'branch': 'des'}]
MODEL = {'name': 'Langmuir', 'parameters': {'K': 3.0, 'n_m': 5.0}, 'rmse': 0.1, 'pressure_range': [0.1, 2], 'loading_range': [0, 4]}


def doc(**changes):
    d = copy.deepcopy(BASE_DOC)
    for k, v in changes.items():
        if v is ...:
            d.pop(k, None)
        else:
            d[k] = copy.deepcopy(v)
    return json.dumps(d)


def rows_without_marks():
    return [{k: v for k, v in r.items() if k != 'branch'} for r in ROWS]


HAND = {
    'base': doc(),
    'no version': doc(file_version=...),
    'old version': doc(file_version='2.0'),
    'newer version': doc(file_version='4.1'),
    'numeric version': doc(file_version=3.0),
    'numeric old version': doc(file_version=1),
    'empty version': doc(file_version=''),
    'zero version': doc(file_version=0),
    'text version': doc(file_version='abc'),
    'list version': doc(file_version=[3]),
    'points marks': doc(isotherm_data=ROWS),
    'points no marks (guess)': doc(isotherm_data=rows_without_marks()),
    'points no marks + ads': doc(isotherm_data=rows_without_marks(), branch='ads'),
    'points no marks + des': doc(isotherm_data=rows_without_marks(), branch='des'),
    'points no marks + list': doc(isotherm_data=rows_without_marks(), branch=[0, 1, 1]),
    'points no marks + bad branch': doc(isotherm_data=rows_without_marks(), branch='both'),
    'points marks + ads (ignored)': doc(isotherm_data=ROWS, branch='ads'),
    'points all des': doc(isotherm_data=[dict(r, branch='des') for r in ROWS]),
    'points numeric marks': doc(isotherm_data=[dict(r, branch=i % 2) for i, r in enumerate(ROWS)]),
    'points bool marks': doc(isotherm_data=[dict(r, branch=bool(i % 2)) for i, r in enumerate(ROWS)]),
    'points ads text marks': doc(isotherm_data=[dict(r, branch='ads') for r in ROWS]),
    'points null marks': doc(isotherm_data=[dict(r, branch=None) for r in ROWS]),
    'points extra columns': doc(isotherm_data=[dict(r, enthalpy=i * 1.5, note=f"n{i}", flag=bool(i % 2)) for i, r in enumerate(ROWS)]),
    'points ragged columns': doc(isotherm_data=[ROWS[0], dict(ROWS[1], extra=1.0), ROWS[2]]),
    'points missing loading': doc(isotherm_data=[{'pressure': 1.0}, {'pressure': 2.0}]),
    'points column dict': doc(isotherm_data={'pressure': [0.1, 0.2], 'loading': [1.0, 2.0]}),
    'points empty list': doc(isotherm_data=[]),
    'points null': doc(isotherm_data=None),
    'points empty list + model': doc(isotherm_data=[], isotherm_model=MODEL),
    'points + model': doc(isotherm_data=ROWS, isotherm_model=MODEL),
    'one point': doc(isotherm_data=ROWS[:1]),
    'one des point': doc(isotherm_data=ROWS[2:]),
    'points text numbers': doc(isotherm_data=[{'pressure': '0.1', 'loading': '1'}]),
    'model': doc(isotherm_model=MODEL),
    'model + branch des': doc(isotherm_model=MODEL, branch='des'),
    'model unknown name': doc(isotherm_model=dict(MODEL, name='NoSuchModel')),
    'model lower-case name': doc(isotherm_model=dict(MODEL, name='langmuir')),
    'model missing name': doc(isotherm_model={k: v for k, v in MODEL.items() if k != 'name'}),
    'model missing parameter': doc(isotherm_model=dict(MODEL, parameters={'K': 1.0})),
    'model extra entry': doc(isotherm_model=dict(MODEL, colour='red')),
    'model empty dict': doc(isotherm_model={}),
    'model is a list': doc(isotherm_model=['Langmuir']),
    'model + meta named model': doc(isotherm_model=MODEL, model='user'),
    'missing adsorbate': doc(adsorbate=...),
    'missing units': doc(pressure_unit=..., loading_unit=...),
    'bad basis': doc(loading_basis='nope'),
    'shorthands': doc(material=..., adsorbate=..., temperature=..., m='TEST', a='N2', t=100),
    'material dict': doc(material={'name': 'M', 'density': 2, 'x': [1, 2]}),
    'material dict listed': doc(material={'name': 'LISTED', 'density': 3}),
    'material dict no name': doc(material={'density': 3}),
    'relative': doc(pressure_mode='relative', pressure_unit=None, isotherm_data=ROWS),
    'percent': doc(loading_basis='percent', loading_unit=None, material_unit=None, isotherm_data=ROWS),
    'meta typed': doc(**eqlib.META_CONFIGS['typed']),
    'meta lookalike': doc(**eqlib.META_CONFIGS['lookalike']),
    'meta unicode': doc(**eqlib.META_CONFIGS['unicode']),
    'meta reserved data_raw': doc(data_raw='x', isotherm_data=ROWS),
    'meta reserved pressure_key': doc(pressure_key='x', isotherm_data=ROWS),
    'document is a list': json.dumps([1, 2]),
    'document is a number': '5',
    'document is null': 'null',
    'document is a string': '"text"',
    'document empty object': '{}',
    'not json': '{not json',
    'empty string': '',
    'spaces': '   ',
    'trailing comma': '{"a": 1,}',
    'NaN literals': doc(x=float('nan'), y=float('inf')),
    'very long text': '{"a": "' + 'x' * 5000 + '"}',
    'bytes-like prefix': '﻿' + doc(),
}
for label, text in HAND.items():
    run(f"hand str | {label}", lambda t=text: isotherm_from_json(t))
for n, (label, text) in enumerate(HAND.items()):
    if n % 3 == 0:
        def from_file(t=text, n=n):
            path = os.path.join(tmpdir, f"hand{n}.json")
            with open(path, 'w', encoding='utf-8') as f:
                f.write(t)
            return isotherm_from_json(path)

        run(f"hand file | {label}", from_file)

# 4. str_or_path variants
run("path missing file", lambda: isotherm_from_json(os.path.join(tmpdir, 'missing.json')))
run("path is a directory", lambda: isotherm_from_json(tmpdir))
run("path pathlib missing", lambda: isotherm_from_json(Path(tmpdir) / 'missing.json'))
run("path None", lambda: isotherm_from_json(None))
run("path bytes json", lambda: isotherm_from_json(doc().encode()))
run("path dict", lambda: isotherm_from_json({'a': 1}))
run("path null byte", lambda: isotherm_from_json('{"a": "\x00"}'))


def latin1_file():
    path = os.path.join(tmpdir, 'latin1.json')
    with open(path, 'wb') as f:
        f.write(doc(comment='é').replace('\\u00e9', 'é').encode('latin-1'))
    return isotherm_from_json(path)


def empty_file():
    path = os.path.join(tmpdir, 'empty.json')
    open(path, 'w').close()
    return isotherm_from_json(path)


def broken_file():
    path = os.path.join(tmpdir, 'broken.json')
    with open(path, 'w') as f:
        f.write('{"a": ')
    return isotherm_from_json(path)


run("file latin-1", latin1_file)
run("file empty", empty_file)
run("file broken", broken_file)

# 5. keys and overriding parameters
pt_doc = doc(isotherm_data=ROWS)
alt_doc = doc(isotherm_data=[{'p': r['pressure'], 'n': r['loading']} for r in ROWS])
run("keys custom", lambda: isotherm_from_json(alt_doc, loading_key='n', pressure_key='p'))
run("keys wrong", lambda: isotherm_from_json(pt_doc, loading_key='n', pressure_key='p'))
run("keys None", lambda: isotherm_from_json(pt_doc, loading_key=None))
run("keys swapped", lambda: isotherm_from_json(pt_doc, loading_key='pressure', pressure_key='loading'))
run("keys given for base doc", lambda: isotherm_from_json(doc(), loading_key='n', pressure_key='p'))
run("override material str", lambda: isotherm_from_json(pt_doc, material='other'))
run("override material dict", lambda: isotherm_from_json(doc(), material={'name': 'D', 'density': 1}))
run("override material Material", lambda: isotherm_from_json(doc(), material=Material('obj', density=4)))
run("override material None", lambda: isotherm_from_json(doc(), material=None))
run("override adsorbate+temperature", lambda: isotherm_from_json(pt_doc, adsorbate='CO2', temperature=300))
run("override units", lambda: isotherm_from_json(pt_doc, pressure_unit='kPa', loading_unit='mol'))
run("override metadata", lambda: isotherm_from_json(pt_doc, comment='new', extra=[1, 2]))
run("override branch", lambda: isotherm_from_json(doc(isotherm_data=rows_without_marks()), branch='des'))
run("override isotherm_data", lambda: isotherm_from_json(doc(), isotherm_data=ROWS))
run("override isotherm_data empty", lambda: isotherm_from_json(pt_doc, isotherm_data=[]))
run("override isotherm_model", lambda: isotherm_from_json(doc(), isotherm_model=dict(MODEL)))
run("override file_version (kept as meta)", lambda: isotherm_from_json(doc(), file_version='9'))
run("method-level from pygaps", lambda: __import__('pygaps').isotherm_from_json(pt_doc))


# 6. arguments handed over are treated the same way
def caller_objects():
    params = {'material': {'name': 'D', 'density': 1}, 'comment': 'c'}
    model = dict(MODEL)
    iso = isotherm_from_json(doc(), isotherm_model=model, **params)
    return f"params={eqlib.canon(params)} model_arg={eqlib.canon(model)}\n{eqlib.canon_iso(iso)}"


run("caller objects after the call", caller_objects)

shutil.rmtree(tmpdir, ignore_errors=True)
