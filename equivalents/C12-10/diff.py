"""Differential transcript for C12-2: Virial.fit."""
import logging
import sys
import warnings

import numpy
import pandas

import pygaps
from pygaps import logger
from pygaps.core.material import Material
from pygaps.core.modelisotherm import ModelIsotherm
from pygaps.core.pointisotherm import PointIsotherm

warnings.simplefilter("ignore")
numpy.seterr(all="ignore")


class Capture(logging.Handler):
    """Print every log record of the library into the transcript."""
    def emit(self, record):
        print(f"    LOG {record.levelname}: {record.getMessage()!r}")


for h in list(logger.handlers):
    logger.removeHandler(h)
logger.addHandler(Capture(level=logging.DEBUG))


def hx(v):
    try:
        return float(v).hex()
    except (TypeError, ValueError):
        return repr(v)


def hexes(seq):
    return [hx(v) for v in numpy.ravel(numpy.asarray(seq, dtype=object))]


def snap(iso):
    print("    labels:", repr({k: iso.__dict__.get(k) for k in iso._unit_params}))
    print("    _temperature:", float(iso._temperature).hex())
    if hasattr(iso, "data_raw"):
        print("    columns:", list(iso.data_raw.columns), "index:", list(iso.data_raw.index))
        for col in iso.data_raw.columns:
            print(f"    {col} [{iso.data_raw[col].dtype}]:", hexes(iso.data_raw[col]))
        print("    interpolators:", iso.l_interpolator is None, iso.p_interpolator is None)
    print("    properties:", repr(iso.properties))
    print("    material:", repr(iso.material), repr(iso.material.properties))
    print("    keys:", list(vars(iso)))


def attempt(label, fn):
    print(f"  > {label}")
    try:
        res = fn()
        print("    returned:", repr(res))
        return res
    except BaseException as err:  # noqa
        print(f"    raised {type(err).__name__}: {str(err)!r}")
        cause = err.__cause__
        while cause is not None:
            print(f"    cause {type(cause).__name__}: {str(cause)!r}")
            cause = cause.__cause__
        return None


UNITS = dict(
    pressure_mode="absolute",
    pressure_unit="bar",
    loading_basis="molar",
    loading_unit="mmol",
    material_basis="mass",
    material_unit="g",
    temperature_unit="K",
)


def make_point(adsorbate="N2", temperature=77.355, material="TestMat", **kw):
    params = dict(UNITS, material=material, adsorbate=adsorbate, temperature=temperature,
                  comment="a comment", number=7)
    params.update(kw)
    data = pandas.DataFrame({
        "p": [0.01, 0.05, 0.1, 0.3, 0.6, 0.9, 0.5, 0.2],
        "l": [0.5, 1.1, 1.9, 3.2, 4.4, 5.0, 4.6, 3.5],
        "extra": [9.0, 8.0, 7.0, 6.0, 5.0, 4.0, 3.0, 2.0],
        "zeta": list("abcdefgh"),
    })
    return PointIsotherm(isotherm_data=data, pressure_key="p", loading_key="l", **params)


# ---------------------------------------------------------------- C12-2 body
import matplotlib
matplotlib.use("Agg")
import matplotlib.pyplot as plt

from pygaps.modelling import get_isotherm_model
from pygaps.modelling import model_iso
from pygaps.modelling.virial import Virial


def show_model(model):
    print("    params:", [(k, hx(v), type(v).__name__) for k, v in model.params.items()])
    print("    rmse:", hx(model.rmse), type(model.rmse).__name__)
    print("    ranges:", hexes(model.pressure_range), hexes(model.loading_range))
    print("    bounds:", repr(model.param_bounds))


def virial_p(n, K=8.0, A=0.15, B=-0.02, C=0.003):
    return n * numpy.exp(-numpy.log(K) + A * n + B * n**2 + C * n**3)


L_FINE = numpy.array([0.05, 0.1, 0.2, 0.4, 0.7, 1.0, 1.5, 2.0, 2.6, 3.3, 4.0, 4.6, 5.0])
P_FINE = virial_p(L_FINE)
L_TOP = numpy.array([2.4, 2.9, 3.3, 3.9, 4.4, 4.8, 5.0])       # fewer than 3 points below half loading
P_TOP = virial_p(L_TOP)
L_ZERO = numpy.concatenate([[0.0, 0.0], L_FINE, [0.0]])
P_ZERO = numpy.concatenate([[0.0, 0.1], P_FINE, [-1.0]])
L_NOISY = L_FINE * (1 + 0.04 * numpy.sin(numpy.arange(len(L_FINE)) * 1.3))

GUESS0 = dict(K=1.0, A=0.0, B=0.0, C=0.0)

CASES = [
    ("fine", P_FINE, L_FINE, GUESS0, None, False),
    ("fine, empty options", P_FINE, L_FINE, GUESS0, {}, False),
    ("fine, add_point unused", P_FINE, L_FINE, GUESS0, dict(add_point=True), False),
    ("fine, add_point False + xtol", P_FINE, L_FINE, GUESS0, dict(add_point=False, xtol=1e-12), False),
    ("fine, verbose", P_FINE, L_FINE, GUESS0, None, True),
    ("noisy", P_FINE, L_NOISY, GUESS0, None, False),
    ("noisy, soft_l1", P_FINE, L_NOISY, GUESS0, dict(loss="soft_l1", f_scale=0.1), False),
    ("noisy, different guess", P_FINE, L_NOISY, dict(K=20.0, A=1.0, B=-1.0, C=0.5), None, False),
    ("zeros are removed", P_ZERO, L_ZERO, GUESS0, None, False),
    ("zeros are removed, verbose", P_ZERO, L_ZERO, GUESS0, dict(add_point=True), True),
    ("top only: refused", P_TOP, L_TOP, GUESS0, None, False),
    ("top only: refused, empty options", P_TOP, L_TOP, GUESS0, {}, True),
    ("top only: refused, add_point falsy", P_TOP, L_TOP, GUESS0, dict(add_point=0, max_nfev=50), False),
    ("top only: add_point", P_TOP, L_TOP, GUESS0, dict(add_point=True), False),
    ("top only: add_point verbose", P_TOP, L_TOP, GUESS0, dict(add_point=1, max_nfev=500), True),
    ("max_nfev=1", P_FINE, L_NOISY, GUESS0, dict(max_nfev=1), False),
    ("bad option", P_FINE, L_FINE, GUESS0, dict(nonsense=3), False),
    ("x0 too short", P_FINE, L_FINE, GUESS0, dict(x0=[1.0, 0.0]), False),
    ("x0 too short, free bounds", P_FINE, L_FINE, GUESS0, dict(x0=[1.0, 0.0], bounds=(-numpy.inf, numpy.inf)), False),
    ("x0 too long, free bounds", P_FINE, L_FINE, GUESS0,
     dict(x0=[1.0, 0.0, 0.0, 0.0, 9.0], bounds=(-numpy.inf, numpy.inf)), False),
    ("guess missing key", P_FINE, L_FINE, dict(K=1.0, A=0.0), None, False),
    ("guess extra key", P_FINE, L_FINE, dict(GUESS0, Z=1.0), None, False),
    ("guess negative K", P_FINE, L_FINE, dict(GUESS0, K=-1.0), None, False),
    ("guess is a list", P_FINE, L_FINE, [1.0, 0.0, 0.0, 0.0], None, False),
    ("python lists", list(P_FINE), list(L_FINE), GUESS0, None, False),
    ("pandas series", pandas.Series(P_ZERO), pandas.Series(L_ZERO), GUESS0, None, False),
    ("all invalid", numpy.zeros(5), numpy.zeros(5), GUESS0, None, False),
    ("two points", P_FINE[:2], L_FINE[:2], GUESS0, dict(add_point=True), False),
    ("nan inside", numpy.where(L_FINE > 4.5, numpy.nan, P_FINE), L_FINE, GUESS0, None, False),
    ("scalars", 0.5, 1.0, GUESS0, None, False),
    ("2-d arrays", P_FINE[:12].reshape(3, 4), L_FINE[:12].reshape(3, 4), GUESS0, None, False),
]

for label, pp, ll, guess, opt, verbose in CASES:
    for bounds in (None, dict(K=(0.0, 100.0), A=(-1.0, 1.0), B=(-1.0, 1.0), C=(-0.5, 0.5)), dict(K=(0, 5), A=(-numpy.inf, numpy.inf), B=(-numpy.inf, numpy.inf), C=(-numpy.inf, numpy.inf)),
                   dict(K=(0, 10))):
        if bounds == dict(K=(0, 10)) and label not in ('fine', 'top only: refused'):
            continue
        print(f"== {label} | opt={opt!r} verbose={verbose} bounds={bounds!r}")
        model = get_isotherm_model("Virial", pressure_range=(0.001, 2.0), loading_range=(0.05, 5.0),
                                   param_bounds=bounds)
        opt_arg = None if opt is None else dict(opt)
        attempt("fit", lambda: model.fit(pp, ll, guess if not isinstance(guess, dict) else dict(guess), opt_arg,
                                         verbose))
        print("    options after:", repr(opt_arg), "figures:", len(plt.get_fignums()))
        plt.close("all")
        show_model(model)
        if isinstance(pp, numpy.ndarray) and pp.ndim == 1 and not numpy.isnan(model.rmse):
            print("    p(model) at data:", hexes(model.pressure(numpy.asarray(ll, dtype=float))))

# through the isotherm classes
print("== through ModelIsotherm / model_iso")
common = dict(UNITS, material="TestMat", adsorbate="N2", temperature=77.355)
for label, pp, ll, opt in [("fine", P_FINE, L_FINE, None), ("noisy", P_FINE, L_NOISY, dict(add_point=True)),
                           ("top", P_TOP, L_TOP, None), ("top add", P_TOP, L_TOP, dict(add_point=True)),
                           ("zeros", P_ZERO, L_ZERO, None)]:
    print("--", label)
    opt_arg = None if opt is None else dict(opt)
    iso = attempt("ModelIsotherm", lambda: ModelIsotherm(pressure=pp, loading=ll, model="Virial",
                                                         optimization_params=opt_arg, **common))
    print("    options after:", repr(opt_arg))
    if iso is not None:
        show_model(iso.model)
    pts = PointIsotherm(pressure=pp, loading=ll, branch="ads", **common)
    opt_arg = None if opt is None else dict(opt)
    iso = attempt("model_iso", lambda: model_iso(pts, model="virial", optimization_params=opt_arg))
    if iso is not None:
        show_model(iso.model)
    iso = attempt("model_iso with guess and bounds", lambda: model_iso(
        pts, model="Virial", param_guess=dict(K=5.0, A=0.1, B=0.0, C=0.0),
        param_bounds=dict(K=(0.0, 50.0), A=(-2.0, 2.0), B=(-2.0, 2.0), C=(-2.0, 2.0)),
        optimization_params=None if opt is None else dict(opt)))
    if iso is not None:
        show_model(iso.model)
