"""Differential transcript for split_ads_data and csv/json branch handling."""
import json
import logging
import os
import tempfile
import warnings

import numpy
import pandas

warnings.simplefilter("ignore")
logging.disable(logging.CRITICAL)

import pygaps
from pygaps.core.baseisotherm import BaseIsotherm
from pygaps.parsing.csv import isotherm_from_csv
from pygaps.parsing.csv import isotherm_to_csv
from pygaps.parsing.json import isotherm_from_json
from pygaps.parsing.json import isotherm_to_json
from pygaps.utilities.math_utilities import split_ads_data


def fx(v):
    if isinstance(v, (float, numpy.floating)):
        return float(v).hex()
    return repr(v)


def show_df(df):
    print("   cols", list(df.columns), "dtypes", [str(d) for d in df.dtypes], "index", list(df.index))
    for row in df.itertuples(index=False):
        print("   ", [fx(x) for x in row])


def attempt(label, fn):
    print("==", label)
    try:
        res = fn()
    except Exception as err:  # noqa
        print("   EXC", type(err).__name__, str(err)[:300])
        return None
    return res


# ---------------------------------------------------------------- split_ads_data
def do_split(label, data, key="p"):
    before = data.copy(deep=True) if isinstance(data, pandas.DataFrame) else None

    def run():
        res = split_ads_data(data, key)
        print("   ", type(res).__name__, str(res.dtype), res.tolist())
        return res

    attempt("split " + label, run)
    if before is not None:
        print("   unchanged", before.equals(data), list(data.columns))


do_split("ads only", pandas.DataFrame({"p": [1.0, 2.0, 3.0], "l": [1, 2, 3]}))
do_split("ads+des", pandas.DataFrame({"p": [1.0, 2.0, 3.0, 2.5, 1.5], "l": [1, 2, 3, 4, 5]}))
do_split("des only", pandas.DataFrame({"p": [3.0, 2.0, 1.0], "l": [1, 2, 3]}))
do_split("single", pandas.DataFrame({"p": [3.0], "l": [1]}))
do_split("two up", pandas.DataFrame({"p": [1.0, 3.0], "l": [1, 2]}))
do_split("two down", pandas.DataFrame({"p": [3.0, 1.0], "l": [1, 2]}))
do_split("max second", pandas.DataFrame({"p": [1.0, 3.0, 2.0], "l": [1, 2, 3]}))
do_split("tied max", pandas.DataFrame({"p": [1.0, 3.0, 3.0, 2.0], "l": [1, 2, 3, 4]}))
do_split("tied max at end", pandas.DataFrame({"p": [1.0, 3.0, 2.0, 3.0], "l": [1, 2, 3, 4]}))
do_split("all equal", pandas.DataFrame({"p": [2.0, 2.0, 2.0], "l": [1, 2, 3]}))
do_split("nan inside", pandas.DataFrame({"p": [1.0, numpy.nan, 3.0, 2.0], "l": [1, 2, 3, 4]}))
do_split("nan last", pandas.DataFrame({"p": [1.0, 2.0, 3.0, numpy.nan], "l": [1, 2, 3, 4]}))
do_split("all nan", pandas.DataFrame({"p": [numpy.nan, numpy.nan], "l": [1, 2]}))
do_split("empty", pandas.DataFrame({"p": [], "l": []}))
do_split("string index", pandas.DataFrame({"p": [1.0, 5.0, 2.0]}, index=["a", "b", "c"]))
do_split("offset index", pandas.DataFrame({"p": [1.0, 5.0, 2.0]}, index=[10, 11, 12]))
do_split("offset index max first", pandas.DataFrame({"p": [9.0, 5.0, 2.0]}, index=[10, 11, 12]))
do_split("dup index", pandas.DataFrame({"p": [1.0, 5.0, 2.0]}, index=[0, 0, 1]))
do_split("dup index nonmono", pandas.DataFrame({"p": [1.0, 5.0, 2.0, 0.5]}, index=[0, 1, 0, 2]))
do_split("dup index mask", pandas.DataFrame({"p": [5.0, 1.0, 2.0]}, index=[0, 1, 0]))
do_split("dup index mask one", pandas.DataFrame({"p": [5.0]}, index=[0]).iloc[[0, 0]].iloc[:1])
do_split("dup index single", pandas.DataFrame({"p": [5.0, 1.0]}, index=[7, 7]))
do_split("missing key", pandas.DataFrame({"p": [1.0, 5.0, 2.0]}), key="q")
do_split("other key", pandas.DataFrame({"p": [1.0, 5.0, 2.0], "q": [3.0, 2.0, 1.0]}), key="q")
do_split("int pressures", pandas.DataFrame({"p": [1, 5, 2]}))
do_split("object pressures", pandas.DataFrame({"p": ["a", "c", "b"]}))
do_split("not a frame", [1.0, 2.0])


# ---------------------------------------------------------------- isotherms
BASE = dict(material="mat", adsorbate="nitrogen", temperature=77.0)


def point(pressure, loading, branch="guess", other=None, **kw):
    frame = {"pressure": pressure, "loading": loading}
    if other:
        frame.update(other)
    params = dict(BASE)
    params.update(kw)
    if isinstance(branch, str):
        return pygaps.PointIsotherm(
            isotherm_data=pandas.DataFrame(frame),
            pressure_key="pressure", loading_key="loading", branch=branch, **params
        )
    frame["branch"] = branch
    return pygaps.PointIsotherm(
        isotherm_data=pandas.DataFrame(frame),
        pressure_key="pressure", loading_key="loading", **params
    )


def describe(iso):
    try:
        _describe(iso)
    except Exception as err:  # noqa
        print("   DESCRIBE EXC", type(err).__name__, str(err)[:300])


def _describe(iso):
    print("   type", type(iso).__name__)
    d = iso.to_dict()
    for k in sorted(d):
        print("   ", k, "=", fx(d[k]))
    if isinstance(iso, pygaps.PointIsotherm):
        show_df(iso.data_raw)
    elif isinstance(iso, pygaps.ModelIsotherm):
        md = iso.model.to_dict()
        for k in sorted(md):
            print("    model", k, "=", repr(md[k]))


isos = {}


def build(label, fn):
    res = attempt("build " + label, fn)
    if res is not None:
        isos[label] = res
        describe(res)


build("ads_only", lambda: point([0.1, 0.2, 0.3, 0.4], [1.0, 2.0, 3.0, 3.5]))
build("hysteresis", lambda: point([0.1, 0.5, 0.9, 0.6, 0.2], [1.0, 2.0, 3.0, 2.8, 1.9]))
build("des_only_guess", lambda: point([0.9, 0.5, 0.1], [3.0, 2.0, 1.0]))
build("des_keyword", lambda: point([0.1, 0.5, 0.9], [3.0, 2.0, 1.0], branch="des"))
build("ads_keyword", lambda: point([0.9, 0.5, 0.1], [3.0, 2.0, 1.0], branch="ads"))
build("explicit_list", lambda: point([0.1, 0.5, 0.3, 0.7], [1.0, 2.0, 3.0, 4.0], branch=[0, 1, 0, 1]))
build("bool_list", lambda: point([0.1, 0.5, 0.3], [1.0, 2.0, 3.0], branch=[False, True, True]))
build("single_point", lambda: point([0.5], [1.0]))
build("two_points", lambda: point([0.5, 0.2], [1.0, 0.5]))
build(
    "other_data",
    lambda: point([0.1, 0.5, 0.9, 0.4], [1.0, 2.0, 3.0, 2.5],
                  other={"enthalpy": [5.0, 4.0, 3.0, 3.5], "note": [1, 0, 1, 0]},
                  other_keys=["enthalpy", "note"]),
)
build(
    "other_data_nokeys",
    lambda: point([0.1, 0.5, 0.9, 0.4], [1.0, 2.0, 3.0, 2.5],
                  other={"enthalpy": [5.0, 4.0, 3.0, 3.5], "note": [1, 0, 1, 0]}),
)
build(
    "rich_meta",
    lambda: point([1.0, 2.0, 3.0, 1.5], [0.123456789123, 0.2, 1.0 / 3.0, 0.25],
                  pressure_mode="absolute", pressure_unit="kPa", loading_unit="cm3(STP)",
                  material_basis="mass", material_unit="kg", user="me", comment="a b", number=3,
                  flag=True, alist=[1, 2, 3]),
)
build(
    "material_dict",
    lambda: point([0.1, 0.2, 0.15], [1.0, 2.0, 1.5],
                  material={"name": "dictmat", "density": 2.5, "batch": "X1"}),
)
build("bad_branch_keyword", lambda: point([0.1, 0.2], [1.0, 2.0], branch="both"))
build("bad_branch_list", lambda: point([0.1, 0.2, 0.3], [1.0, 2.0, 3.0], branch=[0, 1]))
build("base", lambda: BaseIsotherm(**BASE))


def model_iso():
    return pygaps.ModelIsotherm(
        pressure=[0.1, 0.2, 0.3, 0.5, 0.8, 1.0], loading=[0.9, 1.6, 2.1, 2.8, 3.4, 3.6],
        model="Langmuir", **BASE
    )


build("model", model_iso)

tmpdir = tempfile.mkdtemp(prefix="eq6_branchio_")

for label in list(isos):
    iso = isos[label]
    raw_before = iso.data_raw.copy(deep=True) if isinstance(iso, pygaps.PointIsotherm) else None

    # ------------------------------------------------------------ json
    def to_json():
        txt = isotherm_to_json(iso)
        print("   ", txt)
        return txt

    txt = attempt(f"to_json {label}", to_json)
    if txt is not None:
        res = attempt(f"from_json {label}", lambda: isotherm_from_json(txt))
        if res is not None:
            describe(res)
            print("   equal", res == iso)
            attempt(f"to_json again {label}", lambda: print("   same", isotherm_to_json(res) == txt))
        path = os.path.join(tmpdir, label + ".json")
        print("   path return", attempt(f"to_json path {label}", lambda: isotherm_to_json(iso, path, indent=2)))
        with open(path, encoding="utf-8") as fh:
            print("   file", json.dumps(fh.read()))
        res = attempt(f"from_json path {label}", lambda: isotherm_from_json(path))
        if res is not None:
            describe(res)
        for kw in (dict(branch="ads"), dict(branch="des"), dict(branch="guess"),
                   dict(material={"name": "override", "density": 1.0}),
                   dict(loading_key="loading", pressure_key="loading")):
            res = attempt(f"from_json {label} kw={kw}", lambda: isotherm_from_json(txt, **kw))
            if res is not None:
                describe(res)

    # ------------------------------------------------------------ csv
    for sep in (",", ";", "\t"):
        def to_csv():
            out = isotherm_to_csv(iso, separator=sep)
            print("   ", json.dumps(out))
            return out

        ctxt = attempt(f"to_csv {label} sep={sep!r}", to_csv)
        if ctxt is None:
            continue
        res = attempt(f"from_csv {label} sep={sep!r}", lambda: isotherm_from_csv(ctxt, separator=sep))
        if res is not None:
            describe(res)
            attempt("csv again", lambda: print("   same", isotherm_to_csv(res, separator=sep) == ctxt))
        if sep == ",":
            path = os.path.join(tmpdir, label + ".csv")
            print("   path return", attempt(f"to_csv path {label}", lambda: isotherm_to_csv(iso, path)))
            with open(path, encoding="utf-8") as fh:
                print("   file", json.dumps(fh.read()))
            res = attempt(f"from_csv path {label}", lambda: isotherm_from_csv(path))
            if res is not None:
                describe(res)
            for kw in (dict(branch="ads"), dict(branch="des"), dict(user="other")):
                res = attempt(f"from_csv {label} kw={kw}", lambda: isotherm_from_csv(ctxt, **kw))
                if res is not None:
                    describe(res)
            # wrong separator on read
            res = attempt(f"from_csv {label} wrong sep", lambda: isotherm_from_csv(ctxt, separator=";"))
            if res is not None:
                describe(res)

    if raw_before is not None:
        print("   source data_raw unchanged", raw_before.equals(iso.data_raw),
              [str(d) for d in iso.data_raw.dtypes])

# ---------------------------------------------------------------- hand written json
HEAD = {"material": "m", "adsorbate": "nitrogen", "temperature": 77.0, "file_version": "3.0"}


def hand_json(label, data, extra=None, **kw):
    d = dict(HEAD)
    if extra:
        d.update(extra)
    if data is not None:
        d["isotherm_data"] = data
    txt = json.dumps(d)
    res = attempt("hand json " + label, lambda: isotherm_from_json(txt, **kw))
    if res is not None:
        describe(res)
        attempt("  rewrite", lambda: print("   ", isotherm_to_json(res)))
        attempt("  rewrite csv", lambda: print("   ", json.dumps(isotherm_to_csv(res))))


P = [{"pressure": 0.1, "loading": 1.0}, {"pressure": 0.5, "loading": 2.0}, {"pressure": 0.3, "loading": 1.5}]
hand_json("no branch", P)
hand_json("no branch, header ads", P, extra={"branch": "ads"})
hand_json("no branch, header des", P, extra={"branch": "des"})
hand_json("no branch, keyword des", P, branch="des")
hand_json("some des", [dict(P[0]), dict(P[1]), dict(P[2], branch="des")])
hand_json("some des, header ads", [dict(P[0]), dict(P[1]), dict(P[2], branch="des")], extra={"branch": "ads"})
hand_json("all des", [dict(x, branch="des") for x in P])
hand_json("explicit ads strings", [dict(P[0], branch="ads"), dict(P[1], branch="des"), dict(P[2])])
hand_json("numeric branch", [dict(P[0], branch=0), dict(P[1], branch=1), dict(P[2], branch=1)])
hand_json("null branch", [dict(P[0], branch=None), dict(P[1], branch="des"), dict(P[2], branch=None)])
hand_json("bool branch", [dict(P[0], branch=False), dict(P[1], branch=True), dict(P[2], branch=True)])
hand_json("odd branch", [dict(P[0], branch="x"), dict(P[1], branch="des"), dict(P[2], branch=2)])
hand_json("single point", [dict(P[0])])
hand_json("single des", [dict(P[0], branch="des")])
hand_json("empty data", [])
hand_json("no data", None)
hand_json("old version", P, extra={"file_version": "2.0"})
hand_json("custom keys", [{"p": 0.1, "n": 1.0}, {"p": 0.5, "n": 2.0, "branch": "des"}],
          loading_key="n", pressure_key="p")
hand_json("missing key", P, loading_key="n")
attempt("json garbage", lambda: isotherm_from_json("{not json"))
attempt("json missing path", lambda: isotherm_from_json(os.path.join(tmpdir, "nope.json")))
attempt("json list", lambda: isotherm_from_json("[1, 2]"))

# ---------------------------------------------------------------- hand written csv
CHEAD = "material,m\nadsorbate,nitrogen\ntemperature,77.0\nfile_version,3.0\n"
DL = "data:[pressure,loading,branch,(otherdata)]\n"


def hand_csv(label, txt, **kw):
    res = attempt("hand csv " + label, lambda: isotherm_from_csv(txt, **kw))
    if res is not None:
        describe(res)
        attempt("  rewrite", lambda: print("   ", json.dumps(isotherm_to_csv(res))))
        attempt("  rewrite json", lambda: print("   ", isotherm_to_json(res)))


hand_csv("with branch", CHEAD + DL + "pressure,loading,branch\n0.1,1.0,ads\n0.5,2.0,ads\n0.3,1.5,des\n")
hand_csv("no branch col", CHEAD + DL + "pressure,loading\n0.1,1.0\n0.5,2.0\n0.3,1.5\n")
hand_csv("no branch col, header branch", CHEAD + "branch,des\n" + DL + "pressure,loading\n0.1,1.0\n0.5,2.0\n")
hand_csv("no branch col, keyword", CHEAD + DL + "pressure,loading\n0.1,1.0\n0.5,2.0\n", branch="ads")
hand_csv("branch col + header branch", CHEAD + "branch,des\n" + DL + "pressure,loading,branch\n0.1,1.0,ads\n0.5,2.0,des\n")
hand_csv("odd branch text", CHEAD + DL + "pressure,loading,branch\n0.1,1.0,ADS\n0.5,2.0,ads \n0.3,1.5,\n0.2,1.2,ads\n")
hand_csv("numeric branch", CHEAD + DL + "pressure,loading,branch\n0.1,1.0,0\n0.5,2.0,1\n0.3,1.5,0\n")
hand_csv("all des", CHEAD + DL + "pressure,loading,branch\n0.5,2.0,des\n0.3,1.5,des\n")
hand_csv("all ads", CHEAD + DL + "pressure,loading,branch\n0.1,1.0,ads\n0.3,1.5,ads\n")
hand_csv("branch not third", CHEAD + DL + "pressure,loading,extra,branch\n0.1,1.0,5,ads\n0.3,1.5,6,des\n",
         other_keys=["extra"])
hand_csv("branch first", CHEAD + DL + "branch,pressure,loading\nads,0.1,1.0\ndes,0.3,1.5\n")
hand_csv("header only", CHEAD + DL + "pressure,loading,branch\n")
hand_csv("data line only", CHEAD + DL)
hand_csv("single row", CHEAD + DL + "pressure,loading,branch\n0.1,1.0,des\n")
hand_csv("three metadata values", "material,m,x\n" + DL)
hand_csv("one metadata value", "material\n" + DL)
hand_csv("no version", "material,m\nadsorbate,nitrogen\ntemperature,77.0\n" + DL + "pressure,loading,branch\n0.1,1.0,ads\n")
hand_csv("base only", CHEAD)
hand_csv("semicolon", CHEAD.replace(",", ";") + DL + "pressure;loading;branch\n0.1;1.0;ads\n0.3;1.5;des\n", separator=";")
hand_csv("empty string", "")
attempt("csv non string", lambda: isotherm_from_csv(12345))

for name in sorted(os.listdir(tmpdir)):
    os.unlink(os.path.join(tmpdir, name))
os.rmdir(tmpdir)
print("done")
