"""Differential script for change 4 (Kirkwood-Mueller constants and N_A/RT)."""
import math
import warnings

import numpy as np

import pygaps
import pygaps.characterisation.psd_micro as pmic
from pygaps.characterisation.models_hk import PROPERTIES_AlPh_OXIDE_ION
from pygaps.characterisation.models_hk import PROPERTIES_AlSi_OXIDE_ION
from pygaps.characterisation.models_hk import PROPERTIES_CARBON


def fmt(x):
    if isinstance(x, dict):
        return '{' + ', '.join(f'{k!r}: {fmt(v)}' for k, v in x.items()) + '}'
    if isinstance(x, (list, tuple)):
        return type(x).__name__ + '[' + ', '.join(fmt(v) for v in x) + ']'
    if isinstance(x, np.ndarray):
        return f'ndarray{x.shape}[' + ', '.join(fmt(v) for v in x.ravel().tolist()) + ']'
    if isinstance(x, (float, np.floating)):
        return f'{type(x).__name__}:{float(x):.12g}'
    return f'{type(x).__name__}:{x!r}'


CASE = [0]


def run(label, func, *args, **kwargs):
    CASE[0] += 1
    with warnings.catch_warnings(record=True) as rec:
        warnings.simplefilter('always')
        try:
            out = 'OK ' + fmt(func(*args, **kwargs))
        except Exception as err:  # noqa
            out = f'EXC {type(err).__name__}: {err.args!r}'
    wrn = sorted({f'{w.category.__name__}: {w.message}' for w in rec})
    print(f'[{CASE[0]:03d}] {label}\n    -> {out}')
    for w in wrn:
        print(f'    warn {w}')


N2 = {
    'molecular_diameter': 0.3,
    'polarizability': 0.0017403,
    'magnetic_susceptibility': 3.6e-08,
    'surface_density': 6.71e+18,
    'liquid_density': 0.8076937566133804,
    'adsorbate_molar_mass': 28.01348
}
AR = {
    'molecular_diameter': 0.34,
    'polarizability': 0.00163,
    'magnetic_susceptibility': 3.25e-08,
    'surface_density': 8.52e+18,
    'liquid_density': 1.3954,
    'adsorbate_molar_mass': 39.948
}
CO2 = {
    'molecular_diameter': 0.33,
    'polarizability': 0.002911,
    'magnetic_susceptibility': 5.0e-08,
    'surface_density': 5.45e+18,
    'liquid_density': 1.023,
    'adsorbate_molar_mass': 44.01
}
USER_MAT = {
    'molecular_diameter': 0.3,
    'polarizability': 1.5E-3,
    'magnetic_susceptibility': 8.0E-8,
    'surface_density': 2.5E19,
}


from fractions import Fraction


def exact(x):
    """Full-precision rendering (the change must be bit-identical)."""
    if isinstance(x, (tuple, list)):
        return type(x).__name__ + '[' + ', '.join(exact(v) for v in x) + ']'
    if isinstance(x, np.ndarray):
        return f'ndarray{x.shape}{x.dtype}[' + ', '.join(repr(v) for v in x.ravel().tolist()) + ']'
    return f'{type(x).__name__}:{x!r}'


def call_exact(func, *args):
    return exact(func(*args))


# ---------------------------------------------------------------- N_A / RT
for temp in [
    70, 70.0, 77, 77.355, 87.3, 100, 150.5, 195, 273.15, 298.15, 300, 1e-300, 1e300, 1, -77.355, 0, 0.0,
    np.float64(0.0), np.float64(77.355), np.float32(77.355), np.array([70., 77.355, 300.]), np.array([0., 1.]),
    float('inf'), float('nan'), Fraction(1547, 20), True, None, '77', [77.], 77 + 0j,
]:
    run(f'_N_over_RT({temp!r})', call_exact, pmic._N_over_RT, temp)

# ---------------------------------------------------------------- Kirkwood-Mueller constants
rng = np.random.default_rng(17)
values = [1, 2, 1.0, 1.02e-30, 1.35e-34, 1.7403e-30, 3.6e-35, 2.5e-30, 1.3e-35, 0.0, -1.0, 1e-300, 1e300, 5e-324]
values += [float(v) for v in 10**rng.uniform(-36, -28, 12)]
for i in range(0, len(values) - 1):
    run(f'km_ads({values[i]!r}, {values[i + 1]!r})', call_exact, pmic._kirkwood_muller_dispersion_ads, values[i], values[i + 1])
for i in range(0, len(values) - 3):
    a = values[i:i + 4]
    run(f'km_mat{tuple(a)!r}', call_exact, pmic._kirkwood_muller_dispersion_mat, *a)
run('km_ads arrays', call_exact, pmic._kirkwood_muller_dispersion_ads, np.array([1e-30, 2e-30]), np.array([3e-35, 4e-35]))
run('km_mat arrays', call_exact, pmic._kirkwood_muller_dispersion_mat, np.array([1e-30, 2e-30]), np.array([3e-35, 4e-35]), 1.7e-30, 3.6e-35)
run('km_mat zero m_ads (float)', call_exact, pmic._kirkwood_muller_dispersion_mat, 1e-30, 1e-35, 1e-30, 0.0)
run('km_mat zero m_mat (numpy)', call_exact, pmic._kirkwood_muller_dispersion_mat, 1e-30, np.float64(0.0), 1e-30, 1e-35)
run('km_mat cancelling denominator', call_exact, pmic._kirkwood_muller_dispersion_mat, 1e-30, -1e-35, 1e-30, 1e-35)
run('km_ads str', call_exact, pmic._kirkwood_muller_dispersion_ads, 'a', 1.0)
run('km_ads None', call_exact, pmic._kirkwood_muller_dispersion_ads, 1.0, None)
run('km_mat str', call_exact, pmic._kirkwood_muller_dispersion_mat, 1.0, 1.0, 'a', 1.0)
run('km_mat None', call_exact, pmic._kirkwood_muller_dispersion_mat, None, 1.0, 1.0, 1.0)
run('km_mat Fraction', call_exact, pmic._kirkwood_muller_dispersion_mat, Fraction(1, 3), Fraction(1, 7), Fraction(2, 3), Fraction(1, 9))
run('km test-suite values', call_exact, pmic._kirkwood_muller_dispersion_mat, 1, 1, 2, 2)

# ---------------------------------------------------------------- dictionaries
BIG_ADS = dict(N2, molecular_diameter=0.6, surface_density=2e18, polarizability=0.01)
INT_ADS = {'polarizability': 1, 'magnetic_susceptibility': 1}
INT_MAT = {'polarizability': 2, 'magnetic_susceptibility': 2}
ads_sets = [N2, AR, CO2, BIG_ADS, INT_ADS]
mat_sets = [PROPERTIES_CARBON, PROPERTIES_AlSi_OXIDE_ION, PROPERTIES_AlPh_OXIDE_ION, USER_MAT, INT_MAT]
for i, ads in enumerate(ads_sets):
    for j, mat in enumerate(mat_sets):
        run(f'_dispersion_from_dict ads{i} mat{j}', call_exact, pmic._dispersion_from_dict, ads, mat)

P, M = 'polarizability', 'magnetic_susceptibility'
run('disp: ads missing P', call_exact, pmic._dispersion_from_dict, {M: 1.}, {P: 1., M: 1.})
run('disp: ads missing M', call_exact, pmic._dispersion_from_dict, {P: 1.}, {P: 1., M: 1.})
run('disp: mat missing P', call_exact, pmic._dispersion_from_dict, {P: 1., M: 1.}, {M: 1.})
run('disp: mat missing M', call_exact, pmic._dispersion_from_dict, {P: 1., M: 1.}, {P: 1.})
run('disp: ads missing M, mat missing P', call_exact, pmic._dispersion_from_dict, {P: 1.}, {M: 1.})
run('disp: ads missing M, mat missing M', call_exact, pmic._dispersion_from_dict, {P: 1.}, {P: 1.})
run('disp: both empty', call_exact, pmic._dispersion_from_dict, {}, {})
run('disp: ads None', call_exact, pmic._dispersion_from_dict, None, {P: 1., M: 1.})
run('disp: mat None', call_exact, pmic._dispersion_from_dict, {P: 1., M: 1.}, None)
run('disp: ads None, mat empty', call_exact, pmic._dispersion_from_dict, None, {})
run('disp: str value ads M, mat missing P', call_exact, pmic._dispersion_from_dict, {P: 1., M: 'x'}, {M: 1.})
run('disp: str value mat P', call_exact, pmic._dispersion_from_dict, {P: 1., M: 1.}, {P: 'x', M: 1.})
run('disp: None value ads P, missing mat', call_exact, pmic._dispersion_from_dict, {P: None, M: 1.}, {})
run('disp: zero susceptibility', call_exact, pmic._dispersion_from_dict, {P: 1., M: 0.}, {P: 1., M: 1.})
run('disp: numpy zero susceptibility', call_exact, pmic._dispersion_from_dict, {P: 1., M: np.float64(0.)}, {P: 1., M: 1.})
run('disp: array values', call_exact, pmic._dispersion_from_dict, {P: np.array([1., 2.]), M: np.array([3., 4.])}, {P: 1., M: 1.})
run('disp: list input', call_exact, pmic._dispersion_from_dict, [1., 2.], {P: 1., M: 1.})

# ---------------------------------------------------------------- full calculations (all models x geometries)
pressure = np.array([1e-7, 1e-5, 1e-3, 0.02, 0.1, 0.2])
loading = np.array([0.4, 2.3, 5.2, 6.8, 7.7, 8.1])
combos = [
    (N2, PROPERTIES_CARBON, 77.355),
    (AR, PROPERTIES_AlSi_OXIDE_ION, 87.3),
    (CO2, USER_MAT, 273.15),
    (BIG_ADS, PROPERTIES_AlPh_OXIDE_ION, 70.),
    (N2, USER_MAT, 300.),
]
for name, func in [('HK', pmic.psd_horvath_kawazoe), ('RY', pmic.psd_horvath_kawazoe_ry)]:
    for geo in ['slit', 'cylinder', 'sphere']:
        for cy in [False, True]:
            for i, (ads, mat, temp) in enumerate(combos):
                if name == 'RY' and geo == 'cylinder' and i > 1:
                    continue  # slow; two parameter sets are enough
                run(f'{name} {geo} cy={cy} combo{i}', func, pressure, loading, temp, geo, ads, mat, use_cy=cy)

for func in [pmic.psd_horvath_kawazoe, pmic.psd_horvath_kawazoe_ry]:
    run(f'{func.__name__} T=0', func, pressure, loading, 0., 'slit', N2, PROPERTIES_CARBON)
    run(f'{func.__name__} T=int', func, pressure, loading, 77, 'slit', N2, PROPERTIES_CARBON)
    run(f'{func.__name__} T=None', func, pressure, loading, None, 'slit', N2, PROPERTIES_CARBON)
    run(f'{func.__name__} T<0', func, pressure, loading, -77., 'sphere', N2, PROPERTIES_CARBON)
    run(f'{func.__name__} zero susceptibility', func, pressure, loading, 77., 'slit', dict(N2, magnetic_susceptibility=0.), PROPERTIES_CARBON)
    run(f'{func.__name__} missing ads key', func, pressure, loading, 77., 'slit', PROPERTIES_CARBON, PROPERTIES_CARBON)
    run(f'{func.__name__} missing mat key', func, pressure, loading, 77., 'slit', N2, {'molecular_diameter': 0.3})

iso = pygaps.PointIsotherm(
    pressure=[1e-6, 1e-4, 1e-3, 0.01, 0.1, 0.15, 0.4],
    loading=[1., 3., 5., 6., 7., 7.2, 8.],
    material='TEST',
    adsorbate='N2',
    temperature=77.355,
    pressure_mode='relative',
    loading_basis='molar',
    loading_unit='mmol',
    material_basis='mass',
    material_unit='g',
)
for model in ['HK', 'HK-CY', 'RY', 'RY-CY']:
    for mm in ['Carbon(HK)', 'AlSiOxideIon', 'AlPhOxideIon', USER_MAT]:
        run(f'psd_microporous {model} slit {mm if isinstance(mm, str) else "user"}', pmic.psd_microporous, iso, psd_model=model, material_model=mm)
