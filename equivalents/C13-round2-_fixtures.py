"""Shared fixtures / canonical printing for the C13 differential scripts."""
import atexit
import hashlib
import logging
import warnings
from pathlib import Path

import numpy

import pygaps
from pygaps.modelling import get_isotherm_model

warnings.simplefilter("ignore")
ROOT = Path(__file__).resolve().parent.parent
DATA = ROOT / "docs" / "examples" / "data" / "iast"
assert Path(pygaps.__file__).resolve().is_relative_to(ROOT / "src"), pygaps.__file__


class _ListHandler(logging.Handler):
    def __init__(self):
        super().__init__(level=logging.DEBUG)
        self.records = []

    def emit(self, record):
        self.records.append(record)


LOG = _ListHandler()
_logger = logging.getLogger("pygaps")
_logger.addHandler(LOG)
_logger.setLevel(logging.DEBUG)
_logger.propagate = False
for _h in list(_logger.handlers):
    if _h is not LOG:
        _logger.removeHandler(_h)


def model_iso(name, params, prange=(0.01, 20.0), lrange=(0.0, 10.0), adsorbate="methane", **kw):
    model = get_isotherm_model(
        name,
        parameters=params,
        pressure_range=prange,
        loading_range=lrange,
    )
    props = dict(
        material="M",
        adsorbate=adsorbate,
        temperature=298.0,
        pressure_mode="absolute",
        pressure_unit="bar",
        loading_basis="molar",
        loading_unit="mmol",
        material_basis="mass",
        material_unit="g",
    )
    props.update(kw)
    return pygaps.ModelIsotherm(model=model, **props)


def point_iso(fun, pmax=20.0, n=40, adsorbate="methane", des=False, pmin=0.05, **kw):
    p = numpy.geomspace(pmin, pmax, n)
    l = fun(p)
    if des:
        pd_ = p[::-1][1:]
        p = numpy.concatenate([p, pd_])
        l = numpy.concatenate([l, fun(pd_) * 1.1])
    props = dict(
        material="M",
        adsorbate=adsorbate,
        temperature=298.0,
        pressure_mode="absolute",
        pressure_unit="bar",
        loading_basis="molar",
        loading_unit="mmol",
        material_basis="mass",
        material_unit="g",
    )
    props.update(kw)
    return pygaps.PointIsotherm(pressure=p, loading=l, **props)


def lang(nm, K):
    return lambda p: nm * K * p / (1.0 + K * p)


def models():
    m = {}
    m["H1"] = model_iso("Henry", {"K": 1.3})
    m["H2"] = model_iso("Henry", {"K": 0.27}, adsorbate="ethane")
    m["H3"] = model_iso("Henry", {"K": 4.1}, adsorbate="propane")
    m["L1"] = model_iso("Langmuir", {"K": 0.8, "n_m": 5.0})
    m["L2"] = model_iso("Langmuir", {"K": 3.5, "n_m": 5.0}, adsorbate="ethane")
    m["L3"] = model_iso("Langmuir", {"K": 0.15, "n_m": 7.5}, adsorbate="propane")
    m["L4"] = model_iso("Langmuir", {"K": 12.0, "n_m": 2.2}, adsorbate="butane")
    m["DS"] = model_iso("DSLangmuir", {"n_m1": 2.0, "K1": 5.0, "n_m2": 4.0, "K2": 0.2})
    m["TS"] = model_iso(
        "TSLangmuir", {"n_m1": 1.0, "n_m2": 2.0, "n_m3": 3.0, "K1": 9.0, "K2": 0.7, "K3": 0.05}
    )
    m["Q"] = model_iso("Quadratic", {"n_m": 3.0, "Ka": 0.9, "Kb": 0.4}, adsorbate="ethane")
    m["BET"] = model_iso("BET", {"n_m": 3.0, "C": 50.0, "N": 0.01}, adsorbate="nitrogen")
    m["TA"] = model_iso("TemkinApprox", {"n_m": 4.0, "K": 1.1, "tht": -0.1}, adsorbate="ethane")
    m["TO"] = model_iso("Toth", {"n_m": 6.0, "K": 1.4, "t": 0.7}, adsorbate="propane")
    m["JS"] = model_iso("JensenSeaton", {"K": 3.0, "a": 4.0, "b": 0.1, "c": 1.2})
    # not IAST capable / relative
    m["VIR"] = model_iso("Virial", {"K": 3.0, "A": 0.1, "B": 0.01, "C": 0.001})
    m["FR"] = model_iso("Freundlich", {"K": 3.0, "m": 2.0})
    m["LREL"] = model_iso(
        "Langmuir", {"K": 30.0, "n_m": 5.0}, prange=(0.01, 0.9), pressure_mode="relative",
        pressure_unit=None
    )
    m["LDES"] = model_iso("Langmuir", {"K": 2.0, "n_m": 3.0}, branch="des")
    # narrow pressure range -> extrapolation warnings
    m["LN"] = model_iso("Langmuir", {"K": 0.5, "n_m": 4.0}, prange=(0.01, 1.0))
    return m


def points():
    p = {}
    p["P1"] = point_iso(lang(5.0, 0.8), pmax=200.0)
    p["P2"] = point_iso(lang(5.0, 3.5), pmax=200.0, adsorbate="ethane")
    p["P3"] = point_iso(lang(7.5, 0.15), pmax=500.0, n=25, adsorbate="propane")
    p["PS"] = point_iso(lang(4.0, 1.0), pmax=3.0, n=12)  # short range -> errors
    p["PD"] = point_iso(lang(4.0, 1.0), pmax=100.0, n=20, des=True)
    p["P5"] = point_iso(lambda q: 2.0 * q**0.5, pmax=300.0, n=15, adsorbate="ethane")
    return p


def real():
    import pygaps.parsing as pgp
    ch4 = pgp.isotherm_from_json(DATA / "MOF-5(Zn) - IAST - CH4.json")
    c2h6 = pgp.isotherm_from_json(DATA / "MOF-5(Zn) - IAST - C2H6.json")
    return ch4, c2h6


_DIGEST = hashlib.sha256()


@atexit.register
def _print_digest():
    """Digest over the exact bits of every float printed (stricter than 12 digits)."""
    print(f"bit-exact digest of all floats: {_DIGEST.hexdigest()}")


def fmt(v):
    """Canonical text of a result."""
    if isinstance(v, dict):
        return "{" + ", ".join(f"{k!r}: {fmt(v[k])}" for k in sorted(v)) + "}"
    if isinstance(v, tuple):
        return "(" + ", ".join(fmt(x) for x in v) + ")"
    if isinstance(v, list):
        return "[" + ", ".join(fmt(x) for x in v) + "]"
    if isinstance(v, numpy.ndarray):
        return f"ndarray{v.shape}{v.dtype}[" + ", ".join(fmt(x) for x in v.ravel().tolist()) + "]"
    if isinstance(v, (bool, numpy.bool_)):
        return f"{type(v).__name__}:{bool(v)}"
    if isinstance(v, (float, numpy.floating)):
        _DIGEST.update(float(v).hex().encode())
        return f"{type(v).__name__}:{float(v):.12g}"
    if isinstance(v, (int, numpy.integer)):
        return f"{type(v).__name__}:{int(v)}"
    return f"{type(v).__name__}:{v!r}"


def run(label, func, *args, **kwargs):
    """Call, print canonical result or the exception, and the log records."""
    LOG.records.clear()
    try:
        with warnings.catch_warnings(record=True) as w:
            warnings.simplefilter("always")
            res = func(*args, **kwargs)
        out = "OK " + fmt(res)
        wtxt = sorted({f"{x.category.__name__}:{x.message}" for x in w})
    except Exception as e:  # noqa
        out = f"EXC {type(e).__name__}: {' '.join(str(e).split())}"
        wtxt = []
    print(f"{label} -> {out}")
    for x in wtxt:
        print(f"    warn {' '.join(x.split())}")
    for r in LOG.records:
        print(f"    log {r.levelname} {' '.join(r.getMessage().split())}")
