"""Differential script for change 3: PointIsotherm.convert_* share target-resolution / interpolator-reset helpers."""
import itertools
import random

from _common import make_iso
from _common import setup_lists
from _common import step

mat, ads = setup_lists()


def mark(iso):
    """Put sentinels in the interpolator slots: shows whether a call reset them."""
    iso.l_interpolator = "L-sentinel"
    iso.p_interpolator = "P-sentinel"


def do(iso, label, method, *args, **kwargs):
    mark(iso)
    step(iso, label, method, *args, **kwargs)


# ---- 1. convert_pressure: partial arguments, repeats, impossible targets, verbose on/off, positional
iso = make_iso()
calls = [
    ((), {}), ((None, None), {}), (("absolute",), {}), (("absolute", "bar"), {}), ((), {"unit_to": "bar"}),
    ((), {"unit_to": "kPa"}), (("", ""), {}), (("relative",), {}), (("relative",), {}), ((), {"unit_to": "bar"}),
    (("relative", "bar"), {}), (("relative%", "bar"), {}), (("relative%",), {}), ((), {"unit_to": None}),
    (("absolute",), {}), (("absolute", "psi"), {}), (("gauge",), {}), (("absolute", "torr"), {}), ((), {"unit_to": "psi"}),
    (("absolute", "torr"), {}), (("relative", None), {}), (("absolute", "Pa", True), {}), ((None, "MPa"), {}),
]
for k, (args, kwargs) in enumerate(calls):
    do(iso, f"P{k}", "convert_pressure", *args, **dict(kwargs, **({"verbose": True} if k % 3 == 0 and len(args) < 3 else {})))

# ---- 2. convert_loading: same, incl. the unit-less fraction/percent bases
iso = make_iso()
calls = [
    ((), {}), ((None, None), {}), (("molar",), {}), (("molar", "mmol"), {}), ((), {"unit_to": "mol"}), (("mass",), {}),
    (("mass", "g"), {}), ((), {"unit_to": "mmol"}), ((), {"unit_to": "mg"}), (("volume_gas", "cm3"), {}),
    (("volume_liquid",), {}), (("volume_liquid", "cm3"), {}), (("volume_liquid", "L"), {}), (("fraction",), {}),
    (("fraction", "g"), {}), ((), {"unit_to": "g"}), (("percent", "g"), {}), (("percent",), {}), ((), {"unit_to": "mol"}),
    (("fraction", None), {}), (("molar",), {}), (("molar", "cm3(STP)"), {}), (("volume",), {}), (("volume", "cm3"), {}),
    (("percent",), {}), (("mass", "kg"), {}), (("", ""), {}), (("molar", "mol", True), {}),
]
for k, (args, kwargs) in enumerate(calls):
    do(iso, f"L{k}", "convert_loading", *args, **dict(kwargs, **({"verbose": True} if k % 3 == 0 and len(args) < 3 else {})))

# ---- 3. convert_material: in physical and in fraction/percent loading (virtual unit change, simultaneous conversion)
for start in ({}, {"loading_basis": "fraction", "loading_unit": None}, {"loading_basis": "percent", "loading_unit": None},
              {"loading_basis": "mass", "loading_unit": "mg", "material_basis": "volume", "material_unit": "cm3"}):
    iso = make_iso(**start)
    tag = start.get("loading_basis", "molar")
    calls = [
        ((), {}), ((None, None), {}), (("mass",), {}), ((), {"unit_to": "kg"}), ((), {"unit_to": "cm3"}),
        (("mass", "g"), {}), (("volume",), {}), (("volume", "cm3"), {}), (("volume", "cm3"), {}), ((), {"unit_to": "m3"}),
        ((), {"unit_to": "kg"}), (("molar", "mol"), {}), ((), {"unit_to": "mmol"}), (("molar",), {}),
        (("volume", "L"), {}), (("mass", "mg"), {}), (("molar", "mmol"), {}), (("mass", "kg"), {}), (("area", "m2"), {}),
        (("volume_liquid", "cm3"), {}), (("fraction",), {}), (("", ""), {}), (("volume", "dm3", True), {}),
        (("molar", "kmol"), {}), (("volume", "cc"), {}),
    ]
    for k, (args, kwargs) in enumerate(calls):
        do(iso, f"M-{tag}{k}", "convert_material", *args,
           **dict(kwargs, **({"verbose": True} if k % 3 == 0 and len(args) < 3 else {})))

# ---- 4. material without density / molar mass; adsorbate without backend: refused calls change nothing
iso = make_iso(material="NOPROP")
do(iso, "noprop1", "convert_material", "volume", "cm3")
do(iso, "noprop2", "convert_material", "molar", "mol")
do(iso, "noprop3", "convert_material", unit_to="kg")
do(iso, "noprop4", "convert_loading", "fraction")
do(iso, "noprop5", "convert_material", "volume", "cm3")
do(iso, "noprop6", "convert_material", unit_to="mg")
do(iso, "noprop7", "convert", pressure_mode="relative", material_basis="volume", material_unit="cm3", loading_basis="mass",
   loading_unit="g")
iso = make_iso(adsorbate="fakegas3")
do(iso, "nb1", "convert_pressure", "relative", verbose=True)
do(iso, "nb2", "convert_loading", "mass", "g")
do(iso, "nb3", "convert_loading", "fraction")
do(iso, "nb4", "convert_material", "volume", "cm3")
do(iso, "nb5", "convert", pressure_unit="kPa", loading_basis="percent", material_unit="kg")
do(iso, "nb6", "convert", pressure_unit="Pa", material_basis="molar", material_unit="mol", loading_basis="mass",
   loading_unit="mg", verbose=True)
hot = make_iso(temperature=250.0)
do(hot, "hot1", "convert_loading", "volume_liquid", "cm3")
do(hot, "hot2", "convert_pressure", "relative%")
do(hot, "hot3", "convert_loading", "percent")
do(hot, "hot4", "convert_material", "volume", "cm3")

# ---- 5. convert(): combined, partially refused
iso = make_iso()
do(iso, "C1", "convert")
do(iso, "C2", "convert", pressure_mode="relative", loading_basis="mass", loading_unit="g", material_basis="volume",
   material_unit="cm3", verbose=True)
do(iso, "C3", "convert", pressure_mode="absolute", pressure_unit="torr", loading_basis="fraction")
do(iso, "C4", "convert", material_basis="molar", material_unit="mmol")
do(iso, "C5", "convert", pressure_unit="kPa", material_unit="stone", loading_basis="molar", loading_unit="mol")
do(iso, "C6", "convert", pressure_mode="relative%", material_basis="mass", loading_basis="volume", loading_unit="cm3")
do(iso, "C7", "convert", loading_basis="volume_gas", loading_unit="cm3", material_unit="kg")
do(iso, "C8", "convert", "absolute", "bar", "molar", "mmol", "mass", "g")

# ---- 6. random histories (fixed seed) over all four methods
rng = random.Random(20261003)
PM = ["absolute", "relative", "relative%", None, "gauge"]
PU = ["Pa", "kPa", "bar", "atm", "torr", None, "psi"]
LB = ["mass", "molar", "volume_gas", "volume_liquid", "percent", "fraction", None, "volume"]
LU = {"mass": ["mg", "g", "kg"], "molar": ["mmol", "mol", "cm3(STP)"], "volume_gas": ["cm3", "L"],
      "volume_liquid": ["mL", "m3"], "percent": [None, "g"], "fraction": [None], None: [None, "g", "mol", "cm3"],
      "volume": ["cm3"]}
MB = ["mass", "volume", "molar", None, "percent"]
MU = {"mass": ["mg", "g", "kg"], "volume": ["cm3", "L", "m3"], "molar": ["mmol", "mol"],
      None: [None, "g", "cm3", "mol", "kg"], "percent": [None]}
TU = ["K", "°C", "C", "degC", "celsius", "F", None, ""]
for h in range(6):
    iso = make_iso(temperature=rng.choice([70.0, 77.0, 90.0, 110.0]))
    for k in range(45):
        which = rng.choice("PLMCT")
        if which == "P":
            do(iso, f"R{h}.{k}", "convert_pressure", rng.choice(PM), rng.choice(PU), verbose=rng.random() < 0.3)
        elif which == "L":
            b = rng.choice(LB)
            do(iso, f"R{h}.{k}", "convert_loading", b, rng.choice(LU[b]), verbose=rng.random() < 0.3)
        elif which == "M":
            b = rng.choice(MB)
            do(iso, f"R{h}.{k}", "convert_material", b, rng.choice(MU[b]), verbose=rng.random() < 0.3)
        elif which == "T":
            do(iso, f"R{h}.{k}", "convert_temperature", rng.choice(TU))
        else:
            lb = rng.choice(LB)
            mb = rng.choice(MB)
            do(iso, f"R{h}.{k}", "convert", pressure_mode=rng.choice(PM), pressure_unit=rng.choice(PU), loading_basis=lb,
               loading_unit=rng.choice(LU[lb]), material_basis=mb, material_unit=rng.choice(MU[mb]),
               verbose=rng.random() < 0.3)

# ---- 7. every single step from a handful of start configurations (labels only would hide nothing: full state printed)
starts = [
    {}, {"pressure_mode": "relative", "pressure_unit": None, "loading_basis": "percent", "loading_unit": None},
    {"loading_basis": "fraction", "loading_unit": None, "material_basis": "volume", "material_unit": "L"},
    {"loading_basis": "volume_liquid", "loading_unit": "mL", "material_basis": "molar", "material_unit": "mmol",
     "pressure_mode": "relative%"},
]
for si, start in enumerate(starts):
    for mb, mu in itertools.chain([(b, u) for b in ("mass", "volume", "molar") for u in MU[b][:2]], [(None, None)]):
        iso = make_iso(**start)
        do(iso, f"S{si} mat", "convert_material", mb, mu)
    for lb in ("mass", "molar", "volume_gas", "volume_liquid", "percent", "fraction"):
        iso = make_iso(**start)
        do(iso, f"S{si} load", "convert_loading", lb, LU[lb][0])
    for pm, pu in (("absolute", "kPa"), ("relative", None), ("relative%", None), (None, "torr")):
        iso = make_iso(**start)
        do(iso, f"S{si} pres", "convert_pressure", pm, pu)
