"""Differential script for change 4: enthalpy of liquefaction / vaporisation through the saturated-enthalpy helper."""
import io
import logging

import numpy

import pygaps
from pygaps import ADSORBATE_LIST
from pygaps.core.adsorbate import Adsorbate

LOG = io.StringIO()
_h = logging.StreamHandler(LOG)
_h.setLevel(logging.DEBUG)
_lg = logging.getLogger('pygaps')
_lg.addHandler(_h)
for h in list(_lg.handlers):
    if h is not _h:
        _lg.removeHandler(h)


def canon(v):
    if isinstance(v, bool) or v is None:
        return repr(v)
    if isinstance(v, (int, float, numpy.floating, numpy.integer)):
        return f"{type(v).__name__}:{float(v):.12g}"
    if isinstance(v, (list, tuple)):
        return "[" + ", ".join(canon(x) for x in v) + "]"
    if isinstance(v, numpy.ndarray):
        return "array" + canon(list(v))
    return repr(v)


def call(func, *args, **kwargs):
    LOG.seek(0)
    LOG.truncate()
    try:
        out = canon(func(*args, **kwargs))
    except BaseException as err:  # noqa
        out = f"EXC {type(err).__name__}: {err}"
        if err.__cause__ is not None:
            out += f" <- {type(err.__cause__).__name__}"
    log = LOG.getvalue().strip().replace("\n", " | ")
    return out + (f"  [log: {log}]" if log else "")


def state_of(ads):
    try:
        st = ads._state
        if st is None:
            return "no-state"
        return f"T={st.T():.12g} p={st.p():.12g} Q={st.Q():.12g}"
    except BaseException as err:  # noqa
        return f"state-EXC {type(err).__name__}"


backed = [a for a in ADSORBATE_LIST if a.properties.get("backend_name")]
unbacked = [a for a in ADSORBATE_LIST if not a.properties.get("backend_name")]
print("backed", len(backed), "unbacked", len(unbacked))

print("# all backend-linked adsorbates: by temperature and by pressure, inside and just outside the range")
FRACTIONS = [-0.05, 0.0, 0.02, 0.3, 0.5, 0.7, 0.98, 1.0, 1.05]
for ads in backed:
    tt, tc = ads.t_triple(), ads.t_critical()
    pt, pc = ads.p_triple(), ads.p_critical()
    print(f"## {ads.name!r} Tt={canon(tt)} Tc={canon(tc)} pt={canon(pt)} pc={canon(pc)}")
    for frac in FRACTIONS:
        temp = tt + frac * (tc - tt)
        print(f"{ads.name}.hliq(T f={frac}) -> {call(ads.enthalpy_liquefaction, temp)} | {state_of(ads)}")
        print(f"{ads.name}.hvap(T f={frac}) -> {call(ads.enthalpy_vaporisation, temp)} | {state_of(ads)}")
        press = pt + frac * (pc - pt)
        print(f"{ads.name}.hliq(p f={frac}) -> {call(ads.enthalpy_liquefaction, press=press)} | {state_of(ads)}")
        print(f"{ads.name}.hvap(p f={frac}) -> {call(ads.enthalpy_vaporisation, None, press)} | {state_of(ads)}")
    # same point reached both ways
    temp = tt + 0.5 * (tc - tt)
    psat = ads.saturation_pressure(temp)
    print(
        f"{ads.name}.roundtrip -> {call(ads.enthalpy_liquefaction, temp)} "
        f"{call(ads.enthalpy_liquefaction, press=psat)}"
    )

print("# argument combinations")
ARGS = [
    ((), {}),
    ((None, ), {}),
    ((None, None), {}),
    ((0, ), {}),
    ((0.0, 0.0), {}),
    ((0, 101325.0), {}),
    ((77.344, 0), {}),
    ((77.344, 0.0), {}),
    ((77.344, None), {}),
    ((77.344, 101325.0), {}),
    ((77.344, 101325.0, False), {}),
    ((77.344, 101325.0), {"calculate": 0}),
    ((), {"temp": 77.344}),
    ((), {"press": 101325.0}),
    ((), {"temp": 77.344, "press": 101325.0}),
    ((), {"press": 101325.0, "calculate": False}),
    ((), {"temp": 77.344, "calculate": False}),
    ((), {"calculate": False}),
    ((), {"calculate": None}),
    ((), {"calculate": "yes"}),
    ((-5.0, ), {}),
    ((), {"press": -5.0}),
    ((1e9, ), {}),
    ((), {"press": 1e12}),
    ((float("nan"), ), {}),
    ((), {"press": float("nan")}),
    ((float("inf"), ), {}),
    ((True, ), {}),
    (("77", ), {}),
    (([77.344], ), {}),
    (([], ), {}),
    (([], 101325.0), {}),
    ((numpy.float64(77.344), ), {}),
    ((numpy.array(77.344), ), {}),
    ((numpy.array([77.344]), ), {}),
    ((numpy.array([77.344, 80.0]), ), {}),
    ((numpy.array([77.344, 80.0]), 101325.0), {}),
    ((), {"press": numpy.float64(101325.0)}),
    ((), {"press": numpy.array([101325.0, 2e5])}),
    ((77, ), {}),
    ((), {"press": 101325}),
]
USER = {
    "shipped-n2": Adsorbate.find("nitrogen"),
    "shipped-co2": Adsorbate.find("co2"),
    "shipped-water": Adsorbate.find("water"),
    "backend-only": Adsorbate("backend-only", backend_name="Nitrogen"),
    "backend+user": Adsorbate("backend+user", backend_name="Nitrogen", enthalpy_liquefaction=5.5),
    "backend+vap-key": Adsorbate("backend+vap-key", backend_name="Nitrogen", enthalpy_vaporisation=6.5),
    "user-only": Adsorbate("user-only", enthalpy_liquefaction=7.5),
    "user-zero": Adsorbate("user-zero", enthalpy_liquefaction=0),
    "user-none": Adsorbate("user-none", enthalpy_liquefaction=None),
    "user-string": Adsorbate("user-string", enthalpy_liquefaction="12"),
    "nothing": Adsorbate("nothing"),
    "bad-backend": Adsorbate("bad-backend", backend_name="NoSuchFluid", enthalpy_liquefaction=8.5),
    "bad-backend-empty": Adsorbate("bad-backend-empty", backend_name="NoSuchFluid"),
    "empty-backend-name": Adsorbate("empty-backend-name", backend_name="", enthalpy_liquefaction=9.5),
}
for label, ads in USER.items():
    for args, kwargs in ARGS:
        for meth in ("enthalpy_liquefaction", "enthalpy_vaporisation"):
            shown = ", ".join([repr(a) for a in args] + [f"{k}={v!r}" for k, v in kwargs.items()])
            print(f"{label}.{meth}({shown}) -> {call(getattr(ads, meth), *args, **kwargs)} | {state_of(ads)}")

print("# adsorbates without a backend")
for ads in unbacked:
    print(f"{ads.name}.hliq(300) -> {call(ads.enthalpy_liquefaction, 300)}")
    print(f"{ads.name}.hvap(p) -> {call(ads.enthalpy_vaporisation, press=1e5)}")
    print(f"{ads.name}.hliq() -> {call(ads.enthalpy_liquefaction)}")

print("# interleaving with the other property methods that share the state object")
n2 = Adsorbate("inter-n2", backend_name="Nitrogen")
print("state before", n2._state, n2._backend_mode)
print("hliq", call(n2.enthalpy_liquefaction, 77.344), "|", state_of(n2))
first_state = n2._state
print("ld", call(n2.liquid_density, 80.0), "|", state_of(n2))
print("hliq p", call(n2.enthalpy_liquefaction, press=2e5), "|", state_of(n2), n2._state is first_state)
print("psat", call(n2.saturation_pressure, 90.0, "bar"), "|", state_of(n2))
print("hliq fail", call(n2.enthalpy_liquefaction, 500.0), "|", n2._state is first_state)
print("gd", call(n2.gas_density, 70.0), "|", state_of(n2))

print("# consumers elsewhere in the library")
iso = pygaps.PointIsotherm(
    pressure=[0.1, 0.5, 1.0],
    loading=[1.0, 2.0, 3.0],
    material="m",
    adsorbate="nitrogen",
    temperature=77.344,
    pressure_mode='absolute',
    pressure_unit='bar',
    material_basis='mass',
    material_unit='g',
    loading_basis='molar',
    loading_unit='mmol',
    temperature_unit='K',
)
print("iso.adsorbate.hvap ->", call(iso.adsorbate.enthalpy_vaporisation, iso.temperature))
print("iso.adsorbate.hvap at p ->", call(iso.adsorbate.enthalpy_vaporisation, press=1e5))
