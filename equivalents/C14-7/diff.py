"""Differential script for change 3: section handling in t_plot_raw and t_plot_parameters."""
import logging
import warnings

import numpy

warnings.filterwarnings("ignore")

import pygaps
from pygaps.characterisation import t_plots as tp
from pygaps.characterisation import models_thickness as mt

LOGS = []


class _H(logging.Handler):
    def emit(self, record):
        LOGS.append(f"{record.levelname}:{record.getMessage()}")


_lg = logging.getLogger('pygaps')
for h in list(_lg.handlers):
    _lg.removeHandler(h)
_lg.addHandler(_H())


def fmt(x):
    if isinstance(x, bool):
        return f"bool:{x}"
    if isinstance(x, (float, numpy.floating)):
        return f"{type(x).__name__}:{float(x):.12g}"
    if isinstance(x, (int, numpy.integer)):
        return f"{type(x).__name__}:{int(x)}"
    if isinstance(x, numpy.ndarray):
        return f"array[{x.dtype}]({','.join(fmt(v) for v in x.tolist())})"
    if isinstance(x, dict):
        return "{" + ", ".join(f"{k}={fmt(v)}" for k, v in sorted(x.items())) + "}"
    if isinstance(x, (tuple, list)):
        return type(x).__name__ + "(" + ", ".join(fmt(v) for v in x) + ")"
    return repr(x)


def run(label, func, *args, **kwargs):
    del LOGS[:]
    try:
        with numpy.errstate(all='ignore'):
            res = func(*args, **kwargs)
        out = fmt(res)
    except Exception as e:  # noqa
        out = f"EXC {type(e).__name__}: {e}"
    print(f"{label}: {out}")
    for l in LOGS:
        print(f"    log {l}")



rng = numpy.random.default_rng(143)

M_N2, RHO_N2 = 28.0134, 0.8076


def tplot_iso(p, model, slope, intercept):
    """Loading generated exactly from the t-plot equation."""
    return slope * model(p) + intercept


def micro_meso(p, model):
    """Micropore filling followed by a linear multilayer region and condensation."""
    t = model(p)
    return 4 * (1 - numpy.exp(-t / 0.1)) + 2.5 * t + 6 / (1 + numpy.exp(-(p - 0.8) * 60))


models = {
    "Halsey": mt.thickness_halsey,
    "Harkins/Jura": mt.thickness_harkins_jura,
    "SiO2": mt.SiO2_JKO,
    "CB": mt.CB_KJG,
    "zero": mt.thickness_zero,
    "lambda-lin": lambda p: 0.1 + 1.2 * p,
}
grids = {
    "lin5": numpy.linspace(0.05, 0.5, 5),
    "lin20": numpy.linspace(0.01, 0.95, 20),
    "lin100": numpy.linspace(0.001, 0.99, 100),
    "log30": numpy.logspace(-5, -0.01, 30),
    "geom12": numpy.geomspace(1e-3, 0.6, 12),
    "rand40": numpy.sort(rng.uniform(1e-4, 0.98, 40)),
}
limit_sets = [
    None,
    (0.3, 0.8),
    [0.35, 0.6],
    (0, 10),
    (0.0, 0.0),
    (0.5, 0.3),
    (5, 6),
    (-numpy.inf, numpy.inf),
    numpy.array([0.2, 1.0]),
    (0.4,),
    (None, None),
    (0.3, None),
]

cases = []
for mname, model in models.items():
    for gname, p in grids.items():
        for slope, intercept in ((0.05, 0.0), (3.0, 1.5), (40.0, 12.0), (250., -3.)):
            cases.append((f"exact[{mname},{gname},s={slope},i={intercept}]", p, tplot_iso(p, model, slope, intercept), model))
        cases.append((f"micromeso[{mname},{gname}]", p, micro_meso(p, model), model))

for i in range(10):
    n = int(rng.integers(5, 80))
    p = numpy.sort(rng.uniform(1e-3, 0.99, n))
    model = mt.thickness_harkins_jura
    l = tplot_iso(p, model, 10., 2.) * (1 + 0.03 * rng.standard_normal(n))
    cases.append((f"noisy{i}", p, l, model))

p = numpy.linspace(0.05, 0.9, 12)
hj = mt.thickness_harkins_jura
edge = [
    ("steep-step", p, numpy.r_[numpy.full(6, 0.01), numpy.full(6, 50.)] + hj(p), hj),
    ("very-steep", p, 1e4 * hj(p)**6, hj),
    ("const-loading", p, numpy.full(12, 2.0), hj),
    ("zero-loading", p, numpy.zeros(12), hj),
    ("negative-loading", p, -hj(p), hj),
    ("nan-loading", p, numpy.r_[hj(p)[:5], numpy.nan, hj(p)[6:]], hj),
    ("int-loading", p, numpy.arange(1, 13), hj),
    ("list-inputs", list(p), list(tplot_iso(p, hj, 5., 1.)), hj),
    ("one-point", [0.1], [1.0], hj),
    ("two-points", [0.1, 0.2], [1.0, 2.0], hj),
    ("three-points", [0.1, 0.2, 0.3], [1.0, 1.2, 1.3], hj),
    ("pressure-one", numpy.linspace(0.5, 1.0, 8), numpy.linspace(1., 3., 8), hj),
    ("pressure-over-one", numpy.linspace(0.5, 1.2, 8), numpy.linspace(1., 3., 8), hj),
    ("unsorted", numpy.array([0.3, 0.1, 0.2, 0.5, 0.4, 0.6, 0.05]), numpy.array([3., 1., 2., 5., 4., 6., 0.5]), hj),
    ("empty", [], [], hj),
    ("mismatch", [0.1, 0.2, 0.3], [1.0, 2.0], hj),
    ("model-raises", p, hj(p), lambda p: 1 / 0),
    ("model-scalar", p, hj(p), lambda p: 0.5),
]
cases += edge

for label, p, l, model in cases:
    run(f"raw {label} auto", tp.t_plot_raw, l, p, model, RHO_N2, M_N2)
for label, p, l, model in cases[::4] + edge:
    for lim in limit_sets[1:]:
        run(f"raw {label} lim={lim!r}", tp.t_plot_raw, l, p, model, RHO_N2, M_N2, lim)

# other adsorbate constants
p = grids["lin20"]
l = tplot_iso(p, hj, 12., 3.)
for rho, mm in ((0.8076, 28.0134), (1.3954, 39.948), (1.0, 1.0), (0.0, 28.), (-1., 28.), (numpy.nan, 28.), (0.5, 0.0)):
    run(f"raw rho={rho} M={mm} auto", tp.t_plot_raw, l, p, hj, rho, mm)
    run(f"raw rho={rho} M={mm} lim", tp.t_plot_raw, l, p, hj, rho, mm, (0.3, 0.9))

# parameter function on its own, with several section kinds
t = hj(p)
for sec_label, sec in (
    ("all", numpy.arange(20)),
    ("slice", slice(3, 12)),
    ("list", [2, 3, 4, 5, 9]),
    ("two", numpy.array([0, 19])),
    ("one", numpy.array([4])),
    ("empty", numpy.array([], dtype=int)),
    ("bool", t > 0.5),
):
    for ll_label, ll in (("exact", l), ("steep", 1e3 * t**5), ("flat", numpy.full(20, 3.)), ("tiny", 1e-9 * l),
                         ("step", numpy.where(t > numpy.median(t), 100., 0.01) + 0.001 * t),
                         ("ramp", numpy.clip((t - numpy.median(t)) * 500, 0, 20))):
        run(f"params sec={sec_label} load={ll_label}", tp.t_plot_parameters, t, ll, sec, M_N2, RHO_N2)

# isotherm entry points
for adsorbate, temp in (("N2", 77.355), ("Ar", 87.3)):
    for gname in ("lin20", "lin100", "log30", "rand40"):
        p = grids[gname]
        for mname in ("Halsey", "Harkins/Jura", "SiO2 Jaroniec/Kruk/Olivier", "carbon black Kruk/Jaroniec/Gadkaree", "zero thickness", "nope", None):
            model = mt._THICKNESS_MODELS.get(mname, hj)
            for kind, l in (("exact", tplot_iso(p, model, 8., 2.)), ("micromeso", micro_meso(p, model))):
                iso = pygaps.PointIsotherm(
                    pressure=p,
                    loading=l,
                    material="syn",
                    adsorbate=adsorbate,
                    temperature=temp,
                    pressure_mode="relative",
                    loading_basis="molar",
                    loading_unit="mmol",
                    material_basis="mass",
                    material_unit="g",
                )
                for lim in (None, (0.3, 0.8), (2, 3)):
                    run(f"iso {adsorbate} {gname} {mname} {kind} lim={lim}", tp.t_plot, iso, thickness_model=mname, t_limits=lim)
    p = grids["lin20"]
    pp = numpy.r_[p, p[::-1][1:]]
    ll = numpy.r_[tplot_iso(p, hj, 8., 2.), tplot_iso(p[::-1][1:], hj, 9., 2.)]
    iso = pygaps.PointIsotherm(
        pressure=pp,
        loading=ll,
        material="syn",
        adsorbate=adsorbate,
        temperature=temp,
        pressure_mode="relative",
        loading_basis="molar",
        loading_unit="mmol",
        material_basis="mass",
        material_unit="g",
    )
    for br in ("ads", "des"):
        for lim in (None, (0.3, 0.8)):
            run(f"iso {adsorbate} loop branch={br} lim={lim}", tp.t_plot, iso, branch=br, t_limits=lim)
    run(f"iso {adsorbate} callable model", tp.t_plot, iso, thickness_model=lambda p: 0.1 + p)
