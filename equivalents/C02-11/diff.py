"""Differential transcript for C02-3: PointIsotherm.convert dispatch loop and BaseIsotherm.convert_temperature."""
import logging
import sys
import warnings

import numpy
import pandas

import pygaps
from pygaps import logger
from pygaps.core.material import Material
from pygaps.core.modelisotherm import ModelIsotherm
from pygaps.core.pointisotherm import PointIsotherm

warnings.simplefilter("ignore")
numpy.seterr(all="ignore")


class Capture(logging.Handler):
    """Print every log record of the library into the transcript."""
    def emit(self, record):
        print(f"    LOG {record.levelname}: {record.getMessage()!r}")


for h in list(logger.handlers):
    logger.removeHandler(h)
logger.addHandler(Capture(level=logging.DEBUG))


def hx(v):
    try:
        return float(v).hex()
    except (TypeError, ValueError):
        return repr(v)


def hexes(seq):
    return [hx(v) for v in numpy.ravel(numpy.asarray(seq, dtype=object))]


def snap(iso):
    print("    labels:", repr({k: iso.__dict__.get(k) for k in iso._unit_params}))
    print("    _temperature:", float(iso._temperature).hex())
    if hasattr(iso, "data_raw"):
        print("    columns:", list(iso.data_raw.columns), "index:", list(iso.data_raw.index))
        for col in iso.data_raw.columns:
            print(f"    {col} [{iso.data_raw[col].dtype}]:", hexes(iso.data_raw[col]))
        print("    interpolators:", iso.l_interpolator is None, iso.p_interpolator is None)
    print("    properties:", repr(iso.properties))
    print("    material:", repr(iso.material), repr(iso.material.properties))
    print("    keys:", list(vars(iso)))


def attempt(label, fn):
    print(f"  > {label}")
    try:
        res = fn()
        print("    returned:", repr(res))
        return res
    except BaseException as err:  # noqa
        print(f"    raised {type(err).__name__}: {str(err)!r}")
        cause = err.__cause__
        while cause is not None:
            print(f"    cause {type(cause).__name__}: {str(cause)!r}")
            cause = cause.__cause__
        return None


UNITS = dict(
    pressure_mode="absolute",
    pressure_unit="bar",
    loading_basis="molar",
    loading_unit="mmol",
    material_basis="mass",
    material_unit="g",
    temperature_unit="K",
)


def make_point(adsorbate="N2", temperature=77.355, material="TestMat", **kw):
    params = dict(UNITS, material=material, adsorbate=adsorbate, temperature=temperature,
                  comment="a comment", number=7)
    params.update(kw)
    data = pandas.DataFrame({
        "p": [0.01, 0.05, 0.1, 0.3, 0.6, 0.9, 0.5, 0.2],
        "l": [0.5, 1.1, 1.9, 3.2, 4.4, 5.0, 4.6, 3.5],
        "extra": [9.0, 8.0, 7.0, 6.0, 5.0, 4.0, 3.0, 2.0],
        "zeta": list("abcdefgh"),
    })
    return PointIsotherm(isotherm_data=data, pressure_key="p", loading_key="l", **params)


# ---------------------------------------------------------------- C02-3 body
from pygaps.core.baseisotherm import BaseIsotherm

DENSE = {"name": "DenseMat", "density": 2.5, "molar_mass": 120.0}

CONVERTS = [
    dict(),
    dict(verbose=True),
    dict(pressure_unit="Pa"),
    dict(pressure_mode="relative", verbose=True),
    dict(pressure_mode="relative%", pressure_unit="Pa"),
    dict(loading_unit="mol"),
    dict(loading_basis="mass", loading_unit="g", verbose=True),
    dict(material_unit="kg"),
    dict(material_basis="volume", material_unit="cm3", verbose=True),
    dict(pressure_unit="kPa", material_unit="kg", loading_unit="mol", verbose=True),
    dict(pressure_mode="relative", material_basis="volume", material_unit="cm3", loading_basis="percent"),
    dict(pressure_mode="relative", material_basis="molar", material_unit="mmol", loading_basis="fraction",
         verbose=True),
    # refusals at each stage
    dict(pressure_unit="bogus", material_unit="kg", loading_unit="mol"),
    dict(pressure_unit="Pa", material_unit="bogus", loading_unit="mol"),
    dict(pressure_unit="Pa", material_unit="kg", loading_unit="bogus"),
    dict(pressure_mode="bogus", loading_unit="mol"),
    dict(pressure_mode="absolute", material_basis="bogus"),
    dict(pressure_unit="torr", material_basis="volume", loading_basis="mass", loading_unit="mg"),
    dict(pressure_unit="torr", material_basis="volume", material_unit="L", loading_basis="mass"),
    # falsy-but-not-None arguments
    dict(pressure_mode="", pressure_unit="", loading_basis="", loading_unit="", material_basis="", material_unit=""),
    dict(pressure_mode=0, pressure_unit="Pa"),
    dict(pressure_mode="", pressure_unit="mbar", material_basis=None, material_unit="mg", loading_basis=0,
         loading_unit="kmol"),
    dict(pressure_mode=None, pressure_unit=None, loading_basis="volume_gas", loading_unit="cm3"),
]

for adsorbate, mat in [("N2", DENSE), ("N2", "PlainMat"), ("madeupgas", DENSE)]:
    for kw in CONVERTS:
        print(f"== convert adsorbate={adsorbate} material={mat!r}")
        iso = make_point(adsorbate, 77.355, material=dict(mat) if isinstance(mat, dict) else mat)
        iso.l_interpolator = iso.p_interpolator = "stale"
        attempt(f"convert({kw!r})", lambda: iso.convert(**kw))
        snap(iso)
        attempt("convert back", lambda: iso.convert(pressure_mode="absolute", pressure_unit="bar",
                                                    material_basis="mass", material_unit="g",
                                                    loading_basis="molar", loading_unit="mmol", verbose=True))
        snap(iso)

print("== convert positional")
iso = make_point("N2", 77.355, material=dict(DENSE))
attempt("positional", lambda: iso.convert("relative", None, "mass", "mg", "volume", "cm3", True))
snap(iso)
attempt("positional partial", lambda: iso.convert(None, "Pa", None, "g"))
snap(iso)

# a subclass that overrides a step must still be dispatched to
class Loud(PointIsotherm):
    def convert_material(self, basis_to=None, unit_to=None, verbose=False):
        print("    Loud.convert_material", repr((basis_to, unit_to, verbose)))
        return super().convert_material(basis_to=basis_to, unit_to=unit_to, verbose=verbose)


loud = Loud(pressure=[0.1, 0.2, 0.3], loading=[1.0, 2.0, 3.0], material=dict(DENSE), adsorbate="N2",
            temperature=77.355, **UNITS)
attempt("subclass convert", lambda: loud.convert(pressure_unit="Pa", material_unit="kg", loading_unit="mol"))
snap(loud)
attempt("instance attribute shadows step",
        lambda: (setattr(loud, "convert_loading", lambda **kw: print("    shadow", sorted(kw.items()))),
                 loud.convert(loading_unit="mmol", material_unit="g"))[1])
snap(loud)

# ------------------------------------------------------------ temperature
TEMP_SEQS = [
    ["°C", "K", "°C", "°C", "K"],
    ["C", "K", "degC", "celsius", "K", "K"],
    ["c", "Celsius", "k", "K"],
    ["bogus", "", None, 5, "F", "Kc", "bogusc"],
    ["°C", "bogus", None, "K"],
]


def base_iso(**kw):
    params = dict(UNITS, material="TestMat", adsorbate="N2", temperature=77.355, note="x")
    params.update(kw)
    return BaseIsotherm(**params)


def model_iso_(**kw):
    params = dict(UNITS, material="TestMat", adsorbate="N2", temperature=77.355, note="x")
    params.update(kw)
    return ModelIsotherm(pressure=[0.1, 0.2, 0.4, 0.8, 1.6], loading=[0.9, 1.6, 2.6, 3.7, 4.7], model="Langmuir",
                         **params)


for name, factory in (("base", base_iso), ("point", lambda **kw: make_point("N2", **kw)), ("model", model_iso_)):
    for start in (dict(), dict(temperature=-195.795, temperature_unit="°C"), dict(temperature=0.0),
                  dict(temperature=273.15)):
        for seq in TEMP_SEQS:
            print(f"== temperature {name} start={start!r}")
            iso = attempt("make", lambda: factory(**start))
            if iso is None:
                continue
            snap(iso)
            for i, unit in enumerate(seq):
                attempt(f"convert_temperature({unit!r}, verbose={bool(i % 2)})",
                        lambda: iso.convert_temperature(unit, bool(i % 2)))
                print("    ->", hx(iso._temperature), repr(iso.temperature_unit))
                attempt("temperature property", lambda: hx(iso.temperature))
            snap(iso)
            if name == "model":
                print("    model:", repr(iso.model.to_dict()))

# temperature handling interleaved with the other conversions
print("== interleaved")
iso = make_point("N2", 77.355, material=dict(DENSE))
for step in [lambda: iso.convert_temperature("degC", True), lambda: iso.convert_pressure("relative"),
             lambda: iso.convert_loading("volume_liquid", "cm3"), lambda: iso.convert_temperature("K"),
             lambda: iso.convert(pressure_mode="absolute", pressure_unit="bar", loading_basis="molar",
                                 loading_unit="mmol"),
             lambda: iso.convert_temperature(unit_to="C", verbose=True),
             lambda: iso.convert_temperature(unit_to="°C", verbose=True)]:
    attempt("step", step)
    snap(iso)
print(repr(iso.to_dict()["temperature"]), repr(iso.to_dict()["temperature_unit"]), repr(str(iso)))
