"""Differential transcript for C07-2 (excel.py: `otherdata` sheet writing / reading)."""
import datetime
import os
import re
import shutil
import tempfile
import warnings

warnings.simplefilter("ignore")

import numpy
import pandas
import xlrd
import xlwt

import pygaps
from pygaps.core.baseisotherm import BaseIsotherm
from pygaps.modelling import model_from_dict
from pygaps.parsing.excel import _META_DICT
from pygaps.parsing.excel import isotherm_from_xl
from pygaps.parsing.excel import isotherm_to_xl

TMP = tempfile.mkdtemp()
COUNTER = [0]


def newpath():
    COUNTER[0] += 1
    return os.path.join(TMP, f"iso{COUNTER[0]}.xls")


def scrub(text):
    text = re.sub(r"0x[0-9a-fA-F]+", "0x?", text)
    return text.replace(TMP, "<TMP>")


def show(label, fn):
    try:
        res = fn()
        print(label, "->", scrub(repr(res)))
    except BaseException as err:  # noqa
        print(label, "!!", type(err).__name__, scrub(repr(str(err))))
        cause = err.__cause__
        if cause is not None:
            print("   cause:", type(cause).__name__, scrub(repr(str(cause))))


def dump_workbook(path):
    """Every cell of every sheet, as xlrd sees it."""
    wb = xlrd.open_workbook(path)
    for sht in wb.sheets():
        print(f"  sheet {sht.name!r} {sht.nrows}x{sht.ncols}")
        for r in range(sht.nrows):
            for c in range(sht.ncols):
                cell = sht.cell(r, c)
                if cell.ctype != xlrd.XL_CELL_EMPTY:
                    print(f"    [{r},{c}] ctype={cell.ctype} value={cell.value!r}")


def describe(iso):
    out = [type(iso).__name__, repr(iso.to_dict())]
    out.append(repr([(k, type(v).__name__) for k, v in iso.to_dict().items()]))
    model = getattr(iso, "model", None)
    if model is not None:
        out.append(
            repr((
                model.name, model.rmse, model.pressure_range, model.loading_range,
                list(model.params.items())
            ))
        )
    if hasattr(iso, "data_raw"):
        out.append(iso.data_raw.to_csv())
        out.append(repr(iso.data_raw.dtypes.to_dict()))
    return "\n".join(out)


META = dict(
    material="mat",
    adsorbate="N2",
    temperature=77.0,
    pressure_mode="absolute",
    pressure_unit="bar",
    loading_basis="molar",
    loading_unit="mmol",
    material_basis="mass",
    material_unit="g",
    temperature_unit="K",
)


def trip(iso, *extra):
    path = newpath()
    print("  to_xl returned", repr(isotherm_to_xl(iso, path)))
    dump_workbook(path)
    back = isotherm_from_xl(path, *extra)
    print(describe(back))
    return back == iso


print("=== metadata-only isotherms with a spread of other keys")
OTHER_SETS = {
    "none": {},
    "plain": dict(a_float=1.25, an_int=3, a_str="some text", a_true=True, a_false=False),
    "falsy": dict(zero=0, zerof=0.0, empty="", none=None),
    "order": dict(z=1, y=2, x=3, w=4, v=5),
    "numpy": dict(npf=numpy.float64(2.5), npi=numpy.int64(7)),
    "npbool": dict(npb=numpy.bool_(True)),
    "big": dict(big=1e300, small=1e-300, neg=-5.5, nan=float("nan"), inf=float("inf")),
    "unicode": dict(name="naïve ünicode ✓", spaced="  padded  "),
    "long": dict(long="x" * 40000),
    "list": dict(ok=1, alist=[1, 2, 3], after=2),
    "tuple": dict(atuple=(1, 2)),
    "dict": dict(adict={"a": 1}),
    "date": dict(when=datetime.datetime(2020, 1, 2, 3, 4, 5)),
    "spacekey": {
        "key with space": 1,
        "_material_like": "no"
    },
}
for name, other in OTHER_SETS.items():
    show(name, lambda other=other: trip(BaseIsotherm(**META, **other)))

print("=== material given with properties")
show(
    "material dict",
    lambda: trip(BaseIsotherm(**{
        **META, "material": {
            "name": "mm",
            "density": 2.5,
            "batch": "b7",
            "flag": True
        }
    }, k=1))
)

print("=== point isotherms")


def point(**kw):
    return pygaps.PointIsotherm(
        pressure=[0.1, 0.2, 0.3, 0.2, 0.1],
        loading=[1, 2, 3.123456789123, 2.5, 1.5],
        **META,
        **kw,
    )


show("point plain", lambda: trip(point(flag=True, x=1.5)))


def point_other():
    data = pandas.DataFrame({
        "p": [1.0, 2.0, 3.0, 2.5],
        "l": [0.5, 0.7, 0.9, 0.8],
        "enthalpy": [10.0, 9.5, 9.0, 9.2],
        "count": [1, 2, 3, 4],
        "tag": ["alpha", "b", "c", "d"],
    })
    iso = pygaps.PointIsotherm(
        isotherm_data=data,
        pressure_key="p",
        loading_key="l",
        other_keys=["enthalpy", "count", "tag"],
        **META,
        comment="with other keys",
        done=False
    )
    return trip(iso)


show("point other keys", point_other)
show("point overrides", lambda: trip(point(x=1), ("temperature", 100.0), ("x", 2)))
show("point overrides list of pairs", lambda: trip(point(x=1), [("temperature", 100.0), ("x", 2)]))
show("point overrides dict", lambda: trip(point(x=1), {"newkey": "v"}))
show("point bad override", lambda: trip(point(x=1), "ab"))

print("=== model isotherms")
for md in [
    dict(name="Henry", rmse=0.0, pressure_range=[0.0, 1.0], loading_range=[0.0, 3.0], parameters={"K": 3.0}),
    dict(
        name="DSLangmuir",
        rmse=1e-12,
        pressure_range=[1e-5, 1e5],
        loading_range=[0, 1e3],
        parameters={"n_m1": 1.0, "K1": 2.0, "n_m2": 3.0, "K2": 4.0}
    ),
]:
    show(
        md["name"], lambda md=md: trip(
            pygaps.ModelIsotherm(model=model_from_dict(dict(md)), **META, extra=1.5, ok=True, nothing=None)
        )
    )

print("=== not an isotherm")
show("to_xl of a string", lambda: isotherm_to_xl("nope", newpath()))

print("=== hand-made workbooks")


def make(other_rows=None, sheetnames=("data", "otherdata"), kind="metadata", widen=False):
    wb = xlwt.Workbook()
    sht = wb.add_sheet(sheetnames[0])
    values = dict(META)
    for field in _META_DICT.values():
        sht.write(field["row"], 0, field["text"][0])
        if field["name"] in values:
            sht.write(field["row"], 1, values[field["name"]])
    sht.write(_META_DICT["isotherm_data"]["row"], 1, kind)
    if len(sheetnames) > 1:
        osht = wb.add_sheet(sheetnames[1])
        for r, row in enumerate(other_rows or []):
            for c, val in enumerate(row):
                if val is not SKIP:
                    if isinstance(val, xlwt.Formula) or not isinstance(val, tuple):
                        osht.write(r, c, val)
                    else:
                        osht.write(r, c, val[0], val[1])
        if widen:
            osht.write(0, 3, "far away")
    path = newpath()
    wb.save(path)
    return path


SKIP = object()
DATE_STYLE = xlwt.easyxf(num_format_str="YYYY-MM-DD")
BOOK_ROWS = {
    "typical": [["file_version", "3.0"], ["alpha", 1.5], ["beta", True], ["gamma", False], ["delta", "text"], ["temperature_unit", "K"]],
    "numeric version": [["file_version", 3.0], ["alpha", 1]],
    "old version": [["file_version", "2.0"], ["alpha", 1]],
    "no version": [["alpha", 1]],
    "bad version": [["file_version", "abc"], ["alpha", 1]],
    "blank value": [["file_version", "3.0"], ["alpha", SKIP], ["beta", 2]],
    "blank value widened": [["file_version", "3.0"], ["alpha", SKIP], ["beta", 2]],
    "empty string value": [["file_version", "3.0"], ["alpha", ""], ["beta", 2]],
    "gap in names": [["file_version", "3.0"], ["alpha", 1], [SKIP, 5], ["beta", 2]],
    "empty string name": [["file_version", "3.0"], ["alpha", 1], ["", 5], ["beta", 2]],
    "first name missing": [[SKIP, 1], ["file_version", "3.0"]],
    "single column": [["file_version"], ["alpha"]],
    "duplicate names": [["file_version", "3.0"], ["alpha", 1], ["alpha", 2]],
    "numeric name": [["file_version", "3.0"], [5, 1]],
    "bool name": [["file_version", "3.0"], [True, 1]],
    "date value": [["file_version", "3.0"], ["when", (datetime.date(2021, 5, 6), DATE_STYLE)]],
    "formula value": [["file_version", "3.0"], ["calc", xlwt.Formula("1+2")]],
    "bool as int one": [["file_version", "3.0"], ["flag", 1], ["flag2", 0]],
    "iso_id dropped": [["file_version", "3.0"], ["iso_id", "abc"], ["alpha", 1]],
    "material props": [["file_version", "3.0"], ["_material_density", 2.0], ["_material_ok", True], ["_material_blank", SKIP]],
    "overrides main": [["file_version", "3.0"], ["temperature", 300.0], ["material", "other"]],
    "empty sheet": [],
}
for name, rows in BOOK_ROWS.items():

    def run(rows=rows, name=name):
        path = make(rows, widen=name.endswith("widened"))
        dump_workbook(path)
        return describe(isotherm_from_xl(path))

    show(name, run)

show("no otherdata sheet", lambda: describe(isotherm_from_xl(make(sheetnames=("data", )))))
show(
    "otherdata under another name",
    lambda: describe(isotherm_from_xl(make([["file_version", "3.0"], ["alpha", 1]], sheetnames=("data", "Otherdata"))))
)
show(
    "first sheet not called data",
    lambda: describe(isotherm_from_xl(make([["file_version", "3.0"], ["alpha", 1]], sheetnames=("Sheet1", "otherdata"))))
)
show(
    "otherdata is the first sheet",
    lambda: describe(isotherm_from_xl(make([["file_version", "3.0"]], sheetnames=("otherdata", )))),
)
show("missing file", lambda: isotherm_from_xl(os.path.join(TMP, "nothing.xls")))
show("unwritable path", lambda: isotherm_to_xl(BaseIsotherm(**META), os.path.join(TMP, "nodir", "x.xls")))
shutil.rmtree(TMP)
