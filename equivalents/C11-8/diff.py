"""Differential script for change 4: Langmuir family (single, double, triple site) loading / spreading pressure."""
import itertools
import warnings

import numpy

import pygaps
from pygaps.modelling import get_isotherm_model

warnings.simplefilter("ignore")


def fmt(x):
    if isinstance(x, (list, tuple)):
        return "[" + ", ".join(fmt(v) for v in x) + "]"
    if isinstance(x, numpy.ndarray):
        if x.ndim == 0:
            return "arr0(" + fmt(x.item()) + ")"
        return "arr[" + ", ".join(fmt(v) for v in x.tolist()) + "]"
    if isinstance(x, (float, numpy.floating)):
        return f"{float(x):.12g}"
    if isinstance(x, (int, numpy.integer)):
        return f"int:{int(x)}"
    return f"{type(x).__name__}:{x!r}"


def run(label, fun, *args, **kwargs):
    try:
        res = fun(*args, **kwargs)
        out = type(res).__name__ + " " + fmt(res)
    except Exception as err:  # noqa
        out = f"EXC {type(err).__name__}: {' '.join(str(err).split())}"
    print(f"{label} -> {out}")


NM = [0.0, 0.3, 7.0, 1e6]
KS = [0.0, 1e-9, 0.7, 45.0, 1e12]
rng = numpy.random.default_rng(4)

PARAMS = {"Langmuir": [], "DSLangmuir": [], "TSLangmuir": []}
for n_m, K in itertools.product(NM, KS):
    PARAMS["Langmuir"].append(dict(n_m=n_m, K=K))
for _ in range(20):
    nm = rng.choice(NM, 3)
    ks = rng.choice(KS, 3)
    PARAMS["DSLangmuir"].append(dict(n_m1=nm[0], K1=ks[0], n_m2=nm[1], K2=ks[1]))
    PARAMS["TSLangmuir"].append(dict(n_m1=nm[0], K1=ks[0], n_m2=nm[1], K2=ks[1], n_m3=nm[2], K3=ks[2]))
for _ in range(15):
    nm = rng.uniform(0, 10, 3)
    ks = 10**rng.uniform(-4, 4, 3)
    PARAMS["Langmuir"].append(dict(n_m=float(nm[0]), K=float(ks[0])))
    PARAMS["DSLangmuir"].append(dict(n_m1=float(nm[0]), K1=float(ks[0]), n_m2=float(nm[1]), K2=float(ks[1])))
    PARAMS["TSLangmuir"].append(
        dict(n_m1=float(nm[0]), K1=float(ks[0]), n_m2=float(nm[1]), K2=float(ks[1]), n_m3=float(nm[2]), K3=float(ks[2]))
    )
# numpy scalar parameters (as produced by a fit), negative (out of bounds) ones, nan
PARAMS["Langmuir"] += [dict(n_m=numpy.float64(3.1), K=numpy.float64(2.2)), dict(n_m=-1.0, K=2.0), dict(n_m=2.0, K=-3.0)]
PARAMS["DSLangmuir"] += [
    dict(n_m1=numpy.float64(3.1), K1=numpy.float64(2.2), n_m2=numpy.float64(0.4), K2=numpy.float64(90.0)),
    dict(n_m1=-1.0, K1=2.0, n_m2=-0.0, K2=1.0),
    dict(n_m1=1.0, K1=-2.0, n_m2=2.0, K2=float("nan")),
]
PARAMS["TSLangmuir"] += [
    dict(
        n_m1=numpy.float64(3.1), K1=numpy.float64(2.2), n_m2=numpy.float64(0.4), K2=numpy.float64(90.0),
        n_m3=numpy.float64(1.4), K3=numpy.float64(0.01)
    ),
    dict(n_m1=-1.0, K1=2.0, n_m2=-0.0, K2=1.0, n_m3=-2.0, K3=0.0),
    dict(n_m1=1.0, K1=-2.0, n_m2=2.0, K2=float("nan"), n_m3=1.0, K3=float("inf")),
]

PRESSURES = [
    0.0, -0.0, 1e-300, 1e-9, 0.004, 0.1, 0.5, 1.0, 33.3, 1e5, 1e300, -0.01, -5.0,
    numpy.float64(0.25), numpy.asarray(0.35), numpy.float32(0.125), 2, True,
    numpy.array([0.0, 0.01, 0.5, 20.0]), [0.1, 0.2], numpy.array([[0.1, 0.2], [1.0, 2.0]]), numpy.array([]),
    None, "a", float("nan"), float("inf"), 0.5 + 0.5j,
]

for name, plist in PARAMS.items():
    for params in plist:
        model = get_isotherm_model(name, parameters=dict(params))
        for p in PRESSURES:
            run(f"{name} {params} sp({p!r})", model.spreading_pressure, p)
            run(f"{name} {params} l({p!r})", model.loading, p)
    blank = get_isotherm_model(name)
    run(f"{name} blank sp", blank.spreading_pressure, 0.3)
    run(f"{name} blank l", blank.loading, 0.3)

# inverse functions rely on loading()
for name, plist in PARAMS.items():
    for params in plist[-18:-3]:
        model = get_isotherm_model(name, parameters=dict(params))
        total = sum(v for k, v in params.items() if k.startswith("n_m"))
        for frac in (0.0, 0.1, 0.5, 0.9):
            run(f"{name} {params} p({frac}*ntot)", model.pressure, frac * total)
        run(f"{name} {params} p(vec)", model.pressure, numpy.array([0.1, 0.4]) * total)

# fitting uses loading(); the fitted parameters must be the same
pygaps.MATERIAL_LIST.append(pygaps.Material("EQMAT", density=2.0, molar_mass=10.0))
BASE = dict(
    material="EQMAT",
    adsorbate="N2",
    temperature=77.0,
    material_basis="mass",
    material_unit="g",
    loading_basis="molar",
    loading_unit="mmol",
    pressure_mode="absolute",
    pressure_unit="bar",
)
press = numpy.array([0.001, 0.005, 0.01, 0.03, 0.07, 0.1, 0.2, 0.35, 0.5, 0.7, 0.9])
load = 3.0 * 80 * press / (1 + 80 * press) + 4.0 * 1.5 * press / (1 + 1.5 * press)
for name in PARAMS:
    try:
        iso = pygaps.ModelIsotherm(pressure=press, loading=load, model=name, **BASE)
        print(name, "fit", {k: fmt(v) for k, v in iso.model.params.items()}, fmt(iso.model.rmse))
        for kw in (dict(), dict(pressure_unit="Pa"), dict(pressure_mode="relative")):
            for p in (0.0, 0.02, 0.4, 0.95, 3e4):
                run(f"{name} fit spa({p}) {kw}", iso.spreading_pressure_at, p, **kw)
                run(f"{name} fit la({p}) {kw}", iso.loading_at, p, **kw)
    except Exception as err:  # noqa
        print(name, "fit EXC", type(err).__name__, " ".join(str(err).split()))

# IAST on the Langmuir family
try:
    from pygaps.iast import pgiast
    isos = []
    for name, par, ads in (
        ("DSLangmuir", dict(n_m1=2.0, K1=30.0, n_m2=5.0, K2=0.7), "N2"),
        ("TSLangmuir", dict(n_m1=2.0, K1=3.0, n_m2=1.0, K2=0.2, n_m3=0.5, K3=50.0), "CO2"),
        ("Langmuir", dict(n_m=4.0, K=1.2), "CH4"),
    ):
        model = get_isotherm_model(name, parameters=par, pressure_range=(0.001, 5), loading_range=(0.0, 8.0))
        isos.append(pygaps.ModelIsotherm(model=model, **{**BASE, "adsorbate": ads, "temperature": 298.0}))
    for y in ([0.1, 0.6, 0.3], [0.5, 0.25, 0.25], [0.85, 0.05, 0.1]):
        for ptot in (0.5, 2.0):
            run(f"iast y={y} p={ptot}", pgiast.iast_point_fraction, isos, y, ptot)
except ImportError as err:
    print("no iast", err)
