"""Differential script for change 2: pygaps.characterisation.psd_kernel.psd_dft_kernel_fit."""
import os
import shutil
import sys

HERE = os.path.dirname(os.path.abspath(__file__))
sys.path.insert(0, HERE)

import numpy
import pandas
from common import run

import pygaps.characterisation.psd_kernel as psdk
from pygaps.data import KERNELS

TMP = os.path.join(HERE, "tmp_kernels2")
shutil.rmtree(TMP, ignore_errors=True)
os.makedirs(TMP)

SHIPPED = KERNELS['DFT-N2-77K-carbon-slit']
raw = pandas.read_csv(SHIPPED, index_col=0)
kp = raw.index.to_numpy()  # kernel pressures
widths = numpy.asarray(raw.columns, dtype='float64')
NW = len(widths)
rng = numpy.random.default_rng(20240518)
fit = psdk.psd_dft_kernel_fit


def synth(pressure, weights, path=SHIPPED):
    kernel = psdk._load_kernel(path)
    pts = numpy.asarray([kernel[s](pressure) for s in kernel])
    return (pts * numpy.asarray(weights)[:, None]).sum(axis=0)


def sparse_w(n, scale=1.0):
    w = numpy.zeros(NW)
    idx = rng.choice(NW, size=n, replace=False)
    w[idx] = rng.random(n) * scale
    return w


def write(name, text):
    path = os.path.join(TMP, name)
    with open(path, "w", encoding="utf8", newline="") as fp:
        fp.write(text)
    return path


grids = {
    "kernel-grid": kp[::4],
    "kernel-grid-full": kp,
    "log40": numpy.logspace(-6, numpy.log10(0.99), 40),
    "lin25": numpy.linspace(0.001, 0.99, 25),
    "low-only": numpy.logspace(-6, -3, 15),
    "high-only": numpy.linspace(0.3, 0.95, 12),
}

# 1 - exact non-negative combinations, sparse and dense, all spline orders
case = 0
for gname, grid in grids.items():
    for wname, w in (
        ("sparse1", sparse_w(1)),
        ("sparse3", sparse_w(3, 0.2)),
        ("dense", rng.random(NW) * 0.02),
    ):
        order = case % 4
        case += 1
        load = synth(grid, w)
        run(f"exact {gname} {wname} order={order}", fit, grid, load, SHIPPED, order)

# same data through all orders (positional and keyword, default)
grid = grids["log40"]
w = sparse_w(4, 0.3)
load = synth(grid, w)
for order in (0, 1, 2, 3):
    run(f"orders order={order}", fit, grid, load, SHIPPED, bspline_order=order)
run("orders default", fit, grid, load, SHIPPED)
run("orders order=5", fit, grid, load, SHIPPED, 5)
run("orders order=-1", fit, grid, load, SHIPPED, -1)

# 2 - non-exact data
noisy = load * (1 + 0.02 * rng.standard_normal(len(load)))
run("noisy", fit, grid, noisy, SHIPPED)
run("all zero loading", fit, grid, numpy.zeros(len(grid)), SHIPPED)
run("negative loading", fit, grid, -load, SHIPPED)
run("constant loading", fit, grid, numpy.full(len(grid), 5.0), SHIPPED)
run("huge loading", fit, grid, load * 1e6, SHIPPED)
run("tiny loading", fit, grid, load * 1e-9, SHIPPED)
run("descending pressure", fit, grid[::-1], load[::-1], SHIPPED)
run("unsorted pressure", fit, grid[[3, 0, 7, 1, 20, 11, 39, 5]], load[[3, 0, 7, 1, 20, 11, 39, 5]], SHIPPED)
run("repeated pressure", fit, numpy.repeat(grid[::5], 2), numpy.repeat(load[::5], 2), SHIPPED)

# 3 - container types and sizes
run("lists", fit, list(grid), list(load), SHIPPED)
run("tuples", fit, tuple(grid[::2]), tuple(load[::2]), SHIPPED, 1)
run("series", fit, pandas.Series(grid), pandas.Series(load), SHIPPED)
run("series odd index", fit, pandas.Series(grid, index=range(5, 45)), pandas.Series(load, index=range(5, 45)), SHIPPED)
run("list pressure array loading", fit, list(grid), load, SHIPPED, 3)
run("int loading", fit, grid, numpy.round(load).astype(int), SHIPPED)
run("float32", fit, grid.astype('float32'), load.astype('float32'), SHIPPED)
run("one point", fit, grid[20:21], load[20:21], SHIPPED)
run("two points", fit, grid[[5, 30]], load[[5, 30]], SHIPPED)
run("three points", fit, grid[[5, 20, 30]], load[[5, 20, 30]], SHIPPED, 0)
run("pressure zero included", fit, numpy.r_[0.0, grid], numpy.r_[0.0, load], SHIPPED)
run("pressure at kernel max", fit, numpy.r_[grid, kp[-1]], synth(numpy.r_[grid, kp[-1]], w), SHIPPED)
run("str kernel path", fit, grid, load, str(SHIPPED))

# 4 - error paths
run("empty", fit, [], [], SHIPPED)
run("empty arrays", fit, numpy.array([]), numpy.array([]), SHIPPED)
run("empty pressure only", fit, [], [1.0], SHIPPED)
run("length mismatch", fit, grid, load[:-1], SHIPPED)
run("length mismatch missing kernel", fit, grid, load[:-1], os.path.join(TMP, "nope.csv"))
run("pressure above range", fit, numpy.r_[grid, 0.9999], numpy.r_[load, load[-1]], SHIPPED)
run("pressure way above range", fit, grid * 10, load, SHIPPED)
run("pressure negative", fit, numpy.r_[-0.01, grid], numpy.r_[0, load], SHIPPED)
run("pressure nan", fit, numpy.r_[grid[:5], numpy.nan, grid[5:]], numpy.r_[load[:5], 1.0, load[5:]], SHIPPED)
run("loading nan", fit, grid, numpy.r_[load[:5], numpy.nan, load[6:]], SHIPPED)
run("loading inf", fit, grid, numpy.r_[load[:5], numpy.inf, load[6:]], SHIPPED)
run("pressure None", fit, None, load, SHIPPED)
run("loading None", fit, grid, None, SHIPPED)
run("scalar pressure", fit, 0.5, 1.0, SHIPPED)
run("missing kernel file", fit, grid, load, os.path.join(TMP, "nope.csv"))
run("kernel None", fit, grid, load, None)
run("kernel name (not path)", fit, grid, load, 'DFT-N2-77K-carbon-slit')
run("text pressure", fit, ["a", "b"], [1.0, 2.0], SHIPPED)
run("2d loading", fit, grid, numpy.vstack([load, load]).T, SHIPPED)
run("bad spline order", fit, grid, load, SHIPPED, "2")
run("float spline order", fit, grid, load, SHIPPED, 2.0)
run("None spline order", fit, grid, load, SHIPPED, None)


# 5 - user supplied kernels
def lang(p, wd):
    return 10 * wd * p / (p + 0.01 * wd**3)


def table(pressures, wds, header=None):
    lines = ["," + ",".join(header or [str(x) for x in wds])]
    for p in pressures:
        lines.append(f"{p:.6g}," + ",".join(f"{lang(p, x):.9g}" for x in wds))
    return "\n".join(lines) + "\n"


up = numpy.logspace(-5, 0, 30)
user4 = write("user4.csv", table(up, [0.5, 1.0, 2.0, 4.0]))
user1 = write("user1.csv", table(up, [0.7]))
user2 = write("user2.csv", table(up, [0.7, 1.5]))
user12 = write("user12.csv", table(up, numpy.round(numpy.linspace(0.4, 5, 12), 3)))
usertxt = write("usertxt.csv", table(up, [1, 2], header=["small", "large"]))
userdesc = write("userdesc.csv", table(up, [4.0, 2.0, 1.0, 0.5]))
userdup = write("userdup.csv", table(up, [1.0, 1.0, 2.0], header=["1", "1", "2"]))
userempty = write("userempty.csv", "\n0.1\n0.2\n0.3\n0.4\n")
ug = numpy.logspace(-4.5, -0.1, 20)
for name, path, wts in (
    ("user4", user4, [0.3, 0.0, 1.2, 0.0]),
    ("user4 dense", user4, [0.3, 0.1, 1.2, 0.7]),
    ("user1", user1, [0.8]),
    ("user2", user2, [0.8, 0.1]),
    ("user12", user12, list(rng.random(12))),
    ("userdesc", userdesc, [0.3, 0.0, 1.2, 0.0]),
    ("userdup", userdup, [0.3, 0.0, 1.2]),
):
    uload = synth(ug, wts, path)
    for order in (0, 1, 2, 3):
        run(f"{name} order={order}", fit, ug, uload, path, order)
    run(f"{name} out of range", fit, ug * 2, uload, path)
run("usertxt", fit, ug, synth(ug, [1.0, 0.5], usertxt), usertxt)
run("usertxt out of range", fit, ug * 2, synth(ug, [1.0, 0.5], usertxt), usertxt)
run("userempty n=1", fit, [0.2], [1.0], userempty)
run("userempty n=3", fit, [0.2, 0.3, 0.35], [1.0, 2.0, 3.0], userempty)
run("userempty out of range", fit, [0.2, 3.0], [1.0, 2.0], userempty)

# 6 - the inputs are not modified
g2, l2 = grid.copy(), load.copy()
fit(g2, l2, SHIPPED)
print("inputs untouched:", numpy.array_equal(g2, grid), numpy.array_equal(l2, load))
print("cache size:", len(psdk._LOADED))

shutil.rmtree(TMP, ignore_errors=True)
