"""Differential script for change 1: PointIsotherm.pressure / loading / other_data (limit selection)."""
import warnings

warnings.filterwarnings('ignore')

import numpy
import pandas

import pygaps
from pygaps.utilities.pygaps_utilities import get_iso_loading_and_pressure_ordered


# ---------------------------------------------------------------- canonical output
def num(x):
    if isinstance(x, (bool, numpy.bool_)):
        return repr(bool(x))
    if isinstance(x, (int, numpy.integer)):
        return repr(int(x))
    if isinstance(x, (float, numpy.floating)):
        return f"{float(x):.12g}"
    return repr(x)


def fmt(x):
    if isinstance(x, pandas.DataFrame):
        return "DataFrame(cols=%r, index=%r, rows=[%s])" % (
            list(x.columns), list(x.index), "; ".join(fmt(x[c].values) for c in x.columns)
        )
    if isinstance(x, pandas.Series):
        return "Series(name=%r, dtype=%s, index=%r, values=%s)" % (
            x.name, x.dtype, list(x.index), fmt(x.values)
        )
    if isinstance(x, numpy.ndarray):
        return "array(shape=%r, dtype=%s, [%s])" % (
            x.shape, x.dtype, ", ".join(num(v) for v in x.ravel().tolist())
        )
    if isinstance(x, (tuple, list)):
        return type(x).__name__ + "(" + ", ".join(fmt(v) for v in x) + ")"
    return num(x)


def run(label, fn):
    try:
        print(label, "->", fmt(fn()))
    except Exception as e:  # noqa
        print(label, "-> EXC", type(e).__name__, str(e))


# ---------------------------------------------------------------- set up
pygaps.ADSORBATE_LIST.append(
    pygaps.Adsorbate(
        name='TA', alias=['ta1', 'ta2', 'ta'], formula='TA21', backend_name='NITROGEN',
        molar_mass=28.01348, liquid_density=0.806, gas_density=0.00461214,
        saturation_pressure=101325,
    )
)
pygaps.MATERIAL_LIST.append(pygaps.Material(name='TEST', density=2.0, molar_mass=10.0))

PARAMS = dict(
    material='TEST', temperature=100.0, adsorbate='TA',
    material_basis='mass', material_unit='g',
    loading_basis='molar', loading_unit='mmol',
    pressure_mode='absolute', pressure_unit='bar', temperature_unit='K',
)


def frame(index=None):
    return pandas.DataFrame({
        "pressure": [1.0, 2.0, 3.0, 4.0, 5.0, 6.0, 4.5, 2.5],
        "loading": [1.0, 2.2, 3.1, 4.4, 5.0, 6.5, 4.7, 2.9],
        "enthalpy": [5.2, 5.1, 5.0, 5.0, 5.0, 5.0, 4.0, 4.0],
        "text_data": ["a", "b", "c", "d", "e", "f", "g", "h"],
    }, index=index)


def make(index=None, branch='guess', **over):
    par = dict(PARAMS)
    par.update(over)
    return pygaps.PointIsotherm(
        isotherm_data=frame(index), loading_key='loading', pressure_key='pressure',
        branch=branch, **par
    )


ISOS = {
    'std': make(),
    'lbl': make(index=list("hgfedcba")),
    'shuf': make(index=[7, 3, 5, 1, 0, 2, 6, 4]),
    'onlyads': make(branch='ads'),
    'onlydes': make(branch='des'),
    'marks': make(branch=[False, False, True, True, False, False, True, True]),
}
conv = make()
conv.convert(
    pressure_mode='relative', loading_basis='fraction', material_basis='volume', material_unit='cm3'
)
ISOS['conv'] = conv
pa = make()
pa.convert(pressure_unit='Pa', loading_basis='mass', loading_unit='mg', material_unit='kg')
ISOS['pa_mg_kg'] = pa
nan_iso = pygaps.PointIsotherm(
    pressure=[1.0, 2.0, numpy.nan, 4.0, 3.0], loading=[1.0, numpy.nan, 3.0, 4.0, 2.0], **PARAMS
)
ISOS['nan'] = nan_iso

BRANCHES = [None, 'ads', 'des', 'all', 'all-nol', 'bad', '']
LIMITS = [
    None, (None, None), (2.3, 5.0), (None, 3.0), (3.0, None), (5.0, 2.0), (2.0, 2.0), (), [],
    [2.0, 4.5], (2.0, ), (1.0, 3.0, 99.0), (-numpy.inf, numpy.inf), (0, 0), (numpy.nan, 3.0),
    numpy.array([2.0, 4.0]), ('a', 'b'), (0.0, None), (None, 0.0), 3.0,
]
P_KW = [
    {}, {'pressure_unit': 'Pa'}, {'pressure_unit': 'torr'}, {'pressure_mode': 'relative'},
    {'pressure_mode': 'relative%'}, {'pressure_mode': 'relative', 'pressure_unit': 'Pa'},
    {'pressure_mode': 'absolute', 'pressure_unit': 'kPa'}, {'pressure_unit': 'bad'},
    {'pressure_mode': 'bad'}, {'pressure_mode': 'absolute'},
]
L_KW = [
    {}, {'loading_unit': 'mol'}, {'loading_basis': 'volume_gas', 'loading_unit': 'cm3'},
    {'material_unit': 'kg'}, {'material_basis': 'volume', 'material_unit': 'cm3'},
    {'loading_basis': 'fraction'}, {'loading_basis': 'percent'},
    {'loading_basis': 'fraction', 'material_basis': 'molar', 'material_unit': 'mmol'},
    {'loading_basis': 'fraction', 'material_basis': 'volume', 'material_unit': 'cm3'},
    {'loading_basis': 'mass', 'loading_unit': 'kg', 'material_basis': 'volume', 'material_unit': 'm3'},
    {'loading_basis': 'molar', 'loading_unit': 'mmol', 'material_basis': 'mass', 'material_unit': 'g'},
    {'loading_basis': 'volume_liquid', 'loading_unit': 'cm3'},
    {'loading_unit': 'bad'}, {'loading_basis': 'bad'}, {'material_basis': 'volume'},
    {'material_unit': 'bad'}, {'loading_basis': 'mass'},
]

for name, iso in ISOS.items():
    run(f"[{name}] data_raw", lambda: iso.data())
    for br in BRANCHES:
        for indexed in (False, True):
            run(f"[{name}] pressure br={br!r} idx={indexed}", lambda: iso.pressure(branch=br, indexed=indexed))
            run(f"[{name}] loading br={br!r} idx={indexed}", lambda: iso.loading(branch=br, indexed=indexed))
            run(
                f"[{name}] other enthalpy br={br!r} idx={indexed}",
                lambda: iso.other_data('enthalpy', branch=br, indexed=indexed)
            )
    for lim in LIMITS:
        for br in (None, 'ads', 'des'):
            for indexed in (False, True):
                run(
                    f"[{name}] pressure br={br!r} lim={lim!r} idx={indexed}",
                    lambda: iso.pressure(branch=br, limits=lim, indexed=indexed)
                )
                run(
                    f"[{name}] loading br={br!r} lim={lim!r} idx={indexed}",
                    lambda: iso.loading(branch=br, limits=lim, indexed=indexed)
                )
                if name != 'nan':
                    run(
                        f"[{name}] enthalpy br={br!r} lim={lim!r} idx={indexed}",
                        lambda: iso.other_data('enthalpy', branch=br, limits=lim, indexed=indexed)
                    )
    for kw in P_KW:
        for br in (None, 'ads', 'des'):
            run(f"[{name}] pressure br={br!r} {kw}", lambda: iso.pressure(branch=br, **kw))
        run(f"[{name}] pressure lim {kw}", lambda: iso.pressure(limits=(0.2, 300000.0), indexed=True, **kw))
        run(f"[{name}] pressure lim2 {kw}", lambda: iso.pressure(branch='des', limits=(None, 30.0), **kw))
    for kw in L_KW:
        for br in (None, 'ads', 'des'):
            run(f"[{name}] loading br={br!r} {kw}", lambda: iso.loading(branch=br, **kw))
        run(f"[{name}] loading lim {kw}", lambda: iso.loading(limits=(0.05, 3.0), indexed=True, **kw))
        run(f"[{name}] loading lim2 {kw}", lambda: iso.loading(branch='ads', limits=(3.0, None), **kw))
    if name != 'nan':
        run(f"[{name}] other_keys", lambda: iso.other_keys)
        for key in ('text_data', 'missing', 'pressure', 'branch', None, 3):
            run(f"[{name}] other {key!r}", lambda: iso.other_data(key))
            run(f"[{name}] other {key!r} idx", lambda: iso.other_data(key, branch='des', indexed=True))
            run(f"[{name}] other {key!r} lim", lambda: iso.other_data(key, limits=(4.5, 5.1)))
            run(f"[{name}] other {key!r} lim str", lambda: iso.other_data(key, limits=('b', 'e'), indexed=True))
    else:
        run(f"[{name}] other", lambda: iso.other_data('enthalpy'))
    for br in ('ads', 'des'):
        run(f"[{name}] has_branch {br}", lambda: iso.has_branch(br))
        run(
            f"[{name}] ordered {br}",
            lambda: get_iso_loading_and_pressure_ordered(
                iso, br, {'loading_basis': 'molar', 'loading_unit': 'mol'}, {'pressure_mode': 'relative'}
            )
        )

# the returned objects when nothing is selected / nothing is converted
iso = ISOS['std']
run("identity: data() is data_raw", lambda: iso.data() is iso.data_raw)
run("identity: data('all') is data_raw", lambda: iso.data('all') is iso.data_raw)
run("type indexed", lambda: type(iso.pressure(indexed=True, limits=(2, 3))).__name__)
run("type array", lambda: type(iso.loading(limits=(2, 3))).__name__)
run("data_raw unchanged", lambda: iso.data_raw)
