import hashlib
import logging
import warnings

import numpy

import pygaps
import pygaps.iast.pgiast as pgi
import pygaps.modelling as pgm
from pygaps.core.modelisotherm import ModelIsotherm
from pygaps.core.pointisotherm import PointIsotherm

assert pygaps.__file__.startswith("/tmp/eq/C13/src"), pygaps.__file__

UNITS = dict(
    pressure_mode="absolute",
    pressure_unit="bar",
    material_basis="mass",
    material_unit="g",
    loading_basis="molar",
    loading_unit="mmol",
    temperature_unit="K",
)


# ---------------------------------------------------------------- canonical text
def fmt(obj):
    """Canonical text of a result: floats with 12 significant digits."""
    if isinstance(obj, dict):
        return "{" + ", ".join(f"{k!r}: {fmt(v)}" for k, v in obj.items()) + "}"
    if isinstance(obj, tuple):
        return "(" + ", ".join(fmt(v) for v in obj) + ")"
    if isinstance(obj, list):
        return "[" + ", ".join(fmt(v) for v in obj) + "]"
    if isinstance(obj, numpy.ndarray):
        if obj.ndim == 0:
            return f"arr0<{obj.dtype}>({fmt(obj.item())})"
        return f"arr<{obj.dtype},{obj.shape}>[" + ", ".join(fmt(v) for v in obj.tolist()) + "]"
    if isinstance(obj, (bool, numpy.bool_)):
        return f"{type(obj).__name__}:{bool(obj)}"
    if isinstance(obj, (float, numpy.floating)):
        return f"{type(obj).__name__}:{float(obj):.12g}"
    if isinstance(obj, (int, numpy.integer)):
        return f"{type(obj).__name__}:{int(obj)}"
    return f"{type(obj).__name__}:{obj!r}"


# ---------------------------------------------------------------- log capture
class _ListHandler(logging.Handler):
    def __init__(self):
        super().__init__(level=logging.DEBUG)
        self.records = []

    def emit(self, record):
        self.records.append(f"{record.levelname}|{record.getMessage()}")


LOGS = _ListHandler()
pygaps.logger.addHandler(LOGS)
pygaps.logger.setLevel(logging.DEBUG)
for _h in list(pygaps.logger.handlers):
    if _h is not LOGS:
        pygaps.logger.removeHandler(_h)
pygaps.logger.propagate = False

# ---------------------------------------------------------------- call trace
TRACE = []


def _traced(cls, name):
    original = getattr(cls, name)

    def wrapper(self, pressure, *args, **kwargs):
        try:
            ptxt = fmt(numpy.asarray(pressure, dtype=float))
        except Exception:  # pragma: no cover
            ptxt = repr(pressure)
        TRACE.append(f"{getattr(self, '_tag', '?')}.{name}({ptxt}, {args!r}, {sorted(kwargs.items())!r})")
        return original(self, pressure, *args, **kwargs)

    setattr(cls, name, wrapper)


for _cls in (ModelIsotherm, PointIsotherm):
    for _name in ("spreading_pressure_at", "loading_at"):
        _traced(_cls, _name)


# ---------------------------------------------------------------- runner
def run(label, func, *args, **kwargs):
    LOGS.records.clear()
    TRACE.clear()
    print(f"=== {label}")
    with warnings.catch_warnings(record=True) as caught:
        warnings.simplefilter("always")
        try:
            result = func(*args, **kwargs)
            print("  result:", fmt(result))
        except BaseException as err:  # noqa
            print(f"  raised: {type(err).__name__}: {str(err)!r}")
    for rec in LOGS.records:
        print("  log:", repr(rec))
    for w in caught:
        print(f"  warning: {w.category.__name__}: {str(w.message)!r}")
    digest = hashlib.sha1("\n".join(TRACE).encode()).hexdigest()
    print(f"  calls: {len(TRACE)} sha1={digest}")


# ---------------------------------------------------------------- isotherms
def model_iso(tag, name, params, prange=(0.01, 20.0), lrange=(0.0, 10.0), branch="ads", **over):
    model = pgm.get_isotherm_model(
        name, parameters=params, pressure_range=prange, loading_range=lrange
    )
    props = dict(UNITS)
    props.update(material="M", adsorbate="N2", temperature=300)
    props.update(over)
    iso = ModelIsotherm(model=model, branch=branch, **props)
    iso._tag = tag
    return iso


def point_iso(tag, func, pmax=20.0, npts=40, **over):
    pressure = numpy.geomspace(0.005, pmax, npts)
    loading = func(pressure)
    props = dict(UNITS)
    props.update(material="M", adsorbate="N2", temperature=300)
    props.update(over)
    iso = PointIsotherm(pressure=pressure, loading=loading, **props)
    iso._tag = tag
    return iso


LA = model_iso("LA", "Langmuir", {"K": 1.5, "n_m": 4.0})
LB = model_iso("LB", "Langmuir", {"K": 0.2, "n_m": 6.5}, adsorbate="CO2")
LC = model_iso("LC", "Langmuir", {"K": 7.0, "n_m": 4.0}, adsorbate="CH4")  # same capacity as LA
LD = model_iso("LD", "Langmuir", {"K": 0.05, "n_m": 4.0}, adsorbate="O2", prange=(0.01, 2.0))
HA = model_iso("HA", "Henry", {"K": 0.7})
HB = model_iso("HB", "Henry", {"K": 3.1}, adsorbate="CO2")
DS = model_iso("DS", "DSLangmuir", {"n_m1": 2.0, "K1": 4.0, "n_m2": 3.0, "K2": 0.1})
TS = model_iso(
    "TS", "TSLangmuir", {"n_m1": 1.0, "n_m2": 2.0, "n_m3": 1.5, "K1": 9.0, "K2": 0.8, "K3": 0.05}
)
QU = model_iso("QU", "Quadratic", {"n_m": 3.0, "Ka": 0.9, "Kb": 0.4})
BE = model_iso("BE", "BET", {"n_m": 2.5, "C": 30.0, "N": 0.01})
TE = model_iso("TE", "TemkinApprox", {"n_m": 5.0, "K": 0.6, "tht": -0.1})
TO = model_iso("TO", "Toth", {"n_m": 5.0, "K": 1.2, "t": 0.7})
JS = model_iso("JS", "JensenSeaton", {"K": 6.0, "a": 3.0, "b": 0.05, "c": 1.3})
FR = model_iso("FR", "Freundlich", {"K": 1.0, "m": 2.0})  # not IAST capable
REL = model_iso("REL", "Langmuir", {"K": 50.0, "n_m": 4.0}, pressure_mode="relative")
DES = model_iso("DES", "Langmuir", {"K": 1.1, "n_m": 3.0}, branch="des")
PA = point_iso("PA", lambda p: 4.0 * 1.5 * p / (1 + 1.5 * p))
PB = point_iso("PB", lambda p: 6.5 * 0.2 * p / (1 + 0.2 * p), adsorbate="CO2")
PC = point_iso("PC", lambda p: 3.0 * 0.9 * p / (1 + 0.9 * p), pmax=5.0, npts=15, adsorbate="CH4")

# ================================================================= cases (change 2: reverse_iast)
ri = pgi.reverse_iast
ip = pgi.iast_point

for x, pt in (([0.5, 0.5], 2.0), ([0.25, 0.75], 3.0), ([0.999, 0.001], 0.05), ([0.125, 0.875], 400.0)):
    run(f"LA+LB x={x} P={pt}", ri, [LA, LB], x, pt)
    run(f"LB+LA x={x[::-1]} P={pt} (permuted)", ri, [LB, LA], x[::-1], pt)
run("HA+HB henry", ri, [HA, HB], [0.25, 0.75], 1.5)
run("HA+LA", ri, [HA, LA], [0.5, 0.5], 1.5)
run("LA+LC equal capacity", ri, [LA, LC], [0.375, 0.625], 1.5)
for pair in ([DS, LA], [TS, LB], [QU, LA], [BE, LB], [TE, LA], [TO, LB], [JS, LA], [TO, JS]):
    run("pair " + "+".join(i._tag for i in pair), ri, pair, [0.25, 0.75], 2.5)
    run("pair " + "+".join(i._tag for i in pair) + " warningoff", ri, pair, [0.75, 0.25], 40.0, warningoff=True)

# 3 and 4 components, containers
run("ternary list", ri, [LA, LB, HA], [0.5, 0.25, 0.25], 3.5)
run("ternary tuple", ri, (LA, LB, HA), (0.5, 0.25, 0.25), 3.5)
run("ternary ndarray", ri, [HA, LA, LB], numpy.array([0.25, 0.5, 0.25]), 3.5)
run("ternary int pressure", ri, [LA, LB, HA], [0.5, 0.25, 0.25], 3)
run("ternary equal capacity", ri, [LA, LC, LD], [0.5, 0.25, 0.25], 1.0)
run("quaternary", ri, [LA, LB, DS, QU], [0.25, 0.25, 0.25, 0.25], 5.0)
run("quaternary permuted", ri, [QU, DS, LB, LA], [0.25, 0.25, 0.25, 0.25], 5.0)
run("quaternary verbose", ri, [LA, HB, LC, LB], [0.125, 0.125, 0.25, 0.5], 5.0, verbose=True)

# forward / reverse invert each other
def roundtrip(isos, partial):
    loadings = ip(isos, partial, warningoff=True)
    x = loadings / numpy.sum(loadings)
    x = numpy.append(x[:-1], 1.0 - numpy.sum(x[:-1]))
    if numpy.sum(x) != 1.0:
        return ("sum not exactly one", x)
    return ri(isos, x, float(numpy.sum(partial)), warningoff=True)
run("roundtrip LA+LB", roundtrip, [LA, LB], [1.0, 2.0])
run("roundtrip LA+LB+HA", roundtrip, [LA, LB, HA], [1.0, 2.0, 0.5])
run("roundtrip TO+JS", roundtrip, [TO, JS], [0.7, 1.9])

# guesses
run("guess list", ri, [LA, LB], [0.5, 0.5], 2.0, gas_mole_fraction_guess=[0.1, 0.9])
run("guess ndarray", ri, [LA, LB], [0.5, 0.5], 2.0, gas_mole_fraction_guess=numpy.array([0.5, 0.5]))
run("guess ternary", ri, [LA, LB, HA], [0.5, 0.25, 0.25], 2.0, gas_mole_fraction_guess=[0.1, 0.5, 0.4])
run("guess bad sum", ri, [LA, LB], [0.5, 0.5], 2.0, gas_mole_fraction_guess=[0.1, 0.8])
run("guess [1, 0]", ri, [LA, LB], [0.5, 0.5], 2.0, gas_mole_fraction_guess=[1.0, 0.0])
run("guess [0, 1]", ri, [LA, LB], [0.5, 0.5], 2.0, gas_mole_fraction_guess=[0.0, 1.0])
run("guess outside", ri, [LA, LB], [0.5, 0.5], 2.0, gas_mole_fraction_guess=[1.5, -0.5])
run("guess outside henry", ri, [HA, HB], [0.5, 0.5], 2.0, gas_mole_fraction_guess=[-0.5, 1.5])
run("guess wrong length", ri, [LA, LB, HA], [0.5, 0.25, 0.25], 2.0, gas_mole_fraction_guess=[0.5, 0.5])
run("guess wrong length 4", ri, [LA, LB, HA, HB], [0.25, 0.25, 0.25, 0.25], 2.0, gas_mole_fraction_guess=[0.5, 0.5])
run("guess too long", ri, [LA, LB], [0.5, 0.5], 2.0, gas_mole_fraction_guess=[0.25, 0.25, 0.5])
run("guess empty", ri, [LA, LB], [0.5, 0.5], 2.0, gas_mole_fraction_guess=[])

# extrapolation warnings / verbose
run("extrapolate warning", ri, [LA, LD], [0.5, 0.5], 30.0)
run("extrapolate warning verbose", ri, [LA, LD], [0.5, 0.5], 30.0, verbose=True)
run("extrapolate warningoff", ri, [LA, LD], [0.5, 0.5], 30.0, warningoff=True)
run("verbose binary", ri, [LA, LB], [0.5, 0.5], 2.0, verbose=True)

# guards and degenerate requests
run("one isotherm", ri, [LA], [1.0], 1.0)
run("no isotherm", ri, [], [], 1.0)
run("size mismatch", ri, [LA, LB], [1.0], 1.0)
run("size mismatch 2", ri, [LA, LB], [0.5, 0.25, 0.25], 1.0)
run("fractions do not sum", ri, [LA, LB], [0.5, 0.4], 1.0)
run("fractions almost sum", ri, [LA, LB, HA], [0.1, 0.2, 0.7000000000000001], 1.0)
run("fractions 0.1 0.2 0.7", ri, [LA, LB, HA], [0.1, 0.2, 0.7], 1.0)
run("fraction zero", ri, [LA, LB], [1.0, 0.0], 1.0)
run("fraction ints", ri, [LA, LB], [1, 0], 1.0)
run("fraction negative", ri, [LA, LB], [1.5, -0.5], 1.0)
run("fraction nan", ri, [LA, LB], [numpy.nan, 0.5], 1.0)
run("non IAST model", ri, [LA, FR], [0.5, 0.5], 1.0)
run("non IAST first, relative second", ri, [FR, REL], [0.5, 0.5], 1.0)
run("relative pressure", ri, [LA, REL], [0.5, 0.5], 1.0)
run("relative and single", ri, [REL], [1.0], 1.0)
run("branch des on ads", ri, [LA, LB], [0.5, 0.5], 1.0, branch="des")
run("des model default branch", ri, [DES, LA], [0.5, 0.5], 1.0)
run("des models des branch", ri, [DES, DES], [0.5, 0.5], 1.0, branch="des")
run("zero pressure", ri, [LA, LB], [0.5, 0.5], 0.0)
run("negative pressure", ri, [LA, LB], [0.5, 0.5], -2.0)
run("nan pressure", ri, [LA, LB], [0.5, 0.5], numpy.nan)

# point isotherms
run("points PA+PB", ri, [PA, PB], [0.5, 0.5], 3.0)
run("points PB+PA", ri, [PB, PA], [0.5, 0.5], 3.0)
run("points PA+PB+PC", ri, [PA, PB, PC], [0.5, 0.25, 0.25], 1.0)
run("points out of range", ri, [PA, PC], [0.5, 0.5], 9.0)
run("points far out of range", ri, [PA, PB], [0.5, 0.5], 900.0)
run("points+model verbose", ri, [PA, LB], [0.5, 0.5], 3.0, verbose=True)
run("points low pressure", ri, [PA, PB], [0.5, 0.5], 1e-4)
run("points guess", ri, [PA, PB], [0.5, 0.5], 3.0, gas_mole_fraction_guess=[0.2, 0.8])
