"""Differential script for change 4: ``isotherm_to_db`` (row, properties and data/model upload)."""
import sqlite3

import numpy
import pandas

from _harness import BaseIsotherm, canon, dump, finish, memory, new_db, pgsql, pygaps, run
from pygaps.modelling import model_from_dict

UNITS = dict(
    pressure_mode='absolute',
    pressure_unit='bar',
    material_basis='mass',
    material_unit='g',
    loading_basis='molar',
    loading_unit='mmol',
    temperature_unit='K',
)
ISO_TABLES = ['materials', 'material_properties', 'adsorbates', 'isotherms', 'isotherm_properties', 'isotherm_data']


def model(name='Henry', **params):
    return model_from_dict({
        'name': name,
        'rmse': 0.125,
        'parameters': params,
        'pressure_range': [0.5, 3.5],
        'loading_range': [1.0, 7.0],
    })


def make(label, cls, *args, **kwargs):
    """Build an isotherm (construction problems are part of the printed record)."""
    return run(f'make {label}', lambda: cls(*args, **kwargs))


def retrieve(label, path):
    isos = run(f'{label}: count', lambda: len(pgsql.isotherms_from_db(db_path=path, verbose=False)))
    if isos is None:
        return
    for n, iso in enumerate(pgsql.isotherms_from_db(db_path=path, verbose=False)):
        print(f"   {n:3d} {canon(iso)}")


db = new_db('iso1.db')
db2 = new_db('iso2.db')

mat_known = pygaps.Material('eqi_known', density=1.5, batch='b1')
ads_known = pygaps.Adsorbate('eqi_gas', formula='G2')
run('prepare material', pgsql.material_to_db, mat_known, db_path=db, verbose=False)
run('prepare adsorbate', pgsql.adsorbate_to_db, ads_known, db_path=db, verbose=False)
memory('prepared')

frame = pandas.DataFrame({
    'p': [0.1, 0.2, 0.30000000000000004, 0.2],
    'l': [1.0, 2.0, 3.0, 2.5],
    'enthalpy': [5.5, 4.5, 3.5, 4.0],
    'label': ['a', 'b', 'c', 'd'],
})

isos = {
    'base known': make('base known', BaseIsotherm, material='eqi_known', adsorbate='eqi_gas', temperature=77, **UNITS),
    'base props': make(
        'base props',
        BaseIsotherm,
        material='eqi_known',
        adsorbate='eqi_gas',
        temperature=87.3,
        flag_t=True,
        flag_f=False,
        iso_type='calorimetry',
        comment='TRUE',
        number=12,
        ratio=0.1 + 0.2,
        empty='',
        user='someone',
        **UNITS
    ),
    'base other units': make(
        'base other units',
        BaseIsotherm,
        material='eqi_known',
        adsorbate='eqi_gas',
        temperature=25,
        pressure_mode='absolute',
        pressure_unit='kPa',
        material_basis='volume',
        material_unit='cm3',
        loading_basis='mass',
        loading_unit='mg',
        temperature_unit='°C',
    ),
    'base relative (pressure unit None)': make(
        'base relative', BaseIsotherm, material='eqi_known', adsorbate='eqi_gas', temperature=77,
        **dict(UNITS, pressure_mode='relative')
    ),
    'base new material': make('base new material', BaseIsotherm, material='eqi_new_mat', adsorbate='eqi_gas', temperature=77, **UNITS),
    'base new adsorbate': make('base new adsorbate', BaseIsotherm, material='eqi_known', adsorbate='eqi_new_gas', temperature=77, **UNITS),
    'base both new': make('base both new', BaseIsotherm, material='eqi_new_mat2', adsorbate='eqi_new_gas2', temperature=77, **UNITS),
    'base material dict': make(
        'base material dict', BaseIsotherm, material={'name': 'eqi_dict_mat', 'density': 3.5, 'form': 'powder'},
        adsorbate='eqi_gas', temperature=77, **UNITS
    ),
    'base none prop': make('base none prop', BaseIsotherm, material='eqi_none_mat', adsorbate='eqi_none_gas', temperature=77, nothing=None, **UNITS),
    'base list prop': make('base list prop', BaseIsotherm, material='eqi_list_mat', adsorbate='eqi_gas', temperature=77, many=[1, 2], **UNITS),
    'base dict prop': make('base dict prop', BaseIsotherm, material='eqi_known', adsorbate='eqi_gas', temperature=78, nested={'a': 1}, **UNITS),
    'base str temperature': make('base str temperature', BaseIsotherm, material='eqi_known', adsorbate='eqi_gas', temperature='77', **UNITS),
    'point plain': make('point plain', pygaps.PointIsotherm, pressure=[1, 2, 3, 2, 1], loading=[4, 5, 6, 5.5, 4.5], material='eqi_known', adsorbate='eqi_gas', temperature=77, flagged=True, **UNITS),
    'point other float+str': make(
        'point other float+str', pygaps.PointIsotherm, isotherm_data=frame, pressure_key='p', loading_key='l',
        material='eqi_known', adsorbate='eqi_gas', temperature=303.15, **UNITS
    ),
    'point explicit other_keys (list property is refused)': make(
        'point explicit other_keys', pygaps.PointIsotherm, isotherm_data=frame, pressure_key='p', loading_key='l',
        other_keys=['enthalpy', 'label'], material='eqi_known', adsorbate='eqi_gas', temperature=303.25, **UNITS
    ),
    'point other int (numpy int is refused)': make(
        'point other int', pygaps.PointIsotherm, isotherm_data=frame.assign(count=[1, 2, 3, 4]), pressure_key='p',
        loading_key='l', material='eqi_pt_mat', adsorbate='eqi_pt_gas',
        temperature=303.15, **UNITS
    ),
    'point other bool (numpy bool is refused)': make(
        'point other bool', pygaps.PointIsotherm, isotherm_data=frame[['p', 'l']].assign(ok=[True, False, True, True]),
        pressure_key='p', loading_key='l', material='eqi_known', adsorbate='eqi_gas',
        temperature=304, **UNITS
    ),
    'point other object ints': make(
        'point other object ints', pygaps.PointIsotherm,
        isotherm_data=frame[['p', 'l']].assign(count=pandas.Series([1, 2, 3, 4], dtype=object), ok=pandas.Series([True, False, True, True], dtype=object)),
        pressure_key='p', loading_key='l', material='eqi_known', adsorbate='eqi_gas',
        temperature=305, **UNITS
    ),
    'point other none': make(
        'point other none', pygaps.PointIsotherm,
        isotherm_data=frame.assign(hole=pandas.Series([None, 1, 2, 3], dtype=object)), pressure_key='p', loading_key='l',
        material='eqi_known', adsorbate='eqi_gas', temperature=306, **UNITS
    ),
    'point nan': make('point nan', pygaps.PointIsotherm, pressure=[1, 2, 3], loading=[1, float('nan'), 3], material='eqi_known', adsorbate='eqi_gas', temperature=307, **UNITS),
    'point single': make('point single', pygaps.PointIsotherm, pressure=[1], loading=[2], material='eqi_known', adsorbate='eqi_gas', temperature=308, **UNITS),
    'point empty': make(
        'point empty', pygaps.PointIsotherm, isotherm_data=pandas.DataFrame({'p': [], 'l': [], 'x': []}), pressure_key='p',
        loading_key='l', material='eqi_known', adsorbate='eqi_gas', temperature=309, **UNITS
    ),
    'model henry': make('model henry', pygaps.ModelIsotherm, model=model('Henry', K=2.0), material='eqi_known', adsorbate='eqi_gas', temperature=77, fitted=False, **UNITS),
    'model langmuir des new material': make(
        'model langmuir', pygaps.ModelIsotherm, model=model('Langmuir', K=1.5, n_m=3.25), material='eqi_model_mat',
        adsorbate='eqi_gas', temperature=120, branch='des', **UNITS
    ),
    'model fitted': make(
        'model fitted', pygaps.ModelIsotherm, pressure=[1, 2, 3, 4], loading=[2, 4, 6, 8], model='Henry',
        material='eqi_known', adsorbate='eqi_gas', temperature=90, **UNITS
    ),
}
memory('built')

print("== refused when references are missing and auto-insert is off")
for label in ['base new material', 'base new adsorbate', 'base both new', 'base material dict']:
    run(f'{label} / no autoinsert', pgsql.isotherm_to_db, isos[label], db_path=db, autoinsert_material=False, autoinsert_adsorbate=False)
    run(f'{label} / only material', pgsql.isotherm_to_db, isos[label], db, True, False)
    run(f'{label} / only adsorbate', pgsql.isotherm_to_db, isos[label], db, False, True, False)
dump('after refused', db, ISO_TABLES)
memory('after refused')

print("== uploads with defaults")
for label, iso in isos.items():
    if iso is None:
        continue
    run(f'upload {label}', pgsql.isotherm_to_db, iso, db_path=db)
dump('after uploads', db, ISO_TABLES + ['material_properties_type'])
retrieve('after uploads', db)
memory('after uploads')

print("== duplicates")
for label, iso in isos.items():
    if iso is None:
        continue
    run(f'duplicate {label}', pgsql.isotherm_to_db, iso, db, False, False, False)
dump('after duplicates', db, ['isotherms', 'isotherm_properties', 'isotherm_data'])

print("== other file, convenience method, flags")
dump('db2 untouched', db2, ISO_TABLES)
run('db2 point via method', isos['point other float+str'].to_db, db2)
run('db2 model via method no autoinsert', isos['model henry'].to_db, db_path=db2, autoinsert_material=False, autoinsert_adsorbate=False, verbose=False)
run('db2 base via method kw', isos['base props'].to_db, db_path=db2, verbose=False)
run('db2 base dup', isos['base props'].to_db, db2)
dump('db2', db2, ISO_TABLES)
retrieve('db2', db2)

print("== delete then upload again")
for label in ['base props', 'point plain', 'model henry', 'base none prop']:
    run(f'delete {label}', pgsql.isotherm_delete_db, isos[label], db_path=db)
    run(f'upload again {label}', pgsql.isotherm_to_db, isos[label], db_path=db, verbose=False)
dump('after re-upload', db, ['isotherms', 'isotherm_properties', 'isotherm_data'])

print("== not an isotherm")


class Fake:
    iso_id = 'fake'

    class material:
        name = 'eqi_known'

    class adsorbate:
        name = 'eqi_gas'

    def to_dict(self):
        raise RuntimeError('to_dict must not be reached')


class NoId:
    pass


run('fake, no autoinsert', pgsql.isotherm_to_db, Fake(), db_path=db, autoinsert_material=False, autoinsert_adsorbate=False)
run('fake, autoinsert', pgsql.isotherm_to_db, Fake(), db_path=db)
run('no id, no autoinsert', pgsql.isotherm_to_db, NoId(), db_path=db, autoinsert_material=False, autoinsert_adsorbate=False)
run('no id, autoinsert', pgsql.isotherm_to_db, NoId(), db_path=db)
run('None', pgsql.isotherm_to_db, None, db_path=db)
run('string', pgsql.isotherm_to_db, 'abc', db, False, False)
run('empty file', pgsql.isotherm_to_db, isos['base known'], db_path=new_db('iso_empty.db', empty=True))
run('empty file no autoinsert', pgsql.isotherm_to_db, isos['base known'], new_db('iso_empty2.db', empty=True), False, False)

print("== explicit cursor: the caller owns the transaction, partial work is visible to him")
db3 = new_db('iso3.db')
con = sqlite3.connect(db3)
con.row_factory = sqlite3.Row
cur = con.cursor()
cur.execute('PRAGMA foreign_keys = ON')
for label in [
    'base known', 'point other float+str', 'point other int (numpy int is refused)',
    'point other bool (numpy bool is refused)', 'point other none', 'point empty', 'base none prop', 'base dict prop',
    'model henry', 'base known'
]:
    if isos[label] is None:
        continue
    run(f'cursor {label}', pgsql.isotherm_to_db, isos[label], cursor=cur, verbose=False)
    con.commit()
    dump(f'cursor after {label}', db3, ['materials', 'adsorbates', 'isotherms', 'isotherm_properties', 'isotherm_data'])
run('cursor fake', pgsql.isotherm_to_db, Fake(), cursor=cur)
con.commit()
con.close()
retrieve('db3', db3)
memory('end')
finish()
