"""Differential script for change 4: psd_dft (kernel unit bookkeeping and pressure-limit selection)."""
import os
import warnings

for _var in ("OMP_NUM_THREADS", "OPENBLAS_NUM_THREADS", "MKL_NUM_THREADS"):
    os.environ[_var] = "1"
os.environ["MPLBACKEND"] = "Agg"

import numpy
import pandas

warnings.filterwarnings("ignore")

import pygaps
import pygaps.characterisation.psd_kernel as psdk
import pygaps.parsing as pgp
from pygaps.data import KERNELS

HERE = os.path.dirname(os.path.abspath(__file__))
ROOT = os.path.dirname(HERE)
DATA = os.path.join(ROOT, 'docs', 'examples', 'data', 'characterisation')
KPATH = KERNELS['DFT-N2-77K-carbon-slit']


def fmt(value):
    if isinstance(value, dict):
        return "{" + ", ".join(f"{k!r}: {fmt(v)}" for k, v in value.items()) + "}"
    if isinstance(value, (tuple, list)):
        return type(value).__name__ + "(" + ", ".join(fmt(v) for v in value) + ")"
    if isinstance(value, numpy.ndarray):
        return (
            f"array(dtype={value.dtype}, shape={value.shape}, "
            f"[{', '.join('%.12g' % v for v in value.ravel())}])"
        )
    if isinstance(value, (float, numpy.floating)):
        return "%s(%.12g)" % (type(value).__name__, value)
    if isinstance(value, (int, numpy.integer)):
        return "%s(%d)" % (type(value).__name__, value)
    return repr(value)


def run(label, *args, **kwargs):
    try:
        res = psdk.psd_dft(*args, **kwargs)
        print(f"{label}: OK {fmt(res)}")
    except Exception as err:  # noqa
        print(f"{label}: EXC {type(err).__name__}: {err}")
        if err.__cause__ is not None:
            print(f"{label}:   cause {type(err.__cause__).__name__}: {err.__cause__}")


raw = pandas.read_csv(KPATH, index_col=0)
kern = psdk._load_kernel(KPATH)


def synth(pressure, weights):
    pts = numpy.asarray([kern[s](pressure) for s in kern])
    return (pts * weights[:, None]).sum(axis=0)


weights = numpy.zeros(77)
weights[[6, 25, 58]] = [0.02, 0.015, 0.003]
p_ads = numpy.logspace(-6, numpy.log10(0.98), 45)
l_ads = synth(p_ads, weights)
p_des = p_ads[::-1][1:20]
l_des = synth(p_des, weights) * 1.05

ISO = {}
ISO['synthetic'] = pygaps.PointIsotherm(
    pressure=p_ads, loading=l_ads,
    material='synth', adsorbate='nitrogen', temperature=77.355,
    pressure_mode='relative', loading_basis='molar', loading_unit='mmol',
    material_basis='mass', material_unit='g',
)
ISO['synthetic_hyst'] = pygaps.PointIsotherm(
    pressure=numpy.concatenate((p_ads, p_des)), loading=numpy.concatenate((l_ads, l_des)),
    material='synth_hyst', adsorbate='nitrogen', temperature=77.355,
    pressure_mode='relative', loading_basis='molar', loading_unit='mmol',
    material_basis='mass', material_unit='g',
)
# stored with absolute pressure in bar and loading in cm3(STP)/g: psd_dft must convert
ISO['synthetic_abs'] = pygaps.PointIsotherm(
    pressure=p_ads, loading=l_ads * 22.4,
    material='synth_abs', adsorbate='nitrogen', temperature=77.355,
    pressure_mode='absolute', pressure_unit='bar', loading_basis='molar', loading_unit='cm3(STP)',
    material_basis='mass', material_unit='g',
)
ISO['synthetic_short'] = pygaps.PointIsotherm(
    pressure=[1e-3, 1e-2, 0.1, 0.5], loading=synth(numpy.array([1e-3, 1e-2, 0.1, 0.5]), weights),
    material='synth_short', adsorbate='nitrogen', temperature=77.355,
    pressure_mode='relative',
)
ISO['synthetic_two'] = pygaps.PointIsotherm(
    pressure=[1e-3, 0.5], loading=[1.0, 2.0],
    material='synth_two', adsorbate='nitrogen', temperature=77.355,
    pressure_mode='relative',
)
for fname in sorted(os.listdir(DATA)):
    if fname.endswith('.json'):
        ISO[fname.split(' N2')[0]] = pgp.isotherm_from_json(os.path.join(DATA, fname))
p_model = numpy.linspace(0.001, 0.9, 40)
ISO['model'] = pygaps.ModelIsotherm(
    pressure=p_model, loading=10 * 50 * p_model / (1 + 50 * p_model), model='Langmuir',
    material='model', adsorbate='nitrogen', temperature=77.355, pressure_mode='relative',
    loading_basis='molar', loading_unit='mmol', material_basis='mass', material_unit='g',
)
print("model:", {k: "%.6g" % v for k, v in ISO['model'].model.params.items()})

print("isotherms:", list(ISO))

# ---- defaults on every isotherm, both branches
for name, iso in ISO.items():
    run(f"default[{name}]", iso)
    run(f"des[{name}]", iso, branch='des')

# ---- pressure limits
LIMITS = [
    None, (None, None), [None, None], (0, 0), (0.0, None), (None, 0.0),
    (1e-4, None), (None, 0.3), (1e-4, 0.3), [1e-3, 0.9], (1e-5, 0.5), (0.01, 0.011),
    (0.3, 1e-4), (0.5, 0.5), (2.0, None), (None, 2.0), (None, 1e-9), (1e-9, None), (-1.0, None), (None, -1.0),
    (numpy.float64(1e-3), numpy.float64(0.2)), numpy.array([1e-3, 0.2]), (1e-3, ), (), (1e-3, 0.2, 0.9),
    0.5, 'ab', (float('nan'), None), (None, float('nan')), (float('inf'), None), (None, float('inf')),
    ('a', None), (True, None), {0: 1e-3, 1: 0.2},
]
# limits that coincide exactly with data points (left/right boundary semantics)
LIMITS.append((float(p_ads[5]), float(p_ads[30])))
LIMITS.append((float(p_ads[5]), float(p_ads[7])))
LIMITS.append((float(p_ads[5]), float(p_ads[8])))
LIMITS.append((float(p_ads[0]), float(p_ads[-1])))
for name in ('synthetic', 'synthetic_hyst', 'MCM-41', 'Takeda 5A', 'synthetic_short', 'model'):
    for lim in LIMITS:
        run(f"limits[{name}|{lim!r}]", ISO[name], p_limits=lim)
for lim in LIMITS[:16]:
    run(f"limits_des[synthetic_hyst|{lim!r}]", ISO['synthetic_hyst'], branch='des', p_limits=lim)
    run(f"limits_des[UiO-66(Zr)|{lim!r}]", ISO['UiO-66(Zr)'], branch='des', p_limits=lim)

# ---- spline orders through the front end
for order in (0, 1, 2, 3):
    run(f"order[synthetic|{order}]", ISO['synthetic'], bspline_order=order)
    run(f"order_limits[synthetic|{order}]", ISO['synthetic'], bspline_order=order, p_limits=(1e-4, 0.5))

# ---- kernel argument
run("kernel_none", ISO['synthetic'], kernel=None)
run("kernel_name", ISO['synthetic'], kernel='DFT-N2-77K-carbon-slit')
run("kernel_path", ISO['synthetic'], kernel=str(KPATH))
run("kernel_missing", ISO['synthetic'], kernel=os.path.join(HERE, 'tmp4_missing.csv'))
run("kernel_unknown_name", ISO['synthetic'], kernel='DFT-unknown')
run("kernel_unhashable", ISO['synthetic'], kernel=['x'])
user = os.path.join(HERE, 'tmp4_user.csv')
raw.iloc[::2, ::6].to_csv(user)
wide = os.path.join(HERE, 'tmp4_wide.csv')
raw.iloc[:, ::6].set_index(raw.index * 1.2).to_csv(wide)

try:
    run("kernel_user", ISO['synthetic'], kernel=user)
    run("kernel_user_limits", ISO['MCM-41'], kernel=user, p_limits=(1e-3, 0.8), bspline_order=1)

    # ---- kernel units
    UNITS = [
        None, {}, {'loading_basis': 'molar'}, {'loading_unit': 'mol'}, {'loading_unit': 'cm3(STP)'},
        {'loading_basis': 'mass', 'loading_unit': 'g'}, {'loading_basis': 'mass', 'loading_unit': 'mg'},
        {'material_unit': 'kg'}, {'material_basis': 'mass', 'material_unit': 'mg'},
        {'material_basis': 'molar', 'material_unit': 'mol'},
        {'loading_basis': 'volume_gas', 'loading_unit': 'cm3'},
        {'loading_basis': 'fraction'}, {'loading_basis': 'percent', 'loading_unit': None},
        {'pressure_mode': 'relative'}, {'pressure_mode': 'relative%'},
        {'pressure_mode': 'absolute', 'pressure_unit': 'bar'}, {'pressure_mode': 'absolute', 'pressure_unit': 'kPa'},
        {'pressure_mode': 'absolute', 'pressure_unit': 'Pa'}, {'pressure_mode': 'absolute'},
        {'pressure_mode': 'relative', 'pressure_unit': 'bar'}, {'pressure_unit': 'torr'},
        {'pressure_mode': 'wrong'}, {'loading_unit': 'wrong'}, {'loading_basis': 'wrong'},
        {'material_basis': 'wrong'}, {'material_unit': 'wrong'}, {'pressure_mode': 'absolute', 'pressure_unit': 'wrong'},
        {'loading_basis': None}, {'material_basis': None, 'material_unit': None}, {'pressure_mode': None},
        {'unknown_key': 1}, {'branch': 'des'},
        {'loading_basis': 'molar', 'loading_unit': 'mmol', 'material_basis': 'mass', 'material_unit': 'g',
         'pressure_mode': 'relative', 'pressure_unit': None},
        [], [('loading_unit', 'mol')], 'mmol', 0, pandas.Series({'loading_unit': 'mol'}),
    ]
    for units in UNITS:
        tag = repr(units).replace('\n', ' ')
        for name in ('synthetic', 'synthetic_abs', 'Takeda 5A', 'model'):
            run(f"units[{name}|{tag}]", ISO[name], kernel_units=units)
    # kernel whose pressure axis reaches above 1 (absolute-like) with unit requests
    for units in ({'pressure_mode': 'absolute', 'pressure_unit': 'bar'}, {'pressure_mode': 'absolute', 'pressure_unit': 'atm'},
                  None):
        run(f"units_wide[{units!r}]", ISO['synthetic_abs'], kernel=wide, kernel_units=units)
        run(f"units_wide_limits[{units!r}]", ISO['synthetic_abs'], kernel=wide, kernel_units=units, p_limits=(1e-4, 0.5))

    # the caller's dictionary / sequence must not be modified
    units = {'loading_unit': 'mol'}
    limits = [1e-4, 0.3]
    psdk.psd_dft(ISO['synthetic'], kernel_units=units, p_limits=limits)
    print("arguments untouched:", units, limits)

    # ---- branch and isotherm argument
    run("branch_wrong", ISO['synthetic'], branch='test')
    run("branch_none", ISO['synthetic'], branch=None)
    run("branch_all", ISO['synthetic_hyst'], branch='all')
    run("iso_none", None)
    run("iso_wrong", 'isotherm')
    run("positional", ISO['synthetic'], 'DFT-N2-77K-carbon-slit', 'ads', (1e-4, 0.4), None, 3, False)

    # ---- verbose path (plots), non interactive backend
    import matplotlib.pyplot as plt
    for name, kwargs in (
        ('synthetic', {}),
        ('MCM-41', {'p_limits': (1e-3, 0.5)}),
        ('synthetic_hyst', {'branch': 'des'}),
        ('synthetic_abs', {'kernel_units': {'loading_unit': 'mol', 'material_unit': 'kg'}}),
        ('synthetic', {'kernel_units': {'pressure_mode': 'absolute', 'pressure_unit': 'bar'}}),
    ):
        before = len(plt.get_fignums())
        run(f"verbose[{name}|{kwargs!r}]", ISO[name], verbose=True, **kwargs)
        figs = [plt.figure(n) for n in plt.get_fignums()[before:]]
        for fig in figs:
            for ax in fig.axes:
                lines = [
                    (ln.get_label(), len(ln.get_xdata()), "%.12g" % numpy.nansum(numpy.asarray(ln.get_xdata(), dtype=float)),
                     "%.12g" % numpy.nansum(numpy.asarray(ln.get_ydata(), dtype=float))) for ln in ax.get_lines()
                ]
                print(f"verbose[{name}]: ax title={ax.get_title()!r} xlabel={ax.get_xlabel()!r} "
                      f"ylabel={ax.get_ylabel()!r} xscale={ax.get_xscale()} lines={lines}")
        plt.close('all')

    # ---- verbose path again with recording stubs instead of the real plotting functions:
    # shows exactly which arguments (and in which order) reach the plotting layer
    import pygaps.graphing.calc_graphs as calc_graphs
    import pygaps.graphing.isotherm_graphs as isotherm_graphs

    class FakeAxes:
        def plot(self, *args, **kwargs):
            print("    stub ax.plot:", fmt(args), fmt(kwargs))

        def set_title(self, *args, **kwargs):
            print("    stub ax.set_title:", fmt(args), fmt(kwargs))

    def fake_plot_iso(*args, **kwargs):
        print("    stub plot_iso:", [type(a).__name__ for a in args], fmt(kwargs))
        return FakeAxes()

    def fake_psd_plot(*args, **kwargs):
        print("    stub psd_plot:", fmt(args), fmt(kwargs))

    real = isotherm_graphs.plot_iso, calc_graphs.psd_plot
    isotherm_graphs.plot_iso, calc_graphs.psd_plot = fake_plot_iso, fake_psd_plot
    try:
        for name, kwargs in (
            ('synthetic', {}),
            ('MCM-41', {'p_limits': (1e-3, 0.5)}),
            ('synthetic_hyst', {'branch': 'des', 'bspline_order': 0}),
            ('synthetic_abs', {'kernel_units': {'loading_unit': 'mol', 'material_unit': 'kg'}}),
            ('synthetic', {'kernel_units': {'pressure_mode': 'absolute', 'pressure_unit': 'bar', 'extra': 1}}),
            ('synthetic', {'kernel_units': {'pressure_unit': 'bar', 'loading_basis': 'molar'}}),
            ('model', {'p_limits': [0.01, None]}),
            ('synthetic_two', {}),
        ):
            print(f"verbose_stub[{name}|{kwargs!r}]")
            run(f"verbose_stub[{name}|{kwargs!r}]", ISO[name], verbose=True, **kwargs)
    finally:
        isotherm_graphs.plot_iso, calc_graphs.psd_plot = real
finally:
    for path in (user, wide):
        if os.path.exists(path):
            os.remove(path)
