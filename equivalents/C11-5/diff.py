"""Differential script for change 1: PointIsotherm.spreading_pressure_at."""
import warnings

import numpy
import pandas

import pygaps

warnings.simplefilter("ignore")


def fmt(x):
    if isinstance(x, (list, tuple)):
        return "[" + ", ".join(fmt(v) for v in x) + "]"
    if isinstance(x, numpy.ndarray):
        if x.ndim == 0:
            return "arr0(" + fmt(x.item()) + ")"
        return "arr[" + ", ".join(fmt(v) for v in x.tolist()) + "]"
    if isinstance(x, (float, numpy.floating)):
        return f"{float(x):.12g}"
    if isinstance(x, (int, numpy.integer)):
        return f"int:{int(x)}"
    return f"{type(x).__name__}:{x!r}"


def run(label, fun, *args, **kwargs):
    try:
        res = fun(*args, **kwargs)
        out = type(res).__name__ + " " + fmt(res)
    except Exception as err:  # noqa
        out = f"EXC {type(err).__name__}: {' '.join(str(err).split())}"
    print(f"{label} -> {out}")


# a material, so that material conversions are possible
pygaps.MATERIAL_LIST.append(pygaps.Material("EQMAT", density=2.0, molar_mass=10.0))

BASE = dict(
    material="EQMAT",
    adsorbate="N2",
    temperature=77.0,
    material_basis="mass",
    material_unit="g",
    loading_basis="molar",
    loading_unit="mmol",
    pressure_mode="absolute",
    pressure_unit="bar",
)

rng = numpy.random.default_rng(11)


def make(p, l, **over):
    par = dict(BASE)
    par.update(over)
    return pygaps.PointIsotherm(pressure=list(p), loading=list(l), **par)


ISOS = {}
# linear data with a desorption branch
ISOS["linear"] = make([1.0, 2.0, 3.0, 4.0, 5.0, 6.0, 4.5, 2.5], [1.0, 2.0, 3.0, 4.0, 5.0, 6.0, 4.5, 2.5])
# Langmuir-shaped
p = numpy.array([0.001, 0.01, 0.05, 0.1, 0.2, 0.3, 0.5, 0.7, 0.9])
ISOS["langmuir"] = make(p, 8.0 * 30 * p / (1 + 30 * p))
# two points only
ISOS["two"] = make([0.1, 0.4], [0.5, 3.0])
# a single point
ISOS["one"] = make([0.3], [2.0])
# random increasing
p = numpy.sort(rng.uniform(0.01, 0.95, 25))
l = numpy.cumsum(rng.uniform(0.0, 1.0, 25))
ISOS["random"] = make(p, l)
# random with plateaus (equal loadings) and hysteresis
pa = numpy.sort(rng.uniform(0.01, 0.9, 12))
la = numpy.round(numpy.cumsum(rng.uniform(0.0, 1.0, 12)), 0)
pd_ = pa[::-1][1:7]
ld = la[::-1][1:7] + 0.3
ISOS["hyst"] = make(numpy.concatenate([pa, pd_]), numpy.concatenate([la, ld]))
# first point at zero pressure (division by zero in the Henry segment)
ISOS["zero_first"] = make([0.0, 0.1, 0.2, 0.5], [0.0, 1.0, 1.5, 2.0])
# relative-mode isotherm
ISOS["relative"] = make([0.01, 0.1, 0.3, 0.6, 0.9], [1.0, 3.0, 4.0, 4.5, 4.8], pressure_mode="relative", pressure_unit=None)
# other internal units
ISOS["kPa_cm3"] = make(
    [1.0, 5.0, 20.0, 50.0, 90.0], [10.0, 35.0, 60.0, 75.0, 80.0],
    pressure_unit="kPa",
    loading_basis="volume_gas",
    loading_unit="cm3",
)

for name, iso in ISOS.items():
    pr = iso.pressure(branch="ads")
    qs = [
        0.0,
        pr[0] * 0.25,
        pr[0],
        numpy.nextafter(pr[0], 10.0),
        0.5 * (pr[0] + pr[-1]),
        pr[-1],
        numpy.nextafter(pr[-1], 0.0),
        pr[-1] * 1.5,
        -0.1,
    ]
    qs += list(pr[1:4])
    qs += list(rng.uniform(0, pr[-1], 6))
    for q in qs:
        run(f"{name} p={fmt(q)}", iso.spreading_pressure_at, q)
        run(f"{name} p={fmt(q)} np.float64", iso.spreading_pressure_at, numpy.float64(q))
    # beyond the data range with the different fills
    for fill in (None, 0.0, 3.3, (0.0, 7.0), "extrapolate"):
        for q in (pr[0] * 0.5, 0.5 * (pr[0] + pr[-1]), pr[-1] * 1.2, pr[-1] * 3):
            run(f"{name} p={fmt(q)} fill={fill!r}", iso.spreading_pressure_at, q, interp_fill=fill)
    # 0-d array and arrays
    run(f"{name} arr0", iso.spreading_pressure_at, numpy.asarray(0.5 * (pr[0] + pr[-1])))
    run(f"{name} arr1", iso.spreading_pressure_at, numpy.array([0.5 * (pr[0] + pr[-1])]))
    run(f"{name} arr_fill", iso.spreading_pressure_at, numpy.array([pr[0] * 0.5, pr[-1] * 0.9]), interp_fill=1.0)
    run(f"{name} arr_nofill", iso.spreading_pressure_at, numpy.array([pr[0] * 0.5, pr[-1] * 0.9]))
    run(f"{name} list", iso.spreading_pressure_at, [pr[0] * 0.5])
    run(f"{name} None", iso.spreading_pressure_at, None)
    run(f"{name} str", iso.spreading_pressure_at, "a")
    run(f"{name} nan", iso.spreading_pressure_at, float("nan"))
    run(f"{name} inf", iso.spreading_pressure_at, float("inf"), interp_fill=1.0)

# branches
for name in ("linear", "hyst"):
    iso = ISOS[name]
    for q in (0.005, 0.3, 0.45, 1.7, 2.5, 3.1, 4.5, 5.5, 7.0):
        for br in ("ads", "des", "all", None, "bad"):
            run(f"{name} p={q} branch={br!r}", iso.spreading_pressure_at, q, branch=br)
            run(f"{name} p={q} branch={br!r} fill", iso.spreading_pressure_at, q, branch=br, interp_fill="extrapolate")

# unit / mode arguments
UNITS = [
    dict(pressure_unit="Pa"),
    dict(pressure_unit="kPa"),
    dict(pressure_unit="torr"),
    dict(pressure_mode="relative"),
    dict(pressure_mode="relative%"),
    dict(pressure_mode="relative", pressure_unit="Pa"),
    dict(pressure_mode="absolute"),
    dict(pressure_mode="absolute", pressure_unit="atm"),
    dict(pressure_mode="bad"),
    dict(pressure_unit="bad"),
    dict(loading_unit="mol"),
    dict(loading_basis="mass", loading_unit="g"),
    dict(loading_basis="volume_gas", loading_unit="cm3"),
    dict(loading_basis="fraction"),
    dict(loading_basis="percent"),
    dict(loading_basis="bad"),
    dict(material_unit="kg"),
    dict(material_basis="volume", material_unit="cm3"),
    dict(material_basis="molar", material_unit="mmol"),
    dict(material_basis="volume"),
    dict(
        pressure_unit="Pa", loading_basis="mass", loading_unit="g",
        material_basis="volume", material_unit="cm3"
    ),
    dict(pressure_mode="relative", loading_basis="fraction", material_basis="molar", material_unit="mmol"),
]
for name in ("linear", "langmuir", "relative", "kPa_cm3", "random"):
    iso = ISOS[name]
    for kw in UNITS:
        try:
            pr = iso.pressure(
                branch="ads",
                pressure_unit=kw.get("pressure_unit"),
                pressure_mode=kw.get("pressure_mode"),
            )
            qs = [pr[0] * 0.3, pr[0], 0.37 * pr[0] + 0.63 * pr[-1], pr[-1], pr[-1] * 2]
        except Exception:  # noqa
            qs = [0.1, 1.0]
        for q in qs:
            run(f"{name} p={fmt(q)} {kw}", iso.spreading_pressure_at, q, **kw)
            run(f"{name} p={fmt(q)} {kw} fill", iso.spreading_pressure_at, q, interp_fill=0.5, **kw)
