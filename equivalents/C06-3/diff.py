"""Differential script for change 3: BaseIsotherm.to_dict and the BaseIsotherm.material setter."""
import collections
import copy

import pandas

import eqlib
import pygaps
from eqlib import canon
from eqlib import run
from pygaps.core.baseisotherm import BaseIsotherm
from pygaps.core.material import Material
from pygaps.core.modelisotherm import ModelIsotherm
from pygaps.core.pointisotherm import PointIsotherm
from pygaps.parsing.json import isotherm_from_json
from pygaps.parsing.json import isotherm_to_json


def fresh(fn):
    """Run with a well defined global material list, and show what happened to it."""
    def wrapped():
        saved = list(pygaps.MATERIAL_LIST)
        eqlib.setup_materials()
        try:
            res = fn()
            if not isinstance(res, str):
                res = canon(res)
            return res + "\n  LIST " + canon([m for m in pygaps.MATERIAL_LIST if m not in saved or m.name == 'LISTED'])
        finally:
            pygaps.MATERIAL_LIST[:] = saved

    return wrapped


# 1. to_dict of every isotherm of the catalogue (key order and types are shown)
for label, factory in eqlib.iso_catalogue():

    def dict_twice(f=factory):
        iso = f()
        before = eqlib.canon_iso(iso)
        one = iso.to_dict()
        two = iso.to_dict()
        shared = [k for k in one if one[k] is two[k] and isinstance(one[k], (dict, list))]
        return (
            f"dict={canon(one)}\n  again_same={canon(one) == canon(two)} distinct_objects={one is not two} "
            f"shared_containers={shared} untouched={before == eqlib.canon_iso(iso)}"
        )

    run(f"to_dict | {label}", fresh(dict_twice))


# 2. constructor symmetry: the dictionary builds an equal isotherm
def rebuild(factory):
    iso = factory()
    dct = iso.to_dict()
    if isinstance(iso, PointIsotherm):
        new = PointIsotherm(isotherm_data=iso.data_raw.copy(), pressure_key=iso.pressure_key, loading_key=iso.loading_key, **dct)
    elif isinstance(iso, ModelIsotherm):
        new = ModelIsotherm(model=copy.deepcopy(iso.model), **dct)
    else:
        new = BaseIsotherm(**dct)
    return f"equal={new == iso} same_dict={canon(new.to_dict()) == canon(iso.to_dict())} dict_after={canon(dct)}\n" + eqlib.canon_iso(new)


for label, factory in eqlib.iso_catalogue()[::2]:
    run(f"rebuild | {label}", fresh(lambda f=factory: rebuild(f)))


# 3. unusual instance states
def extra_attribute():
    iso = eqlib.make_point(meta='plain')
    iso.custom = [1, 2]
    iso._hidden = 'h'
    return iso.to_dict()


def injected_public_names():
    iso = eqlib.make_base(meta='plain')
    vars(iso)['adsorbate'] = 'injected adsorbate'
    vars(iso)['material'] = 'injected material'
    vars(iso)['temperature'] = 'injected temperature'
    return iso.to_dict()


def injected_first():
    iso = eqlib.make_base(meta='plain')
    state = dict(vars(iso))
    vars(iso).clear()
    vars(iso)['temperature'] = 'early'
    vars(iso).update(state)
    return iso.to_dict()


def colliding_metadata():
    iso = eqlib.make_point(meta='plain')
    iso.properties.update({
        'material': 'meta material',
        'adsorbate': 'meta adsorbate',
        'temperature': 'meta T',
        'pressure_unit': 'meta unit',
        '_material': 'meta _material',
        'properties': {'nested': 1},
        'm': 'meta m',
        'data_raw': 'meta data',
        'iso_type': 'changed',
    })
    return iso.to_dict()


def missing_private(name):
    def fn():
        iso = eqlib.make_base(meta='plain')
        del vars(iso)[name]
        return iso.to_dict()

    return fn


def properties_none():
    iso = eqlib.make_base()
    iso.properties = None
    return iso.to_dict()


def properties_pairs():
    iso = eqlib.make_base()
    iso.properties = [('a', 1), ('b', 2)]
    return iso.to_dict()


def material_replaced_by_text():
    iso = eqlib.make_base()
    iso._material = 'plain text'
    return iso.to_dict()


def material_props_added_later():
    iso = eqlib.make_base(material='unknown')
    first = iso.to_dict()
    iso.material.properties['density'] = 2.0
    second = iso.to_dict()
    iso.material.properties.clear()
    return [first, second, iso.to_dict()]


def temperature_celsius():
    iso = eqlib.make_base(units='vol_torr_C')
    return [iso.to_dict(), iso.temperature]


def after_convert():
    iso = eqlib.make_point(material='dict_props', meta='plain')
    iso.convert(pressure_unit='kPa', loading_unit='mol', material_unit='kg')
    return iso.to_dict()


def after_convert_relative():
    iso = eqlib.make_point(meta='plain')
    iso.convert_pressure(mode_to='relative')
    return iso.to_dict()


def user_subclass():
    class MyIso(BaseIsotherm):
        _reserved_params = BaseIsotherm._reserved_params + ['secret']

        def __init__(self, **kw):
            super().__init__(**kw)
            self.secret = 1
            self.shown = 2

    return MyIso(**eqlib.iso_kwargs(meta='plain')).to_dict()


def from_isotherm_point():
    base = eqlib.make_base(meta='typed', material='dict_props')
    return PointIsotherm.from_isotherm(base, pressure=[1, 2, 3], loading=[1, 2, 3])


def from_isotherm_frame():
    base = eqlib.make_point(meta='plain')
    return PointIsotherm.from_isotherm(
        base, isotherm_data=pandas.DataFrame({'p': [1.0, 2.0], 'l': [3.0, 4.0]}), pressure_key='p', loading_key='l'
    )


def from_modelisotherm():
    return PointIsotherm.from_modelisotherm(eqlib.make_modeliso(meta='plain', material='dict_props'), pressure_points=[0.1, 0.5, 1.0])


def str_and_repr():
    iso = eqlib.make_point(meta='unicode', material='dict_props')
    return [str(iso), repr(iso), iso.units]


for fn in (
    extra_attribute, injected_public_names, injected_first, colliding_metadata, missing_private('_adsorbate'),
    missing_private('_material'), missing_private('_temperature'), missing_private('properties'),
    missing_private('pressure_mode'), properties_none, properties_pairs, material_replaced_by_text, material_props_added_later,
    temperature_celsius, after_convert, after_convert_relative, user_subclass, from_isotherm_point, from_isotherm_frame,
    from_modelisotherm, str_and_repr
):
    run(f"state {getattr(fn, '__name__', 'fn')}{'' if fn.__closure__ is None else ' ' + repr(fn.__closure__[0].cell_contents)}", fresh(fn))

# 4. the material setter: at construction and on a living isotherm
MATERIALS = {
    'text unknown': lambda: 'brand new',
    'text listed': lambda: 'LISTED',
    'text empty': lambda: '',
    'text unicode': lambda: 'Zéolite-β',
    'dict name+props': lambda: {'name': 'D1', 'density': 2.5, 'batch': 'b', 'lst': [1, 2], 'none': None},
    'dict name only': lambda: {'name': 'D2'},
    'dict no name': lambda: {'density': 1.0},
    'dict empty': lambda: {},
    'dict listed + props': lambda: {'name': 'LISTED', 'density': 1.0, 'new': 'n'},
    'dict listed only name': lambda: {'name': 'LISTED'},
    'dict name None': lambda: {'name': None, 'x': 1},
    'dict name int': lambda: {'name': 5, 'x': 1},
    'dict name is Material': lambda: {'name': Material('inner', a=1), 'b': 2},
    'dict name is listed Material': lambda: {'name': pygaps.MATERIAL_LIST[-1], 'b': 2},
    'dict store=True': lambda: {'name': 'stored one', 'store': True, 'x': 1},
    'dict store=True listed': lambda: {'name': 'LISTED', 'store': True},
    'dict int key': lambda: {'name': 'D3', 1: 2},
    'dict int key listed': lambda: {'name': 'LISTED', 1: 2},
    'dict key self': lambda: {'name': 'D4', 'self': 2},
    'dict key name twice (nested)': lambda: {'name': 'D5', 'properties': {'name': 'x'}},
    'OrderedDict': lambda: collections.OrderedDict([('z', 1), ('name', 'OD'), ('a', 2)]),
    'Material plain': lambda: Material('obj'),
    'Material props': lambda: Material('obj2', density=3.0, k='v'),
    'Material listed object': lambda: pygaps.MATERIAL_LIST[-1],
    'Material same name as listed': lambda: Material('LISTED', other=1),
    'None': lambda: None,
    'int': lambda: 7,
    'float': lambda: 1.5,
    'list': lambda: ['a', 'b'],
    'tuple pair list': lambda: [('name', 'x')],
    'bytes': lambda: b'bytes',
}


def describe(iso, value):
    mat = vars(iso).get('_material', '<unset>')
    return (
        f"material={canon(mat)} same_object_as_value={mat is value} "
        f"value_after={canon(value) if not isinstance(value, Material) else canon(value)}"
    )


for label, make in MATERIALS.items():

    def at_construction(make=make):
        value = make()
        kw = eqlib.iso_kwargs(meta='plain')
        kw['material'] = value
        try:
            iso = BaseIsotherm(**kw)
        except Exception as err:
            return f"RAISED {type(err).__name__}: {err} | value_after={canon(value)}"
        out = describe(iso, value)
        try:
            out += "\n  to_dict=" + canon(iso.to_dict())
            out += "\n  json=" + isotherm_to_json(iso)
            out += "\n  back=" + canon(isotherm_from_json(isotherm_to_json(iso)).material)
        except Exception as err:
            out += f"\n  then RAISED {type(err).__name__}: {err}"
        return out

    def on_living(make=make):
        iso = eqlib.make_point(material='dict_props', meta='plain')
        old = iso.material
        value = make()
        try:
            iso.material = value
        except Exception as err:
            return f"RAISED {type(err).__name__}: {err} | kept_old={iso._material is old} now={canon(iso._material)} value_after={canon(value)}"
        return describe(iso, value) + f" old_untouched={canon(old)}"

    def through_shorthand(make=make):
        value = make()
        kw = eqlib.iso_kwargs()
        del kw['material']
        kw['m'] = value
        try:
            iso = PointIsotherm(pressure=[1, 2], loading=[1, 2], **kw)
        except Exception as err:
            return f"RAISED {type(err).__name__}: {err}"
        return describe(iso, value)

    run(f"material at construction | {label}", fresh(at_construction))
    run(f"material on living isotherm | {label}", fresh(on_living))
    run(f"material through shorthand m | {label}", fresh(through_shorthand))


# 5. two isotherms sharing a listed material
def shared_listed():
    one = BaseIsotherm(**{**eqlib.iso_kwargs(), 'material': {'name': 'LISTED', 'first': 1}})
    two = BaseIsotherm(**{**eqlib.iso_kwargs(), 'material': {'name': 'LISTED', 'second': 2, 'first': 'over'}})
    return f"same={one.material is two.material} one={canon(one.to_dict())} two={canon(two.to_dict())}"


run("shared listed material", fresh(shared_listed))
