"""Differential script for change 3: saturated-state property methods of Adsorbate (shared CoolProp state)."""
import itertools
import warnings

import numpy

import pygaps
from pygaps.utilities import coolprop_utilities as cpu

warnings.simplefilter("ignore")


def fmt(x):
    if isinstance(x, BaseException):
        return f"{type(x).__name__}: {' '.join(str(x).split())}"
    if x is None or isinstance(x, (str, bool)):
        return repr(x)
    arr = numpy.asarray(x)
    if arr.ndim == 0:
        return f"{type(x).__name__}:{float(arr):.12g}"
    return f"{type(x).__name__}{arr.shape}:[" + ", ".join(f"{float(v):.12g}" for v in arr.ravel()) + "]"


def fingerprint(ads):
    return f"{ads.name} {ads.alias} {sorted(ads.properties.items(), key=str)!r} mode={ads._backend_mode!r} state={type(ads._state).__name__}"


def fresh(kind):
    if kind in ("N2", "CO2", "H2O", "Ar", "CH4", "C4H10"):
        found = pygaps.Adsorbate.find(kind)
        return pygaps.Adsorbate(**found.to_dict())
    if kind == "nobackend":
        return pygaps.Adsorbate("nobackend", saturation_pressure=1234.5, surface_tension=8.8, liquid_density=0.8)
    if kind == "badbackend":
        return pygaps.Adsorbate(
            "badbackend",
            backend_name="NotAFluid",
            saturation_pressure=2222.0,
            surface_tension=9.9,
            liquid_density=0.7,
            liquid_molar_density=0.02,
            gas_density=0.004,
            gas_molar_density=1e-4,
            enthalpy_liquefaction=5.5,
        )
    if kind == "dictonly":
        return pygaps.Adsorbate(
            "dictonly",
            backend_name="nitrogen",
            saturation_pressure=101325.0,
            surface_tension=8.0,
            liquid_density=0.808,
            liquid_molar_density=0.0288,
            gas_density=0.0046,
            gas_molar_density=1.6e-4,
            enthalpy_liquefaction=5.58,
        )
    raise ValueError(kind)


def call(ads, meth, args, kwargs):
    try:
        return fmt(getattr(ads, meth)(*args, **kwargs))
    except Exception as err:  # noqa
        return fmt(err)


METHODS = [
    "saturation_pressure", "pressure_saturation", "surface_tension", "liquid_density", "liquid_molar_density",
    "gas_density", "gas_molar_density"
]
TEMPS = [77.0, 77.355, 87.3, 120, 150.0, 273.15, 298.0, 500.0, 1e4, 0.0, -5.0, None, float("nan"), "77", numpy.float64(90.0)]
KINDS = ["N2", "CO2", "H2O", "Ar", "CH4", "C4H10", "nobackend", "badbackend", "dictonly"]

n = 0
# 1. each call first on a fresh adsorbate
for kind, meth, temp in itertools.product(KINDS, METHODS, TEMPS):
    n += 1
    ads = fresh(kind)
    before = fingerprint(ads)
    res = call(ads, meth, (temp, ), {})
    print(f"fresh {kind}.{meth}({temp!r}) -> {res} | mode={ads._backend_mode!r} props-same={before.split(' mode=')[0] == fingerprint(ads).split(' mode=')[0]}")

# 2. calculate=False, units, keyword spellings
for kind in KINDS:
    for meth in METHODS:
        n += 1
        ads = fresh(kind)
        print(f"dict {kind}.{meth} -> {call(ads, meth, (100.0, ), dict(calculate=False))} | mode={ads._backend_mode!r}")
for kind in ("N2", "CO2", "nobackend", "badbackend"):
    for unit in (None, "Pa", "bar", "kPa", "torr", "atm", "bogus"):
        for temp in (77.0, 250.0, 400.0):
            n += 1
            ads = fresh(kind)
            print(f"unit {kind} {unit!r} {temp} -> {call(ads, 'saturation_pressure', (), dict(temp=temp, unit=unit))}"
                  f" / alias {call(ads, 'pressure_saturation', (temp, unit), {})}"
                  f" / nocalc {call(ads, 'saturation_pressure', (temp, unit, False), {})}")

# 3. enthalpy of liquefaction (shares the state and is interleaved below)
for kind in ("N2", "CO2", "badbackend", "nobackend"):
    for kw in (dict(temp=77.0), dict(press=101325.0), dict(temp=77.0, press=1e5), dict(), dict(temp=400.0),
               dict(press=1e9), dict(temp=77.0, calculate=False)):
        n += 1
        ads = fresh(kind)
        print(f"enth {kind} {kw} -> {call(ads, 'enthalpy_liquefaction', (), kw)} / {call(ads, 'enthalpy_vaporisation', (), kw)}")

# 4. histories on ONE adsorbate: every query must equal the same query on a fresh one
HISTORY = [
    ("saturation_pressure", (77.0, ), {}),
    ("gas_density", (100.0, ), {}),
    ("liquid_density", (77.0, ), {}),
    ("surface_tension", (500.0, ), {}),
    ("liquid_density", (77.0, ), {}),
    ("enthalpy_liquefaction", (), dict(press=50000.0)),
    ("liquid_molar_density", (90.0, ), {}),
    ("gas_molar_density", (90.0, ), {}),
    ("p_critical", (), {}),
    ("saturation_pressure", (400.0, ), {}),
    ("saturation_pressure", (77.0, "bar"), {}),
    ("t_triple", (), {}),
    ("surface_tension", (80.0, ), {}),
    ("molar_mass", (), {}),
    ("gas_density", (None, ), {}),
    ("gas_density", (80.0, ), {}),
    ("enthalpy_liquefaction", (), dict(temp=80.0)),
    ("liquid_density", (0.0, ), {}),
    ("liquid_density", (80.0, ), {}),
]
for kind in ("N2", "CO2", "H2O", "badbackend", "dictonly"):
    used = fresh(kind)
    start = fingerprint(used)
    for perm_seed in (0, 1, 2):
        hist = list(HISTORY)
        numpy.random.RandomState(perm_seed).shuffle(hist)
        for meth, args, kwargs in hist:
            n += 1
            a = call(used, meth, args, kwargs)
            b = call(fresh(kind), meth, args, kwargs)
            print(f"hist {kind} seed={perm_seed} {meth}{args}{kwargs} -> {a} | fresh-equal={a == b}")
    end = fingerprint(used)
    print(f"hist {kind} props unchanged: {start.split(' mode=')[0] == end.split(' mode=')[0]} | {end}")

# 5. two adsorbates sharing a fluid keep separate states; the same instance serves isotherm conversions
a1, a2 = fresh("N2"), fresh("N2")
print("two", call(a1, "liquid_density", (77.0, ), {}), call(a2, "gas_density", (100.0, ), {}),
      call(a1, "liquid_density", (77.0, ), {}), a1._state is a2._state)
iso = pygaps.PointIsotherm(
    pressure=[0.1, 0.3, 0.6, 0.9], loading=[1.0, 2.0, 3.0, 4.0], material="m", adsorbate="N2", temperature=77.0,
    temperature_unit="K", pressure_mode="relative", loading_basis="molar", loading_unit="mmol",
    material_basis="mass", material_unit="g",
)
for kw in (dict(pressure_mode="absolute", pressure_unit="Pa"), dict(loading_basis="volume_liquid", loading_unit="cm3"),
           dict(loading_basis="volume_gas", loading_unit="cm3"), dict(loading_basis="mass", loading_unit="mg")):
    n += 1
    try:
        if "pressure_mode" in kw:
            res = fmt(iso.pressure(**kw))
        else:
            res = fmt(iso.loading(**kw))
    except Exception as err:  # noqa
        res = fmt(err)
    print(f"iso {kw} -> {res}")
    print("   then", call(iso.adsorbate, "surface_tension", (77.0, ), {}))

# 6. backend name switch invalidates the cached state
ads = fresh("N2")
print("backend", cpu.thermodynamic_backend(), call(ads, "liquid_density", (77.0, ), {}), ads._backend_mode)
cpu.backend_use_refprop()
print("backend", cpu.thermodynamic_backend(), call(ads, "liquid_density", (77.0, ), {}), ads._backend_mode)
print("backend", cpu.thermodynamic_backend(), call(ads, "saturation_pressure", (77.0, ), {}), ads._backend_mode)
cpu.backend_use_coolprop()
print("backend", cpu.thermodynamic_backend(), call(ads, "liquid_density", (77.0, ), {}), ads._backend_mode)
print("backend", cpu.thermodynamic_backend(), call(ads, "gas_molar_density", (77.0, ), {}), ads._backend_mode)
print("cases:", n)
