"""Differential script for change 3: pygaps.characterisation.psd_kernel._load_kernel."""
import os
import shutil
import sys

HERE = os.path.dirname(os.path.abspath(__file__))
sys.path.insert(0, HERE)

import pathlib

import numpy
from common import fmt
from common import run

import pygaps.characterisation.psd_kernel as psdk
from pygaps.data import KERNELS

TMP = os.path.join(HERE, "tmp_kernels3")
shutil.rmtree(TMP, ignore_errors=True)
os.makedirs(TMP)


def write(name, text, encoding="utf8"):
    path = os.path.join(TMP, name)
    with open(path, "w", encoding=encoding, newline="") as fp:
        fp.write(text)
    return path


def describe(label, path, probes=None):
    """Load a kernel and print everything observable about it."""
    try:
        kernel = psdk._load_kernel(path)
    except Exception as err:  # noqa
        print(f"{label}: RAISED {type(err).__name__}: {err}")
        return None
    print(
        f"{label}: type={type(kernel).__name__} n={len(kernel)} "
        f"keys={[(type(k).__name__, k) for k in kernel]}"
    )
    for key, interp in kernel.items():
        print(
            f"   {key!r}: {type(interp).__name__} x={fmt(numpy.asarray(interp.x))} "
            f"y={fmt(numpy.asarray(interp.y))} bounds_error={interp.bounds_error} "
            f"fill={interp.fill_value!r}"
        )
        lo, hi = float(numpy.min(interp.x)), float(numpy.max(interp.x))
        grid = numpy.linspace(lo, hi, 41) if probes is None else numpy.asarray(probes)
        run(f"   {key!r} eval", interp, grid)
        run(f"   {key!r} eval-scalar", interp, (lo + hi) / 3)
        run(f"   {key!r} eval-above", interp, hi * 1.5 + 1)
        run(f"   {key!r} eval-below", interp, lo - 1)
    return kernel


def table(pressures, widths, func, fmt_p="{:.6g}", fmt_v="{:.9g}"):
    lines = ["," + ",".join(str(w) for w in widths)]
    for p in pressures:
        lines.append(fmt_p.format(p) + "," + ",".join(fmt_v.format(func(p, w)) for w in widths))
    return "\n".join(lines) + "\n"


def langmuir(p, w):
    return 10 * w * p / (p + 0.01 * w**3)


# 1 - shipped kernel, through the three possible spellings + cache identity
shipped = KERNELS['DFT-N2-77K-carbon-slit']
print("cache at start:", len(psdk._LOADED))
k1 = describe("shipped Path", shipped)
k1b = psdk._load_kernel(shipped)
print("shipped cached identity:", k1b is k1, len(psdk._LOADED), [type(k).__name__ for k in psdk._LOADED])
k2 = describe("shipped str", str(shipped))
print("shipped str is distinct object:", k2 is not k1, len(psdk._LOADED))
print("shipped str cached identity:", psdk._load_kernel(str(shipped)) is k2)
k3 = describe("shipped PurePath-equal", pathlib.Path(str(shipped)))
print("equal Path hits cache:", k3 is k1, len(psdk._LOADED))
psdk._LOADED.clear()
k4 = psdk._load_kernel(shipped)
print("reload after clear gives new object:", k4 is not k1, len(k4) == len(k1), len(psdk._LOADED))
print("reload same values:", all(
    numpy.array_equal(k4[s].y, k1[s].y) and numpy.array_equal(k4[s].x, k1[s].x) for s in k1
))

# 2 - user supplied kernels
p_log = numpy.logspace(-6, 0, 25)
cases = {
    "user float": table(p_log, [0.5, 1.0, 2.0, 4.0], langmuir),
    "user one width": table(p_log, [0.7], langmuir),
    "user two widths short": table([0.1, 0.2, 0.3], [1, 2], langmuir),
    "user 2 rows (too few for cubic)": table([0.1, 0.2], [1, 2], langmuir),
    "user 1 row": table([0.1], [1, 2], langmuir),
    "user int pressures": table([1, 2, 3, 4, 5, 6], [1, 2, 3], langmuir, fmt_p="{:d}"),
    "user int loadings": table([0.1, 0.2, 0.3, 0.4, 0.5], [1, 2, 3], lambda p, w: round(10 * p * w), fmt_v="{:d}"),
    "user all int": table([1, 2, 3, 4, 5], [1, 2], lambda p, w: p * w, fmt_p="{:d}", fmt_v="{:d}"),
    "user has zero row": table([0, 0.1, 0.2, 0.3, 0.4], [1, 2], langmuir),
    "user unsorted pressures": table([0.3, 0.1, 0.4, 0.2, 0.5], [1, 2], langmuir),
    "user negative pressure": table([-0.2, -0.1, 0.1, 0.2, 0.3], [1, 2], langmuir),
    "user duplicate pressure": table([0.1, 0.1, 0.2, 0.3, 0.4], [1, 2], langmuir),
    "user duplicate widths": ",1,1,2\n0.1,1,2,3\n0.2,2,3,4\n0.3,3,4,5\n0.4,4,5,6\n",
    "user text widths": ",small,large\n0.1,1,2\n0.2,2,3\n0.3,3,4\n0.4,4,5\n",
    "user nan cell": ",1,2\n0.1,1,2\n0.2,,3\n0.3,3,4\n0.4,4,5\n0.5,5,6\n",
    "user text cell": ",1,2\n0.1,1,2\n0.2,abc,3\n0.3,3,4\n0.4,4,5\n",
    "user text pressure": ",1,2\nlow,1,2\nmid,2,3\nhigh,3,4\ntop,4,5\n",
    "user header only": ",1,2,3\n",
    "user index only": "\n0.1\n0.2\n0.3\n0.4\n",
    "user empty file": "",
    "user named index": "p,1,2\n0.1,1,2\n0.2,2,3\n0.3,3,4\n0.4,4,5\n",
    "user scientific": ",0.4,0.8\n1E-06,1.5E+00,2.5E-01\n1E-05,3E+00,5E-01\n1E-04,4E+00,1E+00\n1E-03,4.5E+00,2E+00\n1E-02,4.6E+00,3E+00\n",
    "user whitespace": " , 1, 2\n0.1, 1, 2\n0.2, 2, 3\n0.3, 3, 4\n0.4, 4, 5\n",
    "user unicode header": ",1 nm,2 nm Å\n0.1,1,2\n0.2,2,3\n0.3,3,4\n0.4,4,5\n",
    "user ragged": ",1,2\n0.1,1,2\n0.2,2\n0.3,3,4\n0.4,4,5\n",
}
for i, (label, text) in enumerate(cases.items()):
    path = write(f"k{i:02d}.csv", text)
    before = len(psdk._LOADED)
    kern = describe(label, path)
    print(f"   cache grew: {len(psdk._LOADED) - before}; hit: {kern is not None and psdk._load_kernel(path) is kern}")
    # a second spelling of the same file is a separate cache entry
    kern2 = describe(label + " (Path)", pathlib.Path(path), probes=[0.15, 0.25])
    print(f"   path object separate: {kern2 is not kern or kern is None}")

# a failed load leaves nothing in the cache and is retried
bad = write("bad.csv", ",1,2\n0.1,1,2\n0.2,2,3\n")
before = len(psdk._LOADED)
describe("bad first", bad)
print("cache after failed load:", len(psdk._LOADED) - before, bad in psdk._LOADED)
write("bad.csv", table([0.1, 0.2, 0.3, 0.4, 0.5], [1, 2], langmuir))
describe("bad repaired", bad)
print("cache after repaired load:", len(psdk._LOADED) - before, bad in psdk._LOADED)
# cached kernels are not re-read when the file changes
write("bad.csv", table([0.1, 0.2, 0.3, 0.4, 0.5], [3, 4, 5], langmuir))
describe("bad changed on disk (cached)", bad)

# latin-1 encoded file is read as utf8
latin = os.path.join(TMP, "latin.csv")
with open(latin, "w", encoding="latin-1") as fp:
    fp.write(",1 \xc5,2\n0.1,1,2\n0.2,2,3\n0.3,3,4\n0.4,4,5\n")
describe("latin-1 file", latin)

# 3 - error paths on the path argument itself
describe("missing file", os.path.join(TMP, "does-not-exist.csv"))
describe("directory", TMP)
describe("kernel name not resolved", "DFT-N2-77K-carbon-slit")
describe("None path", None)
describe("list path (unhashable)", [shipped])
describe("dict path (unhashable)", {"a": 1})
describe("float path", 1.5)
describe("negative int path", -1)
describe("empty string", "")
describe("bytes path", os.fsencode(write("bytes.csv", table([0.1, 0.2, 0.3, 0.4, 0.5], [1, 2], langmuir))))
print("final cache key types:", sorted({type(k).__name__ for k in psdk._LOADED}))
print("final cache size:", len(psdk._LOADED))

# 4 - a pre-seeded cache entry is returned untouched, whatever it is
sentinel = {"1": "not an interpolator"}
psdk._LOADED["seeded"] = sentinel
print("seeded entry:", psdk._load_kernel("seeded") is sentinel)
psdk._LOADED[None] = sentinel
print("seeded None:", psdk._load_kernel(None) is sentinel)

shutil.rmtree(TMP, ignore_errors=True)
