"""Differential transcript for spreading_pressure of the BET, TSLangmuir, Toth, TemkinApprox models (others as control)."""
import itertools
import logging
import warnings

import numpy

import pygaps
import pygaps.iast as pgi
from pygaps.modelling import get_isotherm_model

logging.getLogger("pygaps").setLevel(logging.ERROR)


def hx(x):
    return float(x).hex() if isinstance(x, (float, numpy.floating)) else repr(x)


def fmt(res):
    if isinstance(res, numpy.ndarray):
        return f"ndarray {res.dtype} {res.shape} {[hx(x) for x in numpy.ravel(res).tolist()]!r}"
    if isinstance(res, (float, numpy.floating)):
        return f"{type(res).__name__} {res!r} {float(res).hex()}"
    return f"{type(res).__name__} {res!r}"


def show(label, fn, *args, **kwargs):
    with warnings.catch_warnings(record=True) as wlist:
        warnings.simplefilter("always")
        try:
            out = fmt(fn(*args, **kwargs))
        except BaseException as exc:  # noqa
            out = f"EXC {type(exc).__name__}: {exc}"
    wtxt = sorted({f"{w.category.__name__}: {str(w.message).splitlines()[0]}" for w in wlist})
    print(f"{label} -> {out}" + (f"  WARN {wtxt}" if wtxt else ""))


PARAMSETS = {
    "BET": [
        {"n_m": 4.0, "C": 80.0, "N": 0.9}, {"n_m": 0.37, "C": 1.5, "N": 0.2}, {"n_m": 4, "C": 80, "N": 1},
        {"n_m": 2.0, "C": 0.0, "N": 0.0}, {"n_m": -1.0, "C": 3.0, "N": 0.5}, {"n_m": 1e-8, "C": 1e6, "N": 0.999},
        {"n_m": numpy.float64(3.1), "C": numpy.float32(7.5), "N": 0.45}, {"n_m": float("nan"), "C": 2.0, "N": 0.3},
        {"n_m": 2.0, "C": float("inf"), "N": 0.3}, {"n_m": 2.0, "C": -5.0, "N": 0.3},
    ],
    "TSLangmuir": [
        {"n_m1": 3.0, "K1": 20.0, "n_m2": 2.5, "K2": 0.7, "n_m3": 1.1, "K3": 150.0},
        {"n_m1": 0.1, "K1": 1e-3, "n_m2": 1e3, "K2": 1e-6, "n_m3": 1e-5, "K3": 1e7},
        {"n_m1": -3.0, "K1": 20.0, "n_m2": 2.5, "K2": 0.7, "n_m3": -0.0, "K3": 150.0},
        {"n_m1": 1, "K1": 2, "n_m2": 3, "K2": 4, "n_m3": 5, "K3": 6},
        {"n_m1": 0.0, "K1": 0.0, "n_m2": 0.0, "K2": 0.0, "n_m3": 0.0, "K3": 0.0},
        {"n_m1": 1e308, "K1": 1.0, "n_m2": -1e308, "K2": 1.0, "n_m3": 1.0, "K3": 1.0},
        {"n_m1": 1.0, "K1": 1.0, "n_m2": 1e308, "K2": 1.0, "n_m3": -1e308, "K3": 1.0},
        {"n_m1": float("nan"), "K1": 1.0, "n_m2": 2.0, "K2": 1.0, "n_m3": 3.0, "K3": 1.0},
        {"n_m1": 0.1, "K1": 0.3, "n_m2": 0.7, "K2": 0.9, "n_m3": 1.3, "K3": 1.7},
        {"n_m1": 1.0, "K1": -2.0, "n_m2": 1.0, "K2": 3.0, "n_m3": 1.0, "K3": -0.5},
    ],
    "Toth": [
        {"n_m": 5.0, "K": 9.0, "t": 0.6}, {"n_m": 1.0, "K": 1.0, "t": 1.0}, {"n_m": 2, "K": 3, "t": 2},
        {"n_m": 0.3, "K": 1e3, "t": 0.25}, {"n_m": 7.7, "K": 1e-3, "t": 3.5}, {"n_m": -1.0, "K": 2.0, "t": 0.5},
        {"n_m": 1.0, "K": 0.0, "t": 0.5}, {"n_m": 1.0, "K": 2.0, "t": 0.0}, {"n_m": float("nan"), "K": 2.0, "t": 0.5},
    ],
    "TemkinApprox": [
        {"n_m": 5.0, "K": 8.0, "tht": -0.4}, {"n_m": 5.0, "K": 8.0, "tht": 0.0}, {"n_m": 1, "K": 2, "tht": 3},
        {"n_m": 0.2, "K": 1e4, "tht": 0.9}, {"n_m": 3.3, "K": 1e-4, "tht": -2.0}, {"n_m": -1.0, "K": 2.0, "tht": 0.5},
        {"n_m": 1.0, "K": -2.0, "tht": 0.5}, {"n_m": float("inf"), "K": 2.0, "tht": 0.5}, {"n_m": 0.0, "K": 0.0, "tht": 0.0},
    ],
    # untouched models, as control
    "Langmuir": [{"K": 12.0, "n_m": 5.0}],
    "DSLangmuir": [{"n_m1": 3.0, "K1": 20.0, "n_m2": 2.5, "K2": 0.7}],
    "Henry": [{"K": 3.3}],
    "Quadratic": [{"n_m": 3.0, "Ka": 5.0, "Kb": 11.0}],
    "JensenSeaton": [{"K": 40.0, "a": 4.0, "b": 0.2, "c": 1.3}],
    "GAB": [{"n_m": 4.0, "C": 80.0, "K": 0.85}],
}

rng = numpy.random.RandomState(2024)
SCALARS = [0.0, -0.0, 1e-300, 1e-12, 1e-6, 0.001, 0.05, 0.1, 1 / 3, 0.5, 0.9, 1.0, 1.1, 1.1111111111111112, 2.0, 10.0, 1e3, 1e10, 1e300,
           -0.1, -1.0, float("nan"), float("inf"), 0, 1, 3, True,
           numpy.float64(0.25), numpy.float32(0.25), numpy.int64(2), numpy.array(0.3)]
SCALARS += [float(x) for x in rng.uniform(0, 1.2, 25)] + [float(x) for x in 10 ** rng.uniform(-8, 3, 15)]
ARRAYS = [numpy.array([0.3]), numpy.array([0.0, 0.05, 0.5, 1.0, 1.2]), numpy.linspace(0, 1, 11), numpy.array([1, 2, 3]),
          numpy.array([[0.1, 0.2], [0.3, 0.4]]), numpy.array([]), numpy.array([0.1, numpy.nan, numpy.inf, -1.0])]
ODD = [None, "0.5", [0.1, 0.2], (0.1, ), [], {}, 1 + 2j, numpy.array(["a"]), numpy.array([None, 1.0], dtype=object)]

print("==== 1. direct model calls")
for mname, psets in PARAMSETS.items():
    for i, params in enumerate(psets):
        model = get_isotherm_model(mname, parameters=params)
        print(f"-- {mname}#{i} params={model.params!r}")
        for p in SCALARS:
            show(f"{mname}#{i} p={p!r}", model.spreading_pressure, p)
        for p in ARRAYS:
            show(f"{mname}#{i} p=array{p.tolist()!r}", model.spreading_pressure, p)
        for p in ODD:
            show(f"{mname}#{i} p={p!r}", model.spreading_pressure, p)
        show(f"{mname}#{i} kw", model.spreading_pressure, pressure=0.4)
        print(f"   params after: {model.params!r}")

print("==== 2. damaged parameter dictionaries")
for mname in ("BET", "TSLangmuir", "Toth", "TemkinApprox"):
    full = PARAMSETS[mname][0]
    keys = list(full)
    for r in range(len(keys)):
        for drop in itertools.combinations(keys, r + 1):
            model = get_isotherm_model(mname, parameters=full)
            model.params = {k: v for k, v in full.items() if k not in drop}
            show(f"{mname} without {drop}", model.spreading_pressure, 0.4)
    model = get_isotherm_model(mname)  # all-nan defaults
    show(f"{mname} default nan params", model.spreading_pressure, 0.4)
    model.params = None
    show(f"{mname} params None", model.spreading_pressure, 0.4)
    for k in keys:
        for bad in (None, "2", [1.0], numpy.array([1.0, 2.0])):
            model = get_isotherm_model(mname, parameters={**full, k: bad})
            show(f"{mname} {k}={bad!r}", model.spreading_pressure, 0.4)
            show(f"{mname} {k}={bad!r} arr", model.spreading_pressure, numpy.array([0.2, 0.4]))

print("==== 3. through ModelIsotherm.spreading_pressure_at")
BASE = dict(material="mat", adsorbate="N2", temperature=77.355, pressure_mode="absolute", pressure_unit="bar",
            loading_basis="molar", loading_unit="mmol", material_basis="mass", material_unit="g", temperature_unit="K")
for mname in ("BET", "TSLangmuir", "Toth", "TemkinApprox"):
    for i, params in enumerate(PARAMSETS[mname][:3]):
        for ikw in (dict(), dict(pressure_mode="relative", pressure_unit=None)):
            iso = pygaps.ModelIsotherm(model=get_isotherm_model(mname, parameters=params, pressure_range=(0.001, 1.0), loading_range=(0.0, 5.0)), **{**BASE, **ikw})
            for conv in (dict(), dict(pressure_unit="kPa"), dict(pressure_mode="relative"), dict(pressure_mode="relative%"), dict(pressure_mode="absolute", pressure_unit="torr")):
                for p in (0.0, 1e-5, 0.05, 0.4, 0.95, 30.0, numpy.array([0.05, 0.5]), [0.2]):
                    show(f"iso {mname}#{i} {ikw} {conv} p={p!r}", iso.spreading_pressure_at, p, **conv)

print("==== 4. consistency: additive, zero at origin, p*dPi/dp ~ loading")
for mname in ("BET", "TSLangmuir", "Toth", "TemkinApprox"):
    model = get_isotherm_model(mname, parameters=PARAMSETS[mname][0])
    show(f"{mname} pi(0)", model.spreading_pressure, 0.0)
    for p in (0.01, 0.2, 0.7):
        h = 1e-6 * p
        show(f"{mname} p*dpi/dp at {p}", lambda: p * (model.spreading_pressure(p + h) - model.spreading_pressure(p - h)) / (2 * h))
        show(f"{mname} loading at {p}", model.loading, p)

print("==== 5. IAST with the models")
isos = []
for mname, ads in (("TSLangmuir", "N2"), ("Toth", "CO2"), ("TemkinApprox", "CH4"), ("BET", "C2H6")):
    model = get_isotherm_model(mname, parameters=PARAMSETS[mname][1 if mname == "BET" else 0], pressure_range=(0.0, 10.0), loading_range=(0.0, 10.0))
    isos.append(pygaps.ModelIsotherm(model=model, **{**BASE, "adsorbate": ads, "temperature": 298.0}))
for a, b in itertools.combinations(range(len(isos)), 2):
    for y in ([0.5, 0.5], [0.1, 0.9], [0.99, 0.01]):
        for ptot in (0.1, 1.0, 2.5):
            show(f"iast_point_fraction {isos[a].model.name}+{isos[b].model.name} y={y} P={ptot}", pgi.iast_point_fraction, [isos[a], isos[b]], y, ptot)
    show(f"reverse_iast {isos[a].model.name}+{isos[b].model.name}", pgi.reverse_iast, [isos[a], isos[b]], [0.3, 0.7], 1.0)
show("iast 3 components", pgi.iast_point_fraction, isos[:3], [0.2, 0.3, 0.5], 1.0)
show("iast 4 components", pgi.iast_point, isos, [0.2, 0.3, 0.4, 0.6])
