"""Differential transcript for C02-1: PointIsotherm.convert_pressure (helper extraction)."""
import logging
import sys

import numpy
import pandas

import pygaps
from pygaps import logger
from pygaps.core.material import Material
from pygaps.core.pointisotherm import PointIsotherm


class Capture(logging.Handler):
    def emit(self, record):
        print(f"    LOG {record.levelname}: {record.getMessage()!r}")


for h in list(logger.handlers):
    logger.removeHandler(h)
logger.addHandler(Capture(level=logging.DEBUG))


def hexes(seq):
    out = []
    for v in seq:
        try:
            out.append(float(v).hex())
        except (TypeError, ValueError):
            out.append(repr(v))
    return out


def snap(iso):
    print("    labels:", repr({k: iso.__dict__.get(k) for k in iso._unit_params}))
    print("    _temperature:", float(iso._temperature).hex())
    print("    columns:", list(iso.data_raw.columns), "index:", list(iso.data_raw.index))
    for col in iso.data_raw.columns:
        print(f"    {col} [{iso.data_raw[col].dtype}]:", hexes(iso.data_raw[col]))
    print("    properties:", repr(iso.properties))
    print("    interpolators:", iso.l_interpolator is None, iso.p_interpolator is None)
    print("    keys:", sorted(vars(iso)))


def attempt(label, fn):
    print(f"  > {label}")
    try:
        res = fn()
        print("    returned:", repr(res))
    except BaseException as err:  # noqa
        print(f"    raised {type(err).__name__}: {str(err)!r}")
        cause = err.__cause__
        if cause is not None:
            print(f"    cause {type(cause).__name__}: {str(cause)!r}")


def make(adsorbate="N2", temperature=77.355, **kw):
    params = dict(
        material="TestMat",
        adsorbate=adsorbate,
        temperature=temperature,
        pressure_mode="absolute",
        pressure_unit="bar",
        loading_basis="molar",
        loading_unit="mmol",
        material_basis="mass",
        material_unit="g",
        temperature_unit="K",
        comment="a comment",
        number=7,
    )
    params.update(kw)
    data = pandas.DataFrame({
        "p": [0.01, 0.05, 0.1, 0.3, 0.6, 0.9, 0.5, 0.2],
        "l": [0.5, 1.1, 1.9, 3.2, 4.4, 5.0, 4.6, 3.5],
        "extra": [9.0, 8.0, 7.0, 6.0, 5.0, 4.0, 3.0, 2.0],
        "zeta": list("abcdefgh"),
    })
    return PointIsotherm(isotherm_data=data, pressure_key="p", loading_key="l", **params)


SEQUENCES = [
    [dict(unit_to="Pa"), dict(unit_to="torr"), dict(unit_to="bar")],
    [dict(mode_to="relative"), dict(mode_to="relative%"), dict(mode_to="absolute", unit_to="kPa"),
     dict(mode_to="absolute", unit_to="bar")],
    [dict(mode_to="relative%"), dict(mode_to="relative"), dict(mode_to="relative"),
     dict(mode_to="absolute", unit_to="atm")],
    [dict(), dict(verbose=True), dict(mode_to="absolute", unit_to="bar", verbose=True)],
    [dict(mode_to="relative", unit_to="Pa", verbose=True), dict(unit_to="Pa"), dict(mode_to="absolute")],
    [dict(mode_to="bogus"), dict(unit_to="bogus"), dict(mode_to="absolute", unit_to="bogus"),
     dict(mode_to="", unit_to=""), dict(mode_to="relative", unit_to="bogus"), dict(unit_to="mbar", verbose=True)],
    [dict(mode_to="relative"), dict(mode_to="absolute"), dict(mode_to="absolute", unit_to=None),
     dict(unit_to="bar"), dict(mode_to="absolute", unit_to="mmHg", verbose=True)],
    [dict(mode_to="relative%", verbose=True), dict(mode_to="relative%", unit_to="bar"),
     dict(mode_to="relative", unit_to="bar"), dict(mode_to="absolute", unit_to="MPa")],
]

for adsorbate, temp in [("N2", 77.355), ("N2", 300.0), ("nitrogen", 77.355), ("madeupgas", 77.355), ("CO2", 250.0)]:
    for si, seq in enumerate(SEQUENCES):
        print(f"== adsorbate={adsorbate} T={temp} sequence {si}")
        iso = make(adsorbate, temp)
        iso.l_interpolator = "stale"
        iso.p_interpolator = "stale"
        snap(iso)
        for kw in seq:
            attempt(f"convert_pressure({kw!r})", lambda: iso.convert_pressure(**kw))
            snap(iso)

# positional arguments, celsius-stored temperature, and hand-corrupted labels
print("== positional / celsius / corrupted")
iso = make("N2", -195.795, temperature_unit="°C")
attempt("positional relative", lambda: iso.convert_pressure("relative", None, True))
snap(iso)
attempt("positional absolute Pa", lambda: iso.convert_pressure("absolute", "Pa", False))
snap(iso)

iso = make("N2", 77.355, pressure_mode="relative")
iso.pressure_unit = "bar"  # label that the constructor would have removed
attempt("relative with stray unit -> absolute bar", lambda: iso.convert_pressure("absolute", "bar"))
snap(iso)
iso = make("N2", 77.355, pressure_mode="relative")
iso.pressure_unit = "bar"
attempt("relative with stray unit -> unit only", lambda: iso.convert_pressure(unit_to="Pa"))
snap(iso)

iso = make("N2", 77.355)
iso.temperature_unit = "F"  # temperature property now fails with a pgError
attempt("broken temperature unit, to relative", lambda: iso.convert_pressure("relative"))
snap(iso)
attempt("broken temperature unit, unit only", lambda: iso.convert_pressure(unit_to="Pa"))
snap(iso)

iso = make("N2", 77.355)
iso.pressure_key = "missing"
attempt("missing pressure column", lambda: iso.convert_pressure(unit_to="Pa"))
snap(iso)

iso = make("N2", 77.355)
iso.pressure_mode = "weird"
attempt("corrupt current mode", lambda: iso.convert_pressure("relative"))
snap(iso)
attempt("corrupt current mode, same mode, new unit", lambda: iso.convert_pressure(unit_to="Pa"))
snap(iso)

# combined convert goes through convert_pressure too
iso = make("N2", 77.355)
attempt("convert(pressure_mode=relative%, loading_unit=mol)",
        lambda: iso.convert(pressure_mode="relative%", loading_unit="mol", verbose=True))
snap(iso)
attempt("convert(pressure_unit=bogus, loading_unit=mmol)",
        lambda: iso.convert(pressure_mode="absolute", pressure_unit="bogus", loading_unit="mmol"))
snap(iso)

# array/pressure() still read the converted column
iso = make("N2", 77.355)
iso.convert_pressure("relative")
print(hexes(iso.pressure()), hexes(iso.pressure(pressure_mode="absolute", pressure_unit="Pa")))
print(hexes(iso.loading_at(0.3)) if numpy.ndim(iso.loading_at(0.3)) else float(iso.loading_at(0.3)).hex())
iso.convert_pressure("absolute", "bar")
print(iso.l_interpolator is None, hexes(iso.pressure(branch="des")))
print("helper present:", sorted(n for n in dir(PointIsotherm) if n.startswith("convert")))
