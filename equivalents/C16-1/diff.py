"""Differential script for change 1 (models_kelvin: meniscus geometry + kelvin equations)."""
import itertools

import numpy
from eqfmt import run

import pygaps.characterisation.models_kelvin as km

# ---------------------------------------------------------------- meniscus geometry
branches = ['ads', 'des', 'test', 'Ads', '', None, 0, ['ads'], ('des', ), numpy.str_('ads'), b'ads']
geoms = [
    'slit', 'cylinder', 'halfopen-cylinder', 'sphere', 'Slit', 'cylindrical', '', None, 1,
    ['slit'], numpy.str_('cylinder'), numpy.str_('sphere')
]
for b, g in itertools.product(branches, geoms):
    run(f"meniscus {b!r} {g!r}", km.get_meniscus_geometry, b, g)
run("meniscus kw", km.get_meniscus_geometry, branch='ads', pore_geometry='cylinder')
run("meniscus missing", km.get_meniscus_geometry, 'ads')

# ---------------------------------------------------------------- kelvin equations
rng = numpy.random.default_rng(16)
pressures = {
    "scalar": 0.4,
    "scalar_np": numpy.float64(0.731),
    "list": [0.1, 0.4, 0.9],
    "grid": numpy.linspace(0.01, 0.995, 41),
    "random": numpy.sort(rng.uniform(1e-6, 1 - 1e-9, 57)),
    "tiny": numpy.array([1e-300, 1e-30, 1e-12]),
    "edge": numpy.array([0.0, 1.0, 1.5, -0.2, numpy.nan, numpy.inf]),
    "f32": numpy.linspace(0.05, 0.95, 7, dtype=numpy.float32),
    "int_one": 1,
    "empty": numpy.array([]),
    "2d": numpy.array([[0.1, 0.2], [0.3, 0.99]]),
}
props = {
    # temperature, liquid_density, molar_mass, surface_tension
    "N2": (77.355, 0.806, 28.0134, 8.876),
    "Ar": (87.3, 1.3954, 39.948, 12.5),
    "H2O": (298.15, 0.997, 18.015, 71.97),
    "ints": (77, 1, 28, 9),
    "np": (numpy.float64(273.15), numpy.float64(0.5), numpy.float64(44.01), numpy.float64(4.3)),
    "weird": (1e-3, 1e-8, 1e5, 1e4),
    "zero_st": (77.355, 0.806, 28.0134, 0.0),
    "neg": (77.355, 0.806, 28.0134, -8.876),
}
geometries = ['cylindrical', 'hemispherical', 'hemicylindrical']

for (pn, p), (an, a), g in itertools.product(pressures.items(), props.items(), geometries):
    run(f"kelvin {pn} {an} {g}", km.kelvin_radius, p, g, *a)
for (pn, p), (an, a) in itertools.product(pressures.items(), props.items()):
    run(f"kjs {pn} {an}", km.kelvin_radius_kjs, p, 'cylindrical', *a)

# error / odd paths
n2 = props["N2"]
for g in ['hemispherical', 'hemicylindrical', 'slit', 'Cylindrical', '', None, 2.0]:
    run(f"kjs geom {g!r}", km.kelvin_radius_kjs, 0.5, g, *n2)
for g in ['slit', 'Cylindrical', '', None, 2.0, ['cylindrical']]:
    run(f"kelvin geom {g!r}", km.kelvin_radius, 0.5, g, *n2)
# zero density: python float -> ZeroDivisionError, numpy float -> warning + inf
run("kelvin zero density py", km.kelvin_radius, 0.5, 'cylindrical', 77.0, 0.0, 28.0, 8.8)
run("kelvin zero density np", km.kelvin_radius, 0.5, 'cylindrical', 77.0, numpy.float64(0), 28.0, 8.8)
run("kelvin zero density + bad geom", km.kelvin_radius, 0.5, 'nope', 77.0, 0.0, 28.0, 8.8)
run("kjs zero density py", km.kelvin_radius_kjs, 0.5, 'cylindrical', 77.0, 0.0, 28.0, 8.8)
run("kjs zero density + bad geom", km.kelvin_radius_kjs, 0.5, 'nope', 77.0, 0.0, 28.0, 8.8)
run("kelvin zero temperature", km.kelvin_radius, [0.2, 0.5], 'cylindrical', 0.0, 0.8, 28.0, 8.8)
run("kjs zero temperature", km.kelvin_radius_kjs, [0.2, 0.5], 'cylindrical', 0.0, 0.8, 28.0, 8.8)
run("kelvin str pressure", km.kelvin_radius, 'a', 'cylindrical', *n2)
run("kelvin none pressure", km.kelvin_radius, None, 'cylindrical', *n2)
run("kelvin str density", km.kelvin_radius, 0.5, 'cylindrical', 77.0, 'x', 28.0, 8.8)
run("kelvin str tension", km.kelvin_radius, 0.5, 'cylindrical', 77.0, 0.8, 28.0, 'x')
run("kjs str tension", km.kelvin_radius_kjs, 0.5, 'cylindrical', 77.0, 0.8, 28.0, 'x')
run("kelvin str tension + bad geom", km.kelvin_radius, 0.5, 'nope', 77.0, 0.8, 28.0, 'x')
run("kelvin list tension + bad geom", km.kelvin_radius, 0.5, 'nope', 77.0, 0.8, 28.0, [1.0])
run("kelvin str temperature", km.kelvin_radius, 0.5, 'cylindrical', 'T', 0.8, 28.0, 8.8)
run("kelvin array props", km.kelvin_radius, [0.3, 0.6], 'cylindrical', numpy.array([77., 87.]),
    numpy.array([0.8, 1.4]), numpy.array([28., 40.]), numpy.array([8.8, 12.5]))
run("kjs array props", km.kelvin_radius_kjs, [0.3, 0.6], 'cylindrical', numpy.array([77., 87.]),
    numpy.array([0.8, 1.4]), numpy.array([28., 40.]), numpy.array([8.8, 12.5]))
run("kelvin f32 props", km.kelvin_radius, numpy.float32(0.5), 'hemispherical', numpy.float32(77.3),
    numpy.float32(0.8), numpy.float32(28.), numpy.float32(8.8))
run("kjs f32 props", km.kelvin_radius_kjs, numpy.float32(0.5), 'cylindrical', numpy.float32(77.3),
    numpy.float32(0.8), numpy.float32(28.), numpy.float32(8.8))
run("kelvin missing args", km.kelvin_radius, 0.5, 'cylindrical')
run(
    "kelvin kwargs", km.kelvin_radius, pressure=[0.3, 0.6], meniscus_geometry='hemispherical',
    temperature=77.355, liquid_density=0.806, adsorbate_molar_mass=28.0134,
    adsorbate_surface_tension=8.876
)

# ---------------------------------------------------------------- model getter (uses the functions above)
kw = dict(
    temperature=77.355, liquid_density=0.806, adsorbate_molar_mass=28.0134,
    adsorbate_surface_tension=8.876
)
grid = pressures["grid"]
for name in ['Kelvin', 'Kelvin-KJS']:
    for g in geometries:
        run(
            f"getter {name} {g}", lambda n=name, gg=g: km.get_kelvin_model(n, meniscus_geometry=gg, **kw)
            (grid)
        )
run("getter bad", km.get_kelvin_model, 'bad', **kw)
run("getter callable", lambda: km.get_kelvin_model(lambda p, **k: p * 2 + len(k), **kw)(grid))
run("getter none", km.get_kelvin_model, None)
run("models keys", lambda: list(km._KELVIN_MODELS))
run(
    "models identity", lambda:
    (km._KELVIN_MODELS['Kelvin'] is km.kelvin_radius, km._KELVIN_MODELS['Kelvin-KJS'] is km.kelvin_radius_kjs)
)

# Kelvin equation identity check: ln(p) * r_k * rho * R * T * factor == -2 * gamma * M
from scipy import constants  # noqa: E402

for g, f in zip(geometries, (2.0, 1.0, 0.5)):
    r = km.kelvin_radius(grid, g, *n2)
    lhs = numpy.log(grid) * r * f * constants.gas_constant * n2[0] * n2[1]
    run(f"identity {g}", lambda lhs=lhs: numpy.round(lhs / (-2 * n2[3] * n2[2]), 12))
