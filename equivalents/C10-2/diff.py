"""Differential script for change 2: closed-form inverses through the quadratic formula
(BET, GAB, Quadratic, DSLangmuir pressure()), incl. the nan_to_num bookkeeping at the zero point."""
import warnings

import numpy

warnings.filterwarnings("ignore")
numpy.seterr(all="ignore")

import pygaps
from pygaps.modelling import get_isotherm_model

nan = numpy.nan
f64 = numpy.float64


def canon(v):
    """Canonical text of a result: type, shape, dtype, values to 17 significant digits."""
    if isinstance(v, numpy.ndarray):
        vals = ", ".join(f"{x:.17g}" if isinstance(x, float) else repr(x) for x in v.ravel().tolist())
        return f"ndarray{v.shape}:{v.dtype}[{vals}]"
    if isinstance(v, (float, numpy.floating)):
        return f"{type(v).__name__}:{float(v):.17g}"
    if isinstance(v, (list, tuple)):
        return type(v).__name__ + "(" + ", ".join(canon(x) for x in v) + ")"
    return f"{type(v).__name__}:{v!r}"


def run(label, fn, *args):
    try:
        res = canon(fn(*args))
    except Exception as err:  # noqa
        res = f"EXC {type(err).__name__}: {err}"
    print(f"{label} -> {res}")


# model, parameters, pressure scale (pole / validity limit), loading scale (saturation or monolayer)
MODELS = [
    ("BET", dict(n_m=1.0, C=100.0, N=0.01), 100.0, 3.0),
    ("BET", dict(n_m=5.3, C=35.7, N=0.9), 1 / 0.9, 16.0),
    ("BET", dict(n_m=0.02, C=1e4, N=1.0), 1.0, 0.06),
    ("BET", dict(n_m=12.0, C=0.5, N=0.5), 2.0, 36.0),  # C == N: the quadratic degenerates
    ("BET", dict(n_m=12.0, C=0.2, N=0.7), 1 / 0.7, 36.0),  # C < N
    ("BET", dict(n_m=3.0, C=0.0, N=0.3), 1 / 0.3, 9.0),  # lower bound of C
    ("BET", dict(n_m=0.0, C=10.0, N=0.3), 1 / 0.3, 1.0),  # lower bound of n_m
    ("BET", dict(n_m=2.0, C=10.0, N=0.0), 10.0, 2.0),  # lower bound of N (Langmuir limit)
    ("BET", dict(n_m=f64(2.5), C=f64(80.0), N=f64(0.04)), 25.0, 7.5),
    ("BET", dict(n_m=2, C=50, N=1), 1, 6),  # integer parameters
    ("BET", dict(n_m=nan, C=nan, N=nan), 1.0, 1.0),
    ("GAB", dict(n_m=1.0, C=100.0, K=0.01), 100.0, 3.0),
    ("GAB", dict(n_m=5.3, C=35.7, K=0.9), 1 / 0.9, 16.0),
    ("GAB", dict(n_m=8.0, C=1.0, K=0.5), 2.0, 24.0),  # C == 1: the quadratic degenerates
    ("GAB", dict(n_m=8.0, C=0.3, K=0.5), 2.0, 24.0),  # C < 1
    ("GAB", dict(n_m=8.0, C=0.0, K=0.5), 2.0, 24.0),
    ("GAB", dict(n_m=8.0, C=5.0, K=0.0), 2.0, 24.0),
    ("GAB", dict(n_m=f64(0.7), C=f64(2e3), K=f64(0.8)), 1.25, 2.0),
    ("GAB", dict(n_m=2, C=50, K=1), 1, 6),
    ("GAB", dict(n_m=nan, C=nan, K=nan), 1.0, 1.0),
    ("Quadratic", dict(n_m=2.0, Ka=3.0, Kb=0.5), 10.0, 4.0),
    ("Quadratic", dict(n_m=2.0, Ka=0.01, Kb=20.0), 5.0, 4.0),
    ("Quadratic", dict(n_m=9.0, Ka=5.0, Kb=0.0), 2.0, 9.0),  # Kb == 0: Langmuir limit, degenerate
    ("Quadratic", dict(n_m=9.0, Ka=0.0, Kb=4.0), 2.0, 18.0),
    ("Quadratic", dict(n_m=9.0, Ka=-1.0, Kb=4.0), 2.0, 18.0),  # bounds are (-inf, inf)
    ("Quadratic", dict(n_m=9.0, Ka=2.0, Kb=-0.1), 2.0, 18.0),
    ("Quadratic", dict(n_m=f64(0.3), Ka=f64(1e3), Kb=f64(1e5)), 0.01, 0.6),
    ("Quadratic", dict(n_m=2, Ka=3, Kb=1), 4, 4),
    ("Quadratic", dict(n_m=nan, Ka=nan, Kb=nan), 1.0, 1.0),
    ("DSLangmuir", dict(n_m1=1.0, K1=10.0, n_m2=2.0, K2=0.1), 20.0, 3.0),
    ("DSLangmuir", dict(n_m1=5.3, K1=35.7, n_m2=0.9, K2=35.7), 1.0, 6.2),  # equal constants
    ("DSLangmuir", dict(n_m1=0.02, K1=1e4, n_m2=7.0, K2=1e-4), 100.0, 7.02),
    ("DSLangmuir", dict(n_m1=3.0, K1=2.0, n_m2=0.0, K2=5.0), 5.0, 3.0),  # second site empty
    ("DSLangmuir", dict(n_m1=0.0, K1=2.0, n_m2=4.0, K2=5.0), 5.0, 4.0),  # first site empty
    ("DSLangmuir", dict(n_m1=3.0, K1=0.0, n_m2=4.0, K2=5.0), 5.0, 7.0),  # K1 at lower bound: degenerate
    ("DSLangmuir", dict(n_m1=3.0, K1=2.0, n_m2=4.0, K2=0.0), 5.0, 7.0),
    ("DSLangmuir", dict(n_m1=0.0, K1=0.0, n_m2=0.0, K2=0.0), 1.0, 1.0),
    ("DSLangmuir", dict(n_m1=f64(2.5), K1=f64(80.0), n_m2=f64(0.4), K2=f64(3.0)), 2.0, 2.9),
    ("DSLangmuir", dict(n_m1=2, K1=50, n_m2=1, K2=3), 2, 3),
    ("DSLangmuir", dict(n_m1=1e-8, K1=1e8, n_m2=1e8, K2=1e-8), 1.0, 1e8),
    ("DSLangmuir", dict(n_m1=nan, K1=nan, n_m2=nan, K2=nan), 1.0, 1.0),
]
FUNCS = ("loading", "spreading_pressure")  # explicit functions taking a pressure


def arguments(top):
    """top: the pole / validity limit (pressure) or the saturation (loading)."""
    return [
        ("py0", 0.0),
        ("pyint0", 0),
        ("pyint1", 1),
        ("tiny", 1e-12 * top),
        ("low", 0.01 * top),
        ("mid", 0.35 * top),
        ("high", 0.95 * top),
        ("at-top", top),
        ("above", 1.7 * top),
        ("neg", -0.3 * top),
        ("np-scalar", f64(0.5 * top)),
        ("np-zero", f64(0.0)),
        ("0d", numpy.array(0.21 * top)),
        ("0d-zero", numpy.array(0.0)),
        ("1d-one", numpy.array([0.6 * top])),
        ("1d-zero", numpy.array([0.0])),
        ("1d", numpy.linspace(0, 0.9 * top, 7)),
        ("1d-nozero", numpy.linspace(0.05 * top, 0.9 * top, 6)),
        ("1d-log", numpy.logspace(-8, -0.02, 6) * top),
        ("1d-zero-and-top", numpy.array([0.0, top, 2 * top, -top])),
        ("1d-f32", numpy.linspace(0, 0.9 * top, 4).astype("float32")),
        ("1d-int", numpy.array([0, 1, 2, 3])),
        ("2d", numpy.array([[0.0, 0.2 * top], [0.3 * top, 0.4 * top]])),
        ("empty", numpy.array([])),
        ("list", [0.1 * top, 0.2 * top]),
        ("nan", nan),
        ("inf", numpy.inf),
        ("1d-nan-inf", numpy.array([0.1 * top, nan, numpy.inf, -numpy.inf])),
        ("none", None),
        ("str", "a"),
    ]


def fresh(val):
    """Copies: a function may work in place on its argument."""
    return val.copy() if isinstance(val, numpy.ndarray) else val


for mname, params, ptop, ltop in MODELS:
    model = get_isotherm_model(mname, parameters=params)
    tag = mname + "(" + ",".join(f"{k}={v!r}" for k, v in params.items()) + ")"
    for name, val in arguments(ptop):
        for func in FUNCS:
            run(f"{tag}.{func}({name})", getattr(model, func), fresh(val))
        run(f"{tag} p(n({name}))", lambda v: model.pressure(model.loading(v)), fresh(val))
    for name, val in arguments(ltop):
        arg = fresh(val)
        run(f"{tag}.pressure({name})", model.pressure, arg)
        if isinstance(val, numpy.ndarray):
            print("   argument untouched:", canon(arg) == canon(val))
        run(f"{tag} n(p({name}))", lambda v: model.loading(model.pressure(v)), fresh(val))

# type / ownership of the result where the nan handling kicked in and where it did not
for mname, params, ptop, ltop in MODELS[::5]:
    model = get_isotherm_model(mname, parameters=params)
    for name, val in [("arr-with-zero", numpy.array([0.0, 0.2 * ltop, 0.5 * ltop])), ("arr-no-zero", numpy.array([0.2 * ltop, 0.5 * ltop]))]:
        try:
            res = model.pressure(val)
            print(mname, name, type(res).__name__, res.flags.writeable, res.flags.owndata, canon(res))
        except Exception as err:  # noqa
            print(mname, name, f"EXC {type(err).__name__}: {err}")

# through a ModelIsotherm (unit conversions around the model)
for mname, params, ptop, ltop in MODELS[::4]:
    if any(v != v for v in params.values()):
        continue
    model = get_isotherm_model(mname, parameters=params)
    iso = pygaps.ModelIsotherm(
        model=model, material="m", adsorbate="nitrogen", temperature=77.0,
        pressure_mode="absolute", pressure_unit="bar",
        loading_basis="molar", loading_unit="mmol", material_basis="mass", material_unit="g",
    )
    tag = "iso " + mname + str(sorted(params.items()))
    pts = numpy.linspace(0, 0.9 * ptop, 6)
    run(tag + " loading_at", iso.loading_at, pts)
    run(tag + " loading_at scalar", iso.loading_at, float(pts[1]))
    run(tag + " loading_at cm3", lambda p: iso.loading_at(p, loading_basis="volume_gas", loading_unit="cm3"), pts)
    run(tag + " loading_at kPa", lambda p: iso.loading_at(p * 100, pressure_unit="kPa"), pts)
    run(tag + " loading_at relative", lambda p: iso.loading_at(p / 2, pressure_mode="relative"), pts)
    lds = numpy.linspace(0, 0.9 * ltop, 6)
    run(tag + " pressure_at", iso.pressure_at, lds)
    run(tag + " pressure_at scalar 0", iso.pressure_at, 0)
    run(tag + " pressure_at scalar", iso.pressure_at, float(lds[2]))
    run(tag + " pressure_at list", iso.pressure_at, list(lds))
    run(tag + " pressure_at mol/kg", lambda n: iso.pressure_at(n / 1000, loading_unit="mol", material_unit="kg", material_basis="mass"), lds)
    run(tag + " pressure_at ->kPa", lambda n: iso.pressure_at(n, pressure_unit="kPa"), lds)
    run(tag + " pressure_at ->relative", lambda n: iso.pressure_at(n, pressure_mode="relative"), lds)
    run(tag + " spreading_pressure_at", iso.spreading_pressure_at, pts)
