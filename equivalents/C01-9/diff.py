"""Differential transcript for converter_unit (_check_unit, c_unit) and its direct callers."""
import itertools
import warnings

import numpy

warnings.simplefilter("ignore")

from pygaps.units import converter_unit as cu
from pygaps.units import converter_mode as cm


def show(label, fn, *args, **kwargs):
    try:
        res = fn(*args, **kwargs)
        if isinstance(res, numpy.ndarray):
            out = f"ndarray {res.dtype} {res.shape} {res.tolist()!r}"
        else:
            out = f"{type(res).__name__} {res!r}"
    except BaseException as exc:  # noqa
        out = f"EXC {type(exc).__name__}: {exc}"
    print(f"{label} -> {out}")


TABLES = {
    "molar": cu._MOLAR_UNITS,
    "mass": cu._MASS_UNITS,
    "volume": cu._VOLUME_UNITS,
    "pressure": cu._PRESSURE_UNITS,
    "temperature": cu._TEMPERATURE_UNITS,
}
VALUES = [0, 1, -1, 0.0, -0.0, 1.0, 3.7, -2.5e-7, 1e300, float("inf"), float("nan"), 7, True, 2 + 1j]
ARR = numpy.array([0.0, 0.1, 1.0, 12.5, 1e5])
IARR = numpy.array([0, 1, 2, 1000])

# tables themselves
for name, table in TABLES.items():
    print(name, repr(list(table.items())))

# every pair in every table, several values and signs
for name, table in TABLES.items():
    for uf, ut in itertools.product(table, repeat=2):
        for sign in (1, -1):
            for v in VALUES:
                show(f"c_unit[{name}] {v!r} {uf}->{ut} sign={sign}", cu.c_unit, table, v, uf, ut, sign)
            show(f"c_unit[{name}] ARR {uf}->{ut} sign={sign}", cu.c_unit, table, ARR, uf, ut, sign)
            show(f"c_unit[{name}] IARR {uf}->{ut} sign={sign}", cu.c_unit, table, IARR, uf, ut, sign=sign)
        show(f"c_unit[{name}] default-sign {uf}->{ut}", cu.c_unit, table, 2.5, uf, ut)
        show(f"c_unit[{name}] kw {uf}->{ut}", cu.c_unit, unit_list=table, value=2.5, unit_from=uf, unit_to=ut)

# odd signs
for sign in (0, 2, -2, 0.5, 1.0, None, "a"):
    show(f"c_unit sign={sign!r}", cu.c_unit, cu._PRESSURE_UNITS, 3.0, "bar", "torr", sign)

# error cases: missing / unknown / weird units, in either or both positions
BAD = [None, "", "bad", "BAR", "Bar", 0, 1, 1.5, (), ("bar", ), [], ["bar"], {}, b"bar", numpy.array([]), numpy.array(["bar", "Pa"])]
for name, table in TABLES.items():
    good = next(iter(table))
    for bad in BAD:
        show(f"c_unit[{name}] from={bad!r}", cu.c_unit, table, 1.0, bad, good)
        show(f"c_unit[{name}] to={bad!r}", cu.c_unit, table, 1.0, good, bad)
        for bad2 in (None, "", "bad2", []):
            show(f"c_unit[{name}] from={bad!r} to={bad2!r}", cu.c_unit, table, 1.0, bad, bad2)
        for utype in ("conversion", "pressure", "", None, 5):
            show(f"_check_unit[{name}] {bad!r} utype={utype!r}", cu._check_unit, bad, table, utype)
    for good in table:
        show(f"_check_unit[{name}] {good!r}", cu._check_unit, good, table, "x")

# custom unit lists (not dicts of floats)
show("custom ints", cu.c_unit, {"a": 3, "b": 7}, 5, "a", "b")
show("custom ints -1", cu.c_unit, {"a": 3, "b": 7}, 5, "a", "b", -1)
show("custom zero", cu.c_unit, {"a": 3, "b": 0}, 5, "a", "b")
show("custom zero float", cu.c_unit, {"a": 3.0, "b": 0.0}, 5, "a", "b")
show("custom str", cu.c_unit, {"a": "x", "b": 2}, 5, "a", "b")
show("custom empty", cu.c_unit, {}, 5, "a", "b")
show("custom list table", cu.c_unit, ["a", "b"], 5, "a", "b")
show("custom None table", cu.c_unit, None, 5, "a", "b")
show("custom key tuple", cu.c_unit, {(1, 2): 4.0, "b": 8.0}, 5, (1, 2), "b")
show("value None", cu.c_unit, cu._MASS_UNITS, None, "g", "kg")
show("value str", cu.c_unit, cu._MASS_UNITS, "ab", "g", "kg")
show("value list", cu.c_unit, cu._MASS_UNITS, [1, 2], "g", "kg")
show("value list same", cu.c_unit, cu._MASS_UNITS, [1, 2], "g", "g")

# callers in converter_mode which go through c_unit / _check_unit
for uf, ut in itertools.product(list(cu._PRESSURE_UNITS) + [None, "bad"], repeat=2):
    show(f"c_pressure abs {uf}->{ut}", cm.c_pressure, 1.25, "absolute", "absolute", uf, ut)
    show(f"c_pressure abs ARR {uf}->{ut}", cm.c_pressure, ARR, "absolute", "absolute", uf, ut)
for basis, table in (("mass", cu._MASS_UNITS), ("molar", cu._MOLAR_UNITS), ("volume_gas", cu._VOLUME_UNITS)):
    for uf, ut in itertools.product(list(table) + [None, "bad"], repeat=2):
        show(f"c_loading {basis} {uf}->{ut}", cm.c_loading, 1.25, basis, basis, uf, ut)
for basis, table in (("mass", cu._MASS_UNITS), ("molar", cu._MOLAR_UNITS), ("volume", cu._VOLUME_UNITS)):
    for uf, ut in itertools.product(list(table) + [None, "bad"], repeat=2):
        show(f"c_material {basis} {uf}->{ut}", cm.c_material, 1.25, basis, basis, uf, ut)
for uf, ut in itertools.product(["K", "°C", "C", "c", "degC", None, "", "F", "k"], repeat=2):
    show(f"c_temperature {uf}->{ut}", cm.c_temperature, 300.0, uf, ut)
