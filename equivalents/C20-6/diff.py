"""Differential script for change 2: grouping of property rows in adsorbates_from_db."""
import io
import logging
import os
import shutil
import sqlite3
import tempfile

import pygaps
from pygaps import ADSORBATE_LIST
from pygaps.core.adsorbate import Adsorbate
from pygaps.parsing import sqlite as pgsql
from pygaps.utilities.sqlite_db_creator import db_create
from pygaps.utilities.sqlite_db_pragmas import PRAGMAS
from pygaps.utilities.sqlite_utilities import db_execute_general

LOG = io.StringIO()
_h = logging.StreamHandler(LOG)
_h.setLevel(logging.DEBUG)
logging.getLogger('pygaps').addHandler(_h)

TMP = tempfile.mkdtemp(prefix="c20_diff2_")
N0 = len(ADSORBATE_LIST)


def canon(v):
    if isinstance(v, float):
        return f"float:{v:.12g}"
    if isinstance(v, (list, tuple)):
        return type(v).__name__ + "[" + ", ".join(canon(x) for x in v) + "]"
    if isinstance(v, dict):
        return "{" + ", ".join(f"{k!r}: {canon(x)}" for k, x in v.items()) + "}"
    return f"{type(v).__name__}:{v!r}"


def describe(adsorbates):
    lines = [f"n={len(adsorbates)} type={type(adsorbates).__name__}"]
    for ads in adsorbates:
        lines.append(
            f"  {type(ads).__name__} {ads.name!r} alias={canon(ads.alias)} props={canon(ads.properties)}"
        )
    return "\n".join(lines)


def run(label, func):
    LOG.seek(0)
    LOG.truncate()
    try:
        out = func()
    except BaseException as err:  # noqa
        out = f"EXC {type(err).__name__}: {err}".replace(TMP, "<TMP>")
    log = LOG.getvalue().strip().replace("\n", " | ")
    print(f"== {label}\n{out}" + (f"\n  [log: {log}]" if log else ""))


def empty_db(name):
    path = os.path.join(TMP, name)
    for pragma in PRAGMAS:
        db_execute_general(pragma, path)
    return path


def raw(path, statements):
    conn = sqlite3.connect(path)
    try:
        for sql, params in statements:
            conn.execute(sql, params)
        conn.commit()
    finally:
        conn.close()


# 1. packaged database (a copy, never the original)
packaged = os.path.join(TMP, "default_copy.db")
shutil.copy(str(pygaps.DATABASE), packaged)
run("packaged db", lambda: describe(pgsql.adsorbates_from_db(db_path=packaged, verbose=False)))
run("packaged db verbose", lambda: len(pgsql.adsorbates_from_db(db_path=packaged, verbose=True)))
run("packaged db default verbose", lambda: len(pgsql.adsorbates_from_db(db_path=packaged)))
run("packaged db positional", lambda: len(pgsql.adsorbates_from_db(packaged, False)))


def registry_matches():
    loaded = pgsql.adsorbates_from_db(db_path=packaged, verbose=False)
    reg = ADSORBATE_LIST[:N0]
    return [
        len(loaded) == len(reg),
        all(a.name == b.name and a.alias == b.alias and a.properties == b.properties for a, b in zip(loaded, reg)),
    ]


run("packaged db equals import-time registry", registry_matches)

# 2. database regenerated from the JSON source list
fresh = os.path.join(TMP, "fresh.db")
run("db_create", lambda: db_create(fresh))
del ADSORBATE_LIST[N0:]
run("fresh db", lambda: describe(pgsql.adsorbates_from_db(db_path=fresh, verbose=False)))


def same_as_packaged():
    a = pgsql.adsorbates_from_db(db_path=fresh, verbose=False)
    b = pgsql.adsorbates_from_db(db_path=packaged, verbose=False)
    diffs = [(x.name, y.name) for x, y in zip(a, b) if x.to_dict() != y.to_dict()]
    return (len(a), len(b), diffs[:20])


run("fresh vs packaged", same_as_packaged)

# 3. hand-made databases through the writer
custom = empty_db("custom.db")
UPLOADS = [
    ("plain", dict(name="plain")),
    ("one alias equal to name", dict(name="Same", alias=["same"])),
    ("one alias other", dict(name="A1", alias="other")),
    ("two aliases", dict(name="A2", alias=["x", "Y"])),
    ("five aliases", dict(name="A5", alias=["a", "b", "c", "d", "e"])),
    ("backend + numbers", dict(name="NN", alias=["n-n"], backend_name="Nitrogen", molar_mass=28.01, formula="N_{2}")),
    ("list property of 2", dict(name="L2", tags=[1.5, 2.5])),
    ("list property of 3", dict(name="L3", tags=[1, 2, 3], alias=["l-3"])),
    ("list property of 1", dict(name="L1", tags=[7])),
    ("tuple property", dict(name="T2", tags=("u", "v"))),
    ("set property one", dict(name="S1", tags={"only"})),
    ("repeated equal values", dict(name="R3", tags=[4, 4, 4])),
    ("empty list property", dict(name="E0", tags=[])),
    ("numeric strings", dict(name="NS", code="12", codes=["1", "2.5", "x"])),
    ("zero and false", dict(name="ZF", zero=0, false=False, zeros=[0, 0.0])),
    ("bytes", dict(name="BY", blob=b"ab", blobs=[b"a", b"b"])),
    ("none value", dict(name="NV", nothing=None)),
    ("duplicate name", dict(name="plain")),
]
for label, kw in UPLOADS:
    run(f"upload {label}", lambda kw=kw: pgsql.adsorbate_to_db(Adsorbate(**kw), db_path=custom, verbose=False))
del ADSORBATE_LIST[N0:]
run("custom db", lambda: describe(pgsql.adsorbates_from_db(db_path=custom, verbose=False)))
run("custom db verbose", lambda: len(pgsql.adsorbates_from_db(db_path=custom)))

# 4. rows written directly, interleaved types and no rows at all
rawdb = empty_db("raw.db")
raw(
    rawdb, [
        ("INSERT INTO adsorbate_properties_type (type) VALUES (?)", (t, ))
        for t in ["alias", "molar_mass", "formula", "backend_name", "misc"]
    ] + [("INSERT INTO adsorbates (name) VALUES (?)", (n, )) for n in ["NoRows", "Inter", "Late", "Mixed"]] + [
        ("INSERT INTO adsorbate_properties (ads_id, type, value) VALUES (?, ?, ?)", row) for row in [
            (2, "alias", "i1"),
            (2, "molar_mass", 10.5),
            (2, "alias", "I2"),
            (2, "formula", "I_{2}"),
            (2, "alias", "inter"),
            (2, "molar_mass", 11),
            (2, "alias", "i4"),
            (3, "misc", 1),
            (3, "misc", "two"),
            (3, "misc", 3.0),
            (3, "misc", b"four"),
            (3, "alias", "LATE-alias"),
            (4, "misc", "1e3"),
            (4, "misc", "abc"),
            (4, "backend_name", "Argon"),
            (4, "alias", "m"),
            (4, "alias", "m"),
        ]
    ]
)
run("raw db", lambda: describe(pgsql.adsorbates_from_db(db_path=rawdb, verbose=False)))


def with_cursor():
    conn = sqlite3.connect(rawdb)
    conn.row_factory = sqlite3.Row
    try:
        return describe(pgsql.adsorbates_from_db(cursor=conn.cursor(), verbose=True))
    finally:
        conn.close()


run("raw db with own cursor", with_cursor)


def thermo_after_load():
    ads = {a.name: a for a in pgsql.adsorbates_from_db(db_path=rawdb, verbose=False)}
    return [
        f"{ads['Mixed'].molar_mass():.12g}",
        f"{ads['Inter'].molar_mass(calculate=False)!r}",
        ads['Inter'] == "I2",
        ads['Inter'] == "i4",
        ads['Late'] == "late-ALIAS",
        ads['NoRows'] == "norows",
    ]


run("loaded objects usable", thermo_after_load)

# 5. degenerate databases
run("empty db", lambda: describe(pgsql.adsorbates_from_db(db_path=empty_db("empty.db"), verbose=True)))
blank = os.path.join(TMP, "blank.db")
sqlite3.connect(blank).close()
run("db without tables", lambda: describe(pgsql.adsorbates_from_db(db_path=blank, verbose=False)))
noprops = os.path.join(TMP, "noprops.db")
raw(noprops, [("CREATE TABLE adsorbates (id INTEGER PRIMARY KEY, name TEXT)", ()),
              ("INSERT INTO adsorbates (name) VALUES ('lonely')", ())])
run("db without property table", lambda: describe(pgsql.adsorbates_from_db(db_path=noprops, verbose=False)))
nullname = empty_db("nullname.db")
raw(nullname, [("DROP TABLE adsorbates", ()), ("CREATE TABLE adsorbates (id INTEGER PRIMARY KEY, name TEXT)", ()),
               ("INSERT INTO adsorbates (name) VALUES (NULL)", ())])
run("db with NULL name", lambda: describe(pgsql.adsorbates_from_db(db_path=nullname, verbose=False)))
run("directory as db", lambda: describe(pgsql.adsorbates_from_db(db_path=TMP, verbose=False)))

print("registry length restored:", len(ADSORBATE_LIST) == N0)
shutil.rmtree(TMP, ignore_errors=True)
