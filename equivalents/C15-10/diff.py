import copy
import logging
import warnings
from pathlib import Path

import numpy
import pandas

import pygaps
import pygaps.parsing as pgp

warnings.simplefilter("ignore")
numpy.seterr(all="ignore")
LOG = logging.getLogger('pygaps')
for h in list(LOG.handlers):
    LOG.removeHandler(h)


class _H(logging.Handler):
    def emit(self, record):
        if record.levelno >= logging.INFO:
            print("  LOG", record.levelname, record.getMessage().replace("\n", "\n  | "))


LOG.addHandler(_H())

DATA = Path(pygaps.__file__).parent.parent.parent / 'docs' / 'examples' / 'data'


def dump(obj):
    """Exact, deterministic text of nested results."""
    if isinstance(obj, dict):
        return "{" + ", ".join(f"{k!r}: {dump(v)}" for k, v in obj.items()) + "}"
    if isinstance(obj, (list, tuple)):
        o, c = ("[", "]") if isinstance(obj, list) else ("(", ")")
        return o + ", ".join(dump(v) for v in obj) + c
    if isinstance(obj, numpy.ndarray):
        return f"array<{obj.dtype},{obj.shape}>" + dump(obj.tolist())
    if isinstance(obj, (pandas.Series, pandas.DataFrame)):
        return f"{type(obj).__name__}<{list(obj.index)}>" + dump(obj.values)
    if isinstance(obj, numpy.generic):
        return f"{type(obj).__name__}({obj.item()!r})"
    if isinstance(obj, float):
        return repr(obj)
    if callable(obj) and hasattr(obj, '__name__'):
        return f"<callable {obj.__name__}>"
    return repr(obj)


def show(label, fn):
    try:
        print(label, "->", dump(fn()))
    except BaseException as e:  # noqa
        print(label, "!!", type(e).__name__, str(e))


def load(rel):
    return pgp.isotherm_from_json(DATA / rel)


def clone(iso):
    return pygaps.PointIsotherm(
        isotherm_data=iso.data_raw.copy(), pressure_key=iso.pressure_key, loading_key=iso.loading_key, **iso.to_dict()
    )


def converted(iso, **kw):
    new = clone(iso)
    if kw:
        new.convert(**kw)
    return new


def trimmed(iso, pmin, pmax):
    """Points of a (relative pressure) isotherm with pmin <= p <= pmax."""
    data = iso.data_raw[(iso.data_raw[iso.pressure_key] >= pmin) & (iso.data_raw[iso.pressure_key] <= pmax)]
    return pygaps.PointIsotherm(
        isotherm_data=data.reset_index(drop=True), pressure_key=iso.pressure_key, loading_key=iso.loading_key, **iso.to_dict()
    )


def state(iso):
    """Observable state of an isotherm, to check that a calculation left it alone."""
    out = [iso.iso_id, dump(iso.units)]
    if hasattr(iso, 'data_raw'):
        out.append(dump(iso.data_raw.values))
        out.append(dump(list(iso.data_raw.columns)))
    return out

# ---------------------------------------------------------------- C15-2: isosteric_enthalpy
import pygaps.characterisation.isosteric_enth as mod
import pygaps.graphing.calc_graphs as calc_graphs


def _fake_plot(*args, **kwargs):
    print("  isosteric_enthalpy_plot", dump(args), dump(kwargs))


calc_graphs.isosteric_enthalpy_plot = _fake_plot

files = ['BAX 1500 - Isosteric Heat - 298.json', 'BAX 1500 - Isosteric Heat - 323.json', 'BAX 1500 - Isosteric Heat - 348.json']
isos = [load('isosteric/' + f) for f in files]
print("units", [dump(i.units) for i in isos], [str(i.material) for i in isos], [str(i.adsorbate) for i in isos])


def run(isotherms, **kw):
    before = [state(i) for i in isotherms]
    try:
        return mod.isosteric_enthalpy(isotherms, **kw)
    finally:
        if [state(i) for i in isotherms] != before:
            print("  !! isotherm state changed")


VARIANTS = {
    'asis': {},
    'kPa': dict(pressure_unit='kPa'),
    'torr': dict(pressure_unit='torr'),
    'relative': dict(pressure_mode='relative'),
    'relative%': dict(pressure_mode='relative%'),
    'mol': dict(loading_unit='mol'),
    'kg': dict(material_unit='kg'),
    'mass_mg': dict(loading_basis='mass', loading_unit='mg'),
    'volgas': dict(loading_basis='volume_gas', loading_unit='cm3'),
    'percent': dict(loading_basis='percent'),
    'all': dict(pressure_unit='Pa', loading_unit='kmol', material_unit='mg'),
}
conv = {}
for name, kw in VARIANTS.items():
    try:
        conv[name] = [converted(i, **kw) for i in isos]
    except BaseException as e:  # noqa
        print("convert", name, "!!", type(e).__name__, e)

# every isotherm converted alike
for name, group in conv.items():
    show(f"all[{name}]", lambda: run(group))
# only one of them converted (first / second / last)
for name, group in conv.items():
    if name == 'asis':
        continue
    for pos in range(3):
        mixed = list(isos)
        mixed[pos] = group[pos]
        show(f"mixed[{name}@{pos}]", lambda: run(mixed))
# temperature unit
celsius = [clone(i) for i in isos]
for c in celsius:
    c.convert_temperature('°C')
show("celsius", lambda: run(celsius))
show("celsius mixed", lambda: run([isos[0], celsius[1], isos[2]]))

# options
lmin = max(min(i.loading(branch='ads')) for i in isos)
lmax = min(max(i.loading(branch='ads')) for i in isos)
for name, kw in {
    'points_list': dict(loading_points=[lmin * 1.5, (lmin + lmax) / 2, lmax * 0.9]),
    'points_array': dict(loading_points=numpy.linspace(lmin * 1.1, lmax * 0.9, 7)),
    'points_tuple': dict(loading_points=(float((lmin + lmax) / 2), )),
    'points_scalar': dict(loading_points=float((lmin + lmax) / 2)),
    'points_empty': dict(loading_points=[]),
    'points_zero': dict(loading_points=0),
    'points_low': dict(loading_points=[lmin / 100]),
    'points_high': dict(loading_points=[lmax * 100]),
    'points_str': dict(loading_points='abc'),
    'branch_ads': dict(branch='ads'),
    'branch_des': dict(branch='des'),
    'branch_none': dict(branch=None),
    'branch_bad': dict(branch='sideways'),
    'verbose': dict(verbose=True),
    'verbose_points': dict(verbose=True, loading_points=[float((lmin + lmax) / 2)]),
}.items():
    show(f"opt[{name}]", lambda: run(isos, **kw))
    show(f"opt_kPa_first[{name}]", lambda: run([conv['kPa'][0], isos[1], isos[2]], **kw))
    show(f"opt_all[{name}]", lambda: run(conv['all'], **kw))

# containers and counts
show("two", lambda: run(isos[:2]))
show("two reversed", lambda: run(isos[1::-1]))
show("reversed", lambda: run(isos[::-1]))
show("tuple", lambda: run(tuple(isos)))
show("duplicates", lambda: run([isos[0], isos[0], isos[1]]))
show("same twice", lambda: run([isos[0], isos[0]]))
show("one", lambda: run(isos[:1]))
show("none", lambda: run([]))
show("None", lambda: mod.isosteric_enthalpy(None))
show("single iso", lambda: mod.isosteric_enthalpy(isos[0]))
show("dict", lambda: mod.isosteric_enthalpy({'a': isos[0], 'b': isos[1]}))
show("dict int keys", lambda: mod.isosteric_enthalpy({0: isos[0], 1: isos[1]}))
show("set", lambda: mod.isosteric_enthalpy({1, 2}))
show("generator", lambda: mod.isosteric_enthalpy(i for i in isos))
show("ndarray", lambda: mod.isosteric_enthalpy(numpy.array(isos, dtype=object)))
show("series", lambda: mod.isosteric_enthalpy(pandas.Series(isos, index=['a', 'b', 'c'])))
show("strings", lambda: mod.isosteric_enthalpy(['a', 'b']))
show("first bad", lambda: mod.isosteric_enthalpy([None, isos[1]]))
show("second bad", lambda: mod.isosteric_enthalpy([isos[0], None]))

# consistency checks
other_mat = pygaps.PointIsotherm(
    isotherm_data=isos[1].data_raw.copy(), pressure_key=isos[1].pressure_key, loading_key=isos[1].loading_key,
    **{**isos[1].to_dict(), 'material': 'something else'}
)
show("other material", lambda: run([isos[0], other_mat, isos[2]]))
show("other material first", lambda: run([other_mat, isos[0], isos[2]]))
show("loading basis differs", lambda: run([isos[0], conv['mass_mg'][1], isos[2]]))
show("loading basis differs first", lambda: run([conv['mass_mg'][0], isos[1], isos[2]]))
show("both differ", lambda: run([isos[0], other_mat, conv['mass_mg'][2]]))
mat_props = [
    pygaps.PointIsotherm(
        isotherm_data=i.data_raw.copy(), pressure_key=i.pressure_key, loading_key=i.loading_key,
        **{**i.to_dict(), 'material': {'name': 'dense', 'density': 2.0, 'molar_mass': 50.0}}
    ) for i in isos
]
show("material props", lambda: run(mat_props))
try:
    mvol = [converted(i, material_basis='volume', material_unit='cm3') for i in mat_props]
    show("material volume all", lambda: run(mvol))
    show("material basis differs", lambda: run([mat_props[0], mvol[1], mat_props[2]]))
    show("material+loading basis differ", lambda: run([mat_props[0], converted(mvol[1], loading_basis='mass', loading_unit='g'), mat_props[2]]))
except BaseException as e:  # noqa
    print("material volume !!", type(e).__name__, e)

# model isotherms
models = [pygaps.ModelIsotherm.from_pointisotherm(i, model='Langmuir', branch='ads') for i in isos]
show("models", lambda: run(models))
show("models points", lambda: run(models, loading_points=[1.0, 2.0, 3.0]))
show("models mixed", lambda: run([isos[0], models[1], isos[2]], loading_points=[1.0, 2.0, 3.0]))
models_kpa = [pygaps.ModelIsotherm.from_pointisotherm(i, model='Langmuir', branch='ads') for i in conv['kPa']]
show("models kPa", lambda: run(models_kpa, loading_points=[1.0, 2.0, 3.0]))
show("models kPa first only", lambda: run([models_kpa[0], models[1], models[2]], loading_points=[1.0, 2.0, 3.0]))

# scaling of loadings (enthalpy is intensive) and export / re-import
scaled = [
    pygaps.PointIsotherm(pressure=i.pressure(), loading=i.loading() * 3, branch=i.data_raw['branch'].tolist(), **i.to_dict())
    for i in isos
]
show("scaled", lambda: run(scaled))
reimp = [pgp.isotherm_from_json(i.to_json()) for i in conv['all']]
show("reimported", lambda: run(reimp))


class Bag:
    """Sized iterable of isotherms which cannot be indexed."""

    def __init__(self, items):
        self.items = list(items)

    def __len__(self):
        return len(self.items)

    def __iter__(self):
        return iter(self.items)


show("bag", lambda: mod.isosteric_enthalpy(Bag(isos)))
show("bag of junk", lambda: mod.isosteric_enthalpy(Bag([1, 2])))
show("dict int keys to isos", lambda: mod.isosteric_enthalpy({0: isos[0], 1: isos[1]}))
show("series default index", lambda: mod.isosteric_enthalpy(pandas.Series(isos)))
