"""Differential transcript for C06-2 (isotherm_from_json: loader helper, message, material lookup)."""
import copy
import glob
import json
import os
import pathlib
import tempfile
import warnings

warnings.simplefilter("ignore")

import pygaps
from pygaps.core.baseisotherm import BaseIsotherm
from pygaps.core.material import Material
from pygaps.parsing.json import isotherm_from_json
from pygaps.parsing.json import isotherm_to_json

ROOT = os.path.dirname(os.path.dirname(os.path.dirname(os.path.abspath(pygaps.__file__))))
TMP = tempfile.mkdtemp()


def chain(err):
    out = []
    seen = 0
    while err is not None and seen < 6:
        out.append(type(err).__name__)
        nxt = err.__cause__ if err.__cause__ is not None else err.__context__
        out.append('cause' if err.__cause__ is not None else ('context' if nxt is not None else 'end'))
        err = nxt
        seen += 1
    return '>'.join(out)


def describe(iso):
    print("   type:", type(iso).__name__, "id:", iso.iso_id)
    print("   dict:", repr(iso.to_dict()))
    print("   material:", repr(iso.material), repr(iso.material.properties))
    print("   units:", iso.units)
    if hasattr(iso, 'data_raw'):
        print("   data:", iso.data_raw.to_dict(orient='list'), list(iso.data_raw.dtypes.astype(str)))
        print("   keys:", iso.pressure_key, iso.loading_key, iso.other_keys)
    if hasattr(iso, 'model'):
        print("   model:", iso.model.to_dict(), iso.branch)
        print("   predicts:", repr(iso.loading_at(0.5)), repr(iso.pressure_at(1.0)))
    print("   export:", isotherm_to_json(iso))


def show(label, fn, full=True):
    try:
        res = fn()
    except BaseException as err:  # noqa
        msg = str(err).replace(TMP, '<TMP>').replace(ROOT, '<ROOT>')
        print(f"[{label}] EXC {type(err).__name__}: {msg} || {chain(err)}")
        return None
    try:
        print(f"[{label}] OK {res!r}")
        if full and res is not None:
            describe(res)
    except BaseException as err:  # noqa
        print(f"[{label}] OK but describing it fails: {type(err).__name__}: {err} || {chain(err)}")
        print("   vars:", sorted(vars(res)), type(res).__name__)
        mat = getattr(res, '_material', None)
        print("   material name/properties:", repr(getattr(mat, 'name', None)), repr(getattr(mat, 'properties', None)))
    return res


UNITS = dict(
    pressure_mode='absolute',
    pressure_unit='bar',
    material_basis='mass',
    material_unit='g',
    loading_basis='molar',
    loading_unit='mmol',
    temperature_unit='K',
)

BASE = dict(material='carbon', adsorbate='nitrogen', temperature=77, file_version='3.0', **UNITS)
POINTS = [
    {'pressure': 0.1, 'loading': 1.0},
    {'pressure': 0.5, 'loading': 2.0},
    {'pressure': 1.0, 'loading': 3.0},
    {'pressure': 0.6, 'loading': 2.5, 'branch': 'des'},
    {'pressure': 0.2, 'loading': 1.5, 'branch': 'des'},
]
POINTS_ADS = [{k: v for k, v in p.items() if k != 'branch'} for p in POINTS[:3]]
MODEL = {
    'name': 'Langmuir',
    'rmse': 0.01,
    'parameters': {'K': 2.0, 'n_m': 4.0},
    'pressure_range': [0.1, 1.0],
    'loading_range': [1.0, 3.0],
}


def doc(**over):
    d = copy.deepcopy(BASE)
    for k, v in over.items():
        if v is KeyError:
            d.pop(k, None)
        else:
            d[k] = copy.deepcopy(v)
    return json.dumps(d)


def main():
    print("=" * 20, "example files")
    for sub in ('parsing/json', 'characterisation'):
        for path in sorted(glob.glob(os.path.join(ROOT, 'docs', 'examples', 'data', sub, '*.json'))):
            name = sub + '/' + os.path.basename(path)
            iso = show("path " + name, lambda: isotherm_from_json(path))
            show("Path object " + name, lambda: isotherm_from_json(pathlib.Path(path)), full=False)
            text = open(path, encoding='utf-8').read()
            iso2 = show("text " + name, lambda: isotherm_from_json(text), full=False)
            show("   same", lambda: iso == iso2, full=False)
            show(
                "override " + name,
                lambda: isotherm_from_json(path, material={'name': 'other', 'density': 3}, temperature=100, extra='e'),
            )

    print("=" * 20, "NIST")
    nist = os.path.join(ROOT, 'docs', 'examples', 'data', 'parsing', 'nist', 'nist_iso.json')
    show("nist path", lambda: isotherm_from_json(nist, fmt='NIST'))
    show("nist text", lambda: isotherm_from_json(open(nist).read(), fmt='NIST', material='zzz'))
    show("nist without fmt", lambda: isotherm_from_json(nist))
    show("plain with fmt NIST", lambda: isotherm_from_json(doc(isotherm_data=POINTS), fmt='NIST'))
    show("other fmt", lambda: isotherm_from_json(doc(isotherm_data=POINTS), fmt='nist'))

    print("=" * 20, "synthetic documents")
    show("base", lambda: isotherm_from_json(doc()))
    show("base metadata", lambda: isotherm_from_json(doc(a=1, b=[1, {'c': None}], c=None, d=True, e=1.5)))
    show("point", lambda: isotherm_from_json(doc(isotherm_data=POINTS)))
    show("point ads", lambda: isotherm_from_json(doc(isotherm_data=POINTS_ADS)))
    show("point ads marked", lambda: isotherm_from_json(doc(isotherm_data=POINTS_ADS, branch='ads')))
    show("point ads des-marked", lambda: isotherm_from_json(doc(isotherm_data=POINTS_ADS, branch='des')))
    show("point branch kwarg", lambda: isotherm_from_json(doc(isotherm_data=POINTS_ADS), branch='des'))
    show("point keys", lambda: isotherm_from_json(
        doc(isotherm_data=[{'p': 1, 'n': 2, 'x': 5}, {'p': 2, 'n': 3, 'x': 6}], other_keys=['x']),
        loading_key='n', pressure_key='p'))
    show("point keys positional", lambda: isotherm_from_json(
        doc(isotherm_data=[{'p': 1, 'n': 2}, {'p': 2, 'n': 3}]), None, 'n', 'p'))
    show("point wrong keys", lambda: isotherm_from_json(doc(isotherm_data=POINTS), loading_key='n'))
    show("model", lambda: isotherm_from_json(doc(isotherm_model=MODEL)))
    show("model des", lambda: isotherm_from_json(doc(isotherm_model=MODEL, branch='des')))
    show("model unknown", lambda: isotherm_from_json(doc(isotherm_model=dict(MODEL, name='Nope'))))
    show("model no name", lambda: isotherm_from_json(doc(isotherm_model={'rmse': 1})))
    show("model missing param", lambda: isotherm_from_json(doc(isotherm_model=dict(MODEL, parameters={'K': 1}))))
    show("model clash", lambda: isotherm_from_json(doc(isotherm_model=MODEL), model='Henry'))
    show("data and model", lambda: isotherm_from_json(doc(isotherm_data=POINTS, isotherm_model=MODEL)))
    show("empty data, model", lambda: isotherm_from_json(doc(isotherm_data=[], isotherm_model=MODEL)))
    show("empty data, empty model", lambda: isotherm_from_json(doc(isotherm_data=[], isotherm_model={})))
    show("data as kwarg", lambda: isotherm_from_json(doc(), isotherm_data=POINTS_ADS))
    show("missing adsorbate", lambda: isotherm_from_json(doc(adsorbate=KeyError)))
    show("missing unit", lambda: isotherm_from_json(doc(pressure_unit=KeyError)))
    show("bad unit", lambda: isotherm_from_json(doc(pressure_unit='parsec')))
    show("unknown adsorbate", lambda: isotherm_from_json(doc(adsorbate='unobtainium')))
    show("material dict in doc", lambda: isotherm_from_json(doc(material={'name': 'm1', 'density': 2.0, 'q': 'r'})))

    print("=" * 20, "versions")
    for label, ver in [('missing', KeyError), ('2.0', '2.0'), ('3.0', '3.0'), ('3.1', '3.1'), ('10', '10'),
                       ('num 3', 3), ('num 2.5', 2.5), ('zero', 0), ('empty', ''), ('null', None),
                       ('abc', 'abc'), ('list', [3]), ('empty list', []), ('dict', {'v': 1}), ('true', True),
                       ('braces', '{0}'), ('nan', 'nan'), ('1e1', '1e1')]:
        show("version " + label, lambda: isotherm_from_json(doc(file_version=ver)), full=False)
    show("version kwarg", lambda: isotherm_from_json(doc(), file_version='1.0'), full=True)

    print("=" * 20, "material parameter")
    mat = Material('given', density=1.5)
    props = {'name': 'asdict', 'density': 4.0, 'colour': 'red'}
    for label, kw in [
        ('str', dict(material='override')),
        ('dict', dict(material=dict(props))),
        ('dict noname', dict(material={'density': 1})),
        ('empty dict', dict(material={})),
        ('Material', dict(material=mat)),
        ('None', dict(material=None)),
        ('list', dict(material=['a'])),
        ('int', dict(material=5)),
        ('m shorthand', dict(m={'name': 'short'})),
        ('none given', dict()),
    ]:
        for kind, text in (('base', doc()), ('point', doc(isotherm_data=POINTS)), ('model', doc(isotherm_model=MODEL))):
            kw2 = copy.deepcopy(kw) if 'Material' not in label else dict(kw)
            show(f"material {label} / {kind}", lambda: isotherm_from_json(text, **kw2), full=(kind == 'base'))
            print("   kwargs after:", {k: (v if not isinstance(v, Material) else (repr(v), v.properties)) for k, v in kw2.items()})
    print("   given material after:", repr(mat), mat.properties)

    print("=" * 20, "invalid sources")
    good = doc(isotherm_data=POINTS)
    fgood = os.path.join(TMP, 'good.json')
    with open(fgood, 'w', encoding='utf-8') as f:
        f.write(good)
    fbad = os.path.join(TMP, 'bad.json')
    with open(fbad, 'w', encoding='utf-8') as f:
        f.write(good[:-10])
    fempty = os.path.join(TMP, 'empty.json')
    open(fempty, 'w').close()
    flist = os.path.join(TMP, 'list.json')
    with open(flist, 'w') as f:
        f.write('[1, 2]')
    flatin = os.path.join(TMP, 'latin.json')
    with open(flatin, 'wb') as f:
        f.write(doc(comment='caf\xe9').encode('latin-1').replace(b'\\u00e9', b'\xe9'))
    for label, src in [
        ('good file', fgood),
        ('good file bytes path', fgood.encode()),
        ('truncated file', fbad),
        ('empty file', fempty),
        ('list file', flist),
        ('latin-1 file', flatin),
        ('directory', TMP),
        ('missing file', os.path.join(TMP, 'nothing.json')),
        ('empty string', ''),
        ('garbage', 'not json at all'),
        ('truncated text', good[:-10]),
        ('json list', '[1, 2, 3]'),
        ('json number', '3'),
        ('json string', '"abc"'),
        ('json null', 'null'),
        ('null byte', 'abc\x00def'),
        ('long valid', doc(comment='x' * 5000)),
        ('long garbage', 'y' * 5000),
        ('None', None),
        ('dict', {'a': 1}),
        ('float', 1.5),
        ('bytes doc', good.encode()),
        ('list', [good]),
        ('negative fd', -1),
    ]:
        show("source " + label, lambda: isotherm_from_json(src), full=label in ('good file', 'long valid'))

    print("=" * 20, "round trips of constructed isotherms")
    isos = [
        BaseIsotherm(material='m', adsorbate='N2', temperature=77, tag=[1, 2], **UNITS),
        pygaps.PointIsotherm(pressure=[1, 2, 3, 2, 1], loading=[1, 2, 3, 2.5, 1.5], material={'name': 'mm', 'density': 1},
                             adsorbate='CO2', temperature=300, **UNITS),
        pygaps.ModelIsotherm(pressure=[0.1, 0.5, 1, 2], loading=[1, 2, 2.5, 2.8], model='Langmuir', material='m',
                             adsorbate='CH4', temperature=300, **UNITS),
    ]
    for i, iso in enumerate(isos):
        text = isotherm_to_json(iso)
        back = show(f"roundtrip {i}", lambda: isotherm_from_json(text))
        show("   equal/re-export", lambda: (back == iso, isotherm_to_json(back) == text), full=False)
        path = os.path.join(TMP, f'rt{i}.json')
        isotherm_to_json(iso, path)
        back2 = show(f"roundtrip file {i}", lambda: isotherm_from_json(path), full=False)
        show("   equal/re-export", lambda: (back2 == iso, isotherm_to_json(back2) == text), full=False)
        os.remove(path)

    for f in (fgood, fbad, fempty, flist, flatin):
        os.remove(f)
    os.rmdir(TMP)


if __name__ == '__main__':
    main()
