import copy
import logging
import warnings
from pathlib import Path

import numpy
import pandas

import pygaps
import pygaps.parsing as pgp

warnings.simplefilter("ignore")
numpy.seterr(all="ignore")
LOG = logging.getLogger('pygaps')
for h in list(LOG.handlers):
    LOG.removeHandler(h)


class _H(logging.Handler):
    def emit(self, record):
        if record.levelno >= logging.INFO:
            print("  LOG", record.levelname, record.getMessage().replace("\n", "\n  | "))


LOG.addHandler(_H())

DATA = Path(pygaps.__file__).parent.parent.parent / 'docs' / 'examples' / 'data'


def dump(obj):
    """Exact, deterministic text of nested results."""
    if isinstance(obj, dict):
        return "{" + ", ".join(f"{k!r}: {dump(v)}" for k, v in obj.items()) + "}"
    if isinstance(obj, (list, tuple)):
        o, c = ("[", "]") if isinstance(obj, list) else ("(", ")")
        return o + ", ".join(dump(v) for v in obj) + c
    if isinstance(obj, numpy.ndarray):
        return f"array<{obj.dtype},{obj.shape}>" + dump(obj.tolist())
    if isinstance(obj, (pandas.Series, pandas.DataFrame)):
        return f"{type(obj).__name__}<{list(obj.index)}>" + dump(obj.values)
    if isinstance(obj, numpy.generic):
        return f"{type(obj).__name__}({obj.item()!r})"
    if isinstance(obj, float):
        return repr(obj)
    if callable(obj) and hasattr(obj, '__name__'):
        return f"<callable {obj.__name__}>"
    return repr(obj)


def show(label, fn):
    try:
        print(label, "->", dump(fn()))
    except BaseException as e:  # noqa
        print(label, "!!", type(e).__name__, str(e))


def load(rel):
    return pgp.isotherm_from_json(DATA / rel)


def clone(iso):
    return pygaps.PointIsotherm(
        isotherm_data=iso.data_raw.copy(), pressure_key=iso.pressure_key, loading_key=iso.loading_key, **iso.to_dict()
    )


def converted(iso, **kw):
    new = clone(iso)
    if kw:
        new.convert(**kw)
    return new


def trimmed(iso, pmin, pmax):
    """Points of a (relative pressure) isotherm with pmin <= p <= pmax."""
    data = iso.data_raw[(iso.data_raw[iso.pressure_key] >= pmin) & (iso.data_raw[iso.pressure_key] <= pmax)]
    return pygaps.PointIsotherm(
        isotherm_data=data.reset_index(drop=True), pressure_key=iso.pressure_key, loading_key=iso.loading_key, **iso.to_dict()
    )


def state(iso):
    """Observable state of an isotherm, to check that a calculation left it alone."""
    out = [iso.iso_id, dump(iso.units)]
    if hasattr(iso, 'data_raw'):
        out.append(dump(iso.data_raw.values))
        out.append(dump(list(iso.data_raw.columns)))
    return out

# ---------------------------------------------------------------- C15-1: alpha_s
import pygaps.characterisation.alphas_plots as mod
import pygaps.graphing.calc_graphs as calc_graphs
from pygaps.core.baseisotherm import BaseIsotherm

PLOTS = []


def _fake_tp_plot(*args, **kwargs):
    print("  tp_plot", dump(args), dump(kwargs))


calc_graphs.tp_plot = _fake_tp_plot

mcm = load('characterisation/MCM-41 N2 77.355.json')
sio2 = load('characterisation/SiO2 N2 77.355.json')
nay = load('characterisation/NaY N2 77.355.json')

VARIANTS = {
    'asis': {},
    'abs_kPa': dict(pressure_mode='absolute', pressure_unit='kPa'),
    'abs_torr': dict(pressure_mode='absolute', pressure_unit='torr'),
    'rel%': dict(pressure_mode='relative%'),
    'mass_g': dict(loading_basis='mass', loading_unit='g'),
    'volgas': dict(loading_basis='volume_gas', loading_unit='cm3'),
    'volliq_L': dict(loading_basis='volume_liquid', loading_unit='L'),
    'percent': dict(loading_basis='percent'),
    'fraction': dict(loading_basis='fraction'),
    'mol_kg': dict(loading_unit='mol', material_unit='kg'),
    'all': dict(pressure_mode='absolute', pressure_unit='mbar', loading_basis='mass', loading_unit='mg', material_unit='kg'),
}


def run(iso, ref, **kw):
    s_iso, s_ref = state(iso), state(ref)
    try:
        return mod.alpha_s(iso, ref, **kw)
    finally:
        if state(iso) != s_iso or state(ref) != s_ref:
            print("  !! isotherm state changed")


sio2_ads = sio2.pressure(branch='ads')
mcm_trim = trimmed(mcm, 0.01, 0.9)
sio2_model = {}
for vi, kwi in VARIANTS.items():
    iso = converted(mcm, **kwi)
    iso_t = converted(mcm_trim, **kwi)
    for vr, kwr in VARIANTS.items():
        if vi != 'asis' and vr not in ('asis', vi, 'abs_kPa'):
            continue
        ref = converted(sio2, **kwr)
        show(f"alpha_s[{vi}|{vr}] point ref", lambda: run(iso_t, ref))
        show(f"alpha_s[{vi}|{vr}] self-kind ref", lambda: run(iso, converted(mcm, **kwr), t_limits=[0.7, 1.0]))
        if vr not in sio2_model:
            try:
                sio2_model[vr] = pygaps.ModelIsotherm.from_pointisotherm(ref, model='BET')
            except BaseException as e:  # noqa
                print("model build", vr, type(e).__name__, e)
                sio2_model[vr] = None
        if sio2_model[vr] is not None:
            show(f"alpha_s[{vi}|{vr}] model ref", lambda: run(iso, sio2_model[vr]))

# options
iso_abs = converted(mcm_trim, pressure_mode='absolute', pressure_unit='kPa')
ref_abs = converted(sio2, pressure_mode='absolute', pressure_unit='bar', loading_unit='mol')
for name, kw in {
    'langmuir': dict(reference_area='langmuir'),
    'LANGMUIR': dict(reference_area='LangMuir'),
    'bet_upper': dict(reference_area='BET'),
    'float': dict(reference_area=123.5),
    'int': dict(reference_area=100),
    'none': dict(reference_area=None),
    'bad': dict(reference_area='magic'),
    'reducing.3': dict(reducing_pressure=0.3),
    'reducing.95': dict(reducing_pressure=0.95),
    'reducing0': dict(reducing_pressure=0),
    'reducing1': dict(reducing_pressure=1),
    'reducing-': dict(reducing_pressure=-0.1),
    'reducing_str': dict(reducing_pressure='a'),
    'limits': dict(t_limits=(0.3, 0.8)),
    'limits_none': dict(t_limits=(None, 0.8)),
    'limits_bad': dict(t_limits=(5, 6)),
    'limits_rev': dict(t_limits=(0.8, 0.3)),
    'des': dict(branch='des'),
    'des_ref': dict(branch_ref='des'),
    'des_both': dict(branch='des', branch_ref='des'),
    'branch_bad': dict(branch='sideways'),
    'branch_ref_bad': dict(branch_ref='sideways'),
    'branch_none': dict(branch=None),
    'branch_ref_none': dict(branch_ref=None),
    'verbose': dict(verbose=True),
    'verbose_limits': dict(verbose=True, t_limits=(0.3, 0.8), reducing_pressure=0.5),
    'verbose_nolinear': dict(verbose=True, t_limits=(5, 6)),
}.items():
    show(f"opt[{name}]", lambda: run(mcm_trim, sio2, **kw))
    show(f"opt_abs[{name}]", lambda: run(iso_abs, ref_abs, **kw))
    show(f"opt_self[{name}]", lambda: run(mcm, mcm, **kw))

# other isotherms / reference kinds
show("nay|sio2", lambda: run(nay, sio2))
show("sio2|sio2", lambda: run(sio2, sio2))
show("nay_abs|mcm", lambda: run(converted(nay, pressure_mode='absolute', pressure_unit='atm'), mcm, verbose=True))
ads_only = pygaps.PointIsotherm(
    pressure=mcm.pressure(branch='ads'), loading=mcm.loading(branch='ads'), branch='ads', **mcm.to_dict()
)
show("adsonly des", lambda: run(ads_only, sio2, branch='des'))
show("adsonly ref des", lambda: run(mcm, ads_only, branch_ref='des'))
show("adsonly", lambda: run(ads_only, sio2))
model_ref = pygaps.ModelIsotherm.from_pointisotherm(sio2, model='BET', branch='ads')
show("model ref langmuir", lambda: run(mcm, model_ref, reference_area='langmuir', verbose=True))
show("model ref abs", lambda: run(converted(mcm, pressure_mode='absolute', pressure_unit='kPa'), model_ref, verbose=True))
show("model ref bet", lambda: run(mcm, model_ref))
model_iso = pygaps.ModelIsotherm.from_pointisotherm(mcm, model='DSLangmuir', branch='ads')
show("model iso", lambda: run(model_iso, sio2))

# error cases on the reference
show("ref None", lambda: mod.alpha_s(mcm, None))
show("ref str", lambda: mod.alpha_s(mcm, "SiO2"))
show("ref dict", lambda: mod.alpha_s(mcm, sio2.to_dict()))
base_ref = BaseIsotherm(**{k: v for k, v in sio2.to_dict().items()})
show("ref base bet", lambda: mod.alpha_s(mcm, base_ref))
show("ref base float", lambda: mod.alpha_s(mcm, base_ref, reference_area=10.0))
other_ads = pygaps.PointIsotherm(pressure=sio2.pressure(), loading=sio2.loading(), **{**sio2.to_dict(), 'adsorbate': 'argon'})
show("ref other adsorbate", lambda: mod.alpha_s(mcm, other_ads))
show("iso None", lambda: mod.alpha_s(None, sio2))
unknown = pygaps.PointIsotherm(pressure=sio2.pressure(), loading=sio2.loading(), **{**sio2.to_dict(), 'adsorbate': 'unobtainium'})
show("unknown adsorbate", lambda: mod.alpha_s(unknown, unknown, reference_area=10.0))

# scaling of loadings: extensive results scale, intensive do not
scaled = pygaps.PointIsotherm(
    pressure=mcm.pressure(), loading=mcm.loading() * 2, branch=mcm.data_raw['branch'].tolist(), **mcm.to_dict()
)
show("scaled", lambda: run(scaled, model_ref, t_limits=(0.3, 0.8)))
show("unscaled", lambda: run(mcm, model_ref, t_limits=(0.3, 0.8)))
# export / re-import
reimp = pgp.isotherm_from_json(converted(mcm, pressure_mode='absolute', pressure_unit='kPa', loading_unit='mol').to_json())
show("reimported", lambda: run(trimmed(converted(reimp, pressure_mode='relative'), 0.01, 0.9), pgp.isotherm_from_json(sio2.to_json())))
show("reimported self", lambda: run(reimp, reimp, verbose=True))

# reach the reference-loading step with a reference that has no loading_at (BET area patched out)
_real_bet = mod.area_BET
mod.area_BET = lambda iso, **kw: {'area': 100.0}
try:
    show("ref base, patched bet", lambda: mod.alpha_s(mcm, base_ref))
    show("ref point, patched bet", lambda: run(mcm_trim, sio2))
    show("ref point abs, patched bet, verbose", lambda: run(iso_abs, sio2, verbose=True))

    class Spy(BaseIsotherm):
        """Reference stand-in that records how it is asked for loadings."""

        def __init__(self, real):  # noqa
            self.real = real
            self._adsorbate = real.adsorbate

        def loading_at(self, *args, **kwargs):
            print("  loading_at", dump(args), dump(dict(sorted(kwargs.items()))))
            return self.real.loading_at(*args, **kwargs)

    show("spy", lambda: mod.alpha_s(mcm_trim, Spy(sio2)))
    show("spy abs des", lambda: mod.alpha_s(iso_abs, Spy(sio2), branch='des', branch_ref='ads', reducing_pressure=0.5))
finally:
    mod.area_BET = _real_bet
