"""Canonical text formatting + synthetic isotherm builders shared by the diffN.py scripts."""
import atexit
import hashlib
import io
import logging
import warnings

import numpy as np

warnings.filterwarnings("ignore")
np.seterr(all="ignore")

import pygaps  # noqa: E402
import pygaps.modelling as pgm  # noqa: E402
from pygaps.core.modelisotherm import ModelIsotherm  # noqa: E402
from pygaps.core.pointisotherm import PointIsotherm  # noqa: E402

R = 8.314462618


_BITS = hashlib.sha256()


@atexit.register
def _print_digest():
    # digest over the exact bit patterns (float.hex) of every float printed: shows whether
    # the two trees agree to the last bit and not only to the 12 printed digits
    print("exact-bits-digest", _BITS.hexdigest())


def fmt(x):
    """Canonical representation: type tag + values rounded to 12 significant digits."""
    if isinstance(x, (float, np.floating)):
        _BITS.update(float(x).hex().encode())
    if isinstance(x, dict):
        return "{" + ", ".join(f"{k!r}: {fmt(v)}" for k, v in x.items()) + "}"
    if isinstance(x, np.ndarray):
        return f"ndarray{x.shape}[" + ", ".join(fmt(v) for v in x.tolist()) + "]"
    if isinstance(x, (list, tuple)):
        return type(x).__name__ + "[" + ", ".join(fmt(v) for v in x) + "]"
    if isinstance(x, (bool, np.bool_)):
        return f"bool:{bool(x)}"
    if isinstance(x, (float, np.floating)):
        return f"{type(x).__name__}:{float(x):.12g}"
    if isinstance(x, (int, np.integer)):
        return f"{type(x).__name__}:{int(x)}"
    return f"{type(x).__name__}:{x!r}"


class LogCapture:
    """Capture everything pygaps logs (warnings are part of observable behaviour)."""
    def __enter__(self):
        self.stream = io.StringIO()
        self.handler = logging.StreamHandler(self.stream)
        self.handler.setFormatter(logging.Formatter("%(levelname)s|%(message)s"))
        self.logger = logging.getLogger("pygaps")
        self.old = list(self.logger.handlers)
        for h in self.old:
            self.logger.removeHandler(h)
        self.logger.addHandler(self.handler)
        return self

    def __exit__(self, *exc):
        self.logger.removeHandler(self.handler)
        for h in self.old:
            self.logger.addHandler(h)
        return False

    def text(self):
        return self.stream.getvalue()


def run(label, func, *args, **kwargs):
    """Run one case and print a canonical line (result or exception) + captured log."""
    with LogCapture() as cap:
        try:
            res = func(*args, **kwargs)
            out = "OK  " + fmt(res)
        except BaseException as err:  # noqa
            out = f"EXC {type(err).__name__}: {err}"
    print(f"[{label}] {out}")
    log = cap.text().strip()
    if log:
        for line in log.splitlines():
            print(f"    log> {line}")


def model_iso(model, params, T, adsorbate="nitrogen", p_range=(0.0, 1e5), l_range=(0.0, 1.0), **units):
    m = pgm.get_isotherm_model(model, parameters=params, pressure_range=p_range, loading_range=l_range)
    kw = dict(
        material="M", adsorbate=adsorbate, temperature=T, pressure_mode="absolute", pressure_unit="Pa",
        loading_basis="molar", loading_unit="mmol", material_basis="mass", material_unit="g",
        temperature_unit="K", branch="ads",
    )
    kw.update(units)
    return ModelIsotherm(model=m, **kw)


def point_iso(pressure, loading, T, adsorbate="nitrogen", other=None, **units):
    kw = dict(
        material="M", adsorbate=adsorbate, temperature=T, pressure_mode="absolute", pressure_unit="Pa",
        loading_basis="molar", loading_unit="mmol", material_basis="mass", material_unit="g",
        temperature_unit="K",
    )
    kw.update(units)
    if other:
        import pandas as pd
        data = {"pressure": pressure, "loading": loading}
        data.update(other)
        return PointIsotherm(
            isotherm_data=pd.DataFrame(data), pressure_key="pressure", loading_key="loading", **kw
        )
    return PointIsotherm(pressure=pressure, loading=loading, **kw)


def vant_hoff_K(K0, dH_kJ, T, T0=300.0):
    """Affinity following van 't Hoff: K(T) = K0 exp(dH/R (1/T - 1/T0))."""
    return K0 * np.exp(dH_kJ * 1000 / R * (1 / T - 1 / T0))
