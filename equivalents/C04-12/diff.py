import warnings
warnings.filterwarnings("ignore")
import numpy
import pygaps
from pygaps.utilities.isotherm_interpolator import IsothermInterpolator


def show(x):
    a = numpy.asarray(x)
    if a.dtype.kind == 'f':
        return "%s%s[%s]" % (type(x).__name__, a.shape, ",".join(float(v).hex() for v in a.ravel()))
    return repr(x)


def state(iso):
    out = []
    for nm in ("l_interpolator", "p_interpolator"):
        it = getattr(iso, nm)
        if it is None:
            out.append(nm + "=None")
        else:
            out.append("%s=(%r,%r,%r,%s,id%d)" % (
                nm, it.interp_branch, it.interp_kind, it.interp_fill,
                hasattr(it, "interp_fun"), IDS.setdefault(id(it), len(IDS))))
    return " ".join(out)


IDS = {}
KEEP = []


def run(label, iso, meth, *a, **k):
    try:
        r = getattr(iso, meth)(*a, **k)
        res = show(r)
    except Exception as e:
        res = "EXC %s: %s" % (type(e).__name__, e)
    KEEP.append(iso.l_interpolator)
    KEEP.append(iso.p_interpolator)
    print(label, meth, a, sorted(k.items(), key=lambda t: t[0]), "->", res, "|", state(iso))


def mk(p, l, **kw):
    return pygaps.PointIsotherm(
        pressure=p, loading=l, material='m1', adsorbate='N2', temperature=77, **kw
    )


iso = mk([0.1, 0.5, 1.0, 2.0, 3.0, 2.5, 1.5, 0.7, 0.2],
         [0.5, 1.5, 2.0, 2.6, 3.0, 2.95, 2.7, 2.2, 1.0])
tiny = mk([1.0, 2.0], [1.0, 3.0])
one = mk([1.0], [1.0])
adsonly = mk([0.1, 0.5, 1.0], [0.5, 1.5, 2.0])

for meth, xs in (("loading_at", [0.3, 1.7, [0.2, 0.9, 2.9], 5.0, []]),
                 ("pressure_at", [0.7, 2.1, [0.6, 1.9, 2.9], 9.0, []])):
    for x in xs:
        run("A", iso, meth, x)
        run("A", iso, meth, x)
        run("A", iso, meth, x, branch='des')
        run("A", iso, meth, x, 'des', 'cubic')
        run("A", iso, meth, x, branch='des', interpolation_type='cubic')
        run("A", iso, meth, x, interpolation_type='nearest')
        run("A", iso, meth, x, interpolation_type='zero', interp_fill=0.0)
        run("A", iso, meth, x, interpolation_type='zero', interp_fill=0.0)
        run("A", iso, meth, x, interp_fill='extrapolate')
        run("A", iso, meth, x, interp_fill=(0.0, 7.0))
        run("A", iso, meth, x, interp_fill=(0.0, 7.0))
        run("A", iso, meth, x, interp_fill=(0.0, 8.0), branch='des')
        run("A", iso, meth, x, interp_fill=0)
        run("A", iso, meth, x, interp_fill=False)
        run("A", iso, meth, x, interp_fill=numpy.array([1.0]))
        run("A", iso, meth, x, interp_fill=numpy.array([1.0]))
        run("A", iso, meth, x, interp_fill=numpy.array([1.0, 2.0]))
        run("A", iso, meth, x, interp_fill=numpy.array([1.0, 2.0]))
        run("A", iso, meth, x, interp_fill=[1.0, 2.0])
        run("A", iso, meth, x, interp_fill=[1.0, 2.0])
        run("A", iso, meth, x)
        # failing builds must leave the cache alone
        run("A", iso, meth, x, interpolation_type='bogus')
        run("A", iso, meth, x, branch='xyz')
        run("A", iso, meth, x, interp_fill=(1.0, 2.0, 3.0))
        run("A", iso, meth, x, branch=None)
        run("A", iso, meth, x)
    # unit handling around the interpolation
    run("U", iso, meth, 1.0, pressure_unit='Pa', pressure_mode='absolute')
    run("U", iso, meth, 1.0, pressure_mode='relative')
    run("U", iso, meth, 1.0, pressure_mode='absolute')
    run("U", iso, meth, 1.0, loading_unit='cm3(STP)', loading_basis='molar')
    run("U", iso, meth, 1.0, loading_basis='mass')
    run("U", iso, meth, 1.0, material_unit='kg')
    run("U", iso, meth, 1.0, material_basis='mass')
    for other, nm in ((tiny, "T"), (one, "O"), (adsonly, "S")):
        run(nm, other, meth, 1.5)
        run(nm, other, meth, 1.0)
        run(nm, other, meth, 1.5, interpolation_type='cubic')
        run(nm, other, meth, 1.5, interpolation_type='quadratic', interp_fill='extrapolate')
        run(nm, other, meth, 1.5, branch='des')
        run(nm, other, meth, 4.0, interp_fill='extrapolate')
        run(nm, other, meth, 4.0)

# cache reset by conversions
run("C", iso, "loading_at", 1.0)
iso.convert_pressure(unit_to='kPa')
print("after convert", state(iso))
run("C", iso, "loading_at", 100.0)
run("C", iso, "pressure_at", 1.0)

# the interpolator on its own
def interp(label, *a, **k):
    try:
        it = IsothermInterpolator(*a, **k)
        d = dict(vars(it))
        f = d.pop("interp_fun", None)
        desc = [sorted((n, repr(v)) for n, v in d.items())]
        if f is not None:
            desc.append((type(f).__name__, f.bounds_error, repr(f.fill_value), f._kind if hasattr(f, "_kind") else None))
            for q in (1.5, [1.0, 2.5], 7.0, -1.0):
                try:
                    desc.append(show(it(q)))
                except Exception as e:
                    desc.append("EXC %s: %s" % (type(e).__name__, e))
        else:
            try:
                it(1.0)
            except Exception as e:
                desc.append("EXC %s: %s" % (type(e).__name__, e))
        print(label, desc)
    except Exception as e:
        print(label, "EXC %s: %s" % (type(e).__name__, e))

X = [1.0, 2.0, 3.0, 4.0]
Y = [2.0, 3.0, 5.0, 4.0]
interp("I1", X, Y)
interp("I2", None, None)
interp("I3", None, Y, 'des', 'cubic', 3.0)
interp("I4", X, Y, 'des', 'cubic', 3.0)
interp("I5", X, Y, interp_kind='nearest', interp_fill=(0.0, 9.0))
interp("I6", X, Y, interp_fill='extrapolate')
interp("I7", X, Y, interp_fill=0)
interp("I8", X, Y, interp_fill=numpy.nan)
interp("I9", X, Y[:3])
interp("I10", [], [])
interp("I11", X, Y, interp_kind='bogus')
interp("I12", X, Y, interp_kind=2, interp_fill=[1.0])
interp("I13", X, None)
interp("I14", [1.0], [1.0])
interp("I15", X, Y, interp_fill=False)
interp("I16", X, Y, interp_fill='')
