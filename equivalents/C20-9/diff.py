"""Differential transcript for patch C20-1 (Adsorbate alias construction and Adsorbate.find)."""
import logging
import sys

import pygaps
from pygaps import ADSORBATE_LIST
from pygaps import Adsorbate

assert pygaps.__file__.startswith('/var/tmp/wt/eq3-10/'), pygaps.__file__
logging.getLogger('pygaps').handlers[:] = [logging.StreamHandler(sys.stdout)]


def show(label, fn):
    try:
        res = fn()
        print(label, '->', repr(res))
    except BaseException as err:  # noqa
        print(
            label, '!!',
            type(err).__name__, str(err), '| cause', repr(err.__cause__), '| suppress',
            err.__suppress_context__
        )


class Lowerable:
    """Not a string but has lower()."""
    def __init__(self, val):
        self.val = val

    def lower(self):
        return self.val.lower()


class Shouty(str):
    """A str subclass with a strange lower."""
    def lower(self):
        return 'shouty-' + str.lower(self)


def gen_alias():
    yield 'Gen-A'
    yield 'GEN-b'


def build(name, **kw):
    ads = Adsorbate(name, **kw)
    return (ads.name, ads.alias, sorted(ads.properties.items(), key=repr), ads in ADSORBATE_LIST)


# ---- construction: alias handling
n_before = len(ADSORBATE_LIST)
cases = [
    ('plain', dict()),
    ('Plain', dict(alias=None)),
    ('MiXeD', dict(alias='OtherName')),
    ('MiXeD', dict(alias='mixed')),
    ('MiXeD', dict(alias='MIXED')),
    ('MiXeD', dict(alias=['A', 'b', 'MIXED', 'c'])),
    ('MiXeD', dict(alias=['A', 'b'])),
    ('MiXeD', dict(alias=('T1', 'T2', 't1'))),
    ('MiXeD', dict(alias=[])),
    ('MiXeD', dict(alias='')),
    ('', dict(alias=['x'])),
    ('', dict()),
    ('gen', dict(alias=gen_alias())),
    ('dictalias', dict(alias={'K1': 1, 'k2': 2})),
    ('lowerable', dict(alias=[Lowerable('LOW'), 'Up'])),
    ('lowerable', dict(alias=Lowerable('LOW'))),
    ('shouty', dict(alias=Shouty('ABC'))),
    ('shouty', dict(alias=[Shouty('ABC'), Shouty('shouty')])),
    (Shouty('NAME'), dict(alias=['name'])),
    (Shouty('NAME'), dict()),
    ('props', dict(alias=['p'], formula='X_{2}', molar_mass=12.5, backend_name='nitrogen')),
    ('ünïcödé', dict(alias=['ÀÉÎ', 'ß', 'İ'])),
    ('bad', dict(alias=[1, 2])),
    ('bad', dict(alias=['ok', None])),
    ('bad', dict(alias=5)),
    ('bad', dict(alias=b'bytes')),
    ('bad', dict(alias=[b'BYTES'])),
    (None, dict(alias=['x'])),
    (5, dict(alias=['x'])),
    (5, dict()),
    (b'BYTES', dict(alias=['x'])),
]
for num, (name, kw) in enumerate(cases):
    al = kw.get("alias")
    al = repr(al) if isinstance(al, (str, bytes, int, list, tuple, dict, type(None))) and 'object at' not in repr(al) else type(al).__name__
    show(f'case {num}: Adsorbate({name!r}, {sorted(kw)!r}, alias={al})', lambda: build(name, **kw))
print('list unchanged', len(ADSORBATE_LIST) == n_before)

# alias list identity: the list passed in must not be mutated or shared
src = ['One', 'Two']
ads = Adsorbate('three', alias=src)
print('source alias list', src, 'alias', ads.alias, 'same object', ads.alias is src)
kwargs = {'alias': ['Q'], 'formula': 'Q_{1}'}
ads = Adsorbate('kw', **kwargs)
print('kwargs after', kwargs, 'to_dict', ads.to_dict())

# partially built object state when alias is bad
obj = Adsorbate.__new__(Adsorbate)
try:
    obj.__init__('Half', alias=['fine', 3], formula='F')
except BaseException as err:  # noqa
    print('half-built', type(err).__name__, err, sorted(vars(obj).items()))
obj = Adsorbate.__new__(Adsorbate)
try:
    obj.__init__(12, alias=['fine'], formula='F')
except BaseException as err:  # noqa
    print('half-built', type(err).__name__, err, sorted(vars(obj).items()))

# ---- store=True
stored = Adsorbate('diff-c20-1-stored', store=True, alias=['DIFF-ALIAS-ONE'])
print('stored', stored in ADSORBATE_LIST, ADSORBATE_LIST[-1] is stored, len(ADSORBATE_LIST) - n_before)
again = Adsorbate('diff-c20-1-stored', store=True)
print('stored twice', len(ADSORBATE_LIST) - n_before, ADSORBATE_LIST[-1] is stored)
show('find stored by alias', lambda: Adsorbate.find('diff-alias-ONE') is stored)
show('find stored by name', lambda: Adsorbate.find('DIFF-C20-1-STORED') is stored)
ADSORBATE_LIST.pop()
show('find after removal', lambda: Adsorbate.find('diff-alias-one'))

# ---- find on everything shipped
print('shipped', len(ADSORBATE_LIST))
for pos, ads in enumerate(ADSORBATE_LIST):
    names = [ads.name] + list(ads.alias)
    hits = []
    for nm in names:
        for variant in (nm, nm.lower(), nm.upper(), nm.title(), nm.swapcase()):
            try:
                found = Adsorbate.find(variant)
                hits.append(ADSORBATE_LIST.index(found) if found is not ads else 'ok')
            except BaseException as err:  # noqa
                hits.append(type(err).__name__)
    print(pos, repr(ads), ads.alias, hits)

# ---- find: errors and odd arguments
some = ADSORBATE_LIST[0]
show('find(instance)', lambda: Adsorbate.find(some) is some)
fresh = Adsorbate('not in list at all')
show('find(unlisted instance)', lambda: Adsorbate.find(fresh) is fresh)
for arg in ('', ' ', 'nitrogen ', 'no-such-gas', "quo'te", '{brace}', 'N2\n', None, 5, 5.5, b'N2', ['N2'], ('N2', )):
    show(f'find({arg!r})', lambda: Adsorbate.find(arg))
show('find(Shouty)', lambda: Adsorbate.find(Shouty('N2')))


def find_in_handler():
    try:
        raise ValueError('outer')
    except ValueError:
        return Adsorbate.find('nothing-here')


show('find inside handler', find_in_handler)

# a list with a foreign element: comparison order and errors
ADSORBATE_LIST.insert(0, 'n2')
show('foreign str first', lambda: Adsorbate.find('N2'))
show('foreign str first, other', lambda: Adsorbate.find('n2'))
ADSORBATE_LIST.pop(0)
ADSORBATE_LIST.insert(0, None)
show('foreign None first', lambda: Adsorbate.find('N2'))
show('foreign None first, miss', lambda: Adsorbate.find('zzz'))
ADSORBATE_LIST.pop(0)
dup = Adsorbate('later duplicate', alias=['N2'])
ADSORBATE_LIST.append(dup)
show('duplicate alias: first wins', lambda: Adsorbate.find('n2') is not dup)
ADSORBATE_LIST.pop()
saved = ADSORBATE_LIST[:]
del ADSORBATE_LIST[:]
show('empty list', lambda: Adsorbate.find('N2'))
ADSORBATE_LIST.extend(saved)
show('restored', lambda: Adsorbate.find('N2'))

# ---- isotherm linking through find
for txt in ('N2', 'nitrogen', 'NITROGEN', 'Carbon Dioxide', 'co2', 'n-butane', 'ButanE'):
    iso = pygaps.PointIsotherm(
        pressure=[1, 2], loading=[1, 2], material='m', adsorbate=txt, temperature=77
    )
    print('isotherm', txt, repr(iso.adsorbate), iso.adsorbate is Adsorbate.find(txt))
iso = pygaps.PointIsotherm(pressure=[1, 2], loading=[1, 2], material='m', adsorbate='mystery', temperature=77)
print('isotherm unknown', repr(iso.adsorbate), type(iso.adsorbate).__name__)
