"""Differential transcript for converter_mode.c_material (all basis / unit combinations) and its users."""
import itertools
import warnings
import logging

import numpy

warnings.simplefilter("ignore")

import pygaps
from pygaps.units import converter_mode as cm

logging.getLogger("pygaps").setLevel(logging.ERROR)


def fmt(res):
    if isinstance(res, numpy.ndarray):
        return f"ndarray {res.dtype} {res.shape} {res.tolist()!r}"
    return f"{type(res).__name__} {res!r}"


def show(label, fn, *args, **kwargs):
    try:
        out = fmt(fn(*args, **kwargs))
    except BaseException as exc:  # noqa
        out = f"EXC {type(exc).__name__}: {exc}"
    print(f"{label} -> {out}")


class SpyMaterial:
    """Logs every attribute read, in order."""
    def __init__(self, **props):
        object.__setattr__(self, "_props", props)
        object.__setattr__(self, "log", [])

    def __getattr__(self, name):
        self.log.append(name)
        try:
            val = self._props[name]
        except KeyError:
            raise AttributeError(f"spy has no {name}") from None
        if isinstance(val, BaseException):
            raise val
        return val


BASES = ["mass", "volume", "molar"]
UNITS = {
    "mass": list(cm._MASS_UNITS),
    "volume": list(cm._VOLUME_UNITS),
    "molar": list(cm._MOLAR_UNITS),
}
BADBASES = [None, "", "bad", "percent", "fraction", "volume_gas", "Mass", 0, ("mass", ), []]
BADUNITS = [None, "", "bad", 0, []]
VALUES = [0, 1, -1, 0.0, -0.0, 0.5, 3.7, 1e-300, 1e300, float("inf"), float("nan"), True]
ARR = numpy.array([0.0, 1e-3, 0.1, 0.5, 1.0, 42.0])
IARR = numpy.array([0, 1, 50, 100])

print("== 0. module tables")
print(repr({k: list(v) for k, v in cm._MATERIAL_MODE.items()}))

print("== 1. every basis pair x every unit pair, spy material")
for bf, bt in itertools.product(BASES, repeat=2):
    for uf, ut in itertools.product(UNITS[bf], UNITS[bt]):
        spy = SpyMaterial(density=1.7, molar_mass=63.25)
        show(f"{bf}->{bt} {uf}->{ut}", cm.c_material, 2.25, bf, bt, uf, ut, spy)
        print("    reads:", spy.log)
        show(f"{bf}->{bt} {uf}->{ut} ARR kw", cm.c_material, value=ARR, basis_from=bf, basis_to=bt, unit_from=uf, unit_to=ut, material=spy)

print("== 2. values")
for bf, bt in itertools.product(BASES, repeat=2):
    for v in VALUES + [ARR, IARR, [1, 2], None, "x"]:
        label = "ARR" if v is ARR else "IARR" if v is IARR else repr(v)
        spy = SpyMaterial(density=3, molar_mass=numpy.float64(12.011))
        show(f"{bf}->{bt} value={label}", cm.c_material, v, bf, bt, UNITS[bf][1], UNITS[bt][-1], spy)

print("== 3. bad units, with good and bad bases; check ordering of errors vs attribute reads")
for bf, bt in itertools.product(BASES, repeat=2):
    for uf, ut in itertools.product(BADUNITS + [UNITS[bf][0]], BADUNITS + [UNITS[bt][0]]):
        spy = SpyMaterial()
        show(f"{bf}->{bt} {uf!r}->{ut!r}", cm.c_material, 1.5, bf, bt, uf, ut, spy)
        print("    reads:", spy.log)
    # unit of the wrong table
    show(f"{bf}->{bt} swapped units", cm.c_material, 1.5, bf, bt, UNITS[bt][0], UNITS[bf][0], SpyMaterial(density=2.0, molar_mass=5.0))

print("== 4. bad bases")
for bad in BADBASES:
    for good in BASES:
        show(f"from={bad!r} to={good}", cm.c_material, 1.0, bad, good, "g", "g", SpyMaterial(density=2.0, molar_mass=5.0))
        show(f"from={good} to={bad!r}", cm.c_material, 1.0, good, bad, "g", "g", SpyMaterial(density=2.0, molar_mass=5.0))
    for bad2 in BADBASES[:5]:
        show(f"from={bad!r} to={bad2!r}", cm.c_material, 1.0, bad, bad2, "g", "g")

print("== 5. odd materials")
MATS = {
    "None": lambda: None,
    "no-props": lambda: SpyMaterial(),
    "only-density": lambda: SpyMaterial(density=2.0),
    "only-mm": lambda: SpyMaterial(molar_mass=44.0),
    "None-props": lambda: SpyMaterial(density=None, molar_mass=None),
    "zero": lambda: SpyMaterial(density=0.0, molar_mass=0.0),
    "int-zero": lambda: SpyMaterial(density=0, molar_mass=0),
    "neg": lambda: SpyMaterial(density=-2.0, molar_mass=-3.0),
    "str": lambda: SpyMaterial(density="2", molar_mass="3"),
    "array": lambda: SpyMaterial(density=numpy.array([1.0, 2.0]), molar_mass=numpy.array([3.0, 4.0])),
    "raising": lambda: SpyMaterial(density=RuntimeError("dens"), molar_mass=KeyError("mm")),
    "inf": lambda: SpyMaterial(density=float("inf"), molar_mass=float("nan")),
    "real-full": lambda: pygaps.Material("m1", density=2.1, molar_mass=120.5),
    "real-empty": lambda: pygaps.Material("m2"),
    "real-dens": lambda: pygaps.Material("m3", density=0.9),
    "string-name": lambda: "m1",
}
for name, mk in MATS.items():
    for bf, bt in itertools.product(BASES, repeat=2):
        mat = mk()
        show(f"mat={name} {bf}->{bt}", cm.c_material, 2.0, bf, bt, UNITS[bf][2], UNITS[bt][2], mat)
        show(f"mat={name} {bf}->{bt} ARR", cm.c_material, ARR, bf, bt, UNITS[bf][0], UNITS[bt][3], mat)
        if isinstance(mat, SpyMaterial):
            print("    reads:", mat.log)
    show(f"mat={name} default-arg same-basis", cm.c_material, 2.0, "mass", "mass", "g", "kg")

print("== 6. same basis: unit change only / no change")
for b in BASES:
    for uf, ut in itertools.product(UNITS[b] + [None, "", "bad"], repeat=2):
        show(f"{b} {uf!r}->{ut!r}", cm.c_material, 1.25, b, b, uf, ut)

print("== 7. consistency: round trips and paths")
mat = pygaps.Material("rt", density=1.9, molar_mass=77.7)
for bf, bt in itertools.permutations(BASES, 2):
    uf, ut = UNITS[bf][1], UNITS[bt][1]
    show(f"roundtrip {bf}/{uf}->{bt}/{ut}", lambda: cm.c_material(cm.c_material(0.731, bf, bt, uf, ut, mat), bt, bf, ut, uf, mat))
    third = [b for b in BASES if b not in (bf, bt)][0]
    u3 = UNITS[third][0]
    show(f"via {third}", lambda: cm.c_material(cm.c_material(0.731, bf, third, uf, u3, mat), third, bt, u3, ut, mat))

print("== 8. through the isotherm classes")
pygaps.MATERIAL_LIST.append(mat)
iso = pygaps.PointIsotherm(
    pressure=[0.1, 0.2, 0.3, 0.5, 0.8, 1.0], loading=[1, 1.8, 2.4, 3.0, 3.3, 3.4],
    material="rt", adsorbate="N2", temperature=77.355,
    pressure_mode="absolute", pressure_unit="bar", loading_basis="molar", loading_unit="mmol",
    material_basis="mass", material_unit="g", temperature_unit="K",
)
for mb, mu in (("mass", "kg"), ("volume", "cm3"), ("volume", "m3"), ("molar", "mol"), ("molar", "mmol"), ("mass", None), ("bad", "g"), ("volume", "bad")):
    show(f"iso.loading material {mb}/{mu}", iso.loading, material_basis=mb, material_unit=mu)
    show(f"iso.loading_at material {mb}/{mu}", iso.loading_at, 0.4, material_basis=mb, material_unit=mu)
    show(f"iso.pressure_at material {mb}/{mu}", iso.pressure_at, 2.0, material_basis=mb, material_unit=mu)
for mb, mu in (("volume", "cm3"), ("molar", "mol"), ("mass", "kg"), ("mass", "g")):
    show(f"convert_material {mb}/{mu}", lambda: (iso.convert_material(basis_to=mb, unit_to=mu), iso.loading().tolist(), iso.material_basis, iso.material_unit)[1:])
