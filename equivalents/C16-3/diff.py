"""Differential script for change 3 (psd_pygapsdh recurrence)."""
import itertools
import sys

import numpy
from eqcases import VOLUME_KINDS
from eqcases import grids
from eqcases import kelvin_models
from eqcases import thickness_models
from eqcases import volumes
from eqfmt import run

import pygaps.characterisation.psd_meso as pmes

FUNCS = {"pygapsdh": pmes.psd_pygapsdh}
if len(sys.argv) > 1 and sys.argv[1] == "cyl":  # reused by diff4.py
    FUNCS = {"bjh": pmes.psd_bjh, "dh": pmes.psd_dollimore_heal}
GEOMS = ['slit', 'cylinder', 'sphere']

G = grids()
T = thickness_models()
K = kelvin_models()


def checked(func, v, p, geom, tm, km):
    """Result plus the property-level invariants, computed from the returned arrays."""
    res = func(v, p, geom, tm, km)
    out = dict(res)
    out["sum_volumes"] = res["pore_volumes"].sum()
    out["dist_times_dw"] = res["pore_distribution"] * numpy.diff(2 * (tm(p) + km(p)))
    out["widths_increasing"] = bool(numpy.all(numpy.diff(res["pore_widths"]) > 0))
    out["layout"] = {k: (x.dtype.str, x.strides, x.flags['OWNDATA']) for k, x in res.items()}
    return out


# ---------------------------------------------------------------- broad sweep
for fn, func in FUNCS.items():
    geoms = GEOMS if fn == "pygapsdh" else ['cylinder']
    # every grid x volume kind with the zero model and the default model
    for (gn, p), kind, geom in itertools.product(G.items(), VOLUME_KINDS, geoms):
        v = volumes(p, kind)
        for tn in ["zero thickness", "Harkins/Jura"]:
            run(f"{fn} {gn} {kind} {geom} {tn}", checked, func, v, p, geom, T[tn], K["N2 hemispherical"])
    # every thickness x kelvin model on three grids
    for (tn, tm), (kn, km), gn, geom in itertools.product(T.items(), K.items(), ["lin25", "rand33", "log40"], geoms):
        p = G[gn]
        run(f"{fn} {gn} sigmoid {geom} {tn} / {kn}", checked, func, volumes(p, "sigmoid"), p, geom, tm, km)
    # single condensation step: one peak at the kelvin width
    for (gn, p), geom in itertools.product(G.items(), geoms):
        if len(p) < 3:
            continue
        res = func(volumes(p, "step"), p, geom, T["zero thickness"], K["N2 cylindrical"])
        run(f"{fn} {gn} step peak {geom}", lambda r=res: (
            numpy.flatnonzero(r["pore_volumes"]), r["pore_widths"][numpy.argmax(r["pore_distribution"])]
        ))

# ---------------------------------------------------------------- argument handling / error paths
p = G["lin25"]
v = volumes(p, "sigmoid")
zero, hj, kel = T["zero thickness"], T["Harkins/Jura"], K["N2 hemispherical"]
for fn, func in FUNCS.items():
    for geom in ['slit', 'cylinder', 'sphere', 'halfopen-cylinder', 'Cylinder', '', None, 2, ['cylinder'], ('slit', ),
                 numpy.str_('cylinder'), numpy.str_('sphere'), b'slit', numpy.array(['slit'])]:
        run(f"{fn} geometry {geom!r}", func, v, p, geom, hj, kel)
    run(f"{fn} empty", func, numpy.array([]), numpy.array([]), 'cylinder', hj, kel)
    run(f"{fn} empty lists", func, [], [], 'cylinder', hj, kel)
    run(f"{fn} empty + bad geometry", func, [], [], 'nope', hj, kel)
    run(f"{fn} mismatch", func, v[:-1], p, 'cylinder', hj, kel)
    run(f"{fn} mismatch + bad geometry", func, v[:-1], p, 'nope', hj, kel)
    run(f"{fn} empty volume only", func, [], p, 'cylinder', hj, kel)
    run(f"{fn} empty pressure only", func, v, [], 'cylinder', hj, kel)
    run(f"{fn} one point", func, v[:1], p[:1], 'cylinder', hj, kel)
    run(f"{fn} two points", func, v[:2], p[:2], 'cylinder', hj, kel)
    run(f"{fn} lists", func, list(v), list(p), 'cylinder', hj, kel)
    run(f"{fn} tuples", func, tuple(v), tuple(p), 'cylinder', hj, kel)
    run(f"{fn} list volume array pressure", func, list(v), p, 'cylinder', hj, kel)
    run(f"{fn} f32 inputs", func, v.astype(numpy.float32), p.astype(numpy.float32), 'cylinder', hj, kel)
    run(f"{fn} f32 models", func, v, p, 'cylinder', lambda x: hj(x).astype(numpy.float32),
        lambda x: kel(x).astype(numpy.float32))
    run(f"{fn} int models", func, v, p, 'cylinder', lambda x: numpy.arange(len(x), 0, -1) * 0,
        lambda x: numpy.arange(len(x), 0, -1) + 3)
    run(f"{fn} none models", func, v, p, 'cylinder', None, None)
    run(f"{fn} scalar thickness", func, v, p, 'cylinder', lambda x: 0.3, kel)
    run(f"{fn} scalar kelvin", func, v, p, 'cylinder', hj, lambda x: 2.0)
    run(f"{fn} short thickness", func, v, p, 'cylinder', lambda x: hj(x)[:-2], kel)
    run(f"{fn} long models", func, v, p, 'cylinder', lambda x: numpy.ones(len(x) + 3), lambda x: numpy.ones(len(x) + 3))
    run(f"{fn} short models", func, v, p, 'cylinder', lambda x: numpy.ones(len(x) - 3), lambda x: numpy.ones(len(x) - 3))
    run(f"{fn} nan thickness", func, v, p, 'cylinder', lambda x: numpy.full(len(x), numpy.nan), kel)
    run(f"{fn} raising thickness", func, v, p, 'cylinder', lambda x: 1 / 0, kel)
    run(f"{fn} raising kelvin", func, v, p, 'cylinder', hj, lambda x: {}['k'])
    run(f"{fn} pressure at limits", func, v, numpy.linspace(0, 1, len(v)), 'cylinder', hj, kel)
    run(f"{fn} equal pressures", func, v, numpy.full(len(v), 0.5), 'cylinder', hj, kel)
    run(f"{fn} decreasing pressure", func, v, p[::-1], 'cylinder', hj, kel)
    run(f"{fn} nan volume", func, numpy.where(numpy.arange(len(v)) == 7, numpy.nan, v), p, 'cylinder', hj, kel)
    run(f"{fn} inf volume", func, numpy.where(numpy.arange(len(v)) == 20, numpy.inf, v), p, 'cylinder', hj, kel)
    run(f"{fn} huge volume", func, v * 1e306, p, 'cylinder', hj, kel)
    run(f"{fn} tiny volume", func, v * 1e-320, p, 'cylinder', hj, kel)
    run(f"{fn} 2d", func, numpy.vstack([v, v]), numpy.vstack([p, p]), 'cylinder', hj, kel)
    run(f"{fn} kwargs", func, volume_adsorbed=v, relative_pressure=p, pore_geometry='cylinder', thickness_model=zero,
        condensation_model=kel)
    run(f"{fn} missing", func, v, p)
    # the inputs must not be modified
    vc, pc = v.copy(), p.copy()
    func(vc, pc, 'cylinder', hj, kel)
    run(f"{fn} inputs untouched", lambda: (numpy.array_equal(vc, v), numpy.array_equal(pc, p)))
