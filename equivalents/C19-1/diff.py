"""Differential script for change 1: isosteric_enthalpy_raw."""
import sys, os
sys.path.insert(0, os.path.dirname(__file__))
import numpy as np
from scipy import constants
from _fmt import run, LogCapture

from pygaps.characterisation.isosteric_enth import isosteric_enthalpy_raw as raw

log = LogCapture()
R = constants.gas_constant
rng = np.random.default_rng(19)


def vant_hoff(dh, temps, loadings, n_m=5.0, k0=1e-9, t=1.0):
    """Pressures of a Toth/Langmuir model with van 't Hoff affinity, rows=loadings, cols=temps."""
    temps = np.asarray(temps, dtype=float)
    K = k0 * np.exp(dh * 1000 / R / temps)
    th = np.asarray(loadings, dtype=float)[:, None] / n_m
    return th / (K[None, :] * (1 - th**t)**(1 / t))


case = 0
# exact synthetic data: dH x temperatures (number / order / spacing)
temp_sets = [
    [300, 320], [320, 300], [200, 400], [250.5, 260.25, 399.9], [400, 200, 300],
    [273.15, 298.15, 323.15, 348.15], [210, 390, 215, 385, 300], [200, 201], [77, 87],
    np.array([300, 310, 320]), np.array([300.0, 310.0, 320.0, 330.0, 340.0]), (298, 308, 318),
]
for i, temps in enumerate(temp_sets):
    for dh in (5, 17.3, 42, 60):
        for t in (1.0, 0.6):
            case += 1
            loadings = np.linspace(0.05, 4.5, 7) if i % 2 else [0.1, 1, 2.5, 4.9]
            p = vant_hoff(dh, temps, loadings, t=t)
            arg = p if case % 3 else p.tolist()
            run(f"exact {case} T={list(np.asarray(temps).tolist())} dH={dh} t={t}", raw, arg, temps, log=log)

# noisy data
for k in range(8):
    nt = int(rng.integers(2, 6))
    temps = np.sort(rng.uniform(200, 400, nt))
    if k % 2:
        temps = temps[::-1]
    p = vant_hoff(rng.uniform(5, 60), temps, rng.uniform(0.1, 4.8, 5), t=rng.uniform(0.3, 1))
    p = p * (1 + 0.02 * rng.standard_normal(p.shape))
    run(f"noisy {k} nt={nt}", raw, p, temps.tolist(), log=log)

# unit scalings of the same data (bar / Pa / kPa / torr) change only the intercept
base = vant_hoff(25, [280, 300, 320], [0.5, 1.5, 3.0])
for name, f in (("bar", 1.0), ("Pa", 1e5), ("kPa", 100.0), ("torr", 750.061682704)):
    run(f"scaled {name}", raw, base * f, [280, 300, 320], log=log)

# edge / error paths
run("single row", raw, [[1.0, 2.0, 4.0]], [300, 320, 340], log=log)
run("tuple rows", raw, ((1.0, 2.0), (2.0, 5.0), (0.1, 0.1)), (300, 350), log=log)
run("constant pressures", raw, [[1.0, 1.0, 1.0]], [300, 320, 340], log=log)
run("length mismatch more T", raw, [[1.0, 2.0]], [300, 320, 340], log=log)
run("length mismatch fewer T", raw, [[1.0, 2.0, 3.0]], [300, 320], log=log)
run("identical temperatures", raw, [[1.0, 2.0], [1.5, 2.5]], [300, 300], log=log)
run("identical temperatures second row only reached", raw, [[1.0, 2.0, 3.0]], [300, 300, 300], log=log)
run("one temperature", raw, [[1.0], [2.0]], [300], log=log)
run("zero pressure", raw, [[0.0, 2.0, 3.0], [1.0, 2.0, 3.0]], [300, 320, 340], log=log)
run("negative pressure", raw, [[1.0, 2.0, 3.0], [-1.0, 2.0, 3.0]], [300, 320, 340], log=log)
run("nan pressure", raw, [[1.0, np.nan, 3.0], [1.0, 2.0, 3.0]], [300, 320, 340], log=log)
run("1-D pressures", raw, [1.0, 2.0, 3.0], [300, 320, 340], log=log)
run("empty pressures", raw, [], [300, 320], log=log)
run("empty rows", raw, [[], []], [], log=log)
run("ragged rows", raw, [[1.0, 2.0], [1.0, 2.0, 3.0]], [300, 320], log=log)
run("zero temperature", raw, [[1.0, 2.0, 3.0]], [0, 320, 340], log=log)
run("integer pressures", raw, np.array([[1, 2, 4], [2, 4, 9]]), np.array([300, 320, 340]), log=log)
run("strings", raw, [["a", "b"]], [300, 320], log=log)
run("None temperatures", raw, [[1.0, 2.0]], None, log=log)
run("2 temps float32", raw, np.array([[1, 2], [3, 7]], dtype=np.float32), np.array([250, 350], dtype=np.float32), log=log)

# return container types
res = raw(base, [280, 300, 320])
print("types", type(res).__name__, [type(r).__name__ for r in res], [type(r[0]).__name__ for r in res])
