# ---- common header (duplicated in every diffN.py so each script is self-contained) ----
import math
import os
import sys
import tempfile
import warnings

warnings.simplefilter("ignore")

import numpy
import pandas

import pygaps
import pygaps.parsing as pgp
from pygaps.core.baseisotherm import BaseIsotherm
from pygaps.core.modelisotherm import ModelIsotherm
from pygaps.core.pointisotherm import PointIsotherm
from pygaps.modelling import model_from_dict

assert pygaps.__file__.startswith("/tmp/eq/C07/src"), pygaps.__file__

# the pygaps logger writes INFO+ to stdout -> warnings become part of the canonical text
# (the stream was bound at import; make sure it is *our* stdout)
import re
import shutil

TMP = "/tmp/eq/C07/_eq/work"  # fixed location so that paths in messages are reproducible
shutil.rmtree(TMP, ignore_errors=True)
os.makedirs(TMP)


def canon(v):
    """Canonical text of a value: floats to 12 significant digits, recursive containers."""
    if isinstance(v, (bool, numpy.bool_)):
        return f"bool:{bool(v)}"
    if isinstance(v, (int, numpy.integer)):
        return f"int:{int(v)}"
    if isinstance(v, (float, numpy.floating)):
        v = float(v)
        if math.isnan(v):
            return "float:nan"
        return f"float:{v:.12g}"
    if isinstance(v, str):
        return f"str:{v!r}"
    if v is None:
        return "None"
    if isinstance(v, dict):
        return "{" + ", ".join(f"{canon(k)}: {canon(x)}" for k, x in v.items()) + "}"
    if isinstance(v, (list, tuple)):
        o, c = ("[", "]") if isinstance(v, list) else ("(", ")")
        return o + ", ".join(canon(x) for x in v) + c
    if isinstance(v, numpy.ndarray):
        return "nd" + canon(v.tolist())
    return f"{type(v).__name__}:{v!r}"


def canon_exc(e):
    msg = re.sub(r"0x[0-9a-fA-F]+", "0xADDR", str(e))
    return f"EXC {type(e).__module__}.{type(e).__name__}: {msg}"


def describe(iso):
    """Canonical multi-line text of everything observable on an isotherm."""
    out = [f"  class={type(iso).__name__} iso_id={iso.iso_id}"]
    d = iso.to_dict()
    for k in d:  # insertion order is observable as well
        out.append(f"  meta {k!r} = {canon(d[k])}")
    out.append(f"  material={iso.material!r} props={canon(iso.material.properties)}")
    out.append(f"  adsorbate={str(iso.adsorbate)!r} temperature={canon(iso.temperature)}")
    out.append(f"  units={canon(iso.units)}")
    if isinstance(iso, PointIsotherm):
        df = iso.data_raw
        out.append(f"  keys p={iso.pressure_key!r} l={iso.loading_key!r} other={iso.other_keys!r}")
        out.append(f"  columns={list(df.columns)!r} dtypes={[str(t) for t in df.dtypes]!r}")
        for row in df.itertuples(index=True):
            out.append("  row " + " | ".join(canon(x) for x in row))
    if isinstance(iso, ModelIsotherm):
        m = iso.model
        out.append(f"  model name={m.name!r} rmse={canon(m.rmse)}")
        out.append(f"  model params={canon(dict(m.params))}")
        out.append(f"  model prange={canon(m.pressure_range)} lrange={canon(m.loading_range)}")
    return "\n".join(out)


def run(label, func):
    """Run func, print canonical result or exception."""
    print(f"### {label}")
    sys.stdout.flush()
    try:
        res = func()
    except BaseException as e:  # noqa
        print(canon_exc(e))
        c = e.__cause__
        while c is not None:
            print("  cause " + canon_exc(c))
            c = c.__cause__
        return None
    if isinstance(res, BaseIsotherm):
        print(describe(res))
    elif isinstance(res, str):
        print("  text:")
        for ln in res.split("\n"):
            print("  |" + ln.replace("\r", "<CR>"))
    else:
        print("  " + canon(res))
    return res


UNITS = {
    "default": dict(
        pressure_mode="absolute", pressure_unit="bar", material_basis="mass", material_unit="g",
        loading_basis="molar", loading_unit="mmol", temperature_unit="K"
    ),
    "relative": dict(
        pressure_mode="relative", pressure_unit=None, material_basis="mass", material_unit="kg",
        loading_basis="mass", loading_unit="g", temperature_unit="K"
    ),
    "relpct": dict(
        pressure_mode="relative%", pressure_unit=None, material_basis="volume", material_unit="cm3",
        loading_basis="volume_gas", loading_unit="cm3", temperature_unit="°C"
    ),
    "stp": dict(
        pressure_mode="absolute", pressure_unit="mbar", material_basis="mass", material_unit="mg",
        loading_basis="molar", loading_unit="cm3(STP)", temperature_unit="K"
    ),
    "percent": dict(
        pressure_mode="absolute", pressure_unit="kPa", material_basis="mass", material_unit="g",
        loading_basis="percent", loading_unit=None, temperature_unit="K"
    ),
    "fraction": dict(
        pressure_mode="absolute", pressure_unit="torr", material_basis="molar", material_unit="mol",
        loading_basis="fraction", loading_unit=None, temperature_unit="K"
    ),
    "volliq": dict(
        pressure_mode="absolute", pressure_unit="Pa", material_basis="molar", material_unit="mmol",
        loading_basis="volume_liquid", loading_unit="cm3", temperature_unit="K"
    ),
}

META = {
    "none": {},
    "plain": dict(user="TU", comment="a plain text", iso_type="isotherm"),
    "numbers": dict(n=3, zero=0, neg=-7, x=1.5, tiny=1.2345678901234e-09, big=6.02e+23, negf=-0.25),
    "bools": dict(flag=True, other=False),
    "mixed": dict(
        user="TU", machine="M 1", date="2020-01-02", n=42, ratio=0.333333333333, ok=True,
        material_batch="b-1", activation_temperature=150.0, material_mass=0.0123, instrument="inst"
    ),
    "nonecarry": dict(nothing=None, empty=""),
    "lists": dict(lst=[1, 2, 3], lstf=[1.5, 2.5], tup=(1, 2)),
    "tricky": dict(t1="True", t2="none", t3="12", t4="1e5", t5="[1 2]", t6="  padded  ", t7="inf", t8="nan"),
    "unicode": dict(user="Müller", note="²", half="½", arabic="٣"),
    "sepkey": {"a b": "x", "tab\tkey": 1},
    "comma": dict(comment="a, b"),
    "quote": dict(comment="it's", dq='say "hi"'),
    "semi": dict(comment="a;b", hash="#x", under="_x", dollar="$y"),
    "nestedmat": dict(_material_foo=1, sample_bar=2),
}

MATERIALS = {
    "str": "MAT-1",
    "props": dict(name="MAT-2", density=1.25, formula="C6H6", batch="b7", molar_mass=100),
    "propbool": dict(name="MAT 3", porous=True, note="hello world", count=0),
    "recursive": dict(name="MAT4", a_material_b=1, sample_x="y"),
}

POINTS = {
    "basic": dict(
        pressure=[0.1, 0.2, 0.3, 0.4, 0.5, 0.4, 0.3],
        loading=[1.0, 2.0, 3.0, 3.5, 4.0, 3.8, 3.1],
        branch=[0, 0, 0, 0, 0, 1, 1],
    ),
    "single": dict(pressure=[1.0], loading=[2.0], branch=[0]),
    "adsonly": dict(pressure=[1e-6, 1e-3, 1.0, 1e3], loading=[0.0, 1 / 3, 2 / 3, 123456.123456789123]),
    "desonly": dict(pressure=[3.0, 2.0, 1.0], loading=[3.0, 2.5, 1.0], branch=[1, 1, 1]),
    "precision": dict(
        pressure=[0.123456789012, 0.2000000049, 0.2000000051, 1e-9, 5e-9],
        loading=[1.000000005, 2.999999995, 1e-12, 7.0, 8.0],
        branch=[0, 0, 0, 1, 1],
    ),
    "ints": dict(pressure=[1, 2, 3, 2], loading=[10, 20, 30, 25], branch=[0, 0, 0, 1]),
}


def make_point(points="basic", units="default", meta="none", material="str", extra=None, **kw):
    p = POINTS[points]
    data = {"pressure": p["pressure"], "loading": p["loading"]}
    other = []
    n = len(p["pressure"])
    if extra:
        for col in extra:
            if col == "enthalpy":
                data[col] = [5.0 + 0.123456789123 * i for i in range(n)]
            elif col == "count":
                data[col] = list(range(n))
            elif col == "label":
                data[col] = [f"p{i}" for i in range(n)]
            elif col == "flag":
                data[col] = [bool(i % 2) for i in range(n)]
            other.append(col)
    args = dict(
        isotherm_data=pandas.DataFrame(data), pressure_key="pressure", loading_key="loading",
        material=MATERIALS[material] if isinstance(MATERIALS[material], str) else dict(MATERIALS[material]),
        adsorbate=kw.pop("adsorbate", "N2"), temperature=kw.pop("temperature", 77.0),
    )
    if other:
        args["other_keys"] = other
    args["branch"] = p.get("branch", "guess")
    args.update(UNITS[units])
    args.update(META[meta])
    args.update(kw)
    return PointIsotherm(**args)


MODELS = {
    "henry": dict(name="Henry", rmse=0.01, parameters={"K": 2.5}, pressure_range=[0.1, 10.0],
                  loading_range=[0.25, 25.0]),
    "langmuir": dict(name="Langmuir", rmse=1.234567890123e-05, parameters={"K": 12.3456789, "n_m": 4.2},
                     pressure_range=[1e-05, 1.0], loading_range=[0.0, 4.1]),
    "dslangmuir": dict(name="DSLangmuir", rmse=0, parameters={"n_m1": 1.0, "K1": 2.0, "n_m2": 3.0, "K2": 0.5},
                       pressure_range=[0, 100], loading_range=[0, 4]),
    "toth": dict(name="Toth", rmse=0.5, parameters={"n_m": 10.0, "K": 1.0, "t": 0.7},
                 pressure_range=[0.001, 5.5], loading_range=[0.01, 8.25]),
}


def make_model(model="henry", units="default", meta="none", material="str", **kw):
    md = {k: (dict(v) if isinstance(v, dict) else (list(v) if isinstance(v, list) else v))
          for k, v in MODELS[model].items()}
    args = dict(
        model=model_from_dict(md),
        material=MATERIALS[material] if isinstance(MATERIALS[material], str) else dict(MATERIALS[material]),
        adsorbate=kw.pop("adsorbate", "CO2"), temperature=kw.pop("temperature", 298.15),
    )
    args.update(UNITS[units])
    args.update(META[meta])
    args.update(kw)
    return ModelIsotherm(**args)


def make_base(units="default", meta="none", material="str", **kw):
    args = dict(
        material=MATERIALS[material] if isinstance(MATERIALS[material], str) else dict(MATERIALS[material]),
        adsorbate=kw.pop("adsorbate", "CH4"), temperature=kw.pop("temperature", 303),
    )
    args.update(UNITS[units])
    args.update(META[meta])
    args.update(kw)
    return BaseIsotherm(**args)


def all_isotherms():
    """(label, factory) of a broad family of isotherms."""
    cases = []
    # point isotherms: every unit configuration x several data shapes
    for u in UNITS:
        cases.append((f"point/basic/{u}", lambda u=u: make_point("basic", u, "plain")))
    for pts in POINTS:
        cases.append((f"point/{pts}/default", lambda pts=pts: make_point(pts, "default", "numbers")))
    for m in META:
        cases.append((f"point/basic/meta-{m}", lambda m=m: make_point("basic", "default", m)))
    for mat in MATERIALS:
        cases.append((f"point/basic/mat-{mat}", lambda mat=mat: make_point("basic", "relative", "mixed", mat)))
    cases.append(("point/extra-enthalpy", lambda: make_point("basic", "default", "plain", extra=["enthalpy"])))
    cases.append(("point/extra-multi", lambda: make_point("precision", "percent", "bools", "props",
                                                          extra=["enthalpy", "count", "label"])))
    cases.append(("point/extra-flag", lambda: make_point("ints", "fraction", "none", extra=["flag", "count"])))
    cases.append(("point/otheradsorbate", lambda: make_point("adsonly", "volliq", "mixed", adsorbate="carbon dioxide",
                                                             temperature=0)))
    cases.append(("point/unknownadsorbate", lambda: make_point("single", "default", "none", adsorbate="mystery gas",
                                                               temperature=1e-3)))
    # model isotherms
    for mod in MODELS:
        cases.append((f"model/{mod}/default", lambda mod=mod: make_model(mod, "default", "plain")))
    for u in UNITS:
        cases.append((f"model/langmuir/{u}", lambda u=u: make_model("langmuir", u, "numbers", "props")))
    for m in META:
        cases.append((f"model/henry/meta-{m}", lambda m=m: make_model("henry", "default", m)))
    # base isotherms
    for u in UNITS:
        cases.append((f"base/{u}", lambda u=u: make_base(u, "mixed")))
    for m in META:
        cases.append((f"base/meta-{m}", lambda m=m: make_base("default", m, "propbool")))
    for mat in MATERIALS:
        cases.append((f"base/mat-{mat}", lambda mat=mat: make_base("relpct", "bools", mat)))
    return cases


def quiet(factory):
    """Build an isotherm with the pygaps logger silenced (constructor noise is not under test)."""
    import logging
    lg = logging.getLogger("pygaps")
    old = lg.level
    lg.setLevel(logging.CRITICAL)
    try:
        return factory()
    finally:
        lg.setLevel(old)

# ---- end of common header ----

# ===== diff1: CSV reader (isotherm_from_csv) =====
from pygaps.parsing.csv import isotherm_from_csv, isotherm_to_csv

# 1. full round trips, string target, default separator
for label, factory in all_isotherms():
    iso = quiet(factory)

    def rt(iso=iso):
        text = isotherm_to_csv(iso)
        new = isotherm_from_csv(text)
        print(f"  equal={new == iso} dict_equal={new.to_dict() == iso.to_dict()}")
        return new

    run(f"csv-roundtrip {label}", rt)

# 2. other separators + file targets
for sep_name, sep in (("semicolon", ";"), ("tab", "\t"), ("pipe", "|"), ("double", "::")):
    for label, factory in (
        ("point", lambda: make_point("basic", "relative", "mixed", "props", extra=["enthalpy"])),
        ("point-comma", lambda: make_point("basic", "default", "comma")),
        ("model", lambda: make_model("toth", "percent", "numbers", "propbool")),
        ("base", lambda: make_base("fraction", "lists", "props")),
    ):
        iso = quiet(factory)

        def rt(iso=iso, sep=sep, name=f"{sep_name}-{label}.csv"):
            path = os.path.join(TMP, name)
            res = isotherm_to_csv(iso, path, separator=sep)
            print(f"  writer returned {res!r}")
            new = isotherm_from_csv(path, separator=sep)
            print(f"  equal={new == iso}")
            return new

        run(f"csv-file sep={sep_name} {label}", rt)

# 3. overriding parameters
base_text = isotherm_to_csv(quiet(lambda: make_point("basic", "default", "mixed", "props")))
model_text = isotherm_to_csv(quiet(lambda: make_model("langmuir", "default", "mixed", "props")))
meta_text = isotherm_to_csv(quiet(lambda: make_base("default", "mixed", "props")))
run("override material", lambda: isotherm_from_csv(base_text, material="other"))
run("override unit+new", lambda: isotherm_from_csv(base_text, pressure_unit="Pa", newkey=[1, 2]))
run("override model adsorbate", lambda: isotherm_from_csv(model_text, adsorbate="argon", temperature=87))
run("override base branch", lambda: isotherm_from_csv(meta_text, user=None))

# 4. hand-written / damaged files
HEAD = (
    "material,M\nadsorbate,nitrogen\ntemperature,77.0\npressure_mode,absolute\npressure_unit,bar\n"
    "material_basis,mass\nmaterial_unit,g\nloading_basis,molar\nloading_unit,mmol\ntemperature_unit,K\n"
)
DATA = "data:[pressure,loading,branch,(otherdata)]\npressure,loading,branch\n1.0,2.0,ads\n2.0,3.0,ads\n1.5,2.9,des\n"
MODEL = "model:[name and parameters]\nname,Henry\nrmse,0.1\npressure range,[0.1 1.0]\nloading range,[0.2 2.0]\nK,2.0\n"
texts = {
    "noversion-data": HEAD + DATA,
    "oldversion-data": HEAD + "file_version,2.0\n" + DATA,
    "newversion-data": HEAD + "file_version,3.0\n" + DATA,
    "futureversion-data": HEAD + "file_version,4.5\n" + DATA,
    "badversion": HEAD + "file_version,abc\n" + DATA,
    "nobranchcol": HEAD + "file_version,3.0\ndata:\npressure,loading\n1.0,2.0\n2.0,3.0\n1.5,2.9\n",
    "branch-odd-labels": HEAD + "file_version,3.0\ndata:\npressure,loading,branch\n1.0,2.0,ads\n2.0,3.0,ADS\n1.5,2.9,\n",
    "other-colnames": HEAD + "file_version,3.0\ndata:\np,l,branch,extra\n1.0,2.0,ads,5\n2.0,3.0,ads,6\n",
    "empty-data": HEAD + "file_version,3.0\ndata:\npressure,loading,branch\n",
    "data-no-table": HEAD + "file_version,3.0\ndata:\n",
    "model": HEAD + "file_version,3.0\n" + MODEL,
    "model-two-params": HEAD + "file_version,3.0\n" + MODEL.replace("Henry", "Langmuir") + "n_m,3.0\n",
    "model-trailing-blank": HEAD + "file_version,3.0\n" + MODEL + "\nignored,1\n",
    "model-noparams": HEAD + "file_version,3.0\n" + MODEL.replace("K,2.0\n", ""),
    "model-badrmse": HEAD + "file_version,3.0\n" + MODEL.replace("rmse,0.1", "rmse,x"),
    "model-truncated": HEAD + "file_version,3.0\nmodel:\nname,Henry\n",
    "model-missing-sep": HEAD + "file_version,3.0\nmodel:\nname Henry\n",
    "model-badparam": HEAD + "file_version,3.0\n" + MODEL + "q,notafloat\n",
    "model-unknown": HEAD + "file_version,3.0\n" + MODEL.replace("Henry", "Nope"),
    "model-range-commas": HEAD + "file_version,3.0\n" + MODEL.replace("[0.1 1.0]", "(0.1 1.0)"),
    "metaonly": HEAD + "file_version,3.0\n",
    "metaonly-blank-then-more": HEAD + "file_version,3.0\n\nuser,me\n",
    "three-values": HEAD + "comment,a,b\n" + DATA,
    "one-value": HEAD + "comment\n" + DATA,
    "leading-space-line": HEAD + "  user,me  \nfile_version,3.0\n" + DATA,
    "whitespace-only-line": HEAD + "   \nuser,me\n" + DATA,
    "crlf": (HEAD + "file_version,3.0\n" + DATA).replace("\n", "\r\n"),
    "key-data-prefix": HEAD + "database,x\nfile_version,3.0\n" + DATA,
    "key-model-prefix": HEAD + "modelling,x\nfile_version,3.0\n" + DATA,
    "material-props": HEAD + "_material_density,2.5\n_material_note,hello\nfile_version,3.0\n" + DATA,
    "material-props-double": HEAD + "_material_a_material_b,1\nfile_version,3.0\n" + DATA,
    "material-props-double-ok": HEAD + "_material_a_material_b,1\n_material_ab,2\nfile_version,3.0\n" + DATA,
    "material-props-collide": HEAD + "_material_name,zzz\nfile_version,3.0\n" + DATA,
    "material-props-empty-suffix": HEAD + "_material_,7\nfile_version,3.0\n" + DATA,
    "material-missing": HEAD.replace("material,M\n", "") + "_material_density,2.5\nfile_version,3.0\n" + DATA,
    "material-missing-noprops": HEAD.replace("material,M\n", "") + "file_version,3.0\n" + DATA,
    "dup-keys": HEAD + "user,a\nuser,b\nfile_version,3.0\n" + DATA,
    "casts": HEAD + "a,TRUE\nb,none\nc,\nd,007\ne,-1\nf,1e3\ng,[1 2 3]\nh,[a b]\ni,(1 2)\nj,½\nfile_version,3.0\n" + DATA,
    "bad-list": HEAD + "g,[1 2\nh,[1 2 ]x]\nfile_version,3.0\n" + DATA,
    "unparsable-list": HEAD + "g,[1 +]\nfile_version,3.0\n" + DATA,
    "empty-string": "",
    "only-newline": "\n",
    "garbage": "hello world",
    "data-first": DATA,
    "model-first": MODEL,
}
for name, text in texts.items():
    run(f"text {name}", lambda text=text: isotherm_from_csv(text))
run("text semicolon-with-comma-sep", lambda: isotherm_from_csv((HEAD + "file_version,3.0\n" + DATA).replace(",", ";")))
run("text semicolon-ok", lambda: isotherm_from_csv((HEAD + "file_version,3.0\n" + DATA).replace(",", ";"), separator=";"))
run("text semicolon-model", lambda: isotherm_from_csv((HEAD + "file_version,3.0\n" + MODEL).replace(",", ";"), separator=";"))

# 5. invalid inputs
run("arg None", lambda: isotherm_from_csv(None))
run("arg int", lambda: isotherm_from_csv(12345))
run("arg bytes", lambda: isotherm_from_csv(b"abc"))
run("arg missing path", lambda: isotherm_from_csv("/nonexistent/dir/file.csv"))
run("arg directory", lambda: isotherm_from_csv(TMP))
run("arg sep None", lambda: isotherm_from_csv(base_text, separator=None))
run("arg sep empty", lambda: isotherm_from_csv(base_text, separator=""))
