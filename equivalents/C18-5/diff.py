"""Differential script for change 1: pygaps.characterisation.psd_kernel.psd_dft."""
import os
import shutil
import sys

HERE = os.path.dirname(os.path.abspath(__file__))
ROOT = os.path.dirname(HERE)
sys.path.insert(0, HERE)

import matplotlib

matplotlib.use("Agg")
import matplotlib.pyplot as plt
import numpy
import pandas
from common import fmt
from common import run

import pygaps
import pygaps.characterisation.psd_kernel as psdk
import pygaps.graphing.calc_graphs as calc_graphs
import pygaps.graphing.isotherm_graphs as isotherm_graphs
import pygaps.parsing as pgp
from pygaps.data import KERNELS

TMP = os.path.join(HERE, "tmp_kernels1")
shutil.rmtree(TMP, ignore_errors=True)
os.makedirs(TMP)

DATA = os.path.join(ROOT, "docs", "examples", "data", "characterisation")
SHIPPED = KERNELS['DFT-N2-77K-carbon-slit']
raw = pandas.read_csv(SHIPPED, index_col=0)
NW = raw.shape[1]
rng = numpy.random.default_rng(77)
psd = psdk.psd_dft


def load(name):
    return pgp.isotherm_from_json(os.path.join(DATA, name + " N2 77.355.json"))


def synth_iso(weights, rel_p, des=False, **kwargs):
    pressure = rel_p
    kernel = psdk._load_kernel(SHIPPED)
    pts = numpy.asarray([kernel[s](pressure) for s in kernel])
    loading = (pts * numpy.asarray(weights)[:, None]).sum(axis=0)
    if des:
        pressure = numpy.r_[pressure, pressure[::-1][1:]]
        loading = numpy.r_[loading, (loading * 1.05)[::-1][1:]]
    params = dict(
        pressure=pressure, loading=loading, material="synth", adsorbate="N2", temperature=77.355,
        pressure_mode="relative", loading_basis="molar", loading_unit="mmol",
        material_basis="mass", material_unit="g",
    )
    params.update(kwargs)
    return pygaps.PointIsotherm(**params)


def show(label, *args, **kwargs):
    """Call psd_dft, print the full result structure."""
    try:
        res = psd(*args, **kwargs)
    except Exception as err:  # noqa
        cause = err.__cause__
        extra = f" <- {type(cause).__name__}: {cause}" if cause is not None else ""
        print(f"{label}: RAISED {type(err).__name__}: {err}{extra}")
        return None
    print(f"{label}: type={type(res).__name__} keys={list(res)}")
    for key, val in res.items():
        print(f"   {key}: {fmt(val)}")
    return res


mcm = load("MCM-41")
tak = load("Takeda 5A")
uio = load("UiO-66(Zr)")
nay = load("NaY")
sio = load("SiO2")

# 1 - real isotherms, defaults and branches
show("MCM-41 default", mcm)
show("MCM-41 des", mcm, branch='des')
show("Takeda default", tak)
show("UiO-66 positional", uio, 'DFT-N2-77K-carbon-slit', 'ads', None, None, 3, False)
show("NaY order0", nay, bspline_order=0)
show("SiO2 order1", sio, bspline_order=1)

# 2 - pressure limits
grid = numpy.logspace(-6, numpy.log10(0.99), 60)
w = numpy.zeros(NW)
w[[3, 20, 50, 70]] = [0.3, 0.1, 0.05, 0.2]
syn = synth_iso(w, grid)
syn_des = synth_iso(w, grid[::2], des=True)
lims = [
    None, (None, None), [None, None], (0, 0), (0.0, None), (None, 0.0), (1e-4, None), (None, 0.3),
    (1e-4, 0.3), [1e-4, 0.3], (1e-5, 0.9, "extra"), (numpy.float64(1e-3), numpy.float64(0.5)),
    (grid[10], grid[40]), (grid[10] * 1.0001, grid[40] * 0.9999), (0.3, 1e-4), (0.5, 0.5),
    (grid[30], grid[32]), (grid[30], grid[33]), (grid[30], grid[32] * 1.0001), (2.0, None), (None, 1e-9),
    (-1.0, 5.0), (1e-9, 5.0), (None, 5.0), (numpy.nan, None), (None, numpy.nan), (numpy.inf, None),
    (True, None), ("0.1", None), (None, "a"), (0.1, ), (), 0.1, "ab", {0: 0.01, 1: 0.5},
    (numpy.array([0.01, 0.02]), None), numpy.array([1e-3, 0.5]), pandas.Series([1e-3, 0.5]),
]
for i, lim in enumerate(lims):
    order = i % 4
    show(f"limits[{i}] {lim!r} order={order}", syn, p_limits=lim, bspline_order=order)
for lim in (None, (1e-4, 0.3), (0.3, None), (None, 1e-3), (0.99, 1.0)):
    show(f"des limits {lim!r}", syn_des, branch='des', p_limits=lim)
    show(f"MCM limits {lim!r}", mcm, p_limits=lim)

# 3 - few points
for n in (1, 2, 3, 4):
    show(f"npoints={n}", synth_iso(w, grid[20:20 + n]))
show("4 points limited to 3", synth_iso(w, grid[20:24]), p_limits=(grid[21], None))
show("4 points limited to 2", synth_iso(w, grid[20:24]), p_limits=(grid[22], None))

# 4 - kernel units / isotherm units
syn_abs = synth_iso(w, grid, pressure_mode="absolute", pressure_unit="bar",
                    pressure=grid * pygaps.Adsorbate.find("N2").saturation_pressure(77.355, unit="bar"))
syn_cm3 = synth_iso(w, grid, loading_basis="volume_gas", loading_unit="cm3")
syn_kg = synth_iso(w, grid, material_unit="kg")
show("abs-pressure isotherm, default kernel units", syn_abs)
show("abs-pressure isotherm, limits", syn_abs, p_limits=(1e-3, 0.4))
show("cm3 isotherm, default kernel units", syn_cm3)
show("kg isotherm, default kernel units", syn_kg)
show("empty kernel_units", syn, kernel_units={})
show("explicit default kernel_units", syn, kernel_units={
    'loading_basis': 'molar', 'loading_unit': 'mmol', 'material_basis': 'mass',
    'material_unit': 'g', 'pressure_mode': 'relative', 'pressure_unit': None,
})
show("kernel in mol/kg", syn, kernel_units={'loading_unit': 'mol', 'material_unit': 'kg'})
show("kernel in cm3(STP)/g", syn, kernel_units={'loading_basis': 'volume_gas', 'loading_unit': 'cm3'})
show("kernel in mass basis", syn, kernel_units={'loading_basis': 'mass', 'loading_unit': 'mg'})
show("kernel in relative%", syn, kernel_units={'pressure_mode': 'relative%'})
show("kernel in absolute bar (out of range)", syn, kernel_units={'pressure_mode': 'absolute', 'pressure_unit': 'bar'})
show("kernel in absolute bar with limits", syn, kernel_units={'pressure_mode': 'absolute', 'pressure_unit': 'bar'},
     p_limits=(None, 0.9))
show("kernel in absolute Pa, low limit", syn, kernel_units={'pressure_mode': 'absolute', 'pressure_unit': 'Pa'},
     p_limits=(None, 0.9))
show("kernel absolute, unit None", syn, kernel_units={'pressure_mode': 'absolute'})
show("kernel bad loading unit", syn, kernel_units={'loading_unit': 'bananas'})
show("kernel bad pressure mode", syn, kernel_units={'pressure_mode': 'bananas'})
show("kernel bad material basis", syn, kernel_units={'material_basis': 'bananas'})
show("kernel extra unit key ignored", syn, kernel_units={'other': 1, 'loading_unit': 'mmol'})
show("kernel_units not a dict (list)", syn, kernel_units=[('loading_unit', 'mol')])
show("kernel_units empty string", syn, kernel_units='')
show("kernel_units zero", syn, kernel_units=0)
ku = {'loading_unit': 'mol', 'material_unit': 'kg'}
show("kernel_units kept", syn, kernel_units=ku)
print("kernel_units not modified:", ku)


# 5 - kernels
def lang(p, wd):
    return 10 * wd * p / (p + 0.01 * wd**3)


up = numpy.logspace(-7, 0, 40)
user = os.path.join(TMP, "user.csv")
with open(user, "w", encoding="utf8") as fp:
    wds = [0.5, 1.0, 2.0, 4.0]
    fp.write("," + ",".join(str(x) for x in wds) + "\n")
    for p in up:
        fp.write(f"{p:.6g}," + ",".join(f"{lang(p, x):.9g}" for x in wds) + "\n")
show("user kernel", syn, kernel=user)
show("user kernel limits order3", mcm, kernel=user, p_limits=(1e-3, 0.5), bspline_order=3)
show("user kernel pathlib", syn, kernel=SHIPPED)
show("kernel None", syn, kernel=None)
show("kernel None with bad branch", syn, kernel=None, branch='test')
show("kernel missing file", syn, kernel=os.path.join(TMP, "nope.csv"))
show("kernel unknown name", syn, kernel='DFT-unknown')
show("kernel unhashable", syn, kernel=[1])
show("kernel int", syn, kernel=-5)

# 6 - other error paths
show("branch test", syn, branch='test')
show("branch des missing", syn, branch='des')
show("branch None", syn, branch=None)
show("branch all", syn_des, branch='all')
show("isotherm None", None)
show("isotherm str", "iso")
show("bspline 5", syn, bspline_order=5)
show("bspline str", syn, bspline_order="a")
model = pygaps.ModelIsotherm.from_pointisotherm(syn, model='DSLangmuir') if hasattr(pygaps.ModelIsotherm, 'from_pointisotherm') else None
if model is not None:
    show("model isotherm", model)
    show("model isotherm limits", model, p_limits=(1e-3, 0.5))
    show("model isotherm des", model, branch='des')

# 7 - verbose: the real plotting path, then recorded calls
show("verbose real", mcm, verbose=True)
for num in plt.get_fignums():
    fig = plt.figure(num)
    for ax in fig.axes:
        print(
            f"   fig{num} axes title={ax.get_title()!r} xlabel={ax.get_xlabel()!r} ylabel={ax.get_ylabel()!r} "
            f"xscale={ax.get_xscale()} nlines={len(ax.lines)}"
        )
        for line in ax.lines:
            print(f"      line {line.get_label()!r} {line.get_color()!r} x={fmt(line.get_xdata())} y={fmt(line.get_ydata())}")
        leg = ax.get_legend()
        print("      legend:", [t.get_text() for t in leg.get_texts()] if leg else None)
plt.close('all')

calls = []


class FakeAx:
    def plot(self, *a, **k):
        calls.append(("ax.plot", a, k))

    def set_title(self, *a, **k):
        calls.append(("ax.set_title", a, k))


def fake_plot_iso(iso, **params):
    calls.append(("plot_iso", type(iso).__name__, list(params.items())))
    return FakeAx()


def fake_psd_plot(*a, **k):
    calls.append(("psd_plot", a, k))


isotherm_graphs.plot_iso = fake_plot_iso
calc_graphs.psd_plot = fake_psd_plot
for label, args, kwargs in (
    ("verbose rec default", (syn, ), {}),
    ("verbose rec des limits", (syn_des, ), {'branch': 'des', 'p_limits': (1e-4, 0.3)}),
    ("verbose rec units", (syn, ), {'kernel_units': {'loading_unit': 'mol', 'material_unit': 'kg', 'pressure_mode': 'relative%'}, 'p_limits': (None, 0.9)}),
    ("verbose rec abs", (syn, ), {'kernel_units': {'pressure_mode': 'absolute', 'pressure_unit': 'Pa'}, 'p_limits': (None, 0.9)}),
    ("verbose rec error", (syn, ), {'p_limits': (0.5, 0.5)}),
):
    del calls[:]
    show(label, *args, verbose=True, **kwargs)
    for call in calls:
        print("   call:", call[0], fmt(call[1], full=False), fmt(call[2]) if isinstance(call[2], dict) else call[2])

print("cache size:", len(psdk._LOADED))
shutil.rmtree(TMP, ignore_errors=True)
