"""Differential script for change 2: Virial.fit (linearised fit and its error)."""
import copy
import logging
import warnings

import matplotlib

matplotlib.use("Agg")
import matplotlib.pyplot as plt  # noqa: E402
import numpy  # noqa: E402
import pandas  # noqa: E402

warnings.simplefilter("ignore")

import pygaps  # noqa: E402
from pygaps.modelling import get_isotherm_model  # noqa: E402

LOG = []


class _H(logging.Handler):
    def emit(self, record):
        LOG.append(f"{record.levelname} {record.getMessage()}")


pygaps.logger.addHandler(_H())
pygaps.logger.setLevel(logging.DEBUG)


def fmt(v):
    if isinstance(v, dict):
        return "{" + ", ".join(f"{k!r}: {fmt(x)}" for k, x in v.items()) + "}"
    if isinstance(v, (list, tuple)):
        return "[" + ", ".join(fmt(x) for x in v) + "]"
    if isinstance(v, numpy.ndarray):
        return f"arr<{v.dtype}>[" + ", ".join(fmt(x) for x in v.ravel().tolist()) + "]"
    if isinstance(v, (float, numpy.floating)):
        return f"{type(v).__name__}:{float(v):.12g}"
    if isinstance(v, (int, numpy.integer)) and not isinstance(v, bool):
        return f"{type(v).__name__}:{int(v)}"
    return repr(v)


def case(label, fn):
    del LOG[:]
    try:
        res = fn()
        print(f"[{label}] OK {fmt(res)}")
    except Exception as err:  # noqa: BLE001
        print(f"[{label}] EXC {type(err).__name__}: {err}")
    for msg in LOG:
        print(f"[{label}] LOG {msg}")
    plt.close("all")


def virial_data(params, npts, lo=0.05, hi=4.0, noise=0.0, seed=0, spacing="lin"):
    gen = get_isotherm_model("Virial", parameters=dict(params))
    if spacing == "lin":
        loading = numpy.linspace(lo, hi, npts)
    else:
        loading = numpy.geomspace(lo, hi, npts)
    pressure = numpy.asarray(gen.pressure(loading), dtype=float)
    if noise:
        rng = numpy.random.default_rng(seed)
        pressure = pressure * numpy.exp(noise * rng.standard_normal(npts))
    return pressure, loading


def fit(pressure, loading, guess=None, bounds=None, opt=None, verbose=False):
    model = get_isotherm_model(
        "Virial",
        pressure_range=(float(min(pressure)), float(max(pressure))),
        loading_range=(float(min(loading)), float(max(loading))),
        param_bounds=bounds,
    )
    if guess is None:
        guess = model.initial_guess(pressure, loading)
    p_in, l_in = copy.deepcopy(pressure), copy.deepcopy(loading)
    guess_in = copy.deepcopy(guess)
    ret = model.fit(pressure, loading, guess, opt, verbose)
    # linearised error recomputed from the fitted parameters on the valid points
    pr, ld = numpy.asarray(pressure, dtype=float), numpy.asarray(loading, dtype=float)
    ok = (pr > 0) & (ld > 0)
    pr, ld = pr[ok], ld[ok]
    par = model.params
    lin = par["C"] * ld**3 + par["B"] * ld**2 + par["A"] * ld - numpy.log(par["K"]) - numpy.log(pr / ld)
    return {
        "ret": ret,
        "guess": guess,
        "guess_unchanged": fmt(guess) == fmt(guess_in),
        "inputs_unchanged": fmt(pressure) == fmt(p_in) and fmt(loading) == fmt(l_in),
        "opt_after": opt,
        "keys": list(model.params),
        "params": model.params,
        "ptypes": [type(v).__name__ for v in model.params.values()],
        "rmse": model.rmse,
        "rmse_type": type(model.rmse).__name__,
        "lin_rmse_nopoint": numpy.sqrt(numpy.sum(lin**2) / len(ld)),
        "figs": len(plt.get_fignums()),
        "pr": model.pressure_range,
        "lr": model.loading_range,
        "model_p": model.pressure(numpy.array([0.1, 1.0, 2.5])),
    }


P1 = {"K": 2.0, "A": 0.3, "B": -0.05, "C": 0.01}
P2 = {"K": 50.0, "A": 1.5, "B": -0.4, "C": 0.05}
P3 = {"K": 0.2, "A": -0.2, "B": 0.1, "C": 0.0}
P4 = {"K": 1.0, "A": 0.0, "B": 0.0, "C": 0.0}

# 1. exact data, several parameter sets and grids
for tag, par in (("P1", P1), ("P2", P2), ("P3", P3), ("P4", P4)):
    for npts in (8, 21, 60):
        case(f"exact-{tag}-{npts}", lambda par=par, npts=npts: fit(*virial_data(par, npts)))
    case(f"exact-{tag}-geom", lambda par=par: fit(*virial_data(par, 25, lo=1e-3, hi=6.0, spacing="geom")))

# 2. noisy data
for noise, seed in ((0.01, 1), (0.05, 2), (0.2, 3)):
    case(f"noisy-{noise}", lambda noise=noise, seed=seed: fit(*virial_data(P1, 30, noise=noise, seed=seed)))

# 3. points which have to be dropped
p, l = virial_data(P1, 20)
case("zero-first", lambda: fit(numpy.r_[0.0, p], numpy.r_[0.0, l]))
case("zero-pressure-only", lambda: fit(numpy.r_[0.0, p], numpy.r_[0.01, l]))
case("negative-mid", lambda: fit(numpy.r_[p[:5], -1.0, p[5:]], numpy.r_[l[:5], 1.0, l[5:]]))
case("nan-mid", lambda: fit(numpy.r_[p[:5], numpy.nan, p[5:]], numpy.r_[l[:5], 1.0, l[5:]]))
case("nan-loading", lambda: fit(numpy.r_[p[:5], 1.0, p[5:]], numpy.r_[l[:5], numpy.nan, l[5:]]))
case("all-invalid", lambda: fit(numpy.array([0.0, -1.0, 0.0]), numpy.array([0.0, 1.0, 2.0]), guess=dict(P4)))
case("inf-point", lambda: fit(numpy.r_[p, numpy.inf], numpy.r_[l, 5.0]))

# 4. too few points below half coverage; add_point handling and the caller's dictionary
hp, hl = virial_data(P1, 12, lo=2.5, hi=4.0)
case("few-low-no-opt", lambda: fit(hp, hl))
case("few-low-empty-opt", lambda: fit(hp, hl, opt={}))
case("few-low-add-false", lambda: fit(hp, hl, opt={"add_point": False}))
case("few-low-add-none", lambda: fit(hp, hl, opt={"add_point": None, "max_nfev": 500}))
case("few-low-add-true", lambda: fit(hp, hl, opt={"add_point": True}))
case("few-low-add-true-extra", lambda: fit(hp, hl, opt={"add_point": True, "max_nfev": 2000, "loss": "soft_l1"}))
case("few-low-add-1", lambda: fit(hp, hl, opt={"add_point": 1}))
case("enough-low-add-true", lambda: fit(p, l, opt={"add_point": True}))
case("enough-low-add-false", lambda: fit(p, l, opt={"add_point": False, "ftol": 1e-12}))
case("two-low-points", lambda: fit(*virial_data(P1, 5, lo=0.5, hi=4.0), opt={"add_point": True}))
case("three-low-points", lambda: fit(*virial_data(P1, 7, lo=0.5, hi=4.0)))
case("int-loading-add", lambda: fit(numpy.array([3.0, 5.0, 9.0, 20.0]), numpy.array([3, 4, 5, 6]), opt={"add_point": True}))
case("int-both", lambda: fit(numpy.array([1, 3, 7, 15, 40, 90]), numpy.array([1, 2, 3, 4, 6, 8])))
case("single-point", lambda: fit(numpy.array([1.0]), numpy.array([1.0]), opt={"add_point": True}))

# 5. user guesses and bounds
case("guess-user", lambda: fit(p, l, guess={"K": 1.0, "A": 0.1, "B": 0.1, "C": 0.1}))
case("guess-order", lambda: fit(p, l, guess={"C": 0, "B": 0, "A": 0, "K": 5}))
case("guess-missing", lambda: fit(p, l, guess={"K": 1.0, "A": 0.1}))
case("guess-infeasible", lambda: fit(p, l, guess={"K": -1.0, "A": 0.1, "B": 0.1, "C": 0.1}))
case("guess-zero-K", lambda: fit(p, l, guess={"K": 0.0, "A": 0.0, "B": 0.0, "C": 0.0}))
case("bounds-active", lambda: fit(p, l, bounds={"K": (0, 1.0), "A": (-1, 1), "B": (-1, 1), "C": (0, 1)}))
case("bounds-c-zero", lambda: fit(p, l, bounds={"K": (0, numpy.inf), "A": (-5, 5), "B": (-5, 5), "C": (-1e-9, 1e-9)}))
case("bounds-partial", lambda: fit(p, l, bounds={"K": (0, 1.0)}))
case("bounds-inverted", lambda: fit(p, l, bounds={"K": (2.0, 1.0), "A": (-1, 1), "B": (-1, 1), "C": (0, 1)},
                                    guess=dict(P1)))

# 6. optimisation parameters without add_point
case("opt-maxnfev", lambda: fit(*virial_data(P2, 30, noise=0.1, seed=5), opt={"max_nfev": 1}))
case("opt-loss", lambda: fit(*virial_data(P2, 30, noise=0.1, seed=5), opt={"loss": "huber", "f_scale": 0.1}))
case("opt-bad-key", lambda: fit(p, l, opt={"nonsense": 3}))
case("opt-x0", lambda: fit(p, l, opt={"x0": numpy.array([1.0, 0.0, 0.0, 0.0])}))

# 7. verbose (log lines, virial plot)
case("verbose", lambda: fit(p, l, verbose=True))
case("verbose-added", lambda: fit(hp, hl, opt={"add_point": True}, verbose=True))
case("verbose-zero", lambda: fit(numpy.r_[0.0, p], numpy.r_[0.0, l], verbose=True))
case("verbose-fail", lambda: fit(hp, hl, verbose=True))

# 8. other input containers
case("lists", lambda: fit(list(p), list(l), guess=dict(P1)))
case("series", lambda: fit(pandas.Series(p), pandas.Series(l), guess=dict(P1)))
case("series-zero", lambda: fit(pandas.Series(numpy.r_[0.0, p]), pandas.Series(numpy.r_[0.0, l]), guess=dict(P1)))
case("mismatch", lambda: fit(p, l[:-1], guess=dict(P1)))
case("2d", lambda: fit(p.reshape(4, 5), l.reshape(4, 5), guess=dict(P1)))


# 9. through the isotherm classes
UNITS = dict(
    pressure_mode="absolute", pressure_unit="bar", material_basis="mass", material_unit="g",
    loading_basis="molar", loading_unit="mmol", temperature_unit="K",
)

def iso_fit(pressure, loading, **kw):
    iso = pygaps.ModelIsotherm(
        pressure=pressure, loading=loading, model="Virial",
        material="m", adsorbate="N2", temperature=77, **UNITS, **kw
    )
    return {"params": iso.model.params, "rmse": iso.model.rmse, "branch": iso.branch,
            "pr": iso.model.pressure_range, "lr": iso.model.loading_range}


def iso_guess(pressure, loading, models, **kw):
    iso = pygaps.ModelIsotherm.guess(
        pressure=pressure, loading=loading, models=models,
        material="m", adsorbate="N2", temperature=77, **UNITS, **kw
    )
    return {"name": iso.model.name, "params": iso.model.params, "rmse": iso.model.rmse}


case("iso-fit", lambda: iso_fit(p, l))
case("iso-fit-zero", lambda: iso_fit(numpy.r_[0.0, p], numpy.r_[0.0, l]))
case("iso-fit-add", lambda: iso_fit(hp, hl, optimization_params={"add_point": True}))
case("iso-fit-few", lambda: iso_fit(hp, hl))
case("iso-fit-guess", lambda: iso_fit(p, l, param_guess={"K": 1.0, "A": 0.0, "B": 0.0, "C": 0.0}))
case("iso-fit-bounds", lambda: iso_fit(p, l, param_bounds={"K": (0, 1.0), "A": (-1, 1), "B": (-1, 1), "C": (0, 1)}))
case("iso-guess-virial-henry", lambda: iso_guess(p, l, ["Virial", "Henry"]))
case("iso-guess-virial-only-fail", lambda: iso_guess(hp, hl, ["Virial"]))
opt_shared = {"add_point": True}
case("iso-guess-shared-opt", lambda: iso_guess(hp, hl, ["Virial", "Virial", "Langmuir"], optimization_params=opt_shared))
print("shared opt after:", opt_shared)
