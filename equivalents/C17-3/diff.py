"""Differential script for change 3 (RY cylinder layer potentials)."""
import math
import warnings

import numpy as np

import pygaps
import pygaps.characterisation.psd_micro as pmic
from pygaps.characterisation.models_hk import PROPERTIES_AlPh_OXIDE_ION
from pygaps.characterisation.models_hk import PROPERTIES_AlSi_OXIDE_ION
from pygaps.characterisation.models_hk import PROPERTIES_CARBON


def fmt(x):
    if isinstance(x, dict):
        return '{' + ', '.join(f'{k!r}: {fmt(v)}' for k, v in x.items()) + '}'
    if isinstance(x, (list, tuple)):
        return type(x).__name__ + '[' + ', '.join(fmt(v) for v in x) + ']'
    if isinstance(x, np.ndarray):
        return f'ndarray{x.shape}[' + ', '.join(fmt(v) for v in x.ravel().tolist()) + ']'
    if isinstance(x, (float, np.floating)):
        return f'{type(x).__name__}:{float(x):.12g}'
    return f'{type(x).__name__}:{x!r}'


CASE = [0]


def run(label, func, *args, **kwargs):
    CASE[0] += 1
    with warnings.catch_warnings(record=True) as rec:
        warnings.simplefilter('always')
        try:
            out = 'OK ' + fmt(func(*args, **kwargs))
        except Exception as err:  # noqa
            out = f'EXC {type(err).__name__}: {err.args!r}'
    wrn = sorted({f'{w.category.__name__}: {w.message}' for w in rec})
    print(f'[{CASE[0]:03d}] {label}\n    -> {out}')
    for w in wrn:
        print(f'    warn {w}')


N2 = {
    'molecular_diameter': 0.3,
    'polarizability': 0.0017403,
    'magnetic_susceptibility': 3.6e-08,
    'surface_density': 6.71e+18,
    'liquid_density': 0.8076937566133804,
    'adsorbate_molar_mass': 28.01348
}
AR = {
    'molecular_diameter': 0.34,
    'polarizability': 0.00163,
    'magnetic_susceptibility': 3.25e-08,
    'surface_density': 8.52e+18,
    'liquid_density': 1.3954,
    'adsorbate_molar_mass': 39.948
}
CO2 = {
    'molecular_diameter': 0.33,
    'polarizability': 0.002911,
    'magnetic_susceptibility': 5.0e-08,
    'surface_density': 5.45e+18,
    'liquid_density': 1.023,
    'adsorbate_molar_mass': 44.01
}
USER_MAT = {
    'molecular_diameter': 0.3,
    'polarizability': 1.5E-3,
    'magnetic_susceptibility': 8.0E-8,
    'surface_density': 2.5E19,
}


class Captured(Exception):
    """Carries the potential closure out of the RY function."""


def capture(func, geo, ads, mat, temp):
    """Return the potential closure which the RY function hands to its solver."""
    def grab(*args):
        raise Captured([a for a in args if callable(a)][0], [a for a in args if not callable(a)][-2:])

    old = pmic._solve_hk, pmic._solve_hk_cy
    pmic._solve_hk = pmic._solve_hk_cy = grab
    try:
        func([0.1, 0.2], [1., 2.], temp, geo, ads, mat)
    except Captured as cap:
        return cap.args
    finally:
        pmic._solve_hk, pmic._solve_hk_cy = old


def potential_table(geo, ads, mat, temp, as_numpy, extra=()):
    """Exact (repr) values of the potential on a grid starting at the geometric minimum."""
    pot, (bound, geo_flag) = capture(pmic.psd_horvath_kawazoe_ry, geo, ads, mat, temp)
    d_ads = ads['molecular_diameter']
    grid = [
        bound, bound * (1 + 1e-15), bound + 1e-12, bound + 1e-6, bound * 1.001, bound * 1.01,
        bound * 1.1, bound + 0.05, bound + 0.1, bound + 0.5 * d_ads, bound + d_ads - 1e-9,
        bound + d_ads, bound + d_ads + 1e-9, bound + 1.5 * d_ads, bound + 2 * d_ads, bound + 2 * d_ads + 1e-12,
        bound + 3 * d_ads, bound + 4 * d_ads, 0.7, 0.9, 1.234567, 2.0, 3.0, 5.0, 10.0, 19.4073175568802,
        31.09268244311979, 49.999, 50.0, 0.04, 0.0799, 0.08, 0.0801, 0.12, 0.5 * bound,
    ] + list(extra)
    rows = [repr(bound), repr(geo_flag)]
    for x in grid:
        x = np.float64(x) if as_numpy else float(x)
        with warnings.catch_warnings(record=True) as rec:
            warnings.simplefilter('always')
            try:
                val = pot(x)
                res = f'{type(val).__name__}:{float(val)!r}'
            except Exception as err:  # noqa
                res = f'EXC {type(err).__name__}: {err.args!r}'
        wrn = sorted({f'{w.category.__name__}: {w.message}' for w in rec})
        rows.append(f'{x!r} => {res} {wrn if wrn else ""}'.rstrip())
    return rows


BAD_MAT = dict(USER_MAT, molecular_diameter=0.0)
ZERO_ADS = dict(N2, molecular_diameter=0.0)
BIG_ADS = dict(N2, molecular_diameter=0.6, surface_density=2e18, polarizability=0.01)
SMALL_ADS = dict(N2, molecular_diameter=0.2, surface_density=1.2e19)
NEG_ADS = dict(N2, molecular_diameter=-0.3)
H2 = dict(N2, molecular_diameter=0.289, polarizability=0.000804, magnetic_susceptibility=6.6e-09, surface_density=6.71e+18, liquid_density=0.0708, adsorbate_molar_mass=2.016)

combos = [
    (N2, PROPERTIES_CARBON, 77.355),
    (N2, PROPERTIES_AlSi_OXIDE_ION, 77.355),
    (AR, PROPERTIES_AlPh_OXIDE_ION, 87.3),
    (AR, PROPERTIES_CARBON, 70.),
    (CO2, USER_MAT, 273.15),
    (CO2, PROPERTIES_CARBON, 300.),
    (BIG_ADS, USER_MAT, 150.),
    (SMALL_ADS, PROPERTIES_AlSi_OXIDE_ION, 100.),
    (H2, PROPERTIES_CARBON, 70.),
    (N2, BAD_MAT, 77.),
    (ZERO_ADS, PROPERTIES_CARBON, 77.),
    (NEG_ADS, PROPERTIES_CARBON, 77.),
]

# ---------------------------------------------------------------- exact potential tables
# values above 50 nm are never requested by the solver but exercise the 2000-term cap
for i, (ads, mat, temp) in enumerate(combos):
    for as_numpy in [False, True]:
        extra = (79.99, 80.0, 80.04, 100.0, 160.0) if (i == 0 and not as_numpy) else ()
        run(f'potential table cylinder combo{i} numpy={as_numpy}', potential_table, 'cylinder', ads, mat, temp, as_numpy, extra)
# controls: unchanged geometries
for geo in ['slit', 'sphere']:
    run(f'potential table {geo} combo0', potential_table, geo, N2, PROPERTIES_CARBON, 77.355, False)

# ---------------------------------------------------------------- full calculations
pressure = np.array([1e-7, 1e-5, 1e-3, 0.02, 0.1, 0.2])
loading = np.array([0.4, 2.3, 5.2, 6.8, 7.7, 8.1])
p_wide = np.array([1e-5, 0.05, 0.6, 0.9, 0.99])
l_wide = np.array([1., 3, 5, 6, 8])

for cy in [False, True]:
    for i, (ads, mat, temp) in enumerate(combos):
        run(f'RY cylinder cy={cy} combo{i}', pmic.psd_horvath_kawazoe_ry, pressure, loading, temp, 'cylinder', ads, mat, use_cy=cy)
    run(f'RY cylinder cy={cy} wide', pmic.psd_horvath_kawazoe_ry, p_wide, l_wide, 120., 'cylinder', N2, PROPERTIES_AlPh_OXIDE_ION, use_cy=cy)
    run(f'RY cylinder cy={cy} lists', pmic.psd_horvath_kawazoe_ry, list(p_wide), list(l_wide), 200., 'cylinder', AR, USER_MAT, use_cy=cy)

# error paths and degenerate inputs
run('RY cyl empty', pmic.psd_horvath_kawazoe_ry, [], [], 77., 'cylinder', N2, PROPERTIES_CARBON)
run('RY cyl empty cy', pmic.psd_horvath_kawazoe_ry, [], [], 77., 'cylinder', N2, PROPERTIES_CARBON, True)
run('RY cyl mismatch', pmic.psd_horvath_kawazoe_ry, [0.1, 0.2, 0.3], [1., 2.], 77., 'cylinder', N2, PROPERTIES_CARBON)
run('RY cyl single', pmic.psd_horvath_kawazoe_ry, [0.1], [1.], 77., 'cylinder', N2, PROPERTIES_CARBON)
run('RY cyl T=0', pmic.psd_horvath_kawazoe_ry, [0.1, 0.2], [1., 2.], 0., 'cylinder', N2, PROPERTIES_CARBON)
run('RY cyl T<0', pmic.psd_horvath_kawazoe_ry, [0.1, 0.2], [1., 2.], -50., 'cylinder', N2, PROPERTIES_CARBON)
run('RY cyl missing ads key', pmic.psd_horvath_kawazoe_ry, [0.1, 0.2], [1., 2.], 77., 'cylinder', PROPERTIES_CARBON, PROPERTIES_CARBON)
run('RY cyl missing mat key', pmic.psd_horvath_kawazoe_ry, [0.1, 0.2], [1., 2.], 77., 'cylinder', N2, {'molecular_diameter': 0.3})
run('RY cyl p>1', pmic.psd_horvath_kawazoe_ry, [0.5, 1.0, 1.5], [1., 2., 3.], 77., 'cylinder', N2, PROPERTIES_CARBON)
run('RY cyl p=0', pmic.psd_horvath_kawazoe_ry, [0.0, 0.1, 0.2], [1., 2., 3.], 77., 'cylinder', N2, PROPERTIES_CARBON)
run('RY cyl decreasing p', pmic.psd_horvath_kawazoe_ry, [0.2, 0.1, 0.01], [1., 2., 3.], 77., 'cylinder', N2, PROPERTIES_CARBON)
run('RY bad geometry', pmic.psd_horvath_kawazoe_ry, [0.1, 0.2], [1., 2.], 77., 'cube', N2, PROPERTIES_CARBON)

iso = pygaps.PointIsotherm(
    pressure=[1e-6, 1e-4, 1e-3, 0.01, 0.1, 0.15, 0.4],
    loading=[1., 3., 5., 6., 7., 7.2, 8.],
    material='TEST',
    adsorbate='N2',
    temperature=77.355,
    pressure_mode='relative',
    loading_basis='molar',
    loading_unit='mmol',
    material_basis='mass',
    material_unit='g',
)
for model in ['RY', 'RY-CY']:
    for mm in ['Carbon(HK)', 'AlSiOxideIon', 'AlPhOxideIon', USER_MAT]:
        run(f'psd_microporous {model} cylinder {mm if isinstance(mm, str) else "user"}', pmic.psd_microporous, iso, psd_model=model, pore_geometry='cylinder', material_model=mm)
