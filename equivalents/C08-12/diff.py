"""Differential transcript for adsorbate_to_db / material_to_db."""
import logging
import os
import sqlite3
import tempfile

import pygaps
from pygaps.core.adsorbate import Adsorbate
from pygaps.core.material import Material
from pygaps.parsing import sqlite as pgs
from pygaps.utilities.sqlite_db_creator import db_create

pygaps.logger.setLevel(logging.CRITICAL)

TABLES = [
    ('adsorbates', 'id'),
    ('adsorbate_properties', 'id'),
    ('adsorbate_properties_type', 'type'),
    ('materials', 'id'),
    ('material_properties', 'id'),
    ('material_properties_type', 'type'),
]


def fmt(v):
    if isinstance(v, float):
        return v.hex()
    return repr(v)


def dump(path):
    conn = sqlite3.connect(path)
    try:
        for table, order in TABLES:
            rows = conn.execute(f'SELECT * FROM "{table}" ORDER BY rowid').fetchall()
            print(f"  [{table}] {len(rows)} rows")
            for row in rows:
                print("    " + ", ".join(fmt(v) for v in row))
    finally:
        conn.close()


def lists():
    print("  ADSORBATE_LIST", [a.name for a in pygaps.ADSORBATE_LIST][-6:], len(pygaps.ADSORBATE_LIST))
    print("  MATERIAL_LIST", [m.name for m in pygaps.MATERIAL_LIST][-6:], len(pygaps.MATERIAL_LIST))


def call(label, func, obj, path, **kw):
    """Call through the connection wrapper, db_path passed by keyword."""
    before = repr(sorted(obj.to_dict().items(), key=lambda t: t[0]))
    print(f"== {label} kw={sorted(kw.items())}")
    try:
        ret = func(obj, db_path=path, **kw)
        print("  ret", repr(ret))
    except BaseException as err:  # noqa
        print("  EXC", type(err).__name__, repr(str(err)))
        print("  cause", type(err.__cause__).__name__, repr(str(err.__cause__)))
        ctx = err.__cause__.__context__ if err.__cause__ is not None else err.__context__
        print("  ctx", type(ctx).__name__, repr(str(ctx)), getattr(err.__cause__, '__suppress_context__', None))
    after = repr(sorted(obj.to_dict().items(), key=lambda t: t[0]))
    print("  arg unchanged", before == after)
    lists()
    dump(path)


def traced(label, func, obj, path, **kw):
    """Call with our own cursor, and record every statement sqlite runs."""
    print(f"== TRACED {label} kw={sorted(kw.items())}")
    conn = sqlite3.connect(path)
    conn.row_factory = sqlite3.Row
    stmts = []
    cursor = conn.cursor()
    cursor.execute('PRAGMA foreign_keys = ON')
    conn.set_trace_callback(stmts.append)
    try:
        ret = func(obj, db_path=path, cursor=cursor, **kw)
        print("  ret", repr(ret))
        conn.commit()
    except BaseException as err:  # noqa
        print("  EXC", type(err).__name__, repr(str(err)))
        print("  cause", type(err.__cause__).__name__, "ctx", type(err.__context__).__name__,
              repr(str(err.__context__)), err.__suppress_context__)
        conn.rollback()
    finally:
        conn.set_trace_callback(None)
        conn.close()
    for s in stmts:
        print("  SQL", repr(s))
    lists()
    dump(path)


class ProxyCursor:
    """Cursor proxy raising InterfaceError for a sentinel value (not reachable otherwise on py3.12)."""
    def __init__(self, cur):
        self._cur = cur

    def execute(self, sql, params=()):
        if isinstance(params, dict) and params.get('value') == 'BOOM':
            raise sqlite3.InterfaceError('proxy boom')
        return self._cur.execute(sql, params)

    def __iter__(self):
        return iter(self._cur)

    def __getattr__(self, name):
        return getattr(self._cur, name)


def proxied(label, func, obj, path, **kw):
    print(f"== PROXIED {label} kw={sorted(kw.items())}")
    conn = sqlite3.connect(path)
    conn.row_factory = sqlite3.Row
    stmts = []
    cursor = conn.cursor()
    cursor.execute('PRAGMA foreign_keys = ON')
    conn.set_trace_callback(stmts.append)
    try:
        ret = func(obj, db_path=path, cursor=ProxyCursor(cursor), **kw)
        print("  ret", repr(ret))
        conn.commit()
    except BaseException as err:  # noqa
        print("  EXC", type(err).__name__, repr(str(err)))
        print("  cause", type(err.__cause__).__name__, "ctx", type(err.__context__).__name__,
              repr(str(err.__context__)), err.__suppress_context__)
        conn.commit()  # keep the partial work so that it shows in the dump
    finally:
        conn.set_trace_callback(None)
        conn.close()
    for s in stmts:
        print("  SQL", repr(s))
    lists()
    dump(path)


class Weird:
    """A value sqlite cannot bind."""
    def __repr__(self):
        return "<Weird>"


def main():
    with tempfile.TemporaryDirectory() as tmp:
        path = os.path.join(tmp, 'test.db')
        db_create(path)
        # start from a known state
        conn = sqlite3.connect(path)
        for table, _ in TABLES:
            if not table.endswith('_type'):
                conn.execute(f'DELETE FROM "{table}"')
        conn.commit()
        conn.close()
        print("== initial")
        dump(path)

        # ---------------- materials
        m1 = Material('mat1', density=1.5, formula='C6', batch='b1')
        call('mat insert', pgs.material_to_db, m1, path)
        call('mat insert duplicate', pgs.material_to_db, m1, path)
        m1b = Material('mat1', density=0.1 + 0.2, newprop=['x', 'y', 3], tup=(1.0, 2))
        call('mat overwrite', pgs.material_to_db, m1b, path, overwrite=True)
        traced('mat overwrite traced', pgs.material_to_db, m1, path, overwrite=True, verbose=False)
        call('mat overwrite missing', pgs.material_to_db, Material('nope', a=1), path, overwrite=True)
        call('mat no props', pgs.material_to_db, Material('bare'), path)
        traced('mat no props traced', pgs.material_to_db, Material('bare2'), path)
        call('mat no props overwrite', pgs.material_to_db, Material('bare'), path, overwrite=True)
        call('mat no autoinsert unknown', pgs.material_to_db, Material('mat2', unknown_zz=3),
             path, autoinsert_properties=False)
        call('mat no autoinsert known', pgs.material_to_db, Material('mat3', density=2),
             path, autoinsert_properties=False, verbose=False)
        call('mat empty list', pgs.material_to_db, Material('mat4', emptyl=[], density=None), path)
        call('mat set single', pgs.material_to_db, Material('mat5', st={'only'}, b=True), path)
        call('mat unbindable', pgs.material_to_db, Material('mat6', ok=1, bad=Weird(), later=2), path)
        traced('mat unbindable traced', pgs.material_to_db, Material('mat7', ok=1, bad=[1, Weird(), 3]), path)
        call('mat dict value', pgs.material_to_db, Material('mat8', d={'a': 1}), path)
        call('mat name None', pgs.material_to_db, Material(None, q=1), path)
        traced('mat many', pgs.material_to_db,
               Material('mat9', a=[1, 2], b=(3.5, ), c='s', d=b'by', e=10**30), path)

        # ---------------- adsorbates
        a1 = Adsorbate('gasA', alias=['ga', 'GA2'], formula='A2', molar_mass=28.01)
        call('ads insert', pgs.adsorbate_to_db, a1, path)
        call('ads insert duplicate', pgs.adsorbate_to_db, a1, path)
        a1b = Adsorbate('gasA', backend_name='xx', brand_new=[1.25, 'z'], other_new=(7, ))
        call('ads overwrite', pgs.adsorbate_to_db, a1b, path, overwrite=True)
        traced('ads overwrite traced', pgs.adsorbate_to_db, a1, path, overwrite=True, verbose=False)
        call('ads overwrite missing', pgs.adsorbate_to_db, Adsorbate('ghost', p=1), path, overwrite=True)
        call('ads no props', pgs.adsorbate_to_db, Adsorbate('gasB'), path)
        traced('ads traced insert', pgs.adsorbate_to_db, Adsorbate('gasC', zz1=1, zz2=2, formula='C'), path)
        call('ads no autoinsert unknown', pgs.adsorbate_to_db, Adsorbate('gasD', unknown_qq=3),
             path, autoinsert_properties=False)
        call('ads no autoinsert known', pgs.adsorbate_to_db, Adsorbate('gasE', formula='E'),
             path, autoinsert_properties=False, verbose=False)
        call('ads unbindable', pgs.adsorbate_to_db, Adsorbate('gasF', ok=1, bad=Weird(), later=2), path)
        traced('ads unbindable traced', pgs.adsorbate_to_db,
               Adsorbate('gasG', ok=1, bad=[1, Weird()]), path)
        call('ads overwrite by alias-named', pgs.adsorbate_to_db, Adsorbate('gasB', alias='gb', x=1.0),
             path, overwrite=True)
        proxied('mat interface error', pgs.material_to_db,
                Material('matP', a=1, b=['ok', 'BOOM', 'never'], c=3), path)
        proxied('mat interface error overwrite', pgs.material_to_db,
                Material('matP', b='BOOM'), path, overwrite=True, verbose=False)
        proxied('mat proxy fine', pgs.material_to_db, Material('matQ', b=('BOOM2', 2.5)), path)
        proxied('ads interface error', pgs.adsorbate_to_db,
                Adsorbate('gasP', a=1, b=['ok', 'BOOM', 'never'], c=3), path)
        proxied('ads interface error alias', pgs.adsorbate_to_db,
                Adsorbate('gasP', alias=['boom', 'BOOM'], q=3), path, overwrite=True)
        proxied('ads proxy fine', pgs.adsorbate_to_db, Adsorbate('gasQ', b=('BOOM2', 2.5)), path)
        pygaps.MATERIAL_LIST[:] = [m for m in pygaps.MATERIAL_LIST if m.name != 'mat5']
        traced('mat overwrite not in list 2', pgs.material_to_db, Material('mat5', y=2, st=[]),
               path, overwrite=True)
        # overwrite of something in the db but not in the in-memory list
        pygaps.ADSORBATE_LIST[:] = [a for a in pygaps.ADSORBATE_LIST if a.name != 'gasC']
        traced('ads overwrite not in list', pgs.adsorbate_to_db, Adsorbate('gasC', y=2),
               path, overwrite=True)
        pygaps.MATERIAL_LIST[:] = [m for m in pygaps.MATERIAL_LIST if m.name != 'mat9']
        traced('mat overwrite not in list', pgs.material_to_db, Material('mat9', y=2),
               path, overwrite=True, autoinsert_properties=False)


main()
