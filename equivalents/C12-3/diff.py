"""Differential script for change 3: ModelIsotherm.__init__ branch selection and ModelIsotherm.guess."""
import itertools
import logging
import types
import warnings

import matplotlib

matplotlib.use("Agg")
import matplotlib.pyplot as plt  # noqa: E402
import numpy  # noqa: E402
import pandas  # noqa: E402

warnings.simplefilter("ignore")

import pygaps  # noqa: E402
from pygaps.core.modelisotherm import ModelIsotherm  # noqa: E402
from pygaps.utilities.exceptions import CalculationError  # noqa: E402

LOG = []


class _H(logging.Handler):
    def emit(self, record):
        LOG.append(f"{record.levelname} {record.getMessage()}")


pygaps.logger.addHandler(_H())
pygaps.logger.setLevel(logging.DEBUG)


def fmt(v):
    if isinstance(v, dict):
        return "{" + ", ".join(f"{k!r}: {fmt(x)}" for k, x in v.items()) + "}"
    if isinstance(v, (list, tuple)):
        return "[" + ", ".join(fmt(x) for x in v) + "]"
    if isinstance(v, numpy.ndarray):
        return f"arr<{v.dtype}>[" + ", ".join(fmt(x) for x in v.ravel().tolist()) + "]"
    if isinstance(v, (float, numpy.floating)):
        return f"{type(v).__name__}:{float(v):.12g}"
    if isinstance(v, (int, numpy.integer)) and not isinstance(v, bool):
        return f"{type(v).__name__}:{int(v)}"
    return repr(v)


def case(label, fn):
    del LOG[:]
    try:
        res = fn()
        print(f"[{label}] OK {fmt(res)}")
    except Exception as err:  # noqa: BLE001
        print(f"[{label}] EXC {type(err).__name__}: {err}")
    for msg in LOG:
        print(f"[{label}] LOG {msg}")
    plt.close("all")


UNITS = dict(
    pressure_mode="absolute", pressure_unit="bar", material_basis="mass", material_unit="g",
    loading_basis="molar", loading_unit="mmol", temperature_unit="K",
)
META = dict(material="carbon", adsorbate="N2", temperature=77.0, **UNITS)


def lang(p, k=3.0, nm=5.0):
    p = numpy.asarray(p, dtype=float)
    return nm * k * p / (1 + k * p)


P_ADS = numpy.linspace(0.02, 0.9, 15)
P_DES = numpy.linspace(0.8, 0.05, 9)
L_ADS = lang(P_ADS)
L_DES = lang(P_DES, k=6.0, nm=5.2)  # hysteresis: the desorption branch is a different curve


def frame(kind="both", branch_col=None, index=None, extra=False, pkey="p", lkey="n"):
    if kind == "both":
        p, l = numpy.r_[P_ADS, P_DES], numpy.r_[L_ADS, L_DES]
        marks = [0] * len(P_ADS) + [1] * len(P_DES)
    elif kind == "ads":
        p, l, marks = P_ADS, L_ADS, [0] * len(P_ADS)
    elif kind == "des":
        p, l, marks = P_DES, L_DES, [1] * len(P_DES)
    df = pandas.DataFrame({pkey: p, lkey: l})
    if extra:
        df["zz"] = numpy.arange(len(p)) * 1.5
        df["aa"] = "x"
    if branch_col == "int":
        df["branch"] = marks
    elif branch_col == "bool":
        df["branch"] = [bool(m) for m in marks]
    elif branch_col == "float":
        df["branch"] = [float(m) for m in marks]
    elif branch_col == "swapped":
        df["branch"] = [1 - m for m in marks]
    elif branch_col == "str":
        df["branch"] = ["ads" if m == 0 else "des" for m in marks]
    elif branch_col == "zeros":
        df["branch"] = 0
    if index == "shift":
        df.index = numpy.arange(len(df)) + 100
    elif index == "str":
        df.index = [f"r{i}" for i in range(len(df))]
    elif index == "reversed":
        df.index = numpy.arange(len(df))[::-1]
    elif index == "dup":
        df.index = list(range(len(P_ADS))) + list(range(len(df) - len(P_ADS)))
    return df


def summary(iso):
    return {
        "name": iso.model.name,
        "branch": iso.branch,
        "params": iso.model.params,
        "rmse": iso.model.rmse,
        "pr": iso.model.pressure_range,
        "lr": iso.model.loading_range,
        "meta": [iso.material, str(iso.adsorbate), iso.temperature, iso.pressure_unit, iso.loading_unit],
        "l_at": iso.loading_at(0.3),
    }


def init_df(df, branch="ads", model="Langmuir", pkey="p", lkey="n", **kw):
    cols_before = list(df.columns)
    vals_before = df.to_csv()
    try:
        iso = ModelIsotherm(isotherm_data=df, pressure_key=pkey, loading_key=lkey, branch=branch, model=model,
                            **META, **kw)
    finally:
        print("   frame untouched:", cols_before == list(df.columns) and vals_before == df.to_csv())
    return summary(iso)


# 1. branch selection on a frame without a branch column
for br in ("ads", "des", "all", None, "", "ADS", 0, ["ads"], ("ads", "des")):
    case(f"nobranchcol-{br!r}", lambda br=br: init_df(frame(), branch=br))
for kind in ("ads", "des"):
    for br in ("ads", "des"):
        case(f"single-{kind}-{br}", lambda kind=kind, br=br: init_df(frame(kind), branch=br))

# 2. frames which carry a branch column, in several spellings
for col in ("int", "bool", "float", "swapped", "str", "zeros"):
    for br in ("ads", "des"):
        case(f"branchcol-{col}-{br}", lambda col=col, br=br: init_df(frame(branch_col=col), branch=br))
case("branchcol-int-bad", lambda: init_df(frame(branch_col="int"), branch="both"))

# 3. odd indexes, extra columns, other keys
for idx in ("shift", "str", "reversed", "dup"):
    for col in (None, "int"):
        for br in ("ads", "des"):
            case(f"index-{idx}-{col}-{br}", lambda idx=idx, col=col, br=br:
                 init_df(frame(index=idx, branch_col=col), branch=br))
case("extra-cols", lambda: init_df(frame(extra=True), branch="des"))
case("other-keys", lambda: init_df(frame(pkey="pressure", lkey="loading"), pkey="pressure", lkey="loading"))
case("key-named-branch", lambda: init_df(frame(lkey="branch"), lkey="branch"))
case("missing-pkey", lambda: init_df(frame(), pkey=None))
case("missing-lkey", lambda: init_df(frame(), lkey=None))
case("wrong-pkey", lambda: init_df(frame(), pkey="q"))
case("wrong-lkey", lambda: init_df(frame(), lkey="q"))
case("wrong-pkey-branchcol", lambda: init_df(frame(branch_col="int"), pkey="q"))
case("wrong-pkey-bad-branch", lambda: init_df(frame(), pkey="q", branch="all"))
case("empty-frame", lambda: init_df(frame().iloc[0:0]))
case("empty-frame-branchcol", lambda: init_df(frame(branch_col="int").iloc[0:0]))
case("one-row", lambda: init_df(frame().iloc[0:1], model="Henry"))
case("nan-pressure", lambda: init_df(frame().assign(p=lambda d: d["p"].where(d.index != 3)), model="Henry"))
case("no-model", lambda: init_df(frame(), model=None))
case("bad-model", lambda: init_df(frame(), model="Nope"))

# 4. guesses / bounds through the frame path
case("guess-ok", lambda: init_df(frame(), param_guess={"K": 1.0, "n_m": 2.0}))
case("guess-bad", lambda: init_df(frame(), param_guess={"K": 1.0, "zz": 2.0}))
case("bounds-ok", lambda: init_df(frame(), param_bounds={"K": (0, 2.0), "n_m": (0, 10.0)}))
case("bounds-des", lambda: init_df(frame(), branch="des", param_bounds={"K": (0, 2.0), "n_m": (0, 10.0)}))
case("model-toth-des", lambda: init_df(frame(), branch="des", model="Toth"))
case("model-dr", lambda: init_df(frame(), model="DR"))

# 5. array path and model-instance path (not rewritten, must stay as they were)
case("arrays", lambda: summary(ModelIsotherm(pressure=P_ADS, loading=L_ADS, model="Langmuir", **META)))
case("arrays-des", lambda: summary(ModelIsotherm(pressure=P_ADS, loading=L_ADS, model="Langmuir", branch="des", **META)))
case("arrays-badbranch", lambda: summary(ModelIsotherm(pressure=P_ADS, loading=L_ADS, model="Langmuir", branch="zz", **META)))
case("arrays-one-missing", lambda: summary(ModelIsotherm(pressure=P_ADS, model="Langmuir", **META)))
case("nothing", lambda: summary(ModelIsotherm(model="Langmuir", **META)))


# 6. guess(): lists of models
def guess_df(df, models, branch="ads", **kw):
    iso = ModelIsotherm.guess(isotherm_data=df, pressure_key="p", loading_key="n", branch=branch, models=models,
                              **META, **kw)
    return summary(iso)


def guess_arr(p, l, models, **kw):
    iso = ModelIsotherm.guess(pressure=p, loading=l, models=models, **META, **kw)
    return summary(iso)


NOISE = 1 + 0.03 * numpy.random.default_rng(11).standard_normal(len(P_ADS))
for models in (
    ["Henry", "Langmuir"], ["Langmuir", "Henry"], ("Henry", "Toth", "Langmuir"), ["henry", "LANGMUIR"],
    ["Langmuir", "Langmuir"], ["Henry"], ["Freundlich", "DR", "TemkinApprox", "JensenSeaton"],
    ["Henry", "Nope"], [], "guess", "Langmuir", "", None, 5, ["Henry", 5], {"Henry": 1, "Langmuir": 2},
    ["Virial", "Henry"], ["Virial"],
):
    case(f"guess-arr-{models!r}", lambda models=models: guess_arr(P_ADS, L_ADS * NOISE, models))
case("guess-arr-generator", lambda: guess_arr(P_ADS, L_ADS * NOISE, (m for m in ["Henry", "Langmuir"])))
case("guess-arr-iter", lambda: guess_arr(P_ADS, L_ADS * NOISE, iter(["Henry", "Langmuir"])))
for br in ("ads", "des", "all"):
    case(f"guess-df-{br}", lambda br=br: guess_df(frame(), ["Henry", "Langmuir", "Toth"], branch=br))
    case(f"guess-df-branchcol-{br}", lambda br=br: guess_df(frame(branch_col="int"), "guess", branch=br))
case("guess-df-empty-branch", lambda: guess_df(frame("ads"), ["Henry", "Langmuir"], branch="des"))
case("guess-verbose", lambda: guess_arr(P_ADS, L_ADS * NOISE, ["Henry", "Langmuir"], verbose=True))
case("guess-verbose-df", lambda: guess_df(frame(), ["Henry", "Langmuir", "Virial"], verbose=True))
case("guess-opt", lambda: guess_arr(P_ADS, L_ADS * NOISE, ["Henry", "Toth", "Langmuir"], optimization_params={"max_nfev": 3}))
case("guess-opt-allfail", lambda: guess_arr(P_ADS, L_ADS * NOISE, ["Toth", "DSLangmuir"], optimization_params={"max_nfev": 1}))
case("guess-dup-model-kw", lambda: guess_arr(P_ADS, L_ADS, ["Henry"], model="Langmuir"))
case("guess-dup-param-guess-kw", lambda: guess_arr(P_ADS, L_ADS, ["Henry"], param_guess={"K": 1}))
case("guess-dup-plot-fit-kw", lambda: guess_arr(P_ADS, L_ADS, ["Henry"], plot_fit=True))
case("guess-extra-meta", lambda: guess_arr(P_ADS, L_ADS, ["Henry", "Langmuir"], user="me", iso_type="calc"))
# constant loading: zero loading range, non-finite errors
case("guess-flat", lambda: guess_arr(P_ADS, numpy.full(len(P_ADS), 2.0), ["Henry", "Langmuir", "Freundlich"]))
case("guess-flat-2", lambda: guess_arr(P_ADS, numpy.full(len(P_ADS), 2.0), ["Langmuir", "Henry"]))


# 7. the selection rule itself, on prescribed errors (ties, nan, inf, failures), in every order
class Scripted(ModelIsotherm):
    """A ModelIsotherm whose 'fit' is a lookup: lets the selection rule be exercised directly."""

    table = {}
    calls = []

    def __init__(self, **kw):
        Scripted.calls.append((kw["model"], kw["branch"], kw["param_guess"], kw["param_bounds"], kw.get("plot_fit")))
        err = Scripted.table[kw["model"]]
        if err is None:
            raise CalculationError(f"scripted failure of {kw['model']}")
        self.model = types.SimpleNamespace(rmse=err, name=kw["model"])
        self.tag = len(Scripted.calls)


def scripted(table, order):
    Scripted.table = table
    Scripted.calls = []
    best = Scripted.guess(pressure=[1], loading=[1], models=list(order), branch="des")
    return {"best": best.model.name, "tag": best.tag, "rmse": best.model.rmse, "calls": Scripted.calls}


import pygaps.modelling as _m  # noqa: E402

NAMES = ["Henry", "Langmuir", "Toth", "BET"]
TABLES = {
    "distinct": {"Henry": 0.3, "Langmuir": 0.1, "Toth": 0.2, "BET": 0.4},
    "tie": {"Henry": 0.1, "Langmuir": 0.1, "Toth": 0.2, "BET": 0.1},
    "tie-np": {"Henry": numpy.float64(0.1), "Langmuir": 0.1, "Toth": numpy.float64(0.1), "BET": 0.5},
    "nan": {"Henry": numpy.nan, "Langmuir": 0.1, "Toth": 0.2, "BET": numpy.float64("nan")},
    "inf": {"Henry": numpy.inf, "Langmuir": numpy.inf, "Toth": 0.2, "BET": -numpy.inf},
    "fail": {"Henry": None, "Langmuir": 0.1, "Toth": None, "BET": 0.05},
    "zero": {"Henry": 0.0, "Langmuir": -0.0, "Toth": 0, "BET": 1e-300},
    "allnan": {"Henry": numpy.nan, "Langmuir": float("nan"), "Toth": numpy.nan, "BET": numpy.nan},
    "allfail": {"Henry": None, "Langmuir": None, "Toth": None, "BET": None},
}
assert all(_m.is_model(n) for n in NAMES)
for tname, table in TABLES.items():
    for order in itertools.permutations(NAMES):
        case(f"rule-{tname}-{'/'.join(o[0] for o in order)}", lambda table=table, order=order: scripted(table, order))
    case(f"rule-{tname}-dups", lambda table=table: scripted(table, ["Toth", "Henry", "Toth", "Henry", "BET"]))


# 8. from_pointisotherm / model_iso entry points
def point_iso(df=None, **kw):
    df = frame() if df is None else df
    return pygaps.PointIsotherm(isotherm_data=df, pressure_key="p", loading_key="n", **META, **kw)


def from_point(model, branch="ads", iso=None, **kw):
    iso = point_iso() if iso is None else iso
    return summary(ModelIsotherm.from_pointisotherm(iso, branch=branch, model=model, **kw))


for br in ("ads", "des"):
    case(f"frompoint-langmuir-{br}", lambda br=br: from_point("Langmuir", br))
    case(f"frompoint-list-{br}", lambda br=br: from_point(["Henry", "Langmuir", "Toth"], br))
    case(f"frompoint-guess-{br}", lambda br=br: from_point("guess", br))
    case(f"model_iso-{br}", lambda br=br: summary(_m.model_iso(point_iso(), branch=br, model=["Langmuir", "Freundlich"])))
case("frompoint-all", lambda: from_point("Langmuir", "all"))
case("frompoint-none", lambda: from_point(None))
case("frompoint-badguess", lambda: from_point("Langmuir", param_guess={"q": 1}))
case("frompoint-bounds", lambda: from_point("Langmuir", "des", param_bounds={"K": (0, 4.0), "n_m": (0, 6.0)}))
case("frompoint-adsonly-des", lambda: from_point("Langmuir", "des", iso=point_iso(frame("ads"))))
case("frompoint-forced-branch", lambda: from_point("Langmuir", "des", iso=point_iso(frame("ads"), branch="des")))
