"""Differential script for change 4: ModelIsotherm branch guard and limit selection (pressure, loading, *_at)."""
import warnings

warnings.filterwarnings('ignore')

import numpy
import pandas

import pygaps
from pygaps.modelling import get_isotherm_model
from pygaps.utilities.pygaps_utilities import get_iso_loading_and_pressure_ordered


# ---------------------------------------------------------------- canonical output
def num(x):
    if isinstance(x, (bool, numpy.bool_)):
        return repr(bool(x))
    if isinstance(x, (int, numpy.integer)):
        return repr(int(x))
    if isinstance(x, (float, numpy.floating)):
        return f"{float(x):.12g}"
    return repr(x)


def fmt(x):
    if isinstance(x, pandas.DataFrame):
        return "DataFrame(cols=%r, index=%r, rows=[%s])" % (
            list(x.columns), list(x.index), "; ".join(fmt(x[c].values) for c in x.columns)
        )
    if isinstance(x, pandas.Series):
        return "Series(name=%r, dtype=%s, index=%r, values=%s)" % (
            x.name, x.dtype, list(x.index), fmt(x.values)
        )
    if isinstance(x, numpy.ndarray):
        return "array(shape=%r, dtype=%s, [%s])" % (
            x.shape, x.dtype, ", ".join(num(v) for v in x.ravel().tolist())
        )
    if isinstance(x, (tuple, list)):
        return type(x).__name__ + "(" + ", ".join(fmt(v) for v in x) + ")"
    return num(x)


def run(label, fn):
    try:
        print(label, "->", fmt(fn()))
    except Exception as e:  # noqa
        print(label, "-> EXC", type(e).__name__, str(e))


# ---------------------------------------------------------------- set up
pygaps.ADSORBATE_LIST.append(
    pygaps.Adsorbate(
        name='TA', alias=['ta1', 'ta2', 'ta'], formula='TA21', backend_name='NITROGEN',
        molar_mass=28.01348, liquid_density=0.806, gas_density=0.00461214,
        saturation_pressure=101325,
    )
)
pygaps.MATERIAL_LIST.append(pygaps.Material(name='TEST', density=2.0, molar_mass=10.0))

PARAMS = dict(
    material='TEST', temperature=100.0, adsorbate='TA',
    material_basis='mass', material_unit='g',
    loading_basis='molar', loading_unit='mmol',
    pressure_mode='absolute', pressure_unit='bar', temperature_unit='K',
)



def model_iso(name, params, branch='ads', p_range=(1.0, 6.0), l_range=(0.8, 5.5), **over):
    par = dict(PARAMS)
    par.update(over)
    model = get_isotherm_model(name, parameters=params, pressure_range=p_range, loading_range=l_range)
    return pygaps.ModelIsotherm(model=model, branch=branch, **par)


def fitted(model, branch, **kw):
    df = pandas.DataFrame({
        "pressure": [1.0, 2.0, 3.0, 4.0, 5.0, 6.0, 4.5, 2.5],
        "loading": [1.0, 2.2, 3.1, 4.4, 5.0, 6.5, 4.7, 2.9],
    })
    return pygaps.ModelIsotherm(
        isotherm_data=df, pressure_key='pressure', loading_key='loading', model=model, branch=branch, **PARAMS, **kw
    )


ISOS = {
    'henry_ads': lambda: model_iso('Henry', {'K': 1.05}),
    'langmuir_des': lambda: model_iso('Langmuir', {'K': 0.4, 'n_m': 9.0}, branch='des'),
    'langmuir_rel_mg_kg': lambda: model_iso(
        'Langmuir', {'K': 12.0, 'n_m': 300000.0}, p_range=(0.05, 0.8), l_range=(100000.0, 270000.0),
        pressure_mode='relative', pressure_unit=None, loading_basis='mass', loading_unit='mg', material_unit='kg'
    ),
    'henry_fraction_volume': lambda: model_iso(
        'Henry', {'K': 0.01}, p_range=(0.5, 8.0), l_range=(0.005, 0.08),
        loading_basis='fraction', loading_unit=None, material_basis='volume', material_unit='cm3'
    ),
    'virial_ads': lambda: model_iso('Virial', {'K': 2.0, 'A': 0.1, 'B': 0.01, 'C': 0.0}, l_range=(0.5, 5.0)),
    'virial_des_pa': lambda: model_iso(
        'Virial', {'K': 2.0e-5, 'A': 0.1, 'B': 0.01, 'C': 0.0}, branch='des', l_range=(0.5, 5.0),
        pressure_unit='Pa'
    ),
    'fit_henry_ads': lambda: fitted('Henry', 'ads'),
    'fit_henry_des': lambda: fitted('Henry', 'des'),
    'odd_branch': lambda: model_iso('Henry', {'K': 1.05}, branch='all'),
    'none_branch': lambda: model_iso('Henry', {'K': 1.05}, branch=None),
}

BRANCHES = [None, 'ads', 'des', 'all', '', 'bad', 'all-nol', 0, 1, ['ads'], numpy.array(['ads', 'des'])]
LIMITS = [
    None, (None, None), (2.3, 5.0), (None, 3.0), (3.0, None), (5.0, 2.0), (2.0, 2.0), (), [],
    [2.0, 4.5], (2.0, ), ('a', ), (1.0, 3.0, 99.0), (-numpy.inf, numpy.inf), (0, 0), (numpy.nan, 3.0),
    numpy.array([2.0, 4.0]), ('a', 'b'), (0.0, None), (None, 0.0), 3.0, (0.01, 0.05), (120000.0, 250000.0),
]
P_KW = [
    {}, {'pressure_unit': 'Pa'}, {'pressure_unit': 'torr'}, {'pressure_mode': 'relative'},
    {'pressure_mode': 'relative%'}, {'pressure_mode': 'relative', 'pressure_unit': 'Pa'},
    {'pressure_mode': 'absolute', 'pressure_unit': 'kPa'}, {'pressure_unit': 'bad'},
    {'pressure_mode': 'bad'}, {'pressure_mode': 'absolute'},
]
L_KW = [
    {}, {'loading_unit': 'mol'}, {'loading_basis': 'volume_gas', 'loading_unit': 'cm3'},
    {'material_unit': 'kg'}, {'material_basis': 'volume', 'material_unit': 'cm3'},
    {'loading_basis': 'fraction'}, {'loading_basis': 'percent'},
    {'loading_basis': 'fraction', 'material_basis': 'molar', 'material_unit': 'mmol'},
    {'loading_basis': 'mass', 'loading_unit': 'kg', 'material_basis': 'volume', 'material_unit': 'm3'},
    {'loading_basis': 'molar', 'loading_unit': 'mmol', 'material_basis': 'mass', 'material_unit': 'g'},
    {'loading_unit': 'bad'}, {'loading_basis': 'bad'}, {'material_basis': 'volume'}, {'loading_basis': 'mass'},
]
POINTS = [60, 5, 1, 0, 2]

for name, build in ISOS.items():
    try:
        iso = build()
    except Exception as e:  # noqa
        print(f"[{name}] build -> EXC", type(e).__name__, str(e))
        continue
    print(f"[{name}] branch={iso.branch!r} calculates={iso.model.calculates}")
    for br in BRANCHES:
        run(f"[{name}] pressure(7) br={br!r}", lambda: iso.pressure(7, branch=br))
        run(f"[{name}] loading(7) br={br!r}", lambda: iso.loading(7, branch=br))
        run(f"[{name}] pressure_at br={br!r}", lambda: iso.pressure_at([1.0, 2.0], branch=br))
        run(f"[{name}] loading_at br={br!r}", lambda: iso.loading_at([1.0, 2.0], branch=br))
        run(f"[{name}] spreading br={br!r}", lambda: iso.spreading_pressure_at([1.0, 2.0], branch=br))
        run(f"[{name}] has_branch br={br!r}", lambda: iso.has_branch(br))
    for pts in POINTS:
        for indexed in (False, True):
            run(f"[{name}] pressure({pts}) idx={indexed}", lambda: iso.pressure(pts, indexed=indexed))
            run(f"[{name}] loading({pts}) idx={indexed}", lambda: iso.loading(pts, indexed=indexed))
            run(
                f"[{name}] pressure({pts}) idx={indexed} lim",
                lambda: iso.pressure(pts, indexed=indexed, limits=(0.1, 4.0))
            )
            run(
                f"[{name}] loading({pts}) idx={indexed} lim",
                lambda: iso.loading(pts, indexed=indexed, limits=(0.01, 200000.0))
            )
    for lim in LIMITS:
        for indexed in (False, True):
            run(f"[{name}] pressure(9) lim={lim!r} idx={indexed}", lambda: iso.pressure(9, limits=lim, indexed=indexed))
            run(f"[{name}] loading(9) lim={lim!r} idx={indexed}", lambda: iso.loading(9, limits=lim, indexed=indexed))
    for kw in P_KW:
        run(f"[{name}] pressure(6) {kw}", lambda: iso.pressure(6, **kw))
        run(f"[{name}] pressure(6) own branch {kw}", lambda: iso.pressure(6, branch=iso.branch, **kw))
        run(f"[{name}] pressure(6) lim {kw}", lambda: iso.pressure(6, limits=(0.2, 300000.0), indexed=True, **kw))
        run(f"[{name}] pressure(6) wrong branch {kw}", lambda: iso.pressure(6, branch='zzz', **kw))
        run(f"[{name}] pressure_at {kw}", lambda: iso.pressure_at([1.0, 2.5], **kw))
        run(f"[{name}] loading_at {kw}", lambda: iso.loading_at([0.2, 2.5], **kw))
        run(f"[{name}] spreading {kw}", lambda: iso.spreading_pressure_at([0.2, 2.5], **kw))
    for kw in L_KW:
        run(f"[{name}] loading(6) {kw}", lambda: iso.loading(6, **kw))
        run(f"[{name}] loading(6) own branch {kw}", lambda: iso.loading(6, branch=iso.branch, **kw))
        run(f"[{name}] loading(6) lim {kw}", lambda: iso.loading(6, limits=(0.05, 3.0), indexed=True, **kw))
        run(f"[{name}] loading(6) wrong branch {kw}", lambda: iso.loading(6, branch='zzz', **kw))
        run(f"[{name}] pressure_at {kw}", lambda: iso.pressure_at([1.0, 2.5], **kw))
        run(f"[{name}] loading_at {kw}", lambda: iso.loading_at([1.0, 2.5], **kw))
    for x in (1.0, [], [1.0, 3.0], numpy.array([[1.0, 2.0]]), None, 'x'):
        run(f"[{name}] pressure_at({x!r})", lambda: iso.pressure_at(x))
        run(f"[{name}] loading_at({x!r})", lambda: iso.loading_at(x))
        run(f"[{name}] pressure_at({x!r}) wrong branch", lambda: iso.pressure_at(x, branch='zzz'))
        run(f"[{name}] loading_at({x!r}) wrong branch", lambda: iso.loading_at(x, branch='zzz'))
        run(f"[{name}] spreading({x!r}) wrong branch", lambda: iso.spreading_pressure_at(x, branch='zzz'))
    for br in ('ads', 'des'):
        run(
            f"[{name}] ordered {br}",
            lambda: get_iso_loading_and_pressure_ordered(
                iso, br, {'loading_basis': 'molar', 'loading_unit': 'mol'}, {'pressure_mode': 'relative'}
            )
        )
    run(f"[{name}] to point", lambda: pygaps.PointIsotherm.from_modelisotherm(iso).data_raw)
    run(
        f"[{name}] to point at", lambda: pygaps.PointIsotherm.from_modelisotherm(iso, pressure_points=[1.0, 2.0, 3.0]).data_raw
    )
    run(f"[{name}] instance attributes", lambda: sorted(vars(iso).keys()))
