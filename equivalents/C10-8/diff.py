"""Differential script for change 4: Langmuir / DSLangmuir / TSLangmuir loading and spreading pressure."""
import numpy

from common import run

import pygaps
from pygaps.modelling import get_isotherm_model

MODELS = {
    "Langmuir": [
        dict(K=20.0, n_m=4.0),
        dict(K=1e-3, n_m=0.1),
        dict(K=1e6, n_m=100.0),
        dict(K=0.0, n_m=0.0),
        dict(K=3, n_m=2),  # int parameters
        dict(K=numpy.float64(2.5), n_m=numpy.float64(1.5)),
    ],
    "DSLangmuir": [
        dict(n_m1=1.0, K1=0.3, n_m2=2.0, K2=25.0),
        dict(n_m1=4.0, K1=2.0, n_m2=0.0, K2=2.0),
        dict(n_m1=0.2, K1=1e3, n_m2=0.2, K2=1e-3),
        dict(n_m1=0.0, K1=0.0, n_m2=0.0, K2=0.0),
        dict(n_m1=1, K1=2, n_m2=3, K2=4),
        dict(n_m1=1, K1=2, n_m2=3.5, K2=4.5),  # mixed int / float
        dict(n_m1=numpy.float64(1.1), K1=numpy.float64(0.7), n_m2=numpy.float64(0.4), K2=numpy.float64(9.0)),
    ],
    "TSLangmuir": [
        dict(n_m1=1.0, n_m2=2.0, n_m3=0.5, K1=0.3, K2=4.0, K3=25.0),
        dict(n_m1=5.0, n_m2=0.0, n_m3=0.0, K1=1.0, K2=1.0, K3=1.0),
        dict(n_m1=0.2, n_m2=0.2, n_m3=0.2, K1=100.0, K2=1e-3, K3=7.0),
        dict(n_m1=0.0, n_m2=0.0, n_m3=0.0, K1=0.0, K2=0.0, K3=0.0),
        dict(n_m1=1, n_m2=2, n_m3=3, K1=4, K2=5, K3=6),
        dict(n_m1=1, n_m2=2.5, n_m3=3, K1=4.5, K2=5, K3=6.5),
        dict(n_m1=1e-8, n_m2=1e8, n_m3=1.0, K1=1e8, K2=1e-8, K3=1.0),  # summation order matters
    ],
}

PRESSURES = [0.0, 1e-12, 1e-6, 1e-3, 0.05, 0.3, 0.5, 0.8, 1.0, 1.5, 20.0, 1e6]
SCALARS = [
    0, 0.0, -0.0, 1, 7, 0.1, 0.75, 1e3, 1e300, -0.2, -1.0, -5.0, float("nan"), float("inf"), float("-inf"),
    numpy.float64(0.6), numpy.float32(0.6), numpy.int64(2), True, 0.5 + 0.5j
]

for name, plist in MODELS.items():
    for ip, params in enumerate(plist):
        model = get_isotherm_model(name, parameters=dict(params))
        tag = f"{name}[{ip}]"
        for fname in ("loading", "spreading_pressure"):
            func = getattr(model, fname)
            run(f"{tag}.{fname}(1-d)", func, numpy.array(PRESSURES))
            run(f"{tag}.{fname}(2-d)", func, numpy.array(PRESSURES).reshape(3, 4))
            run(f"{tag}.{fname}(0-d)", func, numpy.asarray(0.3))
            run(f"{tag}.{fname}(float32)", func, numpy.array(PRESSURES[:8], dtype="float32"))
            run(f"{tag}.{fname}(int array)", func, numpy.array([0, 1, 2, 50]))
            run(f"{tag}.{fname}(bool array)", func, numpy.array([True, False]))
            run(f"{tag}.{fname}(neg array)", func, numpy.array([-0.1, -1.0, -1e9]))
            run(f"{tag}.{fname}(empty)", func, numpy.array([]))
            run(f"{tag}.{fname}(list)", func, [0.1, 0.2])
            run(f"{tag}.{fname}(tuple)", func, (0.1, 0.2))
            run(f"{tag}.{fname}(None)", func, None)
            run(f"{tag}.{fname}('ab')", func, "ab")
            for val in SCALARS:
                run(f"{tag}.{fname}({val!r})", func, val)
        # forward then inverse
        for p in PRESSURES:
            run(f"{tag}.pressure(loading({p!r}))", lambda: model.pressure(model.loading(p)))
        run(f"{tag}.pressure(loading(1-d))", lambda: model.pressure(model.loading(numpy.array(PRESSURES[:9]))))
        # input must not be modified
        arr = numpy.array([0.0, 0.25, 0.5])
        run(f"{tag}.loading(arr)", model.loading, arr)
        run(f"{tag}.spreading_pressure(arr)", model.spreading_pressure, arr)
        run(f"{tag}.arr after", lambda: arr)
        run(f"{tag}.to_dict", model.to_dict)

# fitting uses loading() repeatedly: parameters and rmse
pressure = numpy.array([0.001, 0.005, 0.01, 0.03, 0.07, 0.1, 0.2, 0.3, 0.45, 0.6, 0.8, 1.0])
loading = 3.0 * 8 * pressure / (1 + 8 * pressure) + 1.5 * 90 * pressure / (1 + 90 * pressure)
for name in MODELS:
    def fit(name=name):
        iso = pygaps.ModelIsotherm(
            pressure=pressure,
            loading=loading,
            material="m",
            adsorbate="N2",
            temperature=77.0,
            model=name,
            pressure_mode="absolute",
            pressure_unit="bar",
            loading_basis="molar",
            loading_unit="mmol",
            material_basis="mass",
            material_unit="g",
        )
        return iso

    iso = run(f"fit:{name}", lambda: fit().model.to_dict())
    try:
        iso = fit()
    except Exception as err:  # noqa
        print(f"fit:{name} failed {type(err).__name__}")
        continue
    tag = f"iso:{name}"
    run(f"{tag}.loading_at(0.3)", iso.loading_at, 0.3)
    run(f"{tag}.loading_at([..])", iso.loading_at, [0.0, 0.1, 0.3])
    run(f"{tag}.loading_at(Pa)", iso.loading_at, [100.0, 3e4], pressure_unit="Pa")
    run(f"{tag}.loading_at(rel)", iso.loading_at, [0.1, 0.5], pressure_mode="relative")
    run(f"{tag}.loading_at(mol/kg)", iso.loading_at, 0.2, loading_unit="mol", material_unit="kg")
    run(f"{tag}.loading_at(cm3)", iso.loading_at, 0.2, loading_basis="volume_gas", loading_unit="cm3")
    run(f"{tag}.loading_at(wt)", iso.loading_at, 0.2, loading_basis="mass", loading_unit="g")
    run(f"{tag}.loading_at(des)", iso.loading_at, 0.3, branch="des")
    run(f"{tag}.spreading_pressure_at", iso.spreading_pressure_at, [0.0, 0.1, 0.5])
    run(f"{tag}.spreading_pressure_at(Pa)", iso.spreading_pressure_at, 2e4, pressure_unit="Pa")
    run(f"{tag}.pressure_at", iso.pressure_at, [0.0, 0.5, 2.0])
    run(f"{tag}.loading(7)", iso.loading, 7)
    run(f"{tag}.roundtrip", lambda: iso.pressure_at(iso.loading_at([0.0, 0.1, 0.5])))
