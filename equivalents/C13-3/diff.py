import hashlib
import logging
import warnings

import numpy

import pygaps
import pygaps.iast.pgiast as pgi
import pygaps.modelling as pgm
from pygaps.core.modelisotherm import ModelIsotherm
from pygaps.core.pointisotherm import PointIsotherm

assert pygaps.__file__.startswith("/tmp/eq/C13/src"), pygaps.__file__

UNITS = dict(
    pressure_mode="absolute",
    pressure_unit="bar",
    material_basis="mass",
    material_unit="g",
    loading_basis="molar",
    loading_unit="mmol",
    temperature_unit="K",
)


# ---------------------------------------------------------------- canonical text
def fmt(obj):
    """Canonical text of a result: floats with 12 significant digits."""
    if isinstance(obj, dict):
        return "{" + ", ".join(f"{k!r}: {fmt(v)}" for k, v in obj.items()) + "}"
    if isinstance(obj, tuple):
        return "(" + ", ".join(fmt(v) for v in obj) + ")"
    if isinstance(obj, list):
        return "[" + ", ".join(fmt(v) for v in obj) + "]"
    if isinstance(obj, numpy.ndarray):
        if obj.ndim == 0:
            return f"arr0<{obj.dtype}>({fmt(obj.item())})"
        return f"arr<{obj.dtype},{obj.shape}>[" + ", ".join(fmt(v) for v in obj.tolist()) + "]"
    if isinstance(obj, (bool, numpy.bool_)):
        return f"{type(obj).__name__}:{bool(obj)}"
    if isinstance(obj, (float, numpy.floating)):
        return f"{type(obj).__name__}:{float(obj):.12g}"
    if isinstance(obj, (int, numpy.integer)):
        return f"{type(obj).__name__}:{int(obj)}"
    return f"{type(obj).__name__}:{obj!r}"


# ---------------------------------------------------------------- log capture
class _ListHandler(logging.Handler):
    def __init__(self):
        super().__init__(level=logging.DEBUG)
        self.records = []

    def emit(self, record):
        self.records.append(f"{record.levelname}|{record.getMessage()}")


LOGS = _ListHandler()
pygaps.logger.addHandler(LOGS)
pygaps.logger.setLevel(logging.DEBUG)
for _h in list(pygaps.logger.handlers):
    if _h is not LOGS:
        pygaps.logger.removeHandler(_h)
pygaps.logger.propagate = False

# ---------------------------------------------------------------- call trace
TRACE = []


def _traced(cls, name):
    original = getattr(cls, name)

    def wrapper(self, pressure, *args, **kwargs):
        try:
            ptxt = fmt(numpy.asarray(pressure, dtype=float))
        except Exception:  # pragma: no cover
            ptxt = repr(pressure)
        TRACE.append(f"{getattr(self, '_tag', '?')}.{name}({ptxt}, {args!r}, {sorted(kwargs.items())!r})")
        return original(self, pressure, *args, **kwargs)

    setattr(cls, name, wrapper)


for _cls in (ModelIsotherm, PointIsotherm):
    for _name in ("spreading_pressure_at", "loading_at"):
        _traced(_cls, _name)


# ---------------------------------------------------------------- runner
def run(label, func, *args, **kwargs):
    LOGS.records.clear()
    TRACE.clear()
    print(f"=== {label}")
    with warnings.catch_warnings(record=True) as caught:
        warnings.simplefilter("always")
        try:
            result = func(*args, **kwargs)
            print("  result:", fmt(result))
        except BaseException as err:  # noqa
            print(f"  raised: {type(err).__name__}: {str(err)!r}")
    for rec in LOGS.records:
        print("  log:", repr(rec))
    for w in caught:
        print(f"  warning: {w.category.__name__}: {str(w.message)!r}")
    digest = hashlib.sha1("\n".join(TRACE).encode()).hexdigest()
    print(f"  calls: {len(TRACE)} sha1={digest}")


# ---------------------------------------------------------------- isotherms
def model_iso(tag, name, params, prange=(0.01, 20.0), lrange=(0.0, 10.0), branch="ads", **over):
    model = pgm.get_isotherm_model(
        name, parameters=params, pressure_range=prange, loading_range=lrange
    )
    props = dict(UNITS)
    props.update(material="M", adsorbate="N2", temperature=300)
    props.update(over)
    iso = ModelIsotherm(model=model, branch=branch, **props)
    iso._tag = tag
    return iso


def point_iso(tag, func, pmax=20.0, npts=40, **over):
    pressure = numpy.geomspace(0.005, pmax, npts)
    loading = func(pressure)
    props = dict(UNITS)
    props.update(material="M", adsorbate="N2", temperature=300)
    props.update(over)
    iso = PointIsotherm(pressure=pressure, loading=loading, **props)
    iso._tag = tag
    return iso


LA = model_iso("LA", "Langmuir", {"K": 1.5, "n_m": 4.0})
LB = model_iso("LB", "Langmuir", {"K": 0.2, "n_m": 6.5}, adsorbate="CO2")
LC = model_iso("LC", "Langmuir", {"K": 7.0, "n_m": 4.0}, adsorbate="CH4")  # same capacity as LA
LD = model_iso("LD", "Langmuir", {"K": 0.05, "n_m": 4.0}, adsorbate="O2", prange=(0.01, 2.0))
HA = model_iso("HA", "Henry", {"K": 0.7})
HB = model_iso("HB", "Henry", {"K": 3.1}, adsorbate="CO2")
DS = model_iso("DS", "DSLangmuir", {"n_m1": 2.0, "K1": 4.0, "n_m2": 3.0, "K2": 0.1})
TS = model_iso(
    "TS", "TSLangmuir", {"n_m1": 1.0, "n_m2": 2.0, "n_m3": 1.5, "K1": 9.0, "K2": 0.8, "K3": 0.05}
)
QU = model_iso("QU", "Quadratic", {"n_m": 3.0, "Ka": 0.9, "Kb": 0.4})
BE = model_iso("BE", "BET", {"n_m": 2.5, "C": 30.0, "N": 0.01})
TE = model_iso("TE", "TemkinApprox", {"n_m": 5.0, "K": 0.6, "tht": -0.1})
TO = model_iso("TO", "Toth", {"n_m": 5.0, "K": 1.2, "t": 0.7})
JS = model_iso("JS", "JensenSeaton", {"K": 6.0, "a": 3.0, "b": 0.05, "c": 1.3})
FR = model_iso("FR", "Freundlich", {"K": 1.0, "m": 2.0})  # not IAST capable
REL = model_iso("REL", "Langmuir", {"K": 50.0, "n_m": 4.0}, pressure_mode="relative")
DES = model_iso("DES", "Langmuir", {"K": 1.1, "n_m": 3.0}, branch="des")
PA = point_iso("PA", lambda p: 4.0 * 1.5 * p / (1 + 1.5 * p))
PB = point_iso("PB", lambda p: 6.5 * 0.2 * p / (1 + 0.2 * p), adsorbate="CO2")
PC = point_iso("PC", lambda p: 3.0 * 0.9 * p / (1 + 0.9 * p), pmax=5.0, npts=15, adsorbate="CH4")

# ================================================================= cases (change 3: guards)
ip, ipf, ri = pgi.iast_point, pgi.iast_point_fraction, pgi.reverse_iast
svp, vle = pgi.iast_binary_svp, pgi.iast_binary_vle

# whitelist helper
for name in ("Henry", "henry", "HENRY", "Langmuir", "dslangmuir", "TSLangmuir", "Quadratic", "BET", "bet",
             "TemkinApprox", "temkinapprox", "Toth", "JensenSeaton", "jensenseaton", "Freundlich", "DR", "DA",
             "Virial", "FHVST", "WVST", "ChemiPhysisorption", "", " Henry", "Henry ", "nonsense", "LangmuiR",
             None, 5, b"Henry", ["Henry"]):
    run(f"is_model_iast({name!r})", pgm.is_model_iast, name)
run("whitelist", lambda: list(pgm._IAST_MODELS))

class Weird(str):
    def lower(self):
        return "henry"
run("is_model_iast(str subclass)", pgm.is_model_iast, Weird("zzz"))

ALL = dict(LA=LA, LB=LB, HA=HA, DS=DS, TS=TS, QU=QU, BE=BE, TE=TE, TO=TO, JS=JS, FR=FR, REL=REL, DES=DES, PA=PA, PB=PB)
VIR = model_iso("VIR", "Virial", {"K": 1.0, "A": 0.1, "B": 0.01, "C": 0.001})
FRREL = model_iso("FRREL", "Freundlich", {"K": 1.0, "m": 2.0}, pressure_mode="relative")
PREL = point_iso("PREL", lambda p: 4.0 * p / (1 + p), pmax=0.9, pressure_mode="relative")
ALL.update(VIR=VIR, FRREL=FRREL, PREL=PREL)

combos = [
    ("LA", "LB"), ("LA", "FR"), ("FR", "LA"), ("LA", "REL"), ("REL", "LA"), ("FR", "REL"), ("REL", "FR"),
    ("FRREL", "LA"), ("LA", "FRREL"), ("VIR", "FR"), ("FR", "VIR"), ("PA", "PB"), ("PA", "FR"), ("PREL", "PA"),
    ("PA", "PREL"), ("PREL", "FR"), ("LA",), ("FR",), ("REL",), ("PREL",), ("FRREL",), (),
    ("LA", "LB", "HA"), ("LA", "LB", "FR"), ("LA", "REL", "FR"), ("LA", "LB", "HA", "REL"),
    ("DS", "TS"), ("QU", "BE"), ("TE", "TO"), ("JS", "HA"), ("DES", "LA"),
]
for combo in combos:
    isos = [ALL[c] for c in combo]
    n = len(isos)
    label = "+".join(combo) or "none"
    pp = [1.0, 2.0, 0.5, 0.25][:n]
    xs = {0: [], 1: [1.0], 2: [0.5, 0.5], 3: [0.5, 0.25, 0.25], 4: [0.25, 0.25, 0.25, 0.25]}[n]
    run(f"iast_point {label}", ip, isos, pp, warningoff=True)
    run(f"iast_point {label} wrong size", ip, isos, pp + [1.0], warningoff=True)
    run(f"iast_point_fraction {label}", ipf, isos, xs, 2.0, warningoff=True)
    run(f"reverse_iast {label}", ri, isos, xs, 2.0, warningoff=True)
    run(f"reverse_iast {label} wrong size", ri, isos, xs + [0.0], 2.0, warningoff=True)
    run(f"reverse_iast {label} bad sum", ri, isos, [v * 0.5 for v in xs], 2.0, warningoff=True)
    run(f"svp {label}", svp, isos, [0.5, 0.5], [0.5, 1.0, 2.0], warningoff=True)
    run(f"svp {label} bad fractions", svp, isos, [0.5, 0.6], [0.5, 1.0, 2.0], warningoff=True)
    run(f"svp {label} three fractions", svp, isos, [0.5, 0.25, 0.25], [0.5, 1.0], warningoff=True)
    run(f"vle {label}", vle, isos, 2.0, npoints=4, warningoff=True)

# isotherm container types and objects without the expected attributes
run("tuple of isotherms", ip, (LA, LB), [1.0, 2.0])
run("generator of isotherms", ip, (i for i in (LA, LB)), [1.0, 2.0])
run("not isotherms", ip, [1, 2], [1.0, 2.0])
run("None in isotherms", ip, [LA, None], [1.0, 2.0])
run("reverse not isotherms", ri, ["a", "b"], [0.5, 0.5], 1.0)
run("svp not isotherms", svp, [1, 2], [0.5, 0.5], [1.0])
run("vle not isotherms", vle, [1, 2], 1.0)
run("vle None", vle, None, 1.0)
