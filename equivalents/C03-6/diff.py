"""Differential script for change 2: split_ads_data and the branch bookkeeping of PointIsotherm.__init__."""
import warnings

warnings.filterwarnings('ignore')

import numpy
import pandas

import pygaps
from pygaps.utilities.math_utilities import split_ads_data
from pygaps.utilities.pygaps_utilities import get_iso_loading_and_pressure_ordered


# ---------------------------------------------------------------- canonical output
def num(x):
    if isinstance(x, (bool, numpy.bool_)):
        return repr(bool(x))
    if isinstance(x, (int, numpy.integer)):
        return repr(int(x))
    if isinstance(x, (float, numpy.floating)):
        return f"{float(x):.12g}"
    return repr(x)


def fmt(x):
    if isinstance(x, pandas.DataFrame):
        return "DataFrame(cols=%r, index=%r, rows=[%s])" % (
            list(x.columns), list(x.index), "; ".join(fmt(x[c].values) for c in x.columns)
        )
    if isinstance(x, pandas.Series):
        return "Series(name=%r, dtype=%s, index=%r, values=%s)" % (
            x.name, x.dtype, list(x.index), fmt(x.values)
        )
    if isinstance(x, numpy.ndarray):
        return "array(shape=%r, dtype=%s, [%s])" % (
            x.shape, x.dtype, ", ".join(num(v) for v in x.ravel().tolist())
        )
    if isinstance(x, (tuple, list)):
        return type(x).__name__ + "(" + ", ".join(fmt(v) for v in x) + ")"
    return num(x)


def run(label, fn):
    try:
        print(label, "->", fmt(fn()))
    except Exception as e:  # noqa
        print(label, "-> EXC", type(e).__name__, str(e))


# ---------------------------------------------------------------- set up
pygaps.ADSORBATE_LIST.append(
    pygaps.Adsorbate(
        name='TA', alias=['ta1', 'ta2', 'ta'], formula='TA21', backend_name='NITROGEN',
        molar_mass=28.01348, liquid_density=0.806, gas_density=0.00461214,
        saturation_pressure=101325,
    )
)
pygaps.MATERIAL_LIST.append(pygaps.Material(name='TEST', density=2.0, molar_mass=10.0))

PARAMS = dict(
    material='TEST', temperature=100.0, adsorbate='TA',
    material_basis='mass', material_unit='g',
    loading_basis='molar', loading_unit='mmol',
    pressure_mode='absolute', pressure_unit='bar', temperature_unit='K',
)



# ---------------------------------------------------------------- split_ads_data directly
SEQS = {
    'updown': [1.0, 2.0, 3.0, 4.0, 5.0, 6.0, 4.5, 2.5],
    'up': [1.0, 2.0, 3.0, 4.0],
    'down': [4.0, 3.0, 2.0, 1.0],
    'single': [3.0],
    'two_up': [1.0, 2.0],
    'two_down': [2.0, 1.0],
    'two_equal': [2.0, 2.0],
    'tie_mid': [1.0, 5.0, 5.0, 2.0],
    'tie_ends': [5.0, 1.0, 2.0, 5.0],
    'tie_last': [1.0, 2.0, 5.0, 5.0],
    'peak_second': [1.0, 9.0, 3.0, 2.0, 1.0],
    'peak_before_last': [1.0, 2.0, 3.0, 9.0, 8.0],
    'flat': [1.0, 1.0, 1.0, 1.0],
    'nan_mid': [1.0, numpy.nan, 3.0, 2.0],
    'nan_first': [numpy.nan, 1.0, 3.0, 2.0],
    'nan_last_peak': [1.0, 2.0, 3.0, numpy.nan],
    'all_nan': [numpy.nan, numpy.nan],
    'inf': [1.0, numpy.inf, 2.0],
    'neg': [-3.0, -1.0, -2.0],
    'ints': [1, 2, 7, 3],
    'bools': [False, True, False],
    'wiggle': [1.0, 3.0, 2.0, 6.0, 4.0, 5.0, 1.0],
    'empty': [],
    'strings': ['a', 'c', 'b'],
    'long': list(numpy.linspace(0.01, 1, 40)) + list(numpy.linspace(0.95, 0.1, 25)),
}


def indexes(n):
    yield 'range', None
    yield 'rev', list(range(n - 1, -1, -1))
    yield 'offset', list(range(10, 10 + n))
    yield 'str', [f"r{i}" for i in range(n)]
    yield 'float', [i * 0.5 for i in range(n)]
    yield 'shuffled', list(numpy.random.RandomState(3).permutation(n))
    yield 'dup_all', [0] * n
    yield 'dup_pairs', [i // 2 for i in range(n)]
    yield 'dup_unsorted', [(i * 3) % 4 for i in range(n)]
    yield 'dates', pandas.date_range('2020-01-01', periods=n)
    if n:
        yield 'multi', pandas.MultiIndex.from_tuples([(i % 2, i) for i in range(n)])


for sname, seq in SEQS.items():
    for iname, idx in indexes(len(seq)):
        df = pandas.DataFrame({'p': seq, 'l': list(range(len(seq)))}, index=idx)

        def call():
            out = split_ads_data(df, 'p')
            return (out, out.flags.writeable, out.flags.owndata or out.base is None)

        run(f"split {sname}/{iname}", call)
    run(f"split {sname}/key missing", lambda: split_ads_data(pandas.DataFrame({'p': seq}), 'q'))

run("split not a frame", lambda: split_ads_data([1, 2, 3], 'p'))
run("split series", lambda: split_ads_data(pandas.Series([1, 2, 3]), 0))
run("split dup columns", lambda: split_ads_data(pandas.DataFrame([[1, 2], [3, 1]], columns=['p', 'p']), 'p'))

# ---------------------------------------------------------------- PointIsotherm construction
BRANCH_ARGS = [
    'guess', 'ads', 'des', 'all', '', 'ADS', None, 0, 1, True,
    [0, 0, 0, 1, 1], [False, True, False, True, False], numpy.array([1, 1, 0, 0, 1]),
    pandas.Series([0, 0, 1, 1, 1]), pandas.Series([0, 0, 1, 1, 1], index=[4, 3, 2, 1, 0]),
    [0, 1], [0, 0, 0, 2, 3], ['ads', 'ads', 'des', 'des', 'des'], [0.0, 0.0, 1.0, 1.0, 1.0],
    [0.5, 0, 0, 0, 0], [None, 0, 0, 0, 1], numpy.int8(1), (0, 0, 0, 0, 1), {'a': 1},
]
P5 = {
    'updown': [1.0, 2.0, 5.0, 3.0, 2.5],
    'up': [1.0, 2.0, 3.0, 4.0, 5.0],
    'down': [5.0, 4.0, 3.0, 2.0, 1.0],
}
L5 = [1.0, 2.1, 3.3, 2.9, 2.7]


def describe(iso):
    return (
        iso.data_raw, str(iso.data_raw['branch'].dtype), iso.pressure(branch='ads'), iso.loading(branch='des'),
        iso.has_branch('ads'), iso.has_branch('des'), iso.l_interpolator, iso.p_interpolator,
    )


for pname, p in P5.items():
    for br in BRANCH_ARGS:
        run(
            f"PointIsotherm arrays {pname} branch={br!r}",
            lambda: describe(pygaps.PointIsotherm(pressure=p, loading=L5, branch=br, **PARAMS))
        )
        for iname, idx in (('range', None), ('str', list("edcba")), ('dup', [1, 1, 2, 2, 3])):
            df = pandas.DataFrame({'pp': p, 'll': L5, 'zz': [9, 8, 7, 6, 5]}, index=idx)
            run(
                f"PointIsotherm frame {pname}/{iname} branch={br!r}",
                lambda: describe(
                    pygaps.PointIsotherm(
                        isotherm_data=df, pressure_key='pp', loading_key='ll', branch=br, **PARAMS
                    )
                )
            )
    # frame that already carries a branch column: the argument is ignored
    for col in ([0, 0, 1, 1, 1], [True, False, True, False, True], ['0', '1', '0', '1', '1'], ['a'] * 5,
                [0.0, 1.0, 1.0, 1.0, 1.0], [0, 1, 2, 3, 4], [None, 0, 0, 1, 1]):
        for br in ('guess', 'des', 'bad', [1, 1, 1, 1, 1], [1]):
            df = pandas.DataFrame({'branch': col, 'pp': p, 'll': L5})
            run(
                f"PointIsotherm frame with marks {pname} col={col!r} branch={br!r}",
                lambda: describe(
                    pygaps.PointIsotherm(
                        isotherm_data=df, pressure_key='pp', loading_key='ll', branch=br, **PARAMS
                    )
                )
            )

run("PointIsotherm empty arrays", lambda: describe(pygaps.PointIsotherm(pressure=[], loading=[], **PARAMS)))
run("PointIsotherm empty ads", lambda: describe(pygaps.PointIsotherm(pressure=[], loading=[], branch='ads', **PARAMS)))
run("PointIsotherm one point", lambda: describe(pygaps.PointIsotherm(pressure=[1.0], loading=[2.0], **PARAMS)))
run("PointIsotherm nan", lambda: describe(
    pygaps.PointIsotherm(pressure=[1.0, numpy.nan, 3.0, 2.0], loading=[1.0, 2.0, 3.0, 2.5], **PARAMS)))
run("PointIsotherm mismatch", lambda: describe(pygaps.PointIsotherm(pressure=[1.0], loading=[2.0, 3.0], **PARAMS)))
run("PointIsotherm no data", lambda: describe(pygaps.PointIsotherm(**PARAMS)))

# ---------------------------------------------------------------- what is built on top of the guessed branches
for sname in ('updown', 'up', 'down', 'tie_mid', 'wiggle', 'long', 'peak_second'):
    seq = SEQS[sname]
    load = [0.5 * v + 0.1 * i for i, v in enumerate(seq)]
    for iname, idx in (('range', None), ('str', [f"r{i}" for i in range(len(seq))]), ('rev', list(range(len(seq) - 1, -1, -1)))):
        df = pandas.DataFrame({'pressure': seq, 'loading': load}, index=idx)

        def point():
            iso = pygaps.PointIsotherm(isotherm_data=df, pressure_key='pressure', loading_key='loading', **PARAMS)
            return (
                iso.data_raw['branch'].values,
                get_iso_loading_and_pressure_ordered(iso, 'ads', {}, {}),
                get_iso_loading_and_pressure_ordered(iso, 'des', {'loading_unit': 'mol'}, {'pressure_unit': 'Pa'}),
            )

        run(f"guess -> point {sname}/{iname}", point)
        for mbr in ('ads', 'des', 'guess'):

            def model():
                iso = pygaps.ModelIsotherm(
                    isotherm_data=df, pressure_key='pressure', loading_key='loading', model='Henry',
                    branch=mbr, **PARAMS
                )
                return (
                    iso.branch, sorted(iso.model.params.items()), iso.model.pressure_range, iso.model.loading_range,
                    iso.model.rmse
                )

            run(f"guess -> model {sname}/{iname}/{mbr}", model)
