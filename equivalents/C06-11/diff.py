"""Differential transcript for C06-3 (to_dict of isotherms and models, model_from_dict)."""
import copy
import glob
import os
import warnings

warnings.simplefilter("ignore")

import numpy
import pandas

import pygaps
import pygaps.modelling as pgm
from pygaps.core.baseisotherm import BaseIsotherm
from pygaps.core.material import Material
from pygaps.modelling import get_isotherm_model
from pygaps.modelling import model_from_dict
from pygaps.parsing.json import isotherm_from_json
from pygaps.parsing.json import isotherm_to_json

ROOT = os.path.dirname(os.path.dirname(os.path.dirname(os.path.abspath(pygaps.__file__))))


def chain(err):
    out = []
    n = 0
    while err is not None and n < 6:
        out.append(type(err).__name__)
        err = err.__cause__ if err.__cause__ is not None else err.__context__
        n += 1
    return '>'.join(out)


def show(label, fn):
    try:
        res = fn()
        print(f"[{label}] OK {res!r}")
        return res
    except BaseException as err:  # noqa
        print(f"[{label}] EXC {type(err).__name__}: {err} || {chain(err)}")
        return None


UNITS = dict(
    pressure_mode='absolute',
    pressure_unit='bar',
    material_basis='mass',
    material_unit='g',
    loading_basis='molar',
    loading_unit='mmol',
    temperature_unit='K',
)
P = [0.1, 0.2, 0.5, 1.0, 2.0]
L = [1.0, 1.8, 3.0, 3.9, 4.4]


def state(iso):
    """Everything held by the isotherm, for checking that to_dict does not touch it."""
    out = []
    for key, val in vars(iso).items():
        if isinstance(val, pandas.DataFrame):
            val = val.to_dict(orient='list')
        elif isinstance(val, Material):
            val = (val.name, dict(val.properties))
        elif hasattr(val, 'params'):
            val = (type(val).__name__, dict(vars(val)))
        out.append((key, repr(val)))
    return out


def exercise(name, iso):
    print("=" * 20, name, type(iso).__name__)
    before = state(iso)
    d = show("to_dict", iso.to_dict)
    print("   keys in order:", list(d))
    print("   value types:", [type(v).__name__ for v in d.values()])
    d2 = iso.to_dict()
    print("   fresh dict each time:", d is not d2, d == d2)
    print("   metadata object shared:", d is iso.properties, [k for k in d if d[k] is iso.properties.get(k, d)][:3])
    mat = d['material']
    print("   material entry:", type(mat).__name__, mat is iso.material.properties)
    # mutate the result: the isotherm must not change
    d['pressure_unit'] = 'changed'
    d['new'] = 1
    if isinstance(mat, dict):
        mat['name'] = 'changed'
    print("   state unchanged:", before == state(iso))
    show("iso_id", lambda: iso.iso_id)
    show("json", lambda: isotherm_to_json(iso))
    if hasattr(iso, 'model'):
        m = iso.model
        md = show("model.to_dict", m.to_dict)
        print("   model keys:", list(md), [type(v).__name__ for v in md.values()])
        print("   params shared:", md['parameters'] is m.params, md['pressure_range'] is m.pressure_range)
        show("point from model", lambda: (lambda p: (p.to_dict(), p.data_raw.to_dict(orient='list')))(
            pygaps.PointIsotherm.from_modelisotherm(iso, pressure_points=[0.1, 0.5, 1.0])))
    if hasattr(iso, 'data_raw'):
        show("model from point", lambda: (lambda m: (m.to_dict(), m.model.to_dict()))(
            pygaps.ModelIsotherm.from_pointisotherm(iso, model='Henry')))
        show("point from isotherm", lambda: pygaps.PointIsotherm.from_isotherm(
            iso, pressure=[1, 2], loading=[3, 4]).to_dict())
    text = isotherm_to_json(iso)
    back = show("roundtrip", lambda: isotherm_from_json(text))
    if back is not None:
        print("   equal:", back == iso, "same doc:", isotherm_to_json(back) == text)
        print("   dict equal:", back.to_dict() == iso.to_dict(), list(back.to_dict()) == list(iso.to_dict()))
        if hasattr(iso, 'model'):
            print("   model dicts:", repr(back.model.to_dict()), repr(iso.model.to_dict()))
            show("   predictions", lambda: (back.loading_at(P[:2]), iso.loading_at(P[:2])))
            show("   prediction scalar", lambda: (back.loading_at(0.3), iso.pressure_at(0.7)))


def main():
    isos = {}
    isos['base'] = BaseIsotherm(
        material='carbon', adsorbate='nitrogen', temperature=77, comment='x', number=3, real=1.5,
        flag=True, nothing=None, nested={'a': [1, 2, {'b': None}]}, lst=[1, 'a', 2.5], **UNITS)
    isos['base shorthand'] = BaseIsotherm(m='carbon', a='N2', t=77, zz=1, aa=2, **UNITS)
    isos['base matprops'] = BaseIsotherm(
        material={'name': 'zeo', 'density': 2.1, 'colour': 'white'}, adsorbate='argon', temperature=87.3,
        **{**UNITS, 'pressure_mode': 'relative', 'loading_basis': 'mass', 'loading_unit': 'g'})
    isos['base celsius'] = BaseIsotherm(
        material='m', adsorbate='CO2', temperature=25, **{**UNITS, 'temperature_unit': '°C'})
    isos['base unknown gas'] = BaseIsotherm(material='m', adsorbate='unobtainium', temperature=25, **UNITS)
    isos['base clashing metadata'] = BaseIsotherm(
        material='m', adsorbate='N2', temperature=25, _other=1, data_raw='not reserved here', **UNITS)
    isos['point ads'] = pygaps.PointIsotherm(
        pressure=P, loading=L, material='carbon', adsorbate='N2', temperature=77, **UNITS)
    isos['point adsdes'] = pygaps.PointIsotherm(
        pressure=P + [1.0, 0.5, 0.1], loading=L + [4.1, 3.3, 1.4], material=Material('obj', density=3.0, store=False),
        adsorbate='N2', temperature=77, note='hysteresis', **UNITS)
    df = pandas.DataFrame({
        'pressure': P + [1.0, 0.3], 'loading': L + [4.0, 2.5],
        'enthalpy': [10.0, 9.5, numpy.nan, 8.0, 7.5, 7.0, 6.5], 'text': list('abcdefg')})
    isos['point other'] = pygaps.PointIsotherm(
        isotherm_data=df, pressure_key='pressure', loading_key='loading', other_keys=['enthalpy', 'text'],
        material={'name': 'mof', 'molar_mass': 100.0}, adsorbate='methane', temperature=298, **UNITS)
    for model in pgm._MODELS:
        try:
            isos['model ' + model] = pygaps.ModelIsotherm(
                model=get_isotherm_model(model), material='carbon', adsorbate='N2', temperature=77, **UNITS)
        except BaseException as err:  # noqa
            print("cannot build", model, type(err).__name__, err)
    for model in ('Henry', 'Langmuir', 'Toth', 'DSLangmuir'):
        try:
            isos['fit ' + model] = pygaps.ModelIsotherm(
                pressure=P, loading=L, model=model, material={'name': 'fitmat', 'density': 1.1},
                adsorbate='N2', temperature=77, info='fitted', **UNITS)
        except BaseException as err:  # noqa
            print("cannot fit", model, type(err).__name__, err)
    isos['model given'] = pygaps.ModelIsotherm(
        model=get_isotherm_model(
            'DSLangmuir', parameters={'n_m1': 1.0, 'K1': 2.0, 'n_m2': 3.0, 'K2': 0.1},
            pressure_range=(0.0, 5.0), loading_range=(0.0, 3.5), rmse=0.0123),
        branch='des', material='carbon', adsorbate='N2', temperature=77, tag='given', **UNITS)
    for sub in ('parsing/json', 'characterisation'):
        for path in sorted(glob.glob(os.path.join(ROOT, 'docs', 'examples', 'data', sub, '*.json'))):
            isos['file ' + sub + '/' + os.path.basename(path)] = isotherm_from_json(path)

    for name, iso in isos.items():
        exercise(name, iso)

    print("=" * 20, "broken isotherm state")
    iso = BaseIsotherm(material='m', adsorbate='N2', temperature=25, **UNITS)
    del iso.properties
    show("no properties", iso.to_dict)
    iso = BaseIsotherm(material='m', adsorbate='N2', temperature=25, **UNITS)
    iso.properties = [('a', 1), ('b', 2)]
    show("pairs as properties", iso.to_dict)
    iso.properties = 5
    show("int as properties", iso.to_dict)
    iso = BaseIsotherm(material='m', adsorbate='N2', temperature=25, **UNITS)
    del iso._temperature
    show("no temperature", iso.to_dict)
    iso = BaseIsotherm(material='m', adsorbate='N2', temperature=25, **UNITS)
    iso._material = 'just a string'
    show("string material", iso.to_dict)
    iso = BaseIsotherm(material='m', adsorbate='N2', temperature=25, **UNITS)
    del iso._adsorbate
    show("no adsorbate", iso.to_dict)
    iso = BaseIsotherm(material='m', adsorbate='N2', temperature=25, **UNITS)
    iso.extra_attribute = 'set later'
    iso.properties['adsorbate'] = 'metadata wins'
    show("late attribute and clashing metadata", iso.to_dict)

    print("=" * 20, "model_from_dict")
    for model in pgm._MODELS:
        m = get_isotherm_model(model)
        d = m.to_dict()
        d_before = copy.deepcopy(d)
        m2 = show("from dict " + model, lambda: model_from_dict(d))
        print("   argument before/after:", d_before, d)
        if m2 is not None:
            print("   again:", m2.to_dict(), type(m2).__name__, m2.param_bounds)
    full = {
        'name': 'langmuir', 'rmse': 0.5, 'parameters': {'K': 1.5, 'n_m': 3.0, 'ignored': 1},
        'pressure_range': [0, 1], 'loading_range': [0, 2], 'param_bounds': {'K': (0, 10)}, 'unused': 'x'}
    d = copy.deepcopy(full)
    m = show("lower-case name, extras", lambda: model_from_dict(d))
    print("   argument after:", d)
    print("   model:", m.to_dict(), m.param_bounds, repr(m.loading(0.5)), repr(m.pressure(1.0)))
    show("again with the same (now nameless) dict", lambda: model_from_dict(d))
    for label, arg in [
        ('no name', {'rmse': 1}),
        ('empty', {}),
        ('unknown', {'name': 'Nope', 'rmse': 1}),
        ('name None', {'name': None}),
        ('name int', {'name': 3}),
        ('bad bounds', {'name': 'Henry', 'param_bounds': {'zz': (0, 1)}}),
        ('missing parameter', {'name': 'Langmuir', 'parameters': {'K': 1}}),
        ('non-string key', {'name': 'Henry', 1: 2}),
        ('list', ['name']),
        ('None', None),
        ('string', 'Henry'),
    ]:
        arg2 = copy.deepcopy(arg)
        show("from dict " + label, lambda: model_from_dict(arg2))
        print("   argument after:", arg2)

    class Sub(type(get_isotherm_model('Henry'))):
        name = 'SubHenry'

        @property
        def rmse(self):
            print("      (rmse read)")
            return 42

        @rmse.setter
        def rmse(self, val):
            pass

    show("subclass with property", lambda: Sub().to_dict())
    m = get_isotherm_model('Henry')
    del m.params
    show("instance without params falls back to class attribute", m.to_dict)
    print("base_model public names:", sorted(n for n in dir(pgm.base_model) if not n.startswith('_')))


if __name__ == '__main__':
    main()
