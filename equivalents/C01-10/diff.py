"""Differential transcript for converter_mode.c_pressure (all mode / unit combinations)."""
import itertools
import warnings

import numpy

warnings.simplefilter("ignore")

import pygaps
from pygaps.units import converter_mode as cm
from pygaps.units.converter_unit import _PRESSURE_UNITS


def fmt(res):
    if isinstance(res, numpy.ndarray):
        return f"ndarray {res.dtype} {res.shape} {res.tolist()!r}"
    return f"{type(res).__name__} {res!r}"


def show(label, fn, *args, **kwargs):
    try:
        out = fmt(fn(*args, **kwargs))
    except BaseException as exc:  # noqa
        out = f"EXC {type(exc).__name__}: {exc}"
    print(f"{label} -> {out}")


class FakeAdsorbate:
    """Records every call made on it, returns a fixed odd number."""
    def __init__(self, ret):
        self.calls = []
        self.ret = ret

    def saturation_pressure(self, *args, **kwargs):
        self.calls.append(("saturation_pressure", args, tuple(sorted(kwargs.items()))))
        if isinstance(self.ret, BaseException):
            raise self.ret
        return self.ret

    def __getattr__(self, name):
        def rec(*args, **kwargs):
            self.calls.append((name, args, tuple(sorted(kwargs.items()))))
            return 1.2345
        return rec


MODES = ["absolute", "relative", "relative%"]
BADMODES = [None, "", "bad", "Absolute", "relative %", 0, 1, [], ("absolute", )]
UNITS = ["Pa", "bar", "torr", "atm"]
BADUNITS = [None, "", "bad", 0, []]
VALUES = [0, 1, -1, 0.0, -0.0, 0.5, 3.7, 1e-300, 1e300, float("inf"), float("nan"), True]
ARR = numpy.array([0.0, 1e-3, 0.1, 0.5, 1.0, 42.0])
IARR = numpy.array([0, 1, 50, 100])
TEMPS = [None, 0, 0.0, 77.355, 300, 25.5]

n2 = pygaps.Adsorbate.find("N2")
co2 = pygaps.Adsorbate.find("CO2")

print("== 1. fake adsorbate: every mode pair x unit pair x temp")
for mf, mt in itertools.product(MODES, repeat=2):
    for uf, ut in itertools.product(UNITS[:2] + BADUNITS, repeat=2):
        for temp in TEMPS:
            for ret in (3.3, 7, numpy.float64(0.123), 0.0):
                fake = FakeAdsorbate(ret)
                show(f"{mf}->{mt} {uf!r}->{ut!r} T={temp!r} psat={ret!r}", cm.c_pressure, 1.75, mf, mt, uf, ut, fake, temp)
                print("    calls:", repr(fake.calls))

print("== 2. values and arrays with fake adsorbate")
for mf, mt in itertools.product(MODES, repeat=2):
    for v in VALUES + [ARR, IARR, [1, 2], None, "x"]:
        fake = FakeAdsorbate(1.0132507274270477)
        label = "ARR" if v is ARR else "IARR" if v is IARR else repr(v)
        show(f"{mf}->{mt} value={label}", cm.c_pressure, v, mf, mt, "bar", "kPa", fake, 77.355)
        show(f"{mf}->{mt} value={label} kw", cm.c_pressure, value=v, mode_from=mf, mode_to=mt, unit_from="torr", unit_to="torr", adsorbate=fake, temp=100)
        print("    calls:", repr(fake.calls))

print("== 3. bad modes")
for bad in BADMODES:
    for good in MODES:
        show(f"mode_from={bad!r} mode_to={good}", cm.c_pressure, 1.0, bad, good, "bar", "bar", FakeAdsorbate(2.0), 77.0)
        show(f"mode_from={good} mode_to={bad!r}", cm.c_pressure, 1.0, good, bad, "bar", "bar", FakeAdsorbate(2.0), 77.0)
    for bad2 in BADMODES[:4]:
        show(f"mode_from={bad!r} mode_to={bad2!r}", cm.c_pressure, 1.0, bad, bad2, "bar", "bar")

print("== 4. missing adsorbate / raising adsorbate / odd temperatures")
for mf, mt in itertools.product(MODES, repeat=2):
    show(f"{mf}->{mt} no adsorbate", cm.c_pressure, 1.0, mf, mt, "bar", "bar", None, 77.0)
    show(f"{mf}->{mt} defaults", cm.c_pressure, 1.0, mf, mt, "bar", "bar")
    show(f"{mf}->{mt} raising", cm.c_pressure, 1.0, mf, mt, "bar", "bar", FakeAdsorbate(RuntimeError("boom")), 77.0)
    show(f"{mf}->{mt} psat None", cm.c_pressure, 1.0, mf, mt, "bar", "bar", FakeAdsorbate(None), 77.0)
    show(f"{mf}->{mt} T array", cm.c_pressure, 1.0, mf, mt, "bar", "bar", FakeAdsorbate(2.0), numpy.array([77.0, 78.0]))
    show(f"{mf}->{mt} T str", cm.c_pressure, 1.0, mf, mt, "bar", "bar", FakeAdsorbate(2.0), "77")
    show(f"{mf}->{mt} T neg", cm.c_pressure, 1.0, mf, mt, "bar", "bar", FakeAdsorbate(2.0), -5)

print("== 5. real adsorbates")
for ads, temps in ((n2, [77.355, 90.0, 120.0, 500.0, 10.0]), (co2, [195.0, 273.15, 303.0, 310.0])):
    for temp in temps:
        for mf, mt in itertools.product(MODES, repeat=2):
            for uf, ut in (("bar", "bar"), ("Pa", "torr"), ("mmHg", "atm"), ("kPa", None), (None, "MPa"), (None, None)):
                show(f"{ads.name} T={temp} {mf}->{mt} {uf}->{ut}", cm.c_pressure, 0.37, mf, mt, uf, ut, ads, temp)
                show(f"{ads.name} T={temp} {mf}->{mt} {uf}->{ut} ARR", cm.c_pressure, ARR, mf, mt, uf, ut, ads, temp)

print("== 6. all unit pairs in absolute mode, and to/from relative")
for uf, ut in itertools.product(_PRESSURE_UNITS, repeat=2):
    show(f"abs {uf}->{ut}", cm.c_pressure, 2.5, "absolute", "absolute", uf, ut)
    show(f"abs->rel {uf} ({ut})", cm.c_pressure, 2.5, "absolute", "relative", uf, ut, n2, 77.355)
    show(f"rel%->abs ({uf}) {ut}", cm.c_pressure, 2.5, "relative%", "absolute", uf, ut, n2, 77.355)

print("== 7. round trips")
for u in _PRESSURE_UNITS:
    for mode in ("relative", "relative%"):
        def rt(v):
            return cm.c_pressure(cm.c_pressure(v, "absolute", mode, u, None, n2, 77.355), mode, "absolute", None, u, n2, 77.355)
        show(f"roundtrip {u} via {mode}", rt, 0.731)
        show(f"roundtrip {u} via {mode} ARR", rt, ARR)
