"""Differential for change 2: utilities.hashgen.isotherm_to_hash."""
import copy
import os
import subprocess
import sys

import numpy
import pandas

import eqlib
from eqlib import attempt
from eqlib import emit

import pygaps
from pygaps.utilities.hashgen import isotherm_to_hash

built = eqlib.build_all(deep=False)
eqlib.cross_equalities(built)

for label, iso in built.items():
    attempt(f"{label}.hash_direct", isotherm_to_hash, iso)
    attempt(f"{label}.hash_equals_id", lambda iso=iso: isotherm_to_hash(iso) == iso.iso_id)


def poke(label, base_label, func):
    iso = copy.deepcopy(built[base_label])
    try:
        func(iso)
    except Exception as err:  # noqa: BLE001
        emit(f"{label}.poke", f"EXC {type(err).__name__}: {err}")
        return
    attempt(f"{label}.hash", isotherm_to_hash, iso)
    if hasattr(iso, 'data_raw'):
        attempt(f"{label}.data_after", lambda: iso.data_raw)
    attempt(f"{label}.to_dict_after", iso.to_dict)


def setdata(frame):
    def inner(iso):
        iso.data_raw = frame
    return inner


P = 'point.lists'
base = built[P].data_raw
poke("data.same", P, setdata(base.copy()))
poke("data.relabelled", P, setdata(base.set_index(pandas.Index(list('hgfedcba')))))
poke("data.multiindex", P, setdata(base.set_index(pandas.MultiIndex.from_arrays([list('aabbccdd'), list(range(8))]))))
poke("data.shuffled_rows", P, setdata(base.iloc[::-1]))
poke("data.shuffled_cols", P, setdata(base[['branch', 'loading', 'pressure']]))
poke("data.float32", P, setdata(base.astype({'pressure': 'float32'})))
poke("data.int_cols", 'point.ints', setdata(built['point.ints'].data_raw.astype('int64')))
poke("data.int32_cols", 'point.ints', setdata(built['point.ints'].data_raw.astype('int32')))
poke("data.uint8_cols", 'point.ints', setdata(built['point.ints'].data_raw.astype('uint8')))
poke("data.float_cols", 'point.ints', setdata(built['point.ints'].data_raw.astype('float64')))
poke("data.branch_bool", P, setdata(base.astype({'branch': bool})))
poke("data.branch_float", P, setdata(base.astype({'branch': float})))
poke("data.branch_str", P, setdata(base.astype({'branch': str})))
poke("data.object_numbers", P, setdata(base.astype({'pressure': object})))
poke("data.text_col", P, setdata(base.assign(note=list('abcdefgh'))))
poke("data.text_col_changed", P, setdata(base.assign(note=list('abcdefgz'))))
poke("data.none_col", P, setdata(base.assign(note=None)))
poke("data.nan_col", P, setdata(base.assign(extra=numpy.nan)))
poke("data.datetime_col", P, setdata(base.assign(when=pandas.Timestamp('2020-01-01'))))
poke("data.nullable_int", P, setdata(base.astype({'branch': 'Int64'})))
poke("data.nullable_float", P, setdata(base.astype({'loading': 'Float64'})))
poke("data.category", P, setdata(base.assign(cat=pandas.Categorical(list('aabbccdd')))))
poke("data.complex", P, setdata(base.assign(z=numpy.arange(8) * 1j)))
poke("data.dup_columns", P, setdata(pandas.concat([base, base[['loading']]], axis=1)))
poke("data.no_rows", P, setdata(base.iloc[0:0]))
poke("data.no_cols", P, setdata(base[[]]))
poke("data.empty_frame", P, setdata(pandas.DataFrame()))
poke("data.one_row", P, setdata(base.iloc[[3]]))
poke("data.inf", P, setdata(base.assign(pressure=numpy.inf)))
poke("data.neg_zero", P, setdata(base.assign(pressure=-0.0)))
poke("data.pos_zero", P, setdata(base.assign(pressure=0.0)))
poke("data.tiny_neg", P, setdata(base.assign(pressure=-1e-12)))
poke("data.half_ulp", P, setdata(base.assign(pressure=base['pressure'] + 5e-9)))
poke("data.round_edge", P, setdata(base.assign(pressure=0.123456785)))
poke("data.big_int", 'point.ints', setdata(built['point.ints'].data_raw.astype('int64').assign(pressure=2**62 + 1)))
poke("data.big_int2", 'point.ints', setdata(built['point.ints'].data_raw.astype('int64').assign(pressure=2**62 + 2)))
poke("data.series", P, setdata(base['pressure']))
poke("data.none", P, setdata(None))
poke("data.ndarray", P, setdata(base.to_numpy()))
poke("data.missing", P, lambda iso: vars(iso).pop('data_raw'))
poke("data.int_col_names", P, setdata(base.rename(columns={'pressure': 0, 'loading': 1})))

# metadata influence on the json part
poke("meta.data_hash_prop", P, lambda i: i.properties.update(data_hash='fake'))
poke("meta.data_hash_prop_base", 'base.meta', lambda i: i.properties.update(data_hash='fake'))
poke("meta.data_hash_prop_model", 'model.langmuir', lambda i: i.properties.update(data_hash='fake'))
poke("meta.unserialisable", P, lambda i: i.properties.update(obj=object))
poke("meta.set_value", P, lambda i: i.properties.update(obj={1, 2}))
poke("meta.numpy_value", P, lambda i: i.properties.update(val=numpy.float64(1.5)))
poke("meta.numpy_int", P, lambda i: i.properties.update(val=numpy.int64(1)))
poke("meta.nan", P, lambda i: i.properties.update(val=float('nan')))
poke("meta.inf", P, lambda i: i.properties.update(val=float('inf')))
poke("meta.unicode", P, lambda i: i.properties.update(val='é中\U0001f600', **{'ü': 1}))
poke("meta.mixed_keys", 'base.meta', lambda i: i.properties.update({1: 'int key'}))
poke("meta.int_str_keys", 'base.meta', lambda i: i.properties['nested'].update({1: 'a', '1': 'b'}))
poke("meta.tuple", P, lambda i: i.properties.update(val=(1, 2)))
poke("meta.list", P, lambda i: i.properties.update(val=[1, 2]))
poke("meta.bool_vs_int", P, lambda i: i.properties.update(val=True))
poke("meta.int_one", P, lambda i: i.properties.update(val=1))
poke("meta.float_one", P, lambda i: i.properties.update(val=1.0))

# model influence
M = 'model.langmuir'
poke("model.param_changed", M, lambda i: i.model.params.update(K=1.6))
poke("model.param_nan", M, lambda i: i.model.params.update(K=float('nan')))
poke("model.param_numpy", M, lambda i: i.model.params.update(K=numpy.float64(1.5)))
poke("model.param_numpy32", M, lambda i: i.model.params.update(K=numpy.float32(1.5)))
poke("model.rmse", M, lambda i: setattr(i.model, 'rmse', 0.5))
poke("model.range_list", M, lambda i: setattr(i.model, 'pressure_range', [0.1, 5.0]))
poke("model.range_changed", M, lambda i: setattr(i.model, 'loading_range', (0.5, 4.6)))
poke("model.name", M, lambda i: setattr(i.model, 'name', 'Other'))
poke("model.to_dict_none", M, lambda i: setattr(i.model, 'to_dict', lambda: None))
poke("model.to_dict_text", M, lambda i: setattr(i.model, 'to_dict', lambda: 'text'))
poke("model.to_dict_raises", M, lambda i: setattr(i.model, 'to_dict', lambda: 1 / 0))
poke("model.none", M, lambda i: setattr(i, 'model', None))
poke("model.missing", M, lambda i: vars(i).pop('model'))
poke("model.branch", M, lambda i: setattr(i, 'branch', 'des'))


# duck typed / odd arguments
class Duck:
    def __init__(self, dct):
        self.dct = dct

    def to_dict(self):
        return self.dct


class PointSub(pygaps.PointIsotherm):
    pass


class ModelSub(pygaps.ModelIsotherm):
    pass


class OrderedReturn(Duck):
    def to_dict(self):
        import collections
        return collections.OrderedDict(self.dct)


attempt("duck.empty", isotherm_to_hash, Duck({}))
attempt("duck.simple", isotherm_to_hash, Duck({'b': 1, 'a': 2}))
attempt("duck.simple_reordered", isotherm_to_hash, Duck({'a': 2, 'b': 1}))
attempt("duck.data_hash", isotherm_to_hash, Duck({'data_hash': 'x'}))
attempt("duck.ordered", isotherm_to_hash, OrderedReturn({'b': 1, 'a': 2}))
attempt("duck.none", isotherm_to_hash, Duck(None))
attempt("duck.list", isotherm_to_hash, Duck([('a', 1)]))
attempt("duck.str", isotherm_to_hash, Duck('ab'))
attempt("duck.no_to_dict", isotherm_to_hash, object())
attempt("duck.None", isotherm_to_hash, None)
sub = copy.deepcopy(built[P])
sub.__class__ = PointSub
attempt("sub.point", isotherm_to_hash, sub)
attempt("sub.point_eq", lambda: sub == built[P])
msub = copy.deepcopy(built[M])
msub.__class__ = ModelSub
attempt("sub.model", isotherm_to_hash, msub)
attempt("sub.model_eq", lambda: msub == built[M])
attempt("eq.other_type", lambda: built[P] == 5)
attempt("eq.duck", lambda: built[P] == Duck({}))
attempt("ne.point_model", lambda: built[P] != built[M])

# to_dict results must not be touched by hashing, data_raw neither
for label, iso in built.items():
    before = eqlib.canon(iso.to_dict()) + (eqlib.canon(iso.data_raw) if hasattr(iso, 'data_raw') else '')
    first = iso.iso_id
    after = eqlib.canon(iso.to_dict()) + (eqlib.canon(iso.data_raw) if hasattr(iso, 'data_raw') else '')
    emit(f"{label}.untouched", f"{before == after} {first == iso.iso_id} {'data_hash' in iso.to_dict()}")

# other processes / hash seeds
SNIPPET = """
import logging, warnings
warnings.filterwarnings('ignore'); logging.disable(logging.CRITICAL)
import pygaps, pandas
from pygaps.modelling import get_isotherm_model
u = dict(pressure_mode='absolute', pressure_unit='bar', material_basis='mass', material_unit='g',
         loading_basis='molar', loading_unit='mmol', temperature_unit='K')
m = dict(material='carbon', adsorbate='N2', temperature=77, user='me', z=1, nest={'y': 1, 'x': 2}, **u)
print(pygaps.core.baseisotherm.BaseIsotherm(**m).iso_id)
print(pygaps.PointIsotherm(pressure=[1, 2, 3, 2], loading=[1.5, 2.5, 3, 2.75], **m).iso_id)
print(pygaps.PointIsotherm(isotherm_data=pandas.DataFrame({'p': [1., 2, 3, 2], 'l': [1.5, 2.5, 3, 2.75], 'w': list('abcd')},
      index=list('wxyz')), pressure_key='p', loading_key='l', **m).iso_id)
print(pygaps.ModelIsotherm(model=get_isotherm_model('Langmuir', parameters={'K': 1.5, 'n_m': 5.2}), **m).iso_id)
"""
for seed in ('0', '1', '4242', 'random'):
    env = dict(os.environ, PYTHONHASHSEED=seed)
    res = subprocess.run([sys.executable, '-c', SNIPPET], env=env, capture_output=True, text=True, check=False)
    emit(f"seed[{seed}]", f"rc={res.returncode} " + " ".join(res.stdout.split()))

eqlib.flush()
