"""Differential transcript for C16-3 (models_kelvin and models_thickness accessors and Kelvin radius)."""
import functools
import itertools
import warnings

warnings.simplefilter("ignore")

import numpy

from pygaps.characterisation import models_kelvin as mk
from pygaps.characterisation import models_thickness as mt
from pygaps.characterisation.psd_meso import psd_pygapsdh

numpy.seterr(all='ignore')


def fmt(val):
    if isinstance(val, numpy.ndarray):
        return f"ndarray[{val.dtype},{val.shape}]{val.tolist()!r}"
    if isinstance(val, numpy.generic):
        return f"{type(val).__name__}({val.item()!r})"
    if isinstance(val, functools.partial):
        return f"partial({getattr(val.func, '__name__', type(val.func).__name__)}, args={val.args!r}, kw={fmt(val.keywords)})"
    if isinstance(val, dict):
        return "{" + ", ".join(f"{k!r}: {fmt(v)}" for k, v in val.items()) + "}"
    if isinstance(val, (tuple, list)):
        return type(val).__name__ + "(" + ", ".join(fmt(v) for v in val) + ")"
    if callable(val):
        return f"callable:{getattr(val, '__name__', type(val).__name__)}"
    return repr(val)


def show(label, fn):
    try:
        res = fn()
        print(f"[{label}] OK {fmt(res)}")
        return res
    except BaseException as err:  # noqa
        print(f"[{label}] EXC {type(err).__name__}: {err!s} | args={err.args!r}")
        return None


class Odd:
    """Compares equal to one string only, counts comparisons."""
    def __init__(self, target):
        self.target = target
        self.seen = []

    def __eq__(self, other):
        self.seen.append(other)
        return other == self.target

    def __hash__(self):
        return 7


N2 = dict(temperature=77.355, liquid_density=0.8064, adsorbate_molar_mass=28.0134, adsorbate_surface_tension=8.876)
AR = dict(temperature=87.3, liquid_density=1.395, adsorbate_molar_mass=39.948, adsorbate_surface_tension=12.5)

PRESSURES = [
    0.5, 0.1, 0.999, 1e-12, 1.0, 0.0, 1.5, -0.2, numpy.float64(0.3), numpy.float32(0.3), 1,
    numpy.linspace(0.01, 0.99, 15), numpy.array([0.0, 0.5, 1.0, 2.0, -1.0, numpy.nan, numpy.inf]),
    [0.2, 0.4, 0.8], (0.2, 0.4), numpy.array([]), numpy.array([[0.1, 0.2], [0.3, 0.4]]),
    numpy.linspace(0.1, 0.9, 5, dtype='float32'), numpy.array([1, 2, 3]), 'abc', None, [0.2, 'a'], 0.3 + 0.1j,
]


def main():
    print("=" * 20, "get_meniscus_geometry")
    branches = ['ads', 'des', 'all', '', None, 'ADS', 0, ['ads'], numpy.str_('des')]
    geoms = ['slit', 'cylinder', 'halfopen-cylinder', 'sphere', 'cube', '', None, 'Slit', 3, ['slit'],
             numpy.str_('sphere'), numpy.array(['slit', 'sphere']), b'slit']
    for b, g in itertools.product(branches, geoms):
        show(f"meniscus {b!r} {g!r}", lambda: mk.get_meniscus_geometry(b, g))
    show("meniscus keywords", lambda: mk.get_meniscus_geometry(pore_geometry='cylinder', branch='ads'))
    show("meniscus missing arg", lambda: mk.get_meniscus_geometry('ads'))
    for b in ('ads', 'des', 'zzz'):
        for target in ('slit', 'cylinder', 'halfopen-cylinder', 'sphere', 'other'):
            odd = Odd(target)
            show(f"meniscus {b} odd geometry ~{target}", lambda: mk.get_meniscus_geometry(b, odd))
            print("   compared with:", odd.seen)
    for target in ('ads', 'des', 'zzz'):
        odd = Odd(target)
        show(f"meniscus odd branch ~{target}", lambda: mk.get_meniscus_geometry(odd, 'cylinder'))
        print("   compared with:", odd.seen)

    print("=" * 20, "kelvin_radius / kelvin_radius_kjs")
    for men in ['cylindrical', 'hemispherical', 'hemicylindrical', 'flat', None, '']:
        for props_name, props in (('N2', N2), ('Ar', AR)):
            for i, p in enumerate(PRESSURES):
                show(f"kelvin {men!r} {props_name} p#{i}", lambda: mk.kelvin_radius(p, men, **props))
                show(f"kjs {men!r} {props_name} p#{i}", lambda: mk.kelvin_radius_kjs(p, men, **props))
    p = numpy.linspace(0.05, 0.95, 7)
    for bad in [dict(N2, temperature=0), dict(N2, liquid_density=0), dict(N2, temperature=-5),
                dict(N2, adsorbate_surface_tension=None), dict(N2, adsorbate_molar_mass='28'),
                dict(N2, temperature='77'), dict(N2, adsorbate_surface_tension=[1, 2]),
                dict(N2, adsorbate_surface_tension=[1, 2], adsorbate_molar_mass=1, liquid_density=1),
                dict(N2, adsorbate_surface_tension='ab', adsorbate_molar_mass=1, liquid_density=1),
                dict(N2, adsorbate_surface_tension=numpy.array([8.0] * 7)), dict(N2, liquid_density=numpy.nan),
                dict(N2, temperature=numpy.float32(77.0)), dict(N2, extra=1),
                {k: v for k, v in N2.items() if k != 'temperature'}]:
        for men in ('cylindrical', 'flat'):
            show(f"kelvin odd props {fmt(bad)} {men}", lambda: mk.kelvin_radius(p, men, **bad))
            show(f"kjs odd props {fmt(bad)} {men}", lambda: mk.kelvin_radius_kjs(p, men, **bad))
    show("kelvin positional", lambda: mk.kelvin_radius(p, 'hemispherical', 77.355, 0.8064, 28.0134, 8.876))
    # the Kelvin equation itself: ln(p) * r * (g R T rho) == -2 gamma M for every geometry factor
    for men, g in (('cylindrical', 2.0), ('hemispherical', 1.0), ('hemicylindrical', 0.5)):
        r = mk.kelvin_radius(p, men, **N2)
        print("   kelvin equation residual", men, fmt(numpy.log(p) * r * g * 8.31446261815324 * 77.355 * 0.8064 + 2 * 8.876 * 28.0134))

    print("=" * 20, "get_kelvin_model")

    def custom(pressure, **kw):
        return ('custom', fmt(pressure), sorted(kw))

    def custom_noargs(pressure):
        return pressure

    class CallableObj:
        def __call__(self, pressure, **kw):
            return ('obj', fmt(pressure), sorted(kw))

    for model in ['Kelvin', 'Kelvin-KJS', 'kelvin', 'nope', '', custom, custom_noargs, CallableObj(), None, 5,
                  ['Kelvin'], mk.kelvin_radius, functools.partial(custom, flag=1), numpy.str_('Kelvin'), b'Kelvin']:
        for kw_name, kw in (('none', {}), ('N2 cyl', dict(N2, meniscus_geometry='cylindrical')),
                            ('N2 hemi', dict(N2, meniscus_geometry='hemispherical')), ('partial', dict(temperature=1))):
            m = show(f"kelvin model {fmt(model)} args={kw_name}", lambda: mk.get_kelvin_model(model, **kw))
            if m is not None:
                print("   type:", type(m).__name__, "func is table entry:",
                      [k for k, v in mk._KELVIN_MODELS.items() if v is m.func], "func is input:", m.func is model)
                show("   call", lambda: m(numpy.array([0.2, 0.5, 0.9])))
                show("   call scalar", lambda: m(0.5))
    show("kelvin model no args", lambda: mk.get_kelvin_model())
    show("kelvin model keyword", lambda: mk.get_kelvin_model(model='Kelvin', meniscus_geometry='cylindrical', **N2))
    print("   table:", sorted(mk._KELVIN_MODELS), [v.__name__ for v in mk._KELVIN_MODELS.values()])

    print("=" * 20, "get_thickness_model")

    def t_custom(pressure):
        return 0.1 * numpy.asarray(pressure)

    class StrSub(str):
        pass

    for model in ['Halsey', 'Harkins/Jura', 'SiO2 Jaroniec/Kruk/Olivier', 'carbon black Kruk/Jaroniec/Gadkaree',
                  'zero thickness', 'halsey', 'nope', '', 'Model "x"', '{braces}', StrSub('Halsey'), StrSub('zz'),
                  numpy.str_('Halsey'), t_custom, None, 5, 2.5, ['Halsey'], ('Halsey',), {'a': 1}, b'Halsey',
                  mt.thickness_halsey, CallableObj(), numpy.array([1.0, 2.0])]:
        m = show(f"thickness model {fmt(model)}", lambda: mt.get_thickness_model(model))
        if m is not None:
            print("   identity:", m is model, [k for k, v in mt._THICKNESS_MODELS.items() if v is m])
            if callable(m) and not isinstance(m, CallableObj):
                for i, p in enumerate(PRESSURES[:20]):
                    show(f"   value p#{i}", lambda: m(p))
    show("thickness model no args", lambda: mt.get_thickness_model())
    show("thickness model keyword", lambda: mt.get_thickness_model(model='Halsey'))
    print("   table:", list(mt._THICKNESS_MODELS), [v.__name__ for v in mt._THICKNESS_MODELS.values()])
    print("   loaded standard isotherms:", sorted(mt._LOADED))

    print("=" * 20, "through a size distribution")
    p = numpy.linspace(0.05, 0.95, 19)
    v = 0.2 * p / (0.1 + p) + 0.3 / (1 + numpy.exp(-(p - 0.6) * 40))
    for branch, geom in itertools.product(('ads', 'des'), ('slit', 'cylinder', 'sphere')):
        men = mk.get_meniscus_geometry(branch, geom)
        for tname in ('Harkins/Jura', 'zero thickness', 'SiO2 Jaroniec/Kruk/Olivier'):
            k = mk.get_kelvin_model('Kelvin', meniscus_geometry=men, **N2)
            show(f"psd {branch} {geom} {men} {tname}",
                 lambda: psd_pygapsdh(v, p, geom, mt.get_thickness_model(tname), k))


if __name__ == '__main__':
    main()
