"""Differential script for change 2 (HK slit and sphere potentials)."""
import math
import warnings

import numpy as np

import pygaps
import pygaps.characterisation.psd_micro as pmic
from pygaps.characterisation.models_hk import PROPERTIES_AlPh_OXIDE_ION
from pygaps.characterisation.models_hk import PROPERTIES_AlSi_OXIDE_ION
from pygaps.characterisation.models_hk import PROPERTIES_CARBON


def fmt(x):
    if isinstance(x, dict):
        return '{' + ', '.join(f'{k!r}: {fmt(v)}' for k, v in x.items()) + '}'
    if isinstance(x, (list, tuple)):
        return type(x).__name__ + '[' + ', '.join(fmt(v) for v in x) + ']'
    if isinstance(x, np.ndarray):
        return f'ndarray{x.shape}[' + ', '.join(fmt(v) for v in x.ravel().tolist()) + ']'
    if isinstance(x, (float, np.floating)):
        return f'{type(x).__name__}:{float(x):.12g}'
    return f'{type(x).__name__}:{x!r}'


CASE = [0]


def run(label, func, *args, **kwargs):
    CASE[0] += 1
    with warnings.catch_warnings(record=True) as rec:
        warnings.simplefilter('always')
        try:
            out = 'OK ' + fmt(func(*args, **kwargs))
        except Exception as err:  # noqa
            out = f'EXC {type(err).__name__}: {err.args!r}'
    wrn = sorted({f'{w.category.__name__}: {w.message}' for w in rec})
    print(f'[{CASE[0]:03d}] {label}\n    -> {out}')
    for w in wrn:
        print(f'    warn {w}')


N2 = {
    'molecular_diameter': 0.3,
    'polarizability': 0.0017403,
    'magnetic_susceptibility': 3.6e-08,
    'surface_density': 6.71e+18,
    'liquid_density': 0.8076937566133804,
    'adsorbate_molar_mass': 28.01348
}
AR = {
    'molecular_diameter': 0.34,
    'polarizability': 0.00163,
    'magnetic_susceptibility': 3.25e-08,
    'surface_density': 8.52e+18,
    'liquid_density': 1.3954,
    'adsorbate_molar_mass': 39.948
}
CO2 = {
    'molecular_diameter': 0.33,
    'polarizability': 0.002911,
    'magnetic_susceptibility': 5.0e-08,
    'surface_density': 5.45e+18,
    'liquid_density': 1.023,
    'adsorbate_molar_mass': 44.01
}
USER_MAT = {
    'molecular_diameter': 0.3,
    'polarizability': 1.5E-3,
    'magnetic_susceptibility': 8.0E-8,
    'surface_density': 2.5E19,
}


class Captured(Exception):
    """Carries the potential closure out of the HK function."""


def capture(func, geo, ads, mat, temp):
    """Return the potential closure which the HK function hands to its solver."""
    def grab(*args):
        raise Captured([a for a in args if callable(a)][0], [a for a in args if not callable(a)][-2:])

    old = pmic._solve_hk, pmic._solve_hk_cy
    pmic._solve_hk = pmic._solve_hk_cy = grab
    try:
        func([0.1, 0.2], [1., 2.], temp, geo, ads, mat)
    except Captured as cap:
        return cap.args
    finally:
        pmic._solve_hk, pmic._solve_hk_cy = old


def potential_table(geo, ads, mat, temp, as_numpy):
    """Exact (repr) values of the potential on a grid starting at the geometric minimum."""
    pot, (bound, geo_flag) = capture(pmic.psd_horvath_kawazoe, geo, ads, mat, temp)
    d_eff = (ads['molecular_diameter'] + mat['molecular_diameter']) / 2
    grid = [
        bound, bound * (1 + 1e-15), bound + 1e-12, bound + 1e-6, bound * 1.001, bound * 1.01,
        bound * 1.1, bound + 0.05, bound + 0.1, 1.5 * d_eff, 2 * d_eff, 2 * d_eff + 1e-9, 3 * d_eff,
        0.7, 0.9, 1.234567, 2.0, 3.0, 5.0, 10.0, 19.4073175568802, 31.09268244311979, 50.0,
        1e3, 1e8, 1e17, 1e300, float('inf'), float('nan'), 0.5 * d_eff, 1e-3, 0.0, -1.0,
    ]
    rows = [repr(bound), repr(geo_flag)]
    for x in grid:
        x = np.float64(x) if as_numpy else float(x)
        with warnings.catch_warnings(record=True) as rec:
            warnings.simplefilter('always')
            try:
                val = pot(x)
                res = f'{type(val).__name__}:{float(val)!r}'
            except Exception as err:  # noqa
                res = f'EXC {type(err).__name__}: {err.args!r}'
        wrn = sorted({f'{w.category.__name__}: {w.message}' for w in rec})
        rows.append(f'{x!r} => {res} {wrn if wrn else ""}'.rstrip())
    return rows


BAD_MAT = dict(USER_MAT, molecular_diameter=0.0)
ZERO_ADS = dict(N2, molecular_diameter=0.0)
TINY_MAT = dict(USER_MAT, molecular_diameter=1e-20)
TINY_ADS = dict(N2, molecular_diameter=1e-20)
BIG_ADS = dict(N2, molecular_diameter=0.6, surface_density=2e18, polarizability=0.01)

combos = [
    (N2, PROPERTIES_CARBON, 77.355),
    (N2, PROPERTIES_AlSi_OXIDE_ION, 77.355),
    (AR, PROPERTIES_AlPh_OXIDE_ION, 87.3),
    (AR, PROPERTIES_CARBON, 70.),
    (CO2, USER_MAT, 273.15),
    (CO2, PROPERTIES_CARBON, 300.),
    (BIG_ADS, USER_MAT, 150.),
    (TINY_ADS, TINY_MAT, 77.),
    (ZERO_ADS, BAD_MAT, 77.),
    (N2, BAD_MAT, 77.),
]

# ---------------------------------------------------------------- exact potential tables
for geo in ['sphere', 'slit', 'cylinder']:
    for i, (ads, mat, temp) in enumerate(combos):
        if geo == 'cylinder' and i > 1:
            continue  # cylinder potential is unchanged, only a control
        for as_numpy in [False, True]:
            run(f'potential table {geo} combo{i} numpy={as_numpy}', potential_table, geo, ads, mat, temp, as_numpy)

# ---------------------------------------------------------------- full calculations
pressure = np.array([1e-7, 1e-6, 1e-5, 1e-4, 1e-3, 5e-3, 0.02, 0.05, 0.1, 0.2])
loading = np.array([0.4, 1.1, 2.3, 3.9, 5.2, 6.0, 6.8, 7.3, 7.7, 8.1])
p_wide = np.array([1e-5, 1e-3, 0.05, 0.3, 0.6, 0.9, 0.95, 0.99])
l_wide = np.array([1., 2, 3, 4, 5, 6, 7, 8])

for geo in ['sphere', 'slit']:
    for cy in [False, True]:
        for i, (ads, mat, temp) in enumerate(combos):
            run(f'HK {geo} cy={cy} combo{i}', pmic.psd_horvath_kawazoe, pressure, loading, temp, geo, ads, mat, use_cy=cy)
        run(f'HK {geo} cy={cy} wide', pmic.psd_horvath_kawazoe, p_wide, l_wide, 120., geo, N2, PROPERTIES_AlPh_OXIDE_ION, use_cy=cy)
        run(f'HK {geo} cy={cy} lists', pmic.psd_horvath_kawazoe, list(p_wide), list(l_wide), 200., geo, AR, USER_MAT, use_cy=cy)

# round trip: pressures generated from the published slit equation for chosen widths
def hk_slit_pressure(width, ads, mat, temp):
    d_eff = (ads['molecular_diameter'] + mat['molecular_diameter']) / 2
    a_ads, a_mat = pmic._dispersion_from_dict(ads, mat)
    sigma = 0.8583742 * d_eff
    l_pore = width + mat['molecular_diameter']
    coeff = pmic._N_over_RT(temp) * (ads['surface_density'] * a_ads + mat['surface_density'] * a_mat) / (sigma * 1e-9)**4
    return np.exp(
        coeff / (l_pore - 2 * d_eff) * (
            sigma**4 / 3 / (l_pore - d_eff)**3 - sigma**10 / 9 / (l_pore - d_eff)**9 - sigma**4 / 3 / d_eff**3 +
            sigma**10 / 9 / d_eff**9
        )
    )


widths = np.array([0.4, 0.45, 0.5, 0.6, 0.7, 0.85, 1.0, 1.3, 1.7, 2.2, 3.0])
for ads, mat, temp in combos[:6]:
    pp = hk_slit_pressure(widths, ads, mat, temp)
    run(f'HK slit round trip T={temp}', pmic.psd_horvath_kawazoe, pp, np.arange(1., 12.), temp, 'slit', ads, mat)

# error paths and degenerate inputs
run('HK sphere empty', pmic.psd_horvath_kawazoe, [], [], 77., 'sphere', N2, PROPERTIES_CARBON)
run('HK sphere mismatch', pmic.psd_horvath_kawazoe, [0.1], [1., 2.], 77., 'sphere', N2, PROPERTIES_CARBON)
run('HK sphere single', pmic.psd_horvath_kawazoe, [0.1], [1.], 77., 'sphere', N2, PROPERTIES_CARBON)
run('HK slit single cy', pmic.psd_horvath_kawazoe, [0.1], [1.], 77., 'slit', N2, PROPERTIES_CARBON, True)
run('HK sphere T=0', pmic.psd_horvath_kawazoe, [0.1, 0.2], [1., 2.], 0., 'sphere', N2, PROPERTIES_CARBON)
run('HK slit T<0', pmic.psd_horvath_kawazoe, [0.1, 0.2], [1., 2.], -50., 'slit', N2, PROPERTIES_CARBON)
run('HK sphere missing ads key', pmic.psd_horvath_kawazoe, [0.1, 0.2], [1., 2.], 77., 'sphere', PROPERTIES_CARBON, PROPERTIES_CARBON)
run('HK sphere missing mat key', pmic.psd_horvath_kawazoe, [0.1, 0.2], [1., 2.], 77., 'sphere', N2, {'molecular_diameter': 0.3})
run('HK sphere p>1', pmic.psd_horvath_kawazoe, [0.5, 1.0, 1.5], [1., 2., 3.], 77., 'sphere', N2, PROPERTIES_CARBON)
run('HK slit p=0', pmic.psd_horvath_kawazoe, [0.0, 0.1, 0.2], [1., 2., 3.], 77., 'slit', N2, PROPERTIES_CARBON)
run('HK sphere decreasing p', pmic.psd_horvath_kawazoe, [0.2, 0.1, 0.01], [1., 2., 3.], 77., 'sphere', N2, PROPERTIES_CARBON)

iso = pygaps.PointIsotherm(
    pressure=list(pressure) + [0.4, 0.8],
    loading=list(loading) + [8.4, 9.0],
    material='TEST',
    adsorbate='N2',
    temperature=77.355,
    pressure_mode='relative',
    loading_basis='molar',
    loading_unit='mmol',
    material_basis='mass',
    material_unit='g',
)
for model in ['HK', 'HK-CY']:
    for geo in ['slit', 'sphere']:
        for mm in ['Carbon(HK)', 'AlSiOxideIon', 'AlPhOxideIon', USER_MAT]:
            run(f'psd_microporous {model} {geo} {mm if isinstance(mm, str) else "user"}', pmic.psd_microporous, iso, psd_model=model, pore_geometry=geo, material_model=mm)
