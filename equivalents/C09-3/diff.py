# ---------------------------------------------------------------- harness
# (shared, embedded verbatim in every diffN.py so that each script is self-contained)
import gc
import hashlib
import logging
import os
import re
import shutil
import sqlite3
import sys
import tempfile
import warnings

warnings.filterwarnings("ignore")

import numpy
import pandas

import pygaps
import pygaps.parsing.sqlite as pgsql
from pygaps.data import ADSORBATE_LIST
from pygaps.data import MATERIAL_LIST
from pygaps.utilities.sqlite_db_pragmas import PRAGMAS
from pygaps.utilities.sqlite_utilities import db_execute_general

assert pgsql.__file__.startswith('/tmp/eq/C09/src/'), pgsql.__file__

TMP = tempfile.mkdtemp(prefix='eqC09_')
OUT = []
EVENTS = []  # trace of the current case


def emit(*parts):
    line = " ".join(str(p) for p in parts)
    OUT.append(line.replace(TMP, '<TMP>'))


def sig(x):
    """Canonical text of a value (floats to 12 significant digits)."""
    if isinstance(x, float):
        return repr(float(f"{x:.12g}"))
    if isinstance(x, (numpy.floating, )):
        return sig(float(x))
    if isinstance(x, dict):
        return "{" + ", ".join(f"{sig(k)}: {sig(v)}" for k, v in x.items()) + "}"
    if isinstance(x, (list, tuple)):
        o, c = ("[", "]") if isinstance(x, list) else ("(", ")")
        return o + ", ".join(sig(v) for v in x) + c
    if isinstance(x, sqlite3.Row):
        return "Row" + sig(tuple(x))
    if isinstance(x, numpy.ndarray):
        return "nd" + sig(x.tolist())
    if isinstance(x, (sqlite3.Cursor, sqlite3.Connection)):
        return f"<{type(x).__name__}>"
    if x is None or isinstance(x, (str, int, bool, bytes)):
        return repr(x)
    if isinstance(x, type({}.keys())):
        return "keys" + sig(list(x))
    r = repr(x)
    # no memory addresses in the canonical text
    return re.sub(r" at 0x[0-9a-f]+", "", r)


def exc_text(err):
    cause = err.__cause__
    return (
        f"{type(err).__module__}.{type(err).__name__}: {err} "
        f"| cause={type(cause).__name__ if cause is not None else None}"
        f"{(': ' + str(cause)) if cause is not None else ''} "
        f"| suppress_context={err.__suppress_context__}"
    )


# --- log capture
class _ListHandler(logging.Handler):
    def emit(self, record):
        EVENTS.append(f"log[{record.levelname}] {record.getMessage()}")


for _h in list(pygaps.logger.handlers):
    pygaps.logger.removeHandler(_h)
pygaps.logger.addHandler(_ListHandler())


# --- tracing / fault injecting connection
class Fault:
    """Raise `exc` (or die with os._exit) at a given point of the next operation.

    point: ('exec', k) before the k-th traced execute (1-based, PRAGMA included),
           ('after_exec', k) after the k-th execute ran for real,
           ('cursor',), ('commit',), ('after_commit',), ('rollback',), ('close',)
    """
    def __init__(self, point=None, exc=None, die=False):
        self.point, self.exc, self.die = point, exc, die
        self.n_exec = 0

    def hit(self, *point):
        if self.point == point:
            if self.die:
                os._exit(77)
            EVENTS.append(f"FAULT at {point}: {type(self.exc).__name__}")
            raise self.exc


FAULT = Fault()


class TCursor(sqlite3.Cursor):
    def execute(self, sql, params=()):
        FAULT.n_exec += 1
        k = FAULT.n_exec
        EVENTS.append(f"exec#{k} {' '.join(sql.split())} <- {sig(params)}")
        FAULT.hit('exec', k)
        ret = super().execute(sql, params)
        FAULT.hit('after_exec', k)
        return ret


class TConn(sqlite3.Connection):
    def __setattr__(self, name, value):
        EVENTS.append(f"conn.{name} = {getattr(value, '__name__', value)}")
        super().__setattr__(name, value)

    def cursor(self, *a, **kw):
        EVENTS.append("conn.cursor()")
        FAULT.hit('cursor')
        return super().cursor(TCursor)

    def commit(self):
        EVENTS.append("conn.commit()")
        FAULT.hit('commit')
        super().commit()
        FAULT.hit('after_commit')

    def rollback(self):
        EVENTS.append("conn.rollback()")
        FAULT.hit('rollback')
        super().rollback()

    def close(self):
        EVENTS.append("conn.close()")
        FAULT.hit('close')
        super().close()


_real_connect = sqlite3.connect


def _tracing_connect(database, *a, **kw):
    EVENTS.append(f"sqlite3.connect({database!r})".replace(TMP, '<TMP>'))
    return _real_connect(database, *a, factory=TConn, **kw)


sqlite3.connect = _tracing_connect


# --- databases
def make_template():
    """Empty pyGAPS schema plus the standard isotherm types (no tracing)."""
    pth = os.path.join(TMP, 'template.db')
    sqlite3.connect = _real_connect
    try:
        for pragma in PRAGMAS:
            db_execute_general(pragma, pth)
        con = _real_connect(pth)
        for tp in ('isotherm', 'pointisotherm', 'modelisotherm'):
            con.execute("INSERT INTO isotherm_type (type) VALUES (?)", (tp, ))
        con.commit()
        con.close()
    finally:
        sqlite3.connect = _tracing_connect
    return pth


TEMPLATE = make_template()
_n_db = [0]


def fresh_db(src=None):
    _n_db[0] += 1
    pth = os.path.join(TMP, f"db{_n_db[0]:03d}.db")
    shutil.copy(src or TEMPLATE, pth)
    return pth


TABLES = [
    'adsorbates', 'adsorbate_properties_type', 'adsorbate_properties', 'materials',
    'material_properties_type', 'material_properties', 'isotherm_type', 'isotherms',
    'isotherm_properties', 'isotherm_data'
]


def dump_db(pth, full=True):
    """Canonical text of the complete committed content of a database file."""
    con = _real_connect(pth)
    lines = []
    for tb in TABLES:
        rows = con.execute(f'SELECT * FROM "{tb}" ORDER BY 1').fetchall()
        lines.append(f"  {tb}[{len(rows)}]: " + "; ".join(sig(tuple(r)) for r in rows))
    ic = con.execute("PRAGMA integrity_check").fetchall()
    fk = con.execute("PRAGMA foreign_key_check").fetchall()
    lines.append(f"  integrity={ic} fk_violations={fk}")
    con.close()
    leftovers = sorted(
        f[len(os.path.basename(pth)):] for f in os.listdir(os.path.dirname(pth))
        if f.startswith(os.path.basename(pth)) and f != os.path.basename(pth)
    )
    lines.append(f"  side files: {leftovers}")
    text = "\n".join(lines)
    if full:
        return text
    return "  db sha1 " + hashlib.sha1(text.encode()).hexdigest() + "\n" + lines[-2]


def lists_text():
    now = {id(a) for a in ADSORBATE_LIST}
    added = [a for a in ADSORBATE_LIST if id(a) not in _ADS0_IDS]
    removed = [a.name for a in _ADS0 if id(a) not in now]
    return (
        f"  MATERIAL_LIST={[str(m.name) + ':' + sig(m.properties) for m in MATERIAL_LIST]} "
        f"ADSORBATE_LIST[{len(ADSORBATE_LIST)}] added="
        f"{[str(a.name) + ':' + sig(a.properties) for a in added]} removed={removed}"
    )


def reset_lists():
    del MATERIAL_LIST[:]
    ADSORBATE_LIST[:] = _ADS0


_ADS0 = list(ADSORBATE_LIST)
_ADS0_IDS = {id(a) for a in _ADS0}


def run(label, call, db=None, fault=None, full=True, show_ret=True):
    """Run one case: trace, result/exception, committed db content, module lists."""
    global FAULT
    del EVENTS[:]
    FAULT = fault or Fault()
    emit(f"=== {label}")
    try:
        ret = call()
        res = f"  -> returned {sig(ret) if show_ret else type(ret).__name__}"
    except BaseException as err:  # noqa
        res = f"  -> raised {exc_text(err)}"
    if FAULT.exc is not None:
        FAULT.exc.__traceback__ = None
    FAULT = Fault()
    # frames kept alive by a traceback keep cursors (hence open statements) alive: drop them now,
    # not whenever the collector happens to run
    gc.collect()
    for ev in EVENTS:
        emit("   ", ev)
    emit(res)
    if db is not None:
        emit(dump_db(db, full=full))
    emit(lists_text())


def run_death(label, call, db, fault):
    """Run the call in a forked child that dies abruptly at the fault point."""
    global FAULT
    emit(f"=== {label}")
    sys.stdout.flush()
    sys.stderr.flush()
    pid = os.fork()
    if pid == 0:
        try:
            FAULT = fault
            call()
        except BaseException:  # noqa
            os._exit(55)
        os._exit(0)
    _, status = os.waitpid(pid, 0)
    emit(f"  child exit code {os.WEXITSTATUS(status)}")
    emit(dump_db(db))
    # the survivor can repeat the operation on the same file
    FAULT = Fault()
    del EVENTS[:]
    try:
        ret = call()
        emit(f"  repeat -> returned {sig(ret)}")
    except BaseException as err:  # noqa
        emit(f"  repeat -> raised {exc_text(err)}")
    gc.collect()
    emit(dump_db(db))
    reset_lists()


def finish():
    sqlite3.connect = _real_connect
    shutil.rmtree(TMP, ignore_errors=True)
    sys.stdout.write("\n".join(OUT) + "\n")


# --- objects
def mk_material(name='M1', **props):
    return pygaps.Material(name, **props)


def mk_adsorbate(name='A1', **props):
    return pygaps.Adsorbate(name, **props)


ISO_PARAMS = dict(
    material='M1', adsorbate='A1', temperature=77.0, date='26/06/92', lab='TL', is_real=True,
    flag=False, n_runs=3, frac=0.25
)


def mk_point(**over):
    p = dict(ISO_PARAMS)
    p.update(over)
    cols = p.pop('_cols', None) or {
        'pressure': [1.0, 2.0, 3.0, 4.0],
        'loading': [0.5, 1.0, 1.4, 1.6],
        'enthalpy': [5.2, 5.1, 5.0, 4.9],
        'text_data': ['a', 'b', 'c', 'd'],
    }
    return pygaps.PointIsotherm(
        isotherm_data=pandas.DataFrame(cols), pressure_key='pressure', loading_key='loading', **p
    )


def mk_model(**over):
    p = dict(ISO_PARAMS)
    p.update(over)
    return pygaps.ModelIsotherm(
        pressure=[1.0, 2.0, 3.0, 4.0], loading=[0.5, 1.0, 1.5, 2.0], model='Henry', **p
    )


def mk_base(**over):
    p = dict(ISO_PARAMS)
    p.update(over)
    return pygaps.core.baseisotherm.BaseIsotherm(**p)


EXCS = {
    'Integrity': lambda: sqlite3.IntegrityError("injected integrity"),
    'Interface': lambda: sqlite3.InterfaceError("injected interface"),
    'Operational': lambda: sqlite3.OperationalError("injected disk I/O error"),
}
# ---------------------------------------------------------------- end of harness
# ---------------------------------------------------------------- cases: isotherm_to_db
def seeded():
    """A database with some prior content."""
    db = fresh_db()
    pgsql.material_to_db(mk_material('M0', density=1.5, comment='old'), db_path=db, verbose=False)
    pgsql.material_to_db(mk_material('M1'), db_path=db, verbose=False)
    pgsql.adsorbate_to_db(mk_adsorbate('A0', formula='X2', alias=['a0', 'a-zero']), db_path=db, verbose=False)
    pgsql.adsorbate_to_db(mk_adsorbate('A1'), db_path=db, verbose=False)
    pgsql.isotherm_to_db(mk_point(material='M0', adsorbate='A0'), db_path=db, verbose=False)
    pgsql.isotherm_to_db(mk_model(material='M0', adsorbate='A0', temperature=88.0), db_path=db, verbose=False)
    reset_lists()
    return db


SEED = seeded()
emit("seed content")
emit(dump_db(SEED))


def reg_ads(name, **props):
    """Register an adsorbate with properties in the module list (an isotherm only takes the name)."""
    ADSORBATE_LIST.append(mk_adsorbate(name, **props))
    return name


def iso_text(iso):
    d = iso.to_dict()
    out = [type(iso).__name__, iso.iso_id, sig(d)]
    if isinstance(iso, pygaps.PointIsotherm):
        out.append(sig({c: iso.data_raw[c].tolist() for c in iso.data_raw.columns}))
    if isinstance(iso, pygaps.ModelIsotherm):
        out.append(sig(iso.model.to_dict()))
    return " | ".join(out)


def read_back(db):
    return sorted(iso_text(i) for i in pgsql.isotherms_from_db(db_path=db, verbose=False))


class FakeIso:
    """Quacks enough to get past the auto-insert step."""
    iso_id = 'fake'

    def __init__(self, material, adsorbate):
        self.material, self.adsorbate = material, adsorbate

    def to_dict(self):
        return {'material': 'M1', 'adsorbate': 'A1', 'temperature': 1.0}


base_cols = {'pressure': [1.0, 2.0, 3.0, 4.0], 'loading': [0.5, 1.0, 1.4, 1.6]}
ISOS = {
    'point, float+text columns': lambda: mk_point(),
    'point, no other columns': lambda: mk_point(_cols=dict(base_cols)),
    'point, several float columns': lambda: mk_point(_cols=dict(base_cols, z=[9.0, 8.0, 7.0, 6.0], a=[0.1, 0.2, 0.3, 0.4], m=[1e-9, 1e9, -0.0, 2.5])),
    'point, int column (numpy int is not storable)': lambda: mk_point(_cols=dict(base_cols, good=[1.5, 2.5, 3.5, 4.5], n=[1, 2, 3, 4], zlate=[0.1, 0.2, 0.3, 0.4])),
    'point, bool column': lambda: mk_point(_cols=dict(base_cols, ok=[True, False, True, True])),
    'point, object column with None first': lambda: mk_point(_cols=dict(base_cols, o=[None, 'a', 'b', 'c'])),
    'point, python objects column': lambda: mk_point(_cols=dict(base_cols, o=[1.5, 'a', 2, None])),
    'point, NaN in column': lambda: mk_point(_cols=dict(base_cols, q=[float('nan'), 1.0, 2.0, 3.0])),
    'point, desorption branch': lambda: mk_point(_cols={'pressure': [1.0, 2.0, 3.0, 2.0, 1.0], 'loading': [0.5, 1.0, 1.4, 1.2, 0.7], 'e': [1.0, 2.0, 3.0, 4.0, 5.0]}),
    'point, single point': lambda: mk_point(_cols={'pressure': [1.0], 'loading': [0.5], 'e': [3.0]}),
    'point, material with properties (dict in to_dict)': lambda: mk_point(material=mk_material('Mprops', density=2.2, tags=['u', 'v'])),
    'point, units changed': lambda: mk_point(pressure_unit='Pa', loading_unit='mol', material_unit='kg', temperature=300.0),
    'model Henry': lambda: mk_model(),
    'model Langmuir': lambda: pygaps.ModelIsotherm(pressure=[0.1, 0.5, 1.0, 2.0, 4.0, 8.0], loading=[0.09, 0.33, 0.5, 0.66, 0.8, 0.88], model='Langmuir', material='M1', adsorbate='A1', temperature=77.0, note='fitted'),
    'model, new material and adsorbate': lambda: mk_model(material='Mnew', adsorbate=reg_ads('Anew', formula='Q', alias=['an'])),
    'base isotherm': lambda: mk_base(),
    'base isotherm, no extras': lambda: pygaps.core.baseisotherm.BaseIsotherm(material='M1', adsorbate='A1', temperature=1.0),
    'property None': lambda: mk_point(first='ok', nothing=None),
    'property list': lambda: mk_base(first='ok', lst=[1, 2]),
    'property dict': lambda: mk_model(first='ok', dct={'a': 1}),
    'property numpy bool / float': lambda: mk_base(nb=numpy.bool_(True), nf=numpy.float64(2.5)),
    'property huge int': lambda: mk_point(big=2**80),
    'many bools': lambda: mk_base(b1=True, b2=False, b3=True, one=1, zero=0, s_true='TRUE'),
    'new material, known adsorbate': lambda: mk_point(material='Mnew'),
    'known material, new adsorbate': lambda: mk_point(adsorbate='Anew'),
    'both new': lambda: mk_point(material='Mnew', adsorbate='Anew'),
    'new material with a None property (nested failure)': lambda: mk_point(material=mk_material('Mbad', fine=1, nothing=None)),
    'real adsorbate from the library list': lambda: mk_point(adsorbate='N2'),
}

# --- 1. every isotherm shape x auto-insert switches
for label, make in ISOS.items():
    for am, aa in ((True, True), (False, False), (True, False), (False, True)):
        db = fresh_db(SEED)
        iso = make()
        run(f"upload [{label}] autoinsert material={am} adsorbate={aa}", lambda: pgsql.isotherm_to_db(iso, db_path=db, autoinsert_material=am, autoinsert_adsorbate=aa, verbose=am), db, full=(am and aa and label in ('point, float+text columns', 'model Henry', 'base isotherm', 'both new')))
        run("   read back", lambda: read_back(db), None)
        reset_lists()

# --- 2. odd arguments
db = fresh_db(SEED)
run("duplicate isotherm", lambda: pgsql.isotherm_to_db(mk_point(material='M0', adsorbate='A0'), db_path=db), db, full=False)
run("positional arguments", lambda: pgsql.isotherm_to_db(mk_point(temperature=11.0), db, False, False, False), db, full=False)
run("not an isotherm: str", lambda: pgsql.isotherm_to_db('abc', db_path=db), db, full=False)
run("not an isotherm: None", lambda: pgsql.isotherm_to_db(None, db_path=db), db, full=False)
run("unknown isotherm type, after auto-insert of its material", lambda: pgsql.isotherm_to_db(FakeIso(mk_material('Mfake', x=1), mk_adsorbate('Afake')), db_path=db), db, full=False)
run("unknown isotherm type, no auto-insert", lambda: pgsql.isotherm_to_db(FakeIso(mk_material('Mfake', x=1), mk_adsorbate('Afake')), db, False, False), db, full=False)
run("state after the odd calls", lambda: read_back(db), db)
reset_lists()

# --- 3. a fault of every kind at every statement
def n_statements(call):
    db = fresh_db(SEED)
    del EVENTS[:]
    call(db)
    reset_lists()
    return sum(1 for e in EVENTS if e.startswith('exec#'))


ops = {
    'point+autoinsert': lambda db: pgsql.isotherm_to_db(mk_point(material=mk_material('Mnew', density=3.0), adsorbate=reg_ads('Anew', formula='Q')), db_path=db, verbose=False),
    'model': lambda db: pgsql.isotherm_to_db(mk_model(material='M1', adsorbate='A1'), db_path=db, verbose=False),
    'base, no checks': lambda db: pgsql.isotherm_to_db(mk_base(material='M1', adsorbate='A1', only=True), db, False, False, False),
}
for opname, op in ops.items():
    n = n_statements(op)
    emit(f"--- {opname}: {n} statements")
    for kind in ('Integrity', 'Interface', 'Operational'):
        for k in range(1, n + 1):
            for when in ('exec', 'after_exec'):
                if when == 'after_exec' and kind != 'Operational' and k % 3:
                    continue
                db = fresh_db(SEED)
                run(f"{opname}: {kind} {when} {k}", lambda: op(db), db, fault=Fault((when, k), EXCS[kind]()), full=False)
                run("   repeat", lambda: op(db), db, full=False)
                reset_lists()
        for point in (('commit', ), ('after_commit', )):
            db = fresh_db(SEED)
            run(f"{opname}: {kind} at {point}", lambda: op(db), db, fault=Fault(point, EXCS[kind]()), full=False)
            reset_lists()
    for k in range(1, n + 1):
        db = fresh_db(SEED)
        run_death(f"{opname}: process dies before statement {k}", lambda: op(db), db, Fault(('exec', k), die=True))
    for point in (('after_exec', n), ('commit', ), ('after_commit', )):
        db = fresh_db(SEED)
        run_death(f"{opname}: process dies at {point}", lambda: op(db), db, Fault(point, die=True))

finish()
