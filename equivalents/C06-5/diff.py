"""Differential script for change 1 (isotherm_to_json writer)."""
import pathlib

import eqcommon as c
from pygaps.parsing.json import isotherm_from_json
from pygaps.parsing.json import isotherm_to_json

CASES = c.all_cases()


def export_all(make, tag):
    iso = make()
    res = {}
    before = c.canon(iso.data_raw) if hasattr(iso, 'data_raw') else None
    res['str'] = isotherm_to_json(iso)
    res['method'] = iso.to_json()
    res['indent'] = isotherm_to_json(iso, indent=2)
    res['unsorted_request'] = isotherm_to_json(iso, sort_keys=False, ensure_ascii=False, separators=(',', ':'))
    res['empty_path'] = isotherm_to_json(iso, '')
    path = c.tmpfile(tag.replace('/', '_') + '.json')
    res['file_ret'] = isotherm_to_json(iso, path)
    with open(path, encoding='utf-8') as fil:
        res['file_text'] = fil.read()
    ppath = pathlib.Path(path + '.p')
    res['pfile_ret'] = iso.to_json(ppath, indent=1, ensure_ascii=False)
    res['pfile_text'] = ppath.read_text(encoding='utf-8')
    after = c.canon(iso.data_raw) if hasattr(iso, 'data_raw') else None
    res['data_untouched'] = before == after
    res['second_export_same'] = isotherm_to_json(iso) == res['str']
    return res


def roundtrip(make):
    iso = make()
    text = isotherm_to_json(iso)
    back = isotherm_from_json(text, **c.read_keys(iso))
    return {'equal': back == iso, 'same_doc': isotherm_to_json(back) == text, 'back': back}


for name, make in CASES.items():
    c.run("export " + name, lambda m=make, n=name: export_all(m, n))
    c.run("roundtrip " + name, lambda m=make: roundtrip(m))

# error paths / argument edge cases
base = CASES['point/df_extra']
c.run("bad kwarg", lambda: isotherm_to_json(base(), foo=1))
c.run("bad kwarg file", lambda: isotherm_to_json(base(), c.tmpfile('bad.json'), foo=1))
c.run("missing dir", lambda: isotherm_to_json(base(), c.tmpfile('no/such/dir/x.json')))
c.run("path is dir", lambda: isotherm_to_json(base(), c.TMPDIR))
c.run("default hook", lambda: isotherm_to_json(c.BaseIsotherm(**c.base_kwargs(), obj=object()), default=lambda o: 'OBJ'))
c.run("unserialisable", lambda: isotherm_to_json(c.BaseIsotherm(**c.base_kwargs(), obj={1, 2})))
c.run("not an isotherm", lambda: isotherm_to_json(None))
c.run("allow_nan False", lambda: isotherm_to_json(base(), allow_nan=False))
c.run("skipkeys", lambda: isotherm_to_json(CASES['base/std/none/name'](), skipkeys=True, indent='\t'))
