"""Differential transcript for patch C10-2 (BET / GAB / Quadratic analytical inversion)."""
import itertools
import warnings

import numpy

import pygaps
from pygaps.modelling import get_isotherm_model

assert pygaps.__file__.startswith('/var/tmp/wt/eq3-10/'), pygaps.__file__
numpy.seterr(all='warn')


def fmt(res):
    if isinstance(res, numpy.ndarray):
        return f'ndarray {res.dtype} {res.shape} {res.tolist()!r} writeable={res.flags.writeable}'
    return f'{type(res).__name__} {res!r}'


def show(label, fn):
    with warnings.catch_warnings(record=True) as caught:
        warnings.simplefilter('always')
        try:
            out = 'OK ' + fmt(fn())
        except BaseException as err:  # noqa
            out = f'!! {type(err).__name__} {err} | cause {type(err.__cause__).__name__}'
    warns = sorted({f'{w.category.__name__}:{w.message}' for w in caught})
    print(label, '->', out, '| warnings', warns)


def show_strict(label, fn):
    """The same with warnings turned into errors: the first warning decides."""
    with warnings.catch_warnings():
        warnings.simplefilter('error')
        try:
            out = 'OK ' + fmt(fn())
        except BaseException as err:  # noqa
            out = f'!! {type(err).__name__} {err}'
    print(label, '[strict] ->', out)


GRID = {
    'BET': [
        dict(n_m=n_m, C=C, N=N)
        for n_m, C, N in itertools.product((0.0, 0.5, 4.0, 1e6), (0.0, 1e-3, 1.0, 80.0, 1e8), (0.0, 1e-6, 0.5, 0.9, 1.0))
    ],
    'GAB': [
        dict(n_m=n_m, C=C, K=K)
        for n_m, C, K in itertools.product((0.0, 0.5, 4.0, 1e6), (0.0, 1e-3, 1.0, 2.0, 20.0, 1e8), (0.0, 1e-6, 0.5, 0.8, 1.0))
    ],
    'Quadratic': [
        dict(n_m=n_m, Ka=Ka, Kb=Kb) for n_m, Ka, Kb in
        itertools.product((0.0, 0.5, 3.0, 1e6), (-5.0, 0.0, 1e-3, 2.0, 1e6), (-5.0, 0.0, 1e-3, 5.0, 1e6))
    ],
}
PRESSURES = [
    0.0, 0, 1e-12, 1e-3, 0.1, 0.5, 0.99, 1.0, 1.5, -0.1,
    numpy.float64(0.3),
    numpy.array(0.3),
    numpy.array([0.0, 0.01, 0.2, 0.7]),
    numpy.array([[0.1, 0.2], [0.3, 0.4]]),
    numpy.array([1, 2]),
    numpy.array([]),
]
LOADINGS = [
    0.0, 0, 1e-12, 1e-3, 0.1, 1.0, 3.9, 4.0, 4.1, 50.0, -0.1,
    float('nan'),
    float('inf'),
    numpy.float64(0.3),
    numpy.float32(0.3),
    numpy.array(0.3),
    numpy.array(float('nan')),
    numpy.array([0.0, 0.01, 0.2, 0.7]),
    numpy.array([0.0, float('nan'), 1.0, 1e9]),
    numpy.array([[0.1, 0.2], [0.3, 0.4]]),
    numpy.array([1, 2]),
    numpy.array([]),
    [0.1, 0.2],
    (0.1, ),
    '0.1',
    None,
]


def lab(val):
    if isinstance(val, numpy.ndarray):
        return f'array({val.tolist()!r},{val.dtype})'
    return f'{type(val).__name__}({val!r})'


for name, grid in GRID.items():
    for params in grid:
        model = get_isotherm_model(name, parameters=dict(params))
        print('=====', name, params)
        for n in LOADINGS:
            show(f'{name}{params}.pressure({lab(n)})', lambda: model.pressure(n))
        for p in PRESSURES:
            show(f'{name}{params}.loading({lab(p)})', lambda: model.loading(p))
            show(f'{name}{params}.pressure(loading({lab(p)}))', lambda: model.pressure(model.loading(p)))
            show(f'{name}{params}.spreading_pressure({lab(p)})', lambda: model.spreading_pressure(p))
        print('params after', model.params)

# ---- warnings as errors on a sub-grid
for name, grid in GRID.items():
    for params in grid[::7]:
        model = get_isotherm_model(name, parameters=dict(params))
        for n in LOADINGS[:13] + LOADINGS[17:20]:
            show_strict(f'{name}{params}.pressure({lab(n)})', lambda: model.pressure(n))

# ---- the input array must not be modified; result aliasing
for name in GRID:
    model = get_isotherm_model(name, parameters=dict(GRID[name][37]))
    arr = numpy.array([0.0, 0.5, float('nan'), 2.0, 1e3])
    keep = arr.copy()
    show(f'{name} array in', lambda: model.pressure(arr))
    with warnings.catch_warnings():
        warnings.simplefilter('ignore')
        print('input unchanged', numpy.array_equal(arr, keep, equal_nan=True), numpy.shares_memory(arr, model.pressure(arr)))
    ro = numpy.array([0.0, 0.5, 2.0, 1e3])
    ro.flags.writeable = False
    show(f'{name} read-only array in', lambda: model.pressure(ro))

# ---- parameters missing / unset / odd types
for name in GRID:
    show(f'{name} default (nan) params', lambda: get_isotherm_model(name).pressure(1.0))
    show(f'{name} default (nan) params array', lambda: get_isotherm_model(name).pressure(numpy.array([0.0, 1.0])))
    model = get_isotherm_model(name, parameters=dict(GRID[name][37]))
    for key in list(model.params):
        broken = get_isotherm_model(name, parameters=dict(GRID[name][37]))
        del broken.params[key]
        show(f'{name} without {key}', lambda: broken.pressure(1.0))
    broken = get_isotherm_model(name, parameters=dict(GRID[name][37]))
    broken.params = {}
    show(f'{name} empty params', lambda: broken.pressure(1.0))
    broken.params = None
    show(f'{name} params None', lambda: broken.pressure(1.0))
    arrp = get_isotherm_model(name, parameters={k: numpy.array([v, v + 1.0]) for k, v in GRID[name][37].items()})
    show(f'{name} array params', lambda: arrp.pressure(numpy.array([0.5, 1.0])))
    intp = get_isotherm_model(name, parameters={k: int(v) + 2 for k, v in GRID[name][37].items()})
    show(f'{name} int params', lambda: intp.pressure(1))
    show(f'{name} int params int array', lambda: intp.pressure(numpy.array([1, 2, 3])))

# ---- through a ModelIsotherm
material = pygaps.Material('diff-c10-2-carbon', density=2.1, molar_mass=12.011)
for name, params in (('BET', dict(n_m=4.0, C=80.0, N=0.9)), ('GAB', dict(n_m=4.0, C=20.0, K=0.8)), ('Quadratic', dict(n_m=3.0, Ka=2.0, Kb=5.0))):
    iso = pygaps.ModelIsotherm(
        model=get_isotherm_model(name, parameters=params), material=material, adsorbate='N2', temperature=77.355,
        pressure_mode='relative', pressure_unit=None, loading_basis='molar', loading_unit='mmol', material_basis='mass',
        material_unit='g'
    )
    for n in (0, 0.0, 0.5, [0.0, 0.5, 2.0], numpy.array([1.0, 3.5, 9.0])):
        show(f'iso {name} pressure_at({n!r})', lambda: iso.pressure_at(n))
        show(f'iso {name} pressure_at({n!r}, Pa, mol/kg)', lambda: iso.pressure_at(n, pressure_mode='absolute', pressure_unit='Pa', loading_unit='mol', material_unit='kg'))
        show(f'iso {name} loading_at(pressure_at({n!r}))', lambda: iso.loading_at(iso.pressure_at(n)))
    show(f'iso {name} loading(50 points)', lambda: iso.loading(points=7))
    show(f'iso {name} pressure(7 points)', lambda: iso.pressure(points=7))

# ---- fitting still gives the same numbers (uses loading only, but goes through the whole class)
pressure = numpy.linspace(0.01, 0.6, 25)
for name, params in (('BET', dict(n_m=4.0, C=80.0, N=0.9)), ('GAB', dict(n_m=4.0, C=20.0, K=0.8)), ('Quadratic', dict(n_m=3.0, Ka=2.0, Kb=5.0))):
    truth = get_isotherm_model(name, parameters=params)
    loading = truth.loading(pressure)
    show(
        f'fit {name}', lambda: (lambda iso: (iso.model.params, iso.model.rmse, fmt(iso.pressure_at(loading[::6]))))(
            pygaps.ModelIsotherm(
                pressure=pressure, loading=loading, model=name, material='m', adsorbate='N2', temperature=77.355,
                pressure_mode='relative', pressure_unit=None
            )
        )
    )
