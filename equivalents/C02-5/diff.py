"""Differential script for change 1: c_loading basis-pair constants (branch chain <-> table)."""
import itertools

import numpy
import pandas
from _common import call
from _common import make_iso
from _common import setup_lists
from _common import step

import pygaps
from pygaps.units.converter_mode import c_loading

mat, ads = setup_lists()
nobackend = pygaps.Adsorbate("fakegas")  # no thermodynamic backend, no molar mass

UNIT = {
    "mass": ["mg", "kg", "amu"],
    "molar": ["mmol", "cm3(STP)", "kmol"],
    "volume_gas": ["cm3", "L"],
    "volume_liquid": ["mL", "m3"],
    "percent": [None],
    "fraction": [None],
}
MATERIAL = [("mass", "g"), ("mass", "kg"), ("volume", "cm3"), ("volume", "m3"), ("molar", "mmol"), ("molar", "mol")]

values = {
    "float": 3.25,
    "zero": 0.0,
    "neg": -1.5,
    "array": numpy.array([0.0, 1.5, 3.25, 1e-9, 1e9]),
    "series": pandas.Series([0.0, 1.5, 3.25, 7.125]),
}

# ---- 1. every ordered pair of bases x first/last unit x two material configurations, scalar value
n = 0
for bf, bt in itertools.product(UNIT, UNIT):
    for uf, ut in ((UNIT[bf][0], UNIT[bt][-1]), (UNIT[bf][-1], UNIT[bt][0])):
        for bm, um in (MATERIAL[n % 6], MATERIAL[(n + 3) % 6]):
            n += 1
            call(
                f"pair {bf}/{uf}->{bt}/{ut} mat={bm}/{um}", c_loading, 3.25, bf, bt, uf, ut,
                adsorbate=ads, temp=77.0, basis_material=bm, unit_material=um
            )

# ---- 2. every ordered pair of bases with all value kinds, all six material configurations for %/fraction
for bf, bt in itertools.product(UNIT, UNIT):
    for (bm, um), (vname, val) in zip(itertools.cycle(MATERIAL), values.items()):
        call(
            f"kind {vname} {bf}->{bt} mat={bm}/{um}", c_loading, val, bf, bt, UNIT[bf][0], UNIT[bt][0],
            adsorbate=ads, temp=77.0, basis_material=bm, unit_material=um
        )
for bf in UNIT:
    for bm, um in MATERIAL:
        call(f"tofrac {bf} mat={bm}/{um}", c_loading, 2.0, bf, "fraction", UNIT[bf][0], None, ads, 77.0, bm, um)
        call(f"frompct {bf} mat={bm}/{um}", c_loading, 2.0, "percent", bf, None, UNIT[bf][0], ads, 77.0, bm, um)

# ---- 3. other temperatures (thermodynamic constants differ / fail above the critical point)
for temp in (65.0, 100.0, 126.0, 200.0, 0.0, None):
    for bf, bt in (("mass", "volume_gas"), ("volume_liquid", "molar"), ("volume_gas", "volume_liquid"),
                   ("molar", "mass"), ("fraction", "volume_gas")):
        call(
            f"temp {temp} {bf}->{bt}", c_loading, 1.0, bf, bt, UNIT[bf][0], UNIT[bt][0],
            adsorbate=ads, temp=temp, basis_material="volume", unit_material="cm3"
        )

# ---- 4. error paths
for bf, bt in itertools.permutations(["mass", "molar", "volume_gas", "volume_liquid"], 2):
    call(f"noads {bf}->{bt}", c_loading, 1.0, bf, bt, UNIT[bf][0], UNIT[bt][0], adsorbate=None, temp=77.0)
    call(f"nobackend {bf}->{bt}", c_loading, 1.0, bf, bt, UNIT[bf][0], UNIT[bt][0], adsorbate=nobackend, temp=77.0)
call("same basis no adsorbate", c_loading, 1.0, "mass", "mass", "g", "kg")
call("same basis same unit", c_loading, 1.0, "mass", "mass", "g", "g")
call("same basis unit None", c_loading, 1.0, "mass", "mass", "g", None)
call("same basis bad unit", c_loading, 1.0, "mass", "mass", "g", "stone")
call("fraction same", c_loading, 1.0, "fraction", "fraction", None, None)
call("fraction same unit given", c_loading, 1.0, "fraction", "fraction", None, "g")
call("bad basis from", c_loading, 1.0, "weight", "mass", "g", "g", ads, 77.0)
call("bad basis to", c_loading, 1.0, "mass", "weight", "g", "g", ads, 77.0)
call("None basis from", c_loading, 1.0, None, "mass", "g", "g", ads, 77.0)
call("empty basis to", c_loading, 1.0, "mass", "", "g", "g", ads, 77.0)
call("unhashable basis", c_loading, 1.0, ["mass"], "mass", "g", "g", ads, 77.0)
call("bad unit to", c_loading, 1.0, "mass", "molar", "g", "g", ads, 77.0)
call("bad unit from", c_loading, 1.0, "mass", "molar", "mol", "mol", ads, 77.0)
call("None unit to", c_loading, 1.0, "mass", "molar", "g", None, ads, 77.0)
call("None unit from", c_loading, 1.0, "mass", "molar", None, "mol", ads, 77.0)
call("pct no material basis", c_loading, 1.0, "mass", "percent", "g", None, ads, 77.0)
call("pct bad material basis", c_loading, 1.0, "mass", "percent", "g", None, ads, 77.0, "area", "m2")
call("pct bad material unit", c_loading, 1.0, "mass", "percent", "g", None, ads, 77.0, "mass", "cm3")
call("pct material volume_liquid", c_loading, 1.0, "mass", "percent", "g", None, ads, 77.0, "volume_liquid", "cm3")
call("frac none material unit", c_loading, 1.0, "fraction", "molar", None, "mol", ads, 77.0, "mass", None)
call("frac->mass same as material, no adsorbate", c_loading, 1.0, "fraction", "mass", None, "mg", None, None, "mass", "kg")
call("vol_liquid->pct material volume, no adsorbate", c_loading, 1.0, "volume_liquid", "percent", "L", None, None, None, "volume", "cm3")
call("string value", c_loading, "x", "mass", "molar", "g", "mol", ads, 77.0)

# ---- 5. through the isotherm (conversion histories that go through every pair)
iso = make_iso()
k = 0
for basis in ["mass", "volume_gas", "volume_liquid", "molar", "fraction", "percent", "mass", "percent", "molar",
              "volume_liquid", "volume_gas", "mass", "fraction", "volume_gas", "molar", "percent", "volume_liquid",
              "fraction", "molar"]:
    k += 1
    step(iso, f"hist{k}", "convert_loading", basis_to=basis, unit_to=UNIT[basis][k % len(UNIT[basis])])
    if k % 4 == 0:
        bm, um = MATERIAL[(k // 4) % 6]
        step(iso, f"hist{k}m", "convert_material", basis_to=bm, unit_to=um)
step(iso, "hist-bad", "convert_loading", basis_to="volume", unit_to="cm3")
step(iso, "hist-bad2", "convert_loading", basis_to="mass", unit_to="cm3")
step(iso, "hist-all", "convert", loading_basis="percent", material_basis="volume", material_unit="cm3")
step(iso, "hist-all2", "convert", loading_basis="molar", loading_unit="mol", material_basis="molar", material_unit="mol")

iso2 = make_iso(adsorbate="fakegas2")
step(iso2, "nobackend-iso", "convert_loading", basis_to="mass", unit_to="g")
step(iso2, "nobackend-iso2", "convert_loading", unit_to="mol")
