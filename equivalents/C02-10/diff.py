"""Differential transcript for C02-2: PointIsotherm.convert_loading / convert_material."""
import logging
import sys
import warnings

import numpy
import pandas

import pygaps
from pygaps import logger
from pygaps.core.material import Material
from pygaps.core.modelisotherm import ModelIsotherm
from pygaps.core.pointisotherm import PointIsotherm

warnings.simplefilter("ignore")
numpy.seterr(all="ignore")


class Capture(logging.Handler):
    """Print every log record of the library into the transcript."""
    def emit(self, record):
        print(f"    LOG {record.levelname}: {record.getMessage()!r}")


for h in list(logger.handlers):
    logger.removeHandler(h)
logger.addHandler(Capture(level=logging.DEBUG))


def hx(v):
    try:
        return float(v).hex()
    except (TypeError, ValueError):
        return repr(v)


def hexes(seq):
    return [hx(v) for v in numpy.ravel(numpy.asarray(seq, dtype=object))]


def snap(iso):
    print("    labels:", repr({k: iso.__dict__.get(k) for k in iso._unit_params}))
    print("    _temperature:", float(iso._temperature).hex())
    if hasattr(iso, "data_raw"):
        print("    columns:", list(iso.data_raw.columns), "index:", list(iso.data_raw.index))
        for col in iso.data_raw.columns:
            print(f"    {col} [{iso.data_raw[col].dtype}]:", hexes(iso.data_raw[col]))
        print("    interpolators:", iso.l_interpolator is None, iso.p_interpolator is None)
    print("    properties:", repr(iso.properties))
    print("    material:", repr(iso.material), repr(iso.material.properties))
    print("    keys:", list(vars(iso)))


def attempt(label, fn):
    print(f"  > {label}")
    try:
        res = fn()
        print("    returned:", repr(res))
        return res
    except BaseException as err:  # noqa
        print(f"    raised {type(err).__name__}: {str(err)!r}")
        cause = err.__cause__
        while cause is not None:
            print(f"    cause {type(cause).__name__}: {str(cause)!r}")
            cause = cause.__cause__
        return None


UNITS = dict(
    pressure_mode="absolute",
    pressure_unit="bar",
    loading_basis="molar",
    loading_unit="mmol",
    material_basis="mass",
    material_unit="g",
    temperature_unit="K",
)


def make_point(adsorbate="N2", temperature=77.355, material="TestMat", **kw):
    params = dict(UNITS, material=material, adsorbate=adsorbate, temperature=temperature,
                  comment="a comment", number=7)
    params.update(kw)
    data = pandas.DataFrame({
        "p": [0.01, 0.05, 0.1, 0.3, 0.6, 0.9, 0.5, 0.2],
        "l": [0.5, 1.1, 1.9, 3.2, 4.4, 5.0, 4.6, 3.5],
        "extra": [9.0, 8.0, 7.0, 6.0, 5.0, 4.0, 3.0, 2.0],
        "zeta": list("abcdefgh"),
    })
    return PointIsotherm(isotherm_data=data, pressure_key="p", loading_key="l", **params)


# ---------------------------------------------------------------- C02-2 body
print("module helpers:", sorted(n for n in dir(PointIsotherm) if n.startswith("convert")))

DENSE = {"name": "DenseMat", "density": 2.5, "molar_mass": 120.0}
NODENS = "PlainMat"

LOADING_SEQS = [
    [dict(unit_to="mol"), dict(unit_to="cm3(STP)"), dict(unit_to="mmol")],
    [dict(basis_to="mass", unit_to="g"), dict(unit_to="mg"), dict(basis_to="molar", unit_to="mmol")],
    [dict(basis_to="volume_gas", unit_to="cm3"), dict(basis_to="volume_liquid", unit_to="mL"),
     dict(basis_to="molar", unit_to="mmol")],
    [dict(basis_to="percent"), dict(basis_to="fraction"), dict(basis_to="fraction", unit_to="g"),
     dict(unit_to="kg", verbose=True), dict(basis_to="percent", unit_to="x"), dict(basis_to="molar", unit_to="mmol")],
    [dict(basis_to="fraction", verbose=True), dict(verbose=True), dict(unit_to=None),
     dict(basis_to="mass", unit_to="mg", verbose=True), dict(basis_to="molar", unit_to="mmol", verbose=True)],
    [dict(basis_to="bogus"), dict(unit_to="bogus"), dict(basis_to="mass"), dict(basis_to="mass", unit_to="mmol"),
     dict(basis_to="", unit_to=""), dict(basis_to="molar", unit_to="kmol")],
    [dict(basis_to="percent", unit_to="g"), dict(basis_to="molar"), dict(basis_to="molar", unit_to="mol")],
]

MATERIAL_SEQS = [
    [dict(unit_to="kg"), dict(unit_to="mg"), dict(unit_to="g")],
    [dict(basis_to="volume", unit_to="cm3"), dict(unit_to="m3"), dict(basis_to="molar", unit_to="mol"),
     dict(basis_to="mass", unit_to="g")],
    [dict(basis_to="molar", unit_to="mmol", verbose=True), dict(basis_to="volume", unit_to="L", verbose=True),
     dict(basis_to="mass", unit_to="kg", verbose=True), dict(verbose=True)],
    [dict(basis_to="bogus"), dict(unit_to="bogus"), dict(basis_to="volume"), dict(basis_to="volume", unit_to="g"),
     dict(basis_to="", unit_to=""), dict(basis_to="percent", unit_to="g"), dict(unit_to="kg")],
]

for adsorbate, temp in [("N2", 77.355), ("madeupgas", 77.355), ("CO2", 320.0)]:
    for mat in (DENSE, NODENS):
        for si, seq in enumerate(LOADING_SEQS):
            print(f"== loading: adsorbate={adsorbate} T={temp} material={mat!r} sequence {si}")
            iso = make_point(adsorbate, temp, material=dict(mat) if isinstance(mat, dict) else mat)
            iso.l_interpolator = iso.p_interpolator = "stale"
            snap(iso)
            for kw in seq:
                attempt(f"convert_loading({kw!r})", lambda: iso.convert_loading(**kw))
                snap(iso)
        for si, seq in enumerate(MATERIAL_SEQS):
            print(f"== material: adsorbate={adsorbate} T={temp} material={mat!r} sequence {si}")
            iso = make_point(adsorbate, temp, material=dict(mat) if isinstance(mat, dict) else mat)
            iso.l_interpolator = iso.p_interpolator = "stale"
            snap(iso)
            for kw in seq:
                attempt(f"convert_material({kw!r})", lambda: iso.convert_material(**kw))
                snap(iso)

# fractional / percent loading combined with material conversions (the simultaneous conversion branch)
for start_basis in ("fraction", "percent"):
    for adsorbate in ("N2", "madeupgas"):
        for mat in (DENSE, NODENS):
            print(f"== fractional material: {start_basis} {adsorbate} {mat!r}")
            iso = make_point(adsorbate, 77.355, material=dict(mat) if isinstance(mat, dict) else mat)
            attempt("to " + start_basis, lambda: iso.convert_loading(basis_to=start_basis))
            snap(iso)
            for kw in [dict(unit_to="kg"), dict(unit_to="bogus"), dict(unit_to="kg", verbose=True),
                       dict(basis_to="volume", unit_to="cm3", verbose=True), dict(unit_to="L"),
                       dict(basis_to="molar", unit_to="mol"), dict(basis_to="volume", unit_to="mL"),
                       dict(basis_to="mass", unit_to="bogus"), dict(basis_to="mass", unit_to="g", verbose=True),
                       dict(basis_to="mass", unit_to="g")]:
                attempt(f"convert_material({kw!r})", lambda: iso.convert_material(**kw))
                snap(iso)
            attempt("back to molar", lambda: iso.convert_loading(basis_to="molar", unit_to="mmol"))
            snap(iso)

# isotherms that start in a volumetric material basis, with and without fractional loading
for lb, lu in (("molar", "mmol"), ("fraction", None), ("percent", None), ("volume_liquid", "cm3")):
    print(f"== start volume/cm3 with loading {lb}")
    iso = attempt("make", lambda: make_point("N2", 77.355, material=dict(DENSE), material_basis="volume",
                                             material_unit="cm3", loading_basis=lb, loading_unit=lu))
    if iso is None:
        continue
    snap(iso)
    for kw in [dict(basis_to="mass", unit_to="g"), dict(basis_to="volume", unit_to="cm3"),
               dict(basis_to="molar", unit_to="mmol"), dict(basis_to="volume", unit_to="dm3")]:
        attempt(f"convert_material({kw!r})", lambda: iso.convert_material(**kw))
        snap(iso)
    for kw in [dict(basis_to="mass", unit_to="g"), dict(basis_to="percent"), dict(basis_to="volume_gas", unit_to="L")]:
        attempt(f"convert_loading({kw!r})", lambda: iso.convert_loading(**kw))
        snap(iso)

# positional calls, hand-corrupted labels, combined convert
print("== positional / corrupted / combined")
iso = make_point("N2", 77.355, material=dict(DENSE))
attempt("loading positional", lambda: iso.convert_loading("mass", "mg", True))
attempt("material positional", lambda: iso.convert_material("volume", "cm3", True))
snap(iso)
iso = make_point("N2", 77.355, material=dict(DENSE))
iso.loading_basis = "weird"
attempt("corrupt loading basis", lambda: iso.convert_loading("mass", "g"))
attempt("corrupt loading basis, material", lambda: iso.convert_material("volume", "cm3"))
snap(iso)
iso = make_point("N2", 77.355, material=dict(DENSE))
iso.material_basis = "weird"
attempt("corrupt material basis, loading to percent", lambda: iso.convert_loading("percent"))
attempt("corrupt material basis, material", lambda: iso.convert_material("volume", "cm3"))
attempt("corrupt material basis, unit only", lambda: iso.convert_material(unit_to="kg"))
snap(iso)
iso = make_point("N2", 77.355, material=dict(DENSE), loading_basis="fraction", loading_unit=None)
iso.loading_unit = "g"
attempt("fraction with stray unit: same", lambda: iso.convert_loading("fraction", "g", True))
attempt("fraction with stray unit: other", lambda: iso.convert_loading("fraction", "kg", True))
attempt("fraction with stray unit: none", lambda: iso.convert_loading("fraction", None, True))
snap(iso)
iso = make_point("N2", 77.355, material=dict(DENSE))
iso.loading_key = "missing"
attempt("missing column loading", lambda: iso.convert_loading(unit_to="mol"))
attempt("missing column material", lambda: iso.convert_material(unit_to="kg"))
snap(iso)
iso = make_point("N2", 77.355, material=dict(DENSE))
attempt("combined ok", lambda: iso.convert(pressure_unit="Pa", loading_basis="percent", material_basis="volume",
                                           material_unit="cm3", verbose=True))
snap(iso)
attempt("combined refused at loading", lambda: iso.convert(pressure_unit="bar", material_unit="L",
                                                           loading_basis="mass", loading_unit="bogus"))
snap(iso)
attempt("combined refused at material", lambda: iso.convert(pressure_unit="kPa", material_basis="bogus",
                                                            loading_basis="mass", loading_unit="g"))
snap(iso)
print(hexes(iso.loading()), hexes(iso.loading(branch="des", loading_basis="molar", loading_unit="mmol")))
