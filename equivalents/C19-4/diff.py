"""Differential script for change 4: Adsorbate.enthalpy_liquefaction / enthalpy_vaporisation."""
import sys, os
sys.path.insert(0, os.path.dirname(__file__))
import numpy as np
from _fmt import run, LogCapture

from pygaps.core.adsorbate import Adsorbate
from pygaps.characterisation.enth_sorp_whittaker import enthalpy_sorption_whittaker as whittaker

log = LogCapture()

names = ['N2', 'Ar', 'CO2', 'CH4', 'H2O', 'C4H10', 'NH3', 'Kr', 'O2', 'H2']
case = 0
for name in names:
    ads = Adsorbate.find(name)
    tt, tc = ads.t_triple(), ads.t_critical()
    pt, pc = ads.p_triple(), ads.p_critical()
    temps = [tt, tt + 1e-6, 0.5 * (tt + tc), tc - 1e-3, tc, tc + 10, tt - 5, 0, 0.0, None, -10.0, np.float64(0.6 * tt + 0.4 * tc)]
    presses = [pt, pt * (1 + 1e-9), np.sqrt(pt * pc), pc * 0.999, pc, pc * 2, pt / 2, 0, None, -5.0, 101325, np.float64(2e5)]
    for T in temps:
        case += 1
        run(f"{case} {name} liq temp={T!r}", ads.enthalpy_liquefaction, T, log=log)
    for p in presses:
        case += 1
        run(f"{case} {name} liq press={p!r}", ads.enthalpy_liquefaction, press=p, log=log)
    case += 1
    run(f"{case} {name} both", ads.enthalpy_liquefaction, temps[2], presses[2], log=log)
    run(f"{case}b {name} both, calculate False", ads.enthalpy_liquefaction, temps[2], presses[2], False, log=log)
    run(f"{case}c {name} temp 0 + press", ads.enthalpy_liquefaction, 0, presses[2], log=log)
    run(f"{case}d {name} temp + press 0", ads.enthalpy_liquefaction, temps[2], 0, log=log)
    run(f"{case}e {name} neither", ads.enthalpy_liquefaction, log=log)
    run(f"{case}f {name} neither, calculate False", ads.enthalpy_liquefaction, calculate=False, log=log)
    run(f"{case}g {name} vap alias temp", ads.enthalpy_vaporisation, temps[2], log=log)
    run(f"{case}h {name} vap alias press kw", ads.enthalpy_vaporisation, press=presses[2], log=log)
    run(f"{case}i {name} vap alias lookup", ads.enthalpy_vaporisation, temp=temps[2], calculate=False, log=log)
    # the shared backend state is left as before for the next property
    run(f"{case}j {name} p_sat after", ads.saturation_pressure, temps[2], log=log)
    run(f"{case}k {name} liquid density after", ads.liquid_density, temps[2], log=log)
    run(f"{case}l {name} string temp", ads.enthalpy_liquefaction, 'warm', log=log)
    run(f"{case}m {name} array temp", ads.enthalpy_liquefaction, np.array([temps[2]]), log=log)
    run(f"{case}n {name} array press", ads.enthalpy_liquefaction, press=np.array([presses[2], presses[3]]), log=log)

# adsorbates without a backend / with stored values
a1 = Adsorbate('eq_nobackend', store=False)
a2 = Adsorbate('eq_stored', store=False, enthalpy_liquefaction=12.34)
a3 = Adsorbate('eq_badbackend', store=False, backend_name='notafluid', enthalpy_liquefaction=7.0)
a4 = Adsorbate('eq_alias', store=False, backend_name='nitrogen')
for a in (a1, a2, a3, a4):
    for kw in (dict(temp=80.0), dict(press=2e5), dict(), dict(temp=80.0, press=2e5), dict(temp=80.0, calculate=False),
               dict(press=2e5, calculate=False), dict(temp=500.0), dict(press=1e9)):
        case += 1
        run(f"{case} {a.name} liq {kw}", a.enthalpy_liquefaction, log=log, **kw)
        run(f"{case}v {a.name} vap {kw}", a.enthalpy_vaporisation, log=log, **kw)

# through the Whittaker method (the caller of interest)
from pygaps.core.modelisotherm import ModelIsotherm
from pygaps.modelling import get_isotherm_model
for ads, T in (('N2', 77.0), ('CO2', 250.0), ('CH4', 298.0)):
    model = get_isotherm_model('Toth', parameters={'n_m': 5.0, 'K': 1e-4, 't': 0.7},
                               pressure_range=(1.0, 1e6), loading_range=(0.01, 4.9))
    iso = ModelIsotherm(model=model, material='M', adsorbate=ads, temperature=T, pressure_mode='absolute',
                        pressure_unit='Pa', material_basis='mass', material_unit='g', loading_basis='molar',
                        loading_unit='mmol', temperature_unit='K')
    run(f"whittaker {ads} {T}", whittaker, iso, loading=[0.01, 0.1, 1, 2, 3, 4, 4.5, 4.9], log=log)
