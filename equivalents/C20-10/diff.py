"""Differential transcript for patch C20-2 (saturation-line state helper in Adsorbate)."""
import pygaps
from pygaps import ADSORBATE_LIST
from pygaps import Adsorbate
from pygaps.utilities import coolprop_utilities as cpu

assert pygaps.__file__.startswith('/var/tmp/wt/eq3-10/'), pygaps.__file__
# pygaps logs warnings to stdout already, so the fallbacks appear in the transcript


def show(label, fn):
    try:
        res = fn()
        print(label, '->', repr(res))
    except BaseException as err:  # noqa
        print(label, '!!', type(err).__name__, str(err), '| cause', type(err.__cause__).__name__)


TEMP_FUNCS = (
    'saturation_pressure', 'pressure_saturation', 'surface_tension', 'liquid_density',
    'liquid_molar_density', 'gas_density', 'gas_molar_density', 'enthalpy_vaporisation',
    'enthalpy_liquefaction'
)


def temps_for(ads):
    """Sub-critical, triple, critical and out-of-range temperatures."""
    try:
        tt = ads.backend.Ttriple()
        tc = ads.backend.T_critical()
    except BaseException:  # noqa
        return [77.0, 298.15]
    span = tc - tt
    return [tt, tt + 0.01 * span, tt + 0.37 * span, tt + 0.5 * span, tt + 0.93 * span, tc, tc + 5.0, tt - 20.0]


# ---- every shipped adsorbate, every temperature dependent function
for pos, ads in enumerate(ADSORBATE_LIST):
    print('=====', pos, repr(ads), sorted(ads.properties))
    for temp in temps_for(ads):
        for fname in TEMP_FUNCS:
            show(f'{ads.name}.{fname}({temp!r})', lambda: getattr(ads, fname)(temp))
    temp = temps_for(ads)[2] if len(temps_for(ads)) > 2 else 298.15
    for unit in ('Pa', 'bar', 'kPa', 'torr', 'atm', 'mbar', 'nonsense', '', None):
        show(f'{ads.name}.saturation_pressure({temp!r}, unit={unit!r})', lambda: ads.saturation_pressure(temp, unit))
        show(f'{ads.name}.pressure_saturation({temp!r}, unit={unit!r})', lambda: ads.pressure_saturation(temp, unit=unit))
    for fname in TEMP_FUNCS:
        show(f'{ads.name}.{fname}({temp!r}, calculate=False)', lambda: getattr(ads, fname)(temp, calculate=False))
    show(
        f'{ads.name}.saturation_pressure(calculate=False, unit=bar)', lambda: ads.saturation_pressure(temp, 'bar', False)
    )
    # state sharing: the order of calls must leave the same backend state behind
    show(
        f'{ads.name} interleaved', lambda: (
            ads.gas_density(temp), ads.liquid_density(temp), ads.backend.Q(), ads.gas_molar_density(temp),
            ads.backend.Q(), ads.surface_tension(temp), ads.backend.T()
        )
    )

# ---- odd temperature arguments on a well-known fluid
n2 = Adsorbate.find('N2')
for temp in (0, 0.0, -5, 1e9, float('nan'), float('inf'), None, '77', [77.0], 77, True):
    for fname in TEMP_FUNCS[:7]:
        show(f'N2.{fname}({temp!r})', lambda: getattr(n2, fname)(temp))

# ---- user-made adsorbates: fall back on user values, or fail loudly
full_props = dict(
    saturation_pressure=101325.0,
    surface_tension=8.8,
    liquid_density=0.8,
    liquid_molar_density=0.03,
    gas_density=0.004,
    gas_molar_density=0.0001,
    enthalpy_liquefaction=5.5,
    molar_mass=28.0,
)
customs = [
    ('no backend, no props', Adsorbate('custom-a')),
    ('no backend, props', Adsorbate('custom-b', **full_props)),
    ('bad backend, no props', Adsorbate('custom-c', backend_name='not-a-fluid')),
    ('bad backend, props', Adsorbate('custom-d', backend_name='not-a-fluid', **full_props)),
    ('good backend, props', Adsorbate('custom-e', backend_name='nitrogen', **full_props)),
    ('good backend, partial', Adsorbate('custom-f', backend_name='argon', liquid_density=1.4)),
    ('backend None', Adsorbate('custom-g', backend_name=None, gas_density=0.1)),
    ('zero-valued props', Adsorbate('custom-h', saturation_pressure=0, liquid_density=0.0)),
]
for label, ads in customs:
    print('=====', label)
    for temp in (77.355, 1000.0):
        for fname in TEMP_FUNCS:
            show(f'{label}.{fname}({temp!r})', lambda: getattr(ads, fname)(temp))
            show(f'{label}.{fname}({temp!r}, calculate=False)', lambda: getattr(ads, fname)(temp, calculate=False))
        for unit in ('bar', 'kPa', 'zzz'):
            show(f'{label}.saturation_pressure({temp!r}, {unit!r})', lambda: ads.saturation_pressure(temp, unit))
            show(
                f'{label}.saturation_pressure({temp!r}, {unit!r}, False)', lambda: ads.saturation_pressure(temp, unit, False)
            )
    print('state after', ads._backend_mode, type(ads._state).__name__)

# ---- consistency relations the property talks about (values printed, identical before/after)
for name in ('N2', 'CO2', 'argon', 'water', 'methane', 'n-butane'):
    ads = Adsorbate.find(name)
    tt, tc = ads.t_triple(), ads.t_critical()
    for frac in (0.1, 0.5, 0.9):
        temp = tt + frac * (tc - tt)
        mm = ads.molar_mass()
        print(
            name, frac, repr(ads.liquid_density(temp)), repr(ads.liquid_molar_density(temp) * mm),
            repr(ads.gas_density(temp)), repr(ads.gas_molar_density(temp) * mm), repr(ads.p_triple()),
            repr(ads.saturation_pressure(temp)), repr(ads.p_critical()), repr(ads.enthalpy_vaporisation(temp))
        )

# ---- switching the backend name: state is regenerated lazily, failures fall back
ads = Adsorbate('switch', backend_name='nitrogen', liquid_density=0.123)
show('before switch', lambda: (ads.liquid_density(77.0), ads._backend_mode))
cpu.COOLPROP_BACKEND = 'NOSUCHBACKEND'
show('bad backend mode', lambda: (ads.liquid_density(77.0), ads._backend_mode))
show('bad backend mode gas', lambda: ads.gas_density(77.0))
cpu.COOLPROP_BACKEND = 'HEOS'
show('after switch back', lambda: (ads.liquid_density(77.0), ads._backend_mode))
