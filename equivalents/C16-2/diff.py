"""Differential script for change 2 (psd_mesoporous: limits, dispatch, cumulative curve)."""
import glob
import itertools

import numpy
from eqcases import grids
from eqcases import volumes
from eqfmt import run

import pygaps.characterisation.psd_meso as pmes
import pygaps.parsing as pgp

CALLS = []


class FakeAdsorbate:
    def __init__(self, molar_mass, liquid_density, surface_tension):
        self._p = (molar_mass, liquid_density, surface_tension)

    def molar_mass(self):
        CALLS.append("molar_mass()")
        return self._p[0]

    def liquid_density(self, temp):
        CALLS.append(f"liquid_density({temp!r})")
        return self._p[1]

    def surface_tension(self, temp):
        CALLS.append(f"surface_tension({temp!r})")
        return self._p[2]


class FakeIsotherm:
    """Duck-typed isotherm: relative pressure and liquid volume given directly."""
    def __init__(self, p_ads, v_ads, p_des=None, v_des=None, temperature=77.355, props=(28.0134, 0.806, 8.876)):
        self.data = {"ads": (p_ads, v_ads), "des": (p_des, v_des)}
        self.temperature = temperature
        self.adsorbate = FakeAdsorbate(*props)

    def loading(self, **kw):
        CALLS.append(f"loading({sorted(kw.items())!r})")
        return self.data[kw["branch"]][1]

    def pressure(self, **kw):
        CALLS.append(f"pressure({sorted(kw.items())!r})")
        return self.data[kw["branch"]][0]


def call(label, iso, **kw):
    CALLS.clear()
    run(label, pmes.psd_mesoporous, iso, **kw)
    print("    CALLS " + " | ".join(CALLS))


# ------------------------------------------------------------------ real isotherms
real = {}
for f in sorted(glob.glob('docs/examples/data/characterisation/*.json')):
    real[f.split('/')[-1].split(' N2')[0]] = pgp.isotherm_from_json(f)

for (name, iso), model, branch in itertools.product(real.items(), ['pygaps-DH', 'BJH', 'DH'], ['ads', 'des']):
    call(f"real {name} {model} {branch}", iso, psd_model=model, branch=branch)
call("real defaults", real["MCM-41"])

mcm = real["MCM-41"]
for geom, branch in itertools.product(['slit', 'cylinder', 'halfopen-cylinder', 'sphere'], ['ads', 'des']):
    call(f"mcm geom {geom} {branch}", mcm, pore_geometry=geom, branch=branch)
for geom, men in itertools.product(['slit', 'cylinder', 'sphere'], ["hemicylindrical", "cylindrical", "hemispherical", "", "flat"]):
    call(f"mcm geom {geom} meniscus {men!r}", mcm, pore_geometry=geom, meniscus_geometry=men, branch='ads')
for tm in ["Halsey", "Harkins/Jura", "SiO2 Jaroniec/Kruk/Olivier", "carbon black Kruk/Jaroniec/Gadkaree",
           "zero thickness", "nope", None, lambda p: 0.1 + 0.5 * p]:
    for model in ['pygaps-DH', 'BJH', 'DH']:
        call(f"mcm thickness {tm if isinstance(tm, (str, type(None))) else 'callable'} {model}", mcm,
             psd_model=model, thickness_model=tm, branch='ads')
for kmod in ['Kelvin', 'Kelvin-KJS', 'nope', None, lambda p, **kw: 1 / (1.0001 - p)]:
    for branch in ['ads', 'des']:
        call(f"mcm kelvin {kmod if isinstance(kmod, (str, type(None))) else 'callable'} {branch}", mcm,
             kelvin_model=kmod, branch=branch)

limits = [
    None, (0.1, 0.99), (0, 0), (None, None), (0.3, 0.8), (0.5, None), (None, 0.6), [0.2, 0.9], (0.9, 0.1),
    (0.3, 0.3), (0.0, 1.0), (1e-9, 5.0), (0.45, 0.5), (0.2, 0.9, 0.5), (0.2, ), (), 0.5, "ab",
    (numpy.float64(0.25), numpy.float64(0.75)), numpy.array([0.2, 0.7]), (-1.0, 0.5), (0.99, None), (None, 0.01),
    (False, True), (True, True), ("0.2", 0.9),
]
for lim, model in itertools.product(limits, ['pygaps-DH', 'BJH', 'DH']):
    call(f"mcm limits {lim!r} {model}", mcm, psd_model=model, p_limits=lim, branch='des')
for lim in limits:
    call(f"uio limits {lim!r}", real["UiO-66(Zr)"], p_limits=lim, branch='ads', thickness_model='zero thickness')

# ------------------------------------------------------------------ parameter checks
for kw in [
    dict(psd_model=None), dict(psd_model='test'), dict(psd_model='bjh'), dict(psd_model=numpy.str_('BJH')),
    dict(psd_model=numpy.str_('DH')), dict(pore_geometry='test'), dict(pore_geometry=None),
    dict(meniscus_geometry='test'), dict(branch='test'), dict(branch=None),
    dict(psd_model='BJH', pore_geometry='slit'), dict(psd_model='DH', pore_geometry='sphere'),
    dict(psd_model='pygaps-DH', pore_geometry='halfopen-cylinder'), dict(psd_model='test', pore_geometry='test'),
    dict(psd_model='BJH', p_limits=(0.9, 0.1), thickness_model='nope'),
    dict(psd_model='BJH', pore_geometry='slit', thickness_model='nope'),
    dict(kelvin_model='Kelvin-KJS', branch='des'), dict(kelvin_model='Kelvin-KJS', pore_geometry='slit'),
]:
    call(f"checks {kw!r}", mcm, **kw)
run("not an isotherm", pmes.psd_mesoporous, None)
run("no args", pmes.psd_mesoporous)

# ------------------------------------------------------------------ synthetic isotherms, any adsorbate properties
props = {
    "N2": (28.0134, 0.806, 8.876),
    "Ar": (39.948, 1.3954, 12.5),
    "odd": (153.82, 0.31, 41.3),
    "ints": (28, 1, 9),
    "zero tension": (28.0134, 0.806, 0.0),
}
G = grids()
GBIG = {k: g for k, g in G.items() if k not in ("one", "lin2")}
for (gn, p), kind, (pn, pr) in itertools.product(GBIG.items(), ["langmuir", "step", "sigmoid", "plateaus", "zeros"],
                                                 props.items()):
    v = volumes(p, kind)
    iso = FakeIsotherm(p, v, p[::-1], (v * 1.05)[::-1], props=pr, temperature=77.355 if pn != "odd" else 301.7)
    for model, tm, lim in [('pygaps-DH', 'zero thickness', (None, None)), ('BJH', 'Harkins/Jura', None),
                           ('DH', 'Halsey', (0.15, 0.9))]:
        for branch in ['ads', 'des']:
            call(f"fake {gn} {kind} {pn} {model} {branch}", iso, psd_model=model, thickness_model=tm, p_limits=lim,
                 branch=branch)

p = G["lin25"]
v = volumes(p, "sigmoid")
# geometry x meniscus x zero model: widths are 2 * r_k, volumes sum to the total change
for geom, men in itertools.product(['slit', 'cylinder', 'sphere'], [None, "hemicylindrical", "cylindrical", "hemispherical"]):
    call(f"fake zero-t {geom} {men}", FakeIsotherm(p, v), pore_geometry=geom, meniscus_geometry=men, branch='ads',
         thickness_model='zero thickness', p_limits=(None, None))
# no desorption branch
call("fake no des", FakeIsotherm(p, v), branch='des')
# negative cumulative warning: volumes below what the thinning correction removes
call("fake negative cumulative", FakeIsotherm(p, numpy.linspace(0.001, 0.002, len(p))), branch='ads',
     thickness_model=lambda x: 5 * x, psd_model='DH', p_limits=(None, None))
call("fake negative volumes", FakeIsotherm(p, -v[::-1]), branch='ads', p_limits=(None, None))
# unsorted pressure (searchsorted still answers), duplicate pressure, nan
call("fake unsorted", FakeIsotherm(p[::-1], v), branch='ads')
pd = p.copy()
pd[5] = pd[4]
call("fake duplicate p", FakeIsotherm(pd, v), branch='ads', p_limits=(None, None))
pn = p.copy()
pn[3] = numpy.nan
call("fake nan p", FakeIsotherm(pn, v), branch='ads', p_limits=(None, None))
call("fake 3 points", FakeIsotherm(G["lin3"], volumes(G["lin3"], "langmuir")), branch='ads', p_limits=(None, None))
call("fake 2 points", FakeIsotherm(G["lin2"], volumes(G["lin2"], "langmuir")), branch='ads', p_limits=(None, None))
call("fake empty", FakeIsotherm(numpy.array([]), numpy.array([])), branch='ads', p_limits=(None, None))
call("fake empty default", FakeIsotherm(numpy.array([]), numpy.array([])), branch='ads')
call("fake lists", FakeIsotherm(list(p), list(v)), branch='ads')
call("fake int volumes", FakeIsotherm(p, volumes(p, "ints")), branch='ads', psd_model='BJH')

# result bookkeeping: key order, limits types, cumulative end point, total area
res = pmes.psd_mesoporous(FakeIsotherm(p, v), branch='ads', thickness_model='zero thickness', p_limits=(0.2, None))
run("keys", lambda: list(res))
run("limit types", lambda: [type(x).__name__ for x in res['limits']])
run("cumulative end", lambda: (res['pore_volume_cumulative'][-1], v[-1], res['pore_volume_cumulative'][-1] == v[-1]))
run("area total type", lambda: type(res['pore_area_total']).__name__)
run("flags", lambda: {k: (x.flags['C_CONTIGUOUS'], x.flags['OWNDATA'], x.strides) for k, x in res.items()
                      if isinstance(x, numpy.ndarray)})
