"""Differential script for change 2: PointIsotherm.spreading_pressure_at."""
import warnings

import numpy

import pygaps

warnings.simplefilter("ignore")
numpy.seterr(all="ignore")


def fmt(x):
    if isinstance(x, BaseException):
        return f"{type(x).__name__}: {' '.join(str(x).split())}"
    if x is None or isinstance(x, (str, bool)):
        return repr(x)
    arr = numpy.asarray(x)
    if arr.ndim == 0:
        return f"{type(x).__name__}:{float(arr):.12g}"
    return f"{type(x).__name__}{arr.shape}:[" + ", ".join(f"{float(v):.12g}" for v in arr.ravel()) + "]"


def cache(iso):
    out = []
    for name in ("l_interpolator", "p_interpolator"):
        itp = getattr(iso, name)
        out.append(
            f"{name}=None" if itp is None else
            f"{name}=({itp.interp_branch!r},{itp.interp_kind!r},{fmt(itp.interp_fill)},n={len(itp.interp_fun.x)})"
        )
    return " ".join(out)


def fingerprint(iso):
    return f"id={iso.iso_id} units={iso.units} data={fmt(iso.data_raw.to_numpy(dtype=float))}"


MAT = pygaps.Material("eqmat2", density=2.0, molar_mass=60.0)

DATA = {
    "hyst": ([0.05, 0.1, 0.2, 0.4, 0.6, 0.8, 0.95, 0.7, 0.5, 0.3, 0.15],
             [1.0, 1.8, 2.9, 4.1, 5.0, 6.2, 8.0, 7.0, 6.1, 4.9, 3.0]),
    "langmuir": (list(numpy.logspace(-3, -0.01, 25)), list(10 * 30 * numpy.logspace(-3, -0.01, 25) /
                                                         (1 + 30 * numpy.logspace(-3, -0.01, 25)))),
    "ints": ([1, 2, 4, 8, 16], [1, 2, 3, 4, 5]),
    "two": ([0.1, 0.9], [1.0, 2.0]),
    "one": ([0.5], [2.0]),
    "dup": ([0.1, 0.2, 0.2, 0.5], [1.0, 2.0, 2.5, 3.0]),
    "zero_first": ([0.0, 0.1, 0.5], [0.0, 1.0, 2.0]),
    "plateau": ([0.1, 0.2, 0.3, 0.9], [2.0, 2.0, 2.0, 2.0]),
}


def make(kind, **kw):
    pressure, loading = DATA[kind]
    params = dict(
        pressure=pressure,
        loading=loading,
        material=MAT,
        adsorbate="N2",
        temperature=77.0,
        temperature_unit="K",
        pressure_mode="relative",
        pressure_unit=None,
        loading_basis="molar",
        loading_unit="mmol",
        material_basis="mass",
        material_unit="g",
    )
    if kind == "ints":
        params.update(pressure_mode="absolute", pressure_unit="kPa")
    params.update(kw)
    return pygaps.PointIsotherm(**params)


def call(iso, *args, **kwargs):
    try:
        return fmt(iso.spreading_pressure_at(*args, **kwargs))
    except Exception as err:  # noqa
        return fmt(err)


n = 0
# 1. sweep of pressures, both branches, with and without fill, on every data set; fresh isotherm each time
for kind in DATA:
    ref = make(kind)
    pts = sorted(set(ref.pressure().tolist()))
    lo, hi = pts[0], pts[-1]
    sweep = [0.0, -0.1, lo / 2, lo, hi, hi * 1.05, float("nan")] + pts[1:-1] + [
        (a + b) / 2 for a, b in zip(pts[:-1], pts[1:])
    ]
    for branch in ("ads", "des"):
        for fill in (None, 9.0, (0.0, 9.0), "extrapolate"):
            for p in sweep:
                n += 1
                iso = make(kind)
                res = call(iso, p, branch=branch, interp_fill=fill)
                print(f"sweep {kind} {branch} fill={fill!r} p={p!r} -> {res} | {cache(iso)}")
            assert fingerprint(iso) == fingerprint(ref)

# 2. forced single-branch on unsorted data (negative / zero width segments)
for branch_mark in ("ads", "des"):
    for p in (0.04, 0.12, 0.33, 0.55, 0.75, 0.9, 0.95, 0.96):
        for fill in (None, 8.0):
            iso = make("hyst", branch=branch_mark)
            n += 1
            print(f"forced {branch_mark} p={p} fill={fill} -> {call(iso, p, branch=branch_mark, interp_fill=fill)}")

# 3. unit / mode / basis arguments
UNIT_CASES = [
    dict(pressure_mode="absolute", pressure_unit="Pa"),
    dict(pressure_mode="absolute", pressure_unit="bar"),
    dict(pressure_mode="relative%"),
    dict(pressure_unit="bar"),
    dict(pressure_mode="absolute"),
    dict(loading_unit="mol"),
    dict(loading_basis="mass", loading_unit="g"),
    dict(loading_basis="volume_liquid", loading_unit="cm3"),
    dict(loading_basis="percent"),
    dict(loading_basis="mass"),
    dict(material_unit="kg"),
    dict(material_basis="volume", material_unit="cm3"),
    dict(material_basis="molar", material_unit="mmol"),
    dict(material_basis="volume"),
    dict(loading_unit="bogus"),
    dict(pressure_mode="absolute", pressure_unit="Pa", loading_unit="mol", material_unit="kg"),
]
for kw in UNIT_CASES:
    for p in (0.3, 20000.0, 35.0, 0.2, 1.2):
        for branch in ("ads", "des"):
            iso = make("hyst")
            n += 1
            print(f"units {kw} p={p} {branch} -> {call(iso, p, branch=branch, **kw)} | {cache(iso)}")
for kw in (dict(pressure_mode="relative"), dict(pressure_unit="Pa"), dict(pressure_unit="torr", interp_fill=5.0)):
    for p in (0.05, 3.0, 10.0, 17.0):
        iso = make("ints")
        n += 1
        print(f"units-abs {kw} p={p} -> {call(iso, p, **kw)} | {cache(iso)}")

# 4. odd pressure arguments
for p in ([0.3], numpy.array([0.3]), numpy.array(0.3), [0.3, 0.5], numpy.float32(0.3), 1, "0.3", None):
    iso = make("hyst")
    n += 1
    print(f"arg {p!r} -> {call(iso, p)}")
for branch in ("all", None, "bad", "all-nol"):
    iso = make("hyst")
    n += 1
    print(f"branch {branch!r} -> {call(iso, 0.3, branch=branch)}")

# 5. histories on one isotherm: spreading pressure between other queries
iso = make("hyst")
ref = fingerprint(iso)
steps = [
    ("spreading_pressure_at", (0.5, ), {}),
    ("loading_at", (0.5, ), dict(interpolation_type="cubic")),
    ("spreading_pressure_at", (0.5, ), {}),
    ("spreading_pressure_at", (0.5, ), dict(branch="des")),
    ("loading_at", (0.5, ), {}),
    ("spreading_pressure_at", (0.97, ), {}),
    ("spreading_pressure_at", (0.97, ), dict(interp_fill=8.0)),
    ("spreading_pressure_at", (0.97, ), {}),
    ("loading_at", (0.97, ), {}),
    ("spreading_pressure_at", (20000.0, ), dict(pressure_mode="absolute", pressure_unit="Pa")),
    ("spreading_pressure_at", (0.2, ), dict(loading_unit="mol")),
    ("pressure_at", (3.0, ), {}),
    ("spreading_pressure_at", (0.01, ), {}),
    ("spreading_pressure_at", (0.5, ), {}),
]
for meth, args, kwargs in steps:
    n += 1
    try:
        res = fmt(getattr(iso, meth)(*args, **kwargs))
    except Exception as err:  # noqa
        res = fmt(err)
    fresh = make("hyst")
    try:
        res_fresh = fmt(getattr(fresh, meth)(*args, **kwargs))
    except Exception as err:  # noqa
        res_fresh = fmt(err)
    print(f"hist {meth}{args}{kwargs} -> {res} | fresh-equal={res == res_fresh} | {cache(iso)}")
print("unchanged:", fingerprint(iso) == ref, fingerprint(iso))

# 6. through the IAST entry point (uses spreading_pressure_at of point isotherms)
import pygaps.iast as pgi

ABS = dict(pressure_mode="absolute", pressure_unit="bar", temperature=300.0)
iso_a = make("langmuir", **ABS)
iso_b = make("langmuir", adsorbate="CO2", loading=[0.5 * v for v in DATA["langmuir"][1]], **ABS)
for total, fracs in ((0.1, [0.5, 0.5]), (0.05, [0.2, 0.8]), (0.5, [0.9, 0.1])):
    n += 1
    try:
        res = fmt(pgi.iast_point_fraction([iso_a, iso_b], fracs, total, warningoff=True))
    except Exception as err:  # noqa
        res = fmt(err)
    print(f"iast {total} {fracs} -> {res}")
for total, fracs in ((0.1, [0.5, 0.5]), (0.4, [0.3, 0.7])):
    n += 1
    try:
        res = fmt(pgi.reverse_iast([iso_a, iso_b], fracs, total, warningoff=True))
    except Exception as err:  # noqa
        res = fmt(err)
    print(f"reverse_iast {total} {fracs} -> {res}")
print("cases:", n)
