"""Differential transcript for iast_point / reverse_iast refactorings."""
import copy
import logging
import warnings
from pathlib import Path

import numpy

import pygaps
import pygaps.iast.pgiast as pgi
import pygaps.parsing as pgp

warnings.simplefilter("ignore")

ROOT = Path(__file__).resolve().parent.parent
DATA = ROOT / 'docs' / 'examples' / 'data' / 'iast'


class ListHandler(logging.Handler):
    def __init__(self):
        super().__init__(level=logging.DEBUG)
        self.records = []

    def emit(self, record):
        self.records.append((record.levelname, record.getMessage()))


handler = ListHandler()
pgi.logger.addHandler(handler)
pgi.logger.setLevel(logging.DEBUG)
pgi.logger.propagate = False


def fmt(v):
    if isinstance(v, tuple):
        return "(" + ", ".join(fmt(x) for x in v) + ")"
    if isinstance(v, numpy.ndarray):
        return f"ndarray[{v.dtype},{v.shape}](" + ", ".join(
            float(x).hex() for x in v.ravel()
        ) + ")"
    if isinstance(v, (float, numpy.floating)):
        return type(v).__name__ + ":" + float(v).hex()
    return type(v).__name__ + ":" + repr(v)


def snap(a):
    if isinstance(a, numpy.ndarray):
        return ("nd", a.dtype.str, a.shape, a.tobytes())
    return (type(a).__name__, repr(a))


def run(label, func, isos, arr, *args, **kwargs):
    handler.records.clear()
    before = [snap(arr)] + [snap(v) for v in kwargs.values()]
    try:
        res = func(isos, arr, *args, **kwargs)
        print(label, "OK", fmt(res))
        if isinstance(res, tuple):
            print(label, "aliases", [r is arr for r in res],
                  [any(r is v for v in kwargs.values()) for r in res])
        else:
            print(label, "aliases", res is arr)
    except BaseException as e:  # noqa
        print(label, "EXC", type(e).__name__, repr(str(e)))
    after = [snap(arr)] + [snap(v) for v in kwargs.values()]
    print(label, "args-unchanged", before == after)
    for lvl, msg in handler.records:
        print(label, "LOG", lvl, repr(msg))


ch4 = pgp.isotherm_from_json(DATA / 'MOF-5(Zn) - IAST - CH4.json')
c2h6 = pgp.isotherm_from_json(DATA / 'MOF-5(Zn) - IAST - C2H6.json')


def model(name, params, prange=(0.0, 10.0), lrange=(0.0, 10.0), **kw):
    from pygaps.modelling import get_isotherm_model
    mod = get_isotherm_model(
        name, parameters=params, pressure_range=prange, loading_range=lrange
    )
    base = dict(material='m', adsorbate='N2', temperature=77, model=mod, branch='ads')
    base.update(kw)
    return pygaps.ModelIsotherm(**base)


l1 = model('Langmuir', {'K': 1.5, 'n_m': 4.0})
l2 = model('Langmuir', {'K': 0.3, 'n_m': 6.0}, adsorbate='CH4')
h1 = model('Henry', {'K': 2.0}, adsorbate='CO2')
q1 = model('Quadratic', {'Ka': 1.1, 'Kb': 0.2, 'n_m': 3.0}, adsorbate='C2H6')
toth = model('Toth', {'K': 1.0, 'n_m': 3.0, 't': 0.7})
bad = model('Freundlich', {'K': 1.0, 'm': 2.0})
rel = model('Langmuir', {'K': 1.5, 'n_m': 4.0}, pressure_mode='relative')

p = numpy.linspace(0.05, 5, 25)
pd_ = p[::-1][1:]
pt = pygaps.PointIsotherm(
    pressure=numpy.concatenate([p, pd_]),
    loading=numpy.concatenate([3 * p / (1 + p), 3.3 * pd_ / (1 + 1.2 * pd_)]),
    material='m', adsorbate='N2', temperature=77,
)
pt2 = pygaps.PointIsotherm(
    pressure=numpy.concatenate([p, pd_]),
    loading=numpy.concatenate([5 * p / (1 + 0.4 * p), 5.2 * pd_ / (1 + 0.5 * pd_)]),
    material='m', adsorbate='CH4', temperature=77,
)

# ---------- iast_point
ip = pgi.iast_point
run("ip01", ip, [ch4, c2h6], [0.5, 0.5])
run("ip02", ip, [ch4, c2h6], numpy.array([0.2, 1.3]), verbose=True)
run("ip03", ip, [ch4, c2h6], (30.0, 40.0))
run("ip04", ip, [ch4, c2h6], [30.0, 40.0], warningoff=True)
run("ip05", ip, [l1, l2], [1.0, 2.0])
run("ip06", ip, [l1, l2], numpy.array([1, 2]))
run("ip07", ip, (l1, l2, h1), [0.4, 1.1, 0.2], verbose=True)
run("ip08", ip, [l1, l2, h1, q1], numpy.array([0.4, 1.1, 0.2, 0.9]))
run("ip09", ip, [l1, l2], [1.0, 2.0], adsorbed_mole_fraction_guess=[0.3, 0.7])
run("ip10", ip, [l1, l2], [1.0, 2.0], adsorbed_mole_fraction_guess=numpy.array([0.9, 0.1]))
run("ip11", ip, [l1, l2], [1.0, 2.0], adsorbed_mole_fraction_guess=[0.3, 0.6])
run("ip12", ip, [l1, l2, h1], [1.0, 2.0, 0.5], adsorbed_mole_fraction_guess=(0.2, 0.3, 0.5))
run("ip13", ip, [l1], [1.0])
run("ip14", ip, [l1, l2], [1.0])
run("ip15", ip, [l1, l2], [1.0, 2.0, 3.0])
run("ip16", ip, [l1, bad], [1.0, 2.0])
run("ip16b", ip, [l1, toth], [1.0, 2.0])
run("ip17", ip, [l1, rel], [1.0, 2.0])
run("ip18", ip, [pt, pt2], [0.5, 0.7], branch='des')
run("ip19", ip, [pt, pt2], [0.5, 0.7], branch='ads', verbose=True)
run("ip20", ip, [pt, pt2], [4.0, 4.5], branch='des', verbose=True)
run("ip21", ip, [l1, l2], [1.0, 2.0], branch='des')
run("ip22", ip, [l1, l2], [1e-12, 1e-12])
run("ip23", ip, [l1, l2], [0.0, 1.0])
run("ip24", ip, [l1, l2], [-1.0, 1.0])
run("ip25", ip, [l1, l2], [1.0, 2.0], adsorbed_mole_fraction_guess=[1.5, -0.5])
run("ip26", ip, [l1, l2], [numpy.nan, 1.0])
run("ip27", ip, [], [])
run("ip28", ip, [l1, l2], [[1.0, 2.0]])
run("ip29", ip, [l1, l2], [1.0, 2.0], adsorbed_mole_fraction_guess=[0.5, 0.25, 0.25])
run("ip30", ip, [ch4, l2], [0.5, 0.5], verbose=True)
run("ip31", ip, [l1, l2], ["a", "b"])
run("ip32", ip, [l1, l2], [1.0, 2.0], adsorbed_mole_fraction_guess="ab")

# ---------- iast_point_fraction (wrapper)
run("pf01", pgi.iast_point_fraction, [l1, l2], [0.25, 0.75], 2.0)
run("pf02", pgi.iast_point_fraction, [pt, pt2], [0.25, 0.75], 2.0, branch='des')

# ---------- reverse_iast
ri = pgi.reverse_iast
run("ri01", ri, [ch4, c2h6], [0.5, 0.5], 2.0)
run("ri02", ri, [ch4, c2h6], numpy.array([0.25, 0.75]), 1.0, verbose=True)
run("ri03", ri, [ch4, c2h6], [0.5, 0.5], 200.0)
run("ri04", ri, [ch4, c2h6], [0.5, 0.5], 200.0, warningoff=True)
run("ri05", ri, [l1, l2], [0.5, 0.5], 2.0)
run("ri06", ri, (l1, l2, h1), (0.25, 0.25, 0.5), 3.0, verbose=True)
run("ri07", ri, [l1, l2, h1, q1], numpy.array([0.125, 0.125, 0.25, 0.5]), 3.0)
run("ri08", ri, [l1, l2], [0.5, 0.5], 2.0, gas_mole_fraction_guess=[0.1, 0.9])
run("ri09", ri, [l1, l2], [0.5, 0.5], 2.0, gas_mole_fraction_guess=numpy.array([0.8, 0.2]))
run("ri10", ri, [l1, l2], [0.5, 0.5], 2.0, gas_mole_fraction_guess=[0.1, 0.8])
run("ri11", ri, [l1, l2], [0.3, 0.6], 2.0)
run("ri12", ri, [l1, l2], [0.1, 0.2, 0.7], 2.0)
run("ri13", ri, [l1], [1.0], 2.0)
run("ri14", ri, [l1, bad], [0.5, 0.5], 2.0)
run("ri15", ri, [l1, rel], [0.5, 0.5], 2.0)
run("ri16", ri, [pt, pt2], [0.5, 0.5], 2.0, branch='des')
run("ri17", ri, [pt, pt2], [0.5, 0.5], 2.0, branch='ads', verbose=True)
run("ri18", ri, [pt, pt2], [0.25, 0.75], 9.0, branch='des', verbose=True)
run("ri19", ri, [l1, l2], [0.0, 1.0], 2.0)
run("ri20", ri, [l1, l2], [1.0, 0.0], 2.0)
run("ri21", ri, [l1, l2], [0.5, 0.5], 0.0)
run("ri22", ri, [l1, l2], [0.5, 0.5], -1.0)
run("ri23", ri, [l1, l2], [0.5, 0.5], 1e-12)
run("ri24", ri, [l1, l2], [1.5, -0.5], 2.0)
run("ri25", ri, [l1, l2], [0.5, 0.5], 2.0, gas_mole_fraction_guess=[1.5, -0.5])
run("ri26", ri, [l1, l2], [[0.5, 0.5]], 2.0)
run("ri27", ri, [], [], 2.0)
run("ri28", ri, [l1, l2], [0.5, 0.5], 2.0, gas_mole_fraction_guess=[0.5, 0.25, 0.25])
run("ri29", ri, [l1, l2], numpy.array([1, 0]), 2.0)
run("ri30", ri, [l1, l2], [0.5, 0.5], numpy.nan)
run("ri31", ri, [l1, l2], [0.5, 0.5], 2.0, gas_mole_fraction_guess="ab")
run("ri32", ri, [l1, h1], [0.5, 0.5], 2.0, branch='des')

# result aliasing with the default guess in reverse_iast
x = numpy.array([0.5, 0.5])
x0 = x.copy()
g, l = ri([l1, l2], x, 2.0)
print("alias", g is x, l is x, numpy.shares_memory(g, x), numpy.shares_memory(l, x),
      x.tobytes() == x0.tobytes())
