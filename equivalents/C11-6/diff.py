"""Differential script for change 2: ModelIsotherm.spreading_pressure_at (+ branch guard of the other getters)."""
import warnings

import numpy

import pygaps
from pygaps.modelling import get_isotherm_model

warnings.simplefilter("ignore")


def fmt(x):
    if isinstance(x, (list, tuple)):
        return "[" + ", ".join(fmt(v) for v in x) + "]"
    if isinstance(x, numpy.ndarray):
        if x.ndim == 0:
            return "arr0(" + fmt(x.item()) + ")"
        return "arr[" + ", ".join(fmt(v) for v in x.tolist()) + "]"
    if isinstance(x, (float, numpy.floating)):
        return f"{float(x):.12g}"
    if isinstance(x, (int, numpy.integer)):
        return f"int:{int(x)}"
    return f"{type(x).__name__}:{x!r}"


def run(label, fun, *args, **kwargs):
    try:
        res = fun(*args, **kwargs)
        out = type(res).__name__ + " " + fmt(res)
    except Exception as err:  # noqa
        out = f"EXC {type(err).__name__}: {' '.join(str(err).split())}"
    print(f"{label} -> {out}")


pygaps.MATERIAL_LIST.append(pygaps.Material("EQMAT", density=2.0, molar_mass=10.0))

BASE = dict(
    material="EQMAT",
    adsorbate="N2",
    temperature=77.0,
    material_basis="mass",
    material_unit="g",
    loading_basis="molar",
    loading_unit="mmol",
    pressure_mode="absolute",
    pressure_unit="bar",
)

MODELS = {
    "Henry": dict(K=2.5),
    "Langmuir": dict(K=12.0, n_m=4.0),
    "DSLangmuir": dict(n_m1=2.0, K1=30.0, n_m2=5.0, K2=0.7),
    "TSLangmuir": dict(n_m1=2.0, K1=30.0, n_m2=5.0, K2=0.7, n_m3=1.0, K3=200.0),
    "Quadratic": dict(n_m=3.0, Ka=2.0, Kb=5.0),
    "BET": dict(n_m=3.0, C=50.0, N=0.9),
    "GAB": dict(n_m=3.0, C=50.0, K=0.9),
    "TemkinApprox": dict(n_m=3.0, K=10.0, tht=-0.2),
    "Toth": dict(n_m=5.0, K=8.0, t=0.6),
    "JensenSeaton": dict(K=40.0, a=5.0, b=0.3, c=0.8),
    "Freundlich": dict(K=3.0, m=2.5),
    "DR": dict(n_m=10.0, e=6.0),
    "DA": dict(n_m=10.0, e=6.0, m=2.5),
}


def make(model, branch="ads", **over):
    par = dict(BASE)
    par.update(over)
    mod = get_isotherm_model(
        model, parameters=dict(MODELS[model]), pressure_range=(0.01, 0.9), loading_range=(0.1, 8.0)
    )
    return pygaps.ModelIsotherm(model=mod, branch=branch, **par)


UNITS = [
    dict(),
    dict(pressure_unit="Pa"),
    dict(pressure_unit="kPa"),
    dict(pressure_unit="torr"),
    dict(pressure_unit="bar"),
    dict(pressure_mode="relative"),
    dict(pressure_mode="relative%"),
    dict(pressure_mode="absolute"),
    dict(pressure_mode="absolute", pressure_unit="atm"),
    dict(pressure_mode="relative", pressure_unit="Pa"),
    dict(pressure_mode="relative%", pressure_unit="bad"),
    dict(pressure_mode="bad"),
    dict(pressure_unit="bad"),
    dict(pressure_mode="", pressure_unit=""),
]

SCALARS = [0.0, 1e-6, 0.013, 0.2, 0.5, 0.77, 1, 3.5, -0.2, numpy.float64(0.31), numpy.asarray(0.42)]
VECTOR = [0.01, 0.1, 0.3, 0.6]

for setup, over in (
    ("abs_bar", {}),
    ("abs_kPa", dict(pressure_unit="kPa")),
    ("rel", dict(pressure_mode="relative", pressure_unit=None)),
    ("relpct", dict(pressure_mode="relative%", pressure_unit=None)),
    ("rel_withunit", dict(pressure_mode="relative", pressure_unit="bar")),
):
    for model in MODELS:
        iso = make(model, **over)
        for kw in UNITS:
            # scale so that the query stays in a sensible range of the model
            scale = 1.0
            unit = kw.get("pressure_unit")
            mode = kw.get("pressure_mode")
            if mode == "relative%":
                scale = 100.0
            elif mode in (None, "", "absolute") and unit in ("Pa", "kPa", "torr"):
                scale = {"Pa": 1e5, "kPa": 100.0, "torr": 750.0}[unit]
            elif mode in (None, "") and not unit and over.get("pressure_unit") == "kPa":
                scale = 100.0
            elif mode is None and over.get("pressure_mode") == "relative%":
                scale = 100.0
            for q in SCALARS:
                qq = q * scale
                run(f"{setup} {model} spa p={fmt(qq)} {kw}", iso.spreading_pressure_at, qq, **kw)
            if model in ("Toth", "JensenSeaton", "DR", "DA"):
                continue
            run(f"{setup} {model} spa vec {kw}", iso.spreading_pressure_at, [v * scale for v in VECTOR], **kw)
            run(f"{setup} {model} spa ndarray {kw}", iso.spreading_pressure_at, numpy.array(VECTOR) * scale, **kw)

# branch handling of all the getters
for ibranch in ("ads", "des"):
    for model in ("Henry", "Langmuir", "Toth", "BET"):
        iso = make(model, branch=ibranch)
        for br in (None, "", "ads", "des", "all", "bad", 0, 1):
            run(f"{model}[{ibranch}] spa branch={br!r}", iso.spreading_pressure_at, 0.3, branch=br)
            run(
                f"{model}[{ibranch}] spa branch={br!r} Pa", iso.spreading_pressure_at, 3e4, branch=br,
                pressure_unit="Pa"
            )
            run(f"{model}[{ibranch}] loading_at branch={br!r}", iso.loading_at, 0.3, branch=br)
            run(
                f"{model}[{ibranch}] loading_at branch={br!r} rel", iso.loading_at, 0.3, branch=br,
                pressure_mode="relative"
            )
            run(f"{model}[{ibranch}] pressure_at branch={br!r}", iso.pressure_at, 1.3, branch=br)
            run(
                f"{model}[{ibranch}] pressure_at branch={br!r} Pa", iso.pressure_at, 1.3, branch=br,
                pressure_unit="Pa"
            )
            run(f"{model}[{ibranch}] loading branch={br!r}", iso.loading, 5, branch=br)
            run(f"{model}[{ibranch}] pressure branch={br!r}", iso.pressure, 5, branch=br)
            run(f"{model}[{ibranch}] has_branch {br!r}", iso.has_branch, br)

# odd pressure arguments
iso = make("Langmuir")
for q in (None, "a", [], [[0.1, 0.2], [0.3]], float("nan"), float("inf"), True):
    run(f"odd {q!r}", iso.spreading_pressure_at, q)
    run(f"odd {q!r} Pa", iso.spreading_pressure_at, q, pressure_unit="Pa")
    run(f"odd {q!r} rel", iso.spreading_pressure_at, q, pressure_mode="relative")

# adsorbate without a thermodynamic backend / supercritical temperature
for over in (dict(temperature=300.0), dict(adsorbate="unknown_gas")):
    iso = make("Langmuir", **over)
    for kw in UNITS:
        run(f"{over} spa {kw}", iso.spreading_pressure_at, 0.3, **kw)
