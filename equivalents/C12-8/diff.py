"""Differential script for change 4: Virial.fit (linearised fit with its own error definition)."""
import logging
import os
import warnings

os.environ.setdefault("MPLBACKEND", "Agg")

import numpy
import pandas

warnings.filterwarnings("ignore")

import pygaps  # noqa: E402
from pygaps.core.modelisotherm import ModelIsotherm  # noqa: E402
from pygaps.core.pointisotherm import PointIsotherm  # noqa: E402
from pygaps.modelling import get_isotherm_model  # noqa: E402


class ListHandler(logging.Handler):
    def __init__(self):
        super().__init__(level=logging.DEBUG)
        self.records = []

    def emit(self, record):
        self.records.append(f"{record.levelname}:{record.getMessage()}".replace("\n", "\\n")[:120])


handler = ListHandler()
for h in list(pygaps.logger.handlers):
    pygaps.logger.removeHandler(h)
pygaps.logger.addHandler(handler)
pygaps.logger.setLevel(logging.DEBUG)
pygaps.logger.propagate = False


def fmt(x):
    if isinstance(x, dict):
        return "{" + ", ".join(f"{k!r}: {fmt(x[k])}" for k in x) + "}"
    if isinstance(x, (list, tuple)):
        return "[" + ", ".join(fmt(v) for v in x) + "]"
    if isinstance(x, numpy.ndarray):
        return "arr" + str(x.shape) + str(x.dtype) + "[" + ", ".join(fmt(v) for v in x.ravel()) + "]"
    if isinstance(x, (bool, numpy.bool_)):
        return repr(bool(x))
    if isinstance(x, (float, numpy.floating)):
        return "%.12g" % float(x)
    if isinstance(x, (int, numpy.integer)):
        return "i%d" % int(x)
    return repr(x)


def model_state(m):
    return " ".join([
        m.name,
        "params=" + fmt(m.params),
        "keys=" + repr(list(m.params)),
        "ptypes=" + repr([type(v).__name__ for v in m.params.values()]),
        "rmse=" + fmt(m.rmse) + ":" + type(m.rmse).__name__,
        "exact=" + repr([float(v).hex() for v in m.params.values()] + [float(m.rmse).hex()]),
        "prange=" + fmt(m.pressure_range),
        "lrange=" + fmt(m.loading_range),
    ])


def report(tag, fn):
    handler.records.clear()
    try:
        res = fn()
        print(tag, "->", res)
    except Exception as err:  # noqa: BLE001
        print(tag, "-> EXC", type(err).__name__, repr(str(err)))
    print("   log:", [r for r in handler.records if "was not specified" not in r])


def virial_p(n, K, A, B, C):
    return n * numpy.exp(-numpy.log(K) + A * n + B * n**2 + C * n**3)


rng = numpy.random.RandomState(7)
base_kw = dict(material="m", adsorbate="N2", temperature=77.355)

datasets = {}
n = numpy.linspace(0.1, 4.0, 20)
datasets["exact20"] = (virial_p(n, 3.0, 0.1, -0.01, 0.001), n)
n = numpy.linspace(0.05, 6.0, 60)
datasets["exact60"] = (virial_p(n, 10.0, 0.4, -0.05, 0.004), n)
n = numpy.linspace(0.2, 3.0, 8)
datasets["exact8"] = (virial_p(n, 1.5, -0.2, 0.05, 0.0), n)
p = numpy.linspace(0.05, 0.9, 15)
datasets["lang15"] = (p, 5 * 0.8 * p / (1 + 0.8 * p))
p = numpy.geomspace(1e-3, 5, 30)
datasets["toth30"] = (p, 7 * (2 * p) / (1 + (2 * p)**0.7)**(1 / 0.7))
datasets["noisy30"] = (p, 7 * (2 * p) / (1 + (2 * p)**0.7)**(1 / 0.7) * (1 + 0.03 * rng.standard_normal(30)))
datasets["zero-first"] = (numpy.r_[0.0, datasets["exact20"][0]], numpy.r_[0.0, datasets["exact20"][1]])
datasets["zero-p-only"] = (numpy.r_[0.0, datasets["exact20"][0]], numpy.r_[0.01, datasets["exact20"][1]])
datasets["neg-inside"] = (
    numpy.r_[datasets["exact20"][0][:5], -1.0, datasets["exact20"][0][5:]],
    numpy.r_[datasets["exact20"][1][:5], 1.0, datasets["exact20"][1][5:]],
)
datasets["nan-inside"] = (
    numpy.r_[datasets["exact20"][0][:5], numpy.nan, datasets["exact20"][0][5:]],
    numpy.r_[datasets["exact20"][1][:5], 1.0, datasets["exact20"][1][5:]],
)
datasets["all-zero"] = (numpy.zeros(5), numpy.zeros(5))
datasets["high-only"] = (numpy.array([1.0, 2.0, 3.0, 4.0, 5.0]), numpy.array([3.0, 3.5, 3.8, 3.9, 4.0]))
datasets["two-low"] = (numpy.array([0.1, 0.2, 2.0, 3.0, 4.0, 5.0]), numpy.array([0.5, 1.0, 3.5, 3.8, 3.9, 4.0]))
datasets["three-low"] = (
    numpy.array([0.1, 0.2, 0.3, 3.0, 4.0, 5.0]), numpy.array([0.5, 1.0, 1.4, 3.8, 3.9, 4.0])
)
datasets["exactly-half"] = (numpy.array([0.1, 0.2, 0.3, 0.5, 1.0]), numpy.array([0.5, 1.0, 1.5, 2.0, 4.0]))
datasets["int-data"] = (numpy.array([1, 2, 3, 4, 5, 6, 7]), numpy.array([1, 2, 3, 5, 7, 8, 9]))
datasets["int-high-only"] = (numpy.array([1, 2, 3, 4]), numpy.array([7, 8, 9, 10]))
datasets["float32"] = (datasets["exact20"][0].astype("float32"), datasets["exact20"][1].astype("float32"))
datasets["single"] = (numpy.array([0.3]), numpy.array([1.0]))
datasets["empty"] = (numpy.array([]), numpy.array([]))
datasets["decreasing"] = (datasets["exact20"][0][::-1].copy(), datasets["exact20"][1][::-1].copy())


def direct(pr, ld, guess="auto", bounds=None, opt=None, verbose=False):
    m = get_isotherm_model(
        "Virial",
        pressure_range=(float(min(pr)), float(max(pr))) if len(pr) else (0.0, 1.0),
        loading_range=(float(min(ld)), float(max(ld))) if len(ld) else (0.0, 1.0),
        param_bounds=bounds,
    )
    if guess == "auto":
        guess = m.initial_guess(pr, ld)
    pr_before, ld_before = numpy.array(pr, copy=True), numpy.array(ld, copy=True)
    try:
        m.fit(pr, ld, guess, opt, verbose)
    finally:
        print("      opt_after=" + fmt(opt), "inputs_untouched=" + repr(
            bool(numpy.array_equal(pr, pr_before, equal_nan=True) and numpy.array_equal(ld, ld_before, equal_nan=True))
        ), "params_after=" + fmt(m.params))
    return model_state(m)


fixed_guess = {"K": 2.0, "A": 0, "B": 0, "C": 0}

# 1. every dataset, default options / add_point variants / fixed guess
for dname, (pr, ld) in datasets.items():
    report(f"fit[{dname}][auto]", lambda: direct(pr, ld))
    report(f"fit[{dname}][fixed-guess]", lambda: direct(pr, ld, dict(fixed_guess)))
    report(f"fit[{dname}][add_point]", lambda: direct(pr, ld, dict(fixed_guess), opt={"add_point": True}))
    report(f"fit[{dname}][add_point-false]", lambda: direct(pr, ld, dict(fixed_guess), opt={"add_point": False}))

# 2. guesses, bounds, optimiser options
pr, ld = datasets["exact20"]
cases = [
    ("guess-rev-order", {"C": 0.0, "B": 0.0, "A": 0.0, "K": 2.0}, None, None),
    ("guess-missing", {"K": 2.0, "A": 0.0}, None, None),
    ("guess-extra", {"K": 2.0, "A": 0.0, "B": 0.0, "C": 0.0, "D": 1.0}, None, None),
    ("guess-K-zero", {"K": 0.0, "A": 0.0, "B": 0.0, "C": 0.0}, None, None),
    ("guess-K-negative", {"K": -1.0, "A": 0.0, "B": 0.0, "C": 0.0}, None, None),
    ("bounds-tight", dict(fixed_guess),
     {"K": (1.0, 2.5), "A": (-0.05, 0.05), "B": (-0.1, 0.1), "C": (-0.01, 0.01)}, None),
    ("bounds-C-pinned", dict(fixed_guess),
     {"K": (0, numpy.inf), "A": (-1, 1), "B": (-1, 1), "C": (-1e-9, 1e-9)}, None),
    ("bounds-partial", dict(fixed_guess), {"K": (1.0, 2.5)}, None),
    ("bounds-inverted", dict(fixed_guess), {"K": (2.5, 1.0), "A": (-1, 1), "B": (-1, 1), "C": (-1, 1)}, None),
    ("bounds-lists", dict(fixed_guess), {"K": [1.0, 5], "A": [-1, 1], "B": [-1, 1], "C": [-1, 1]}, None),
    ("opt-empty", dict(fixed_guess), None, {}),
    ("opt-xtol", dict(fixed_guess), None, {"xtol": 1e-12, "ftol": 1e-12}),
    ("opt-maxnfev1", dict(fixed_guess), None, {"max_nfev": 1}),
    ("opt-lm", dict(fixed_guess), None, {"method": "lm"}),
    ("opt-huber", dict(fixed_guess), None, {"loss": "huber", "f_scale": 0.1}),
    ("opt-addpoint-only", dict(fixed_guess), None, {"add_point": True}),
    ("opt-addpoint-none", dict(fixed_guess), None, {"add_point": None}),
    ("opt-addpoint-string", dict(fixed_guess), None, {"add_point": "yes", "xtol": 1e-10}),
    ("opt-bad-key", dict(fixed_guess), None, {"nonsense": 1}),
    ("opt-x0", dict(fixed_guess), None, {"x0": numpy.array([1.0, 0.1, 0.1, 0.1])}),
]
for tag, guess, bounds, opt in cases:
    report(f"case[{tag}]", lambda: direct(pr, ld, guess, bounds, opt))
    hp, hl = datasets["high-only"]
    report(f"case-high-only[{tag}]", lambda: direct(hp, hl, guess, bounds, None if opt is None else dict(opt)))

# 3. non-array inputs straight into fit()
report("lists", lambda: direct(list(pr), list(ld), dict(fixed_guess)))
report("series", lambda: direct(pandas.Series(pr), pandas.Series(ld), dict(fixed_guess)))
report("mismatch", lambda: direct(pr[:-1], ld, dict(fixed_guess)))
report("mismatch-opt", lambda: direct(pr[:-1], ld, dict(fixed_guess), opt={"add_point": True}))
report("2d", lambda: direct(pr.reshape(4, 5), ld.reshape(4, 5), dict(fixed_guess)))

# 4. verbose (draws the virial plot)
report("verbose", lambda: direct(pr, ld, dict(fixed_guess), verbose=True))
report("verbose-added", lambda: direct(*datasets["high-only"], dict(fixed_guess), opt={"add_point": True}, verbose=True))

# 5. through the isotherm classes
for dname in ("exact20", "exact60", "toth30", "noisy30", "zero-first", "high-only", "lang15"):
    a, b = datasets[dname]

    def via_iso():
        iso = ModelIsotherm(pressure=a, loading=b, model="Virial", **base_kw)
        pts = PointIsotherm.from_modelisotherm(iso, loading_points=[0.5, 1.0, 2.0])
        return model_state(iso.model) + " p_at=" + fmt(iso.pressure_at(numpy.array([0.5, 1.0, 2.0]))) \
            + " pts=" + fmt(pts.data_raw["pressure"].values)

    report(f"iso[{dname}]", via_iso)

    def via_iso_opt():
        opt = {"add_point": True, "xtol": 1e-10}
        iso = ModelIsotherm(pressure=a, loading=b, model="Virial", optimization_params=opt, **base_kw)
        return model_state(iso.model) + " opt_after=" + fmt(opt)

    report(f"iso-addpoint[{dname}]", via_iso_opt)

# 6. model can be fitted twice
def refit():
    m = get_isotherm_model("Virial")
    out = []
    for dname in ("exact20", "toth30", "exact8"):
        a, b = datasets[dname]
        m.fit(a, b, m.initial_guess(a, b))
        out.append(model_state(m))
    return " | ".join(out)


report("refit", refit)

# 7. reported error against an independent evaluation of the documented (linearised) definition
for dname in ("exact20", "noisy30", "toth30"):
    def ident():
        a, b = datasets[dname]
        m = get_isotherm_model("Virial")
        m.fit(a, b, m.initial_guess(a, b))
        q = m.params
        res = q["C"] * b**3 + q["B"] * b**2 + q["A"] * b - numpy.log(q["K"]) - numpy.log(a / b)
        return fmt(m.rmse) + " " + fmt(numpy.sqrt(numpy.sum(res**2) / len(b)))
    report(f"identity[{dname}]", ident)
