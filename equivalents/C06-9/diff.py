"""Differential transcript for C06-1 (isotherm_to_json restructuring)."""
import glob
import json
import os
import sys
import tempfile
import warnings

warnings.simplefilter("ignore")

import numpy
import pandas

import pygaps
from pygaps.core.baseisotherm import BaseIsotherm
from pygaps.parsing import json as pgjson
from pygaps.parsing.json import isotherm_from_json
from pygaps.parsing.json import isotherm_to_json

ROOT = os.path.dirname(os.path.dirname(os.path.dirname(os.path.abspath(pygaps.__file__))))


def show(label, fn):
    try:
        res = fn()
        print(f"[{label}] OK {res!r}")
        return res
    except BaseException as err:  # noqa
        print(f"[{label}] EXC {type(err).__name__}: {err}")
        return None


UNITS = dict(
    pressure_mode='absolute',
    pressure_unit='bar',
    material_basis='mass',
    material_unit='g',
    loading_basis='molar',
    loading_unit='mmol',
    temperature_unit='K',
)


def make_isotherms():
    isos = {}
    isos['base'] = BaseIsotherm(
        material='carbon',
        adsorbate='nitrogen',
        temperature=77,
        comment='x',
        number=3,
        real=1.5,
        flag=True,
        nothing=None,
        nested={'a': [1, 2, {'b': None}]},
        lst=[1, 'a', 2.5],
        **UNITS,
    )
    isos['base_matprops'] = BaseIsotherm(
        material={
            'name': 'zeo',
            'density': 2.1,
            'colour': 'white'
        },
        adsorbate='argon',
        temperature=87.3,
        **{
            **UNITS, 'pressure_mode': 'relative',
            'loading_basis': 'mass',
            'loading_unit': 'g'
        },
    )
    isos['base_celsius'] = BaseIsotherm(
        material='m', adsorbate='CO2', temperature=25, **{
            **UNITS, 'temperature_unit': '°C'
        }
    )
    p = [0.1, 0.2, 0.5, 1.0, 2.0]
    l = [1.0, 1.8, 3.0, 3.9, 4.4]
    isos['point_ads'] = pygaps.PointIsotherm(
        pressure=p, loading=l, material='carbon', adsorbate='N2', temperature=77, **UNITS
    )
    isos['point_adsdes'] = pygaps.PointIsotherm(
        pressure=p + [1.0, 0.5, 0.1],
        loading=l + [4.1, 3.3, 1.4],
        material='carbon',
        adsorbate='N2',
        temperature=77,
        note='hysteresis',
        **UNITS,
    )
    isos['point_desonly'] = pygaps.PointIsotherm(
        pressure=p[::-1],
        loading=l[::-1],
        branch='des',
        material='carbon',
        adsorbate='N2',
        temperature=77,
        **UNITS,
    )
    df = pandas.DataFrame({
        'pressure': p + [1.0, 0.3],
        'loading': l + [4.0, 2.5],
        'enthalpy': [10.0, 9.5, numpy.nan, 8.0, 7.5, 7.0, 6.5],
        'text': list('abcdefg'),
    })
    isos['point_other'] = pygaps.PointIsotherm(
        isotherm_data=df,
        pressure_key='pressure',
        loading_key='loading',
        other_keys=['enthalpy', 'text'],
        material={
            'name': 'mof',
            'molar_mass': 100.0
        },
        adsorbate='methane',
        temperature=298,
        **UNITS,
    )
    isos['point_single'] = pygaps.PointIsotherm(
        pressure=[1.0], loading=[2.0], material='carbon', adsorbate='N2', temperature=77, **UNITS
    )
    isos['point_branchlist'] = pygaps.PointIsotherm(
        pressure=[1, 2, 3, 2.5, 4],
        loading=[1, 2, 3, 3.5, 4],
        branch=[False, True, False, True, False],
        material='carbon',
        adsorbate='N2',
        temperature=77,
        **UNITS,
    )
    isos['model_fit'] = pygaps.ModelIsotherm(
        pressure=p,
        loading=l,
        model='Langmuir',
        material='carbon',
        adsorbate='N2',
        temperature=77,
        **UNITS
    )
    from pygaps.modelling import get_isotherm_model
    isos['model_given'] = pygaps.ModelIsotherm(
        model=get_isotherm_model(
            'DSLangmuir',
            parameters={
                'n_m1': 1.0,
                'K1': 2.0,
                'n_m2': 3.0,
                'K2': 0.1
            },
            pressure_range=(0.0, 5.0),
            loading_range=(0.0, 3.5),
            rmse=0.0123,
        ),
        branch='des',
        material='carbon',
        adsorbate='N2',
        temperature=77,
        tag='given',
        **UNITS,
    )
    isos['model_nan'] = pygaps.ModelIsotherm(
        model=get_isotherm_model('Henry'),
        material='carbon',
        adsorbate='N2',
        temperature=77,
        **UNITS,
    )
    return isos


def files():
    out = {}
    for sub in ('parsing/json', 'characterisation'):
        for path in sorted(glob.glob(os.path.join(ROOT, 'docs', 'examples', 'data', sub, '*.json'))):
            out[sub + '/' + os.path.basename(path)] = path
    return out


def main():
    isos = make_isotherms()
    for name, path in files().items():
        iso = show(f"load {name}", lambda: isotherm_from_json(path))
        if iso is not None:
            isos['file:' + name] = iso

    tmpdir = tempfile.mkdtemp()
    for name, iso in isos.items():
        print("=" * 20, name)
        before = repr(iso.to_dict())
        s1 = show("to_json str", lambda: isotherm_to_json(iso))
        show("to_json str again", lambda: isotherm_to_json(iso) == s1)
        show("to_json indent", lambda: isotherm_to_json(iso, indent=2))
        show("to_json sort_keys False", lambda: isotherm_to_json(iso, sort_keys=False))
        show("to_json separators", lambda: isotherm_to_json(iso, None, separators=(',', ':')))
        show("to_json path empty", lambda: isotherm_to_json(iso, ''))
        show("to_json path 0", lambda: isotherm_to_json(iso, 0, indent=1))
        show("method to_json", lambda: iso.to_json())
        fpath = os.path.join(tmpdir, 'out.json')
        show("to_json file", lambda: isotherm_to_json(iso, fpath))
        show("file content", lambda: open(fpath, encoding='utf-8').read())
        show("file content == str", lambda: open(fpath, encoding='utf-8').read() == s1)
        show("to_json file indent", lambda: isotherm_to_json(iso, path=fpath, indent=4))
        show("file content", lambda: open(fpath, encoding='utf-8').read())
        show("method file", lambda: iso.to_json(fpath, indent=None))
        show("file content", lambda: open(fpath, encoding='utf-8').read())
        os.remove(fpath)
        show("bad dir", lambda: isotherm_to_json(iso, '/nonexistent-dir-xyz/out.json'))
        show("bad kwarg", lambda: isotherm_to_json(iso, bogus_argument=1))
        show("allow_nan False", lambda: isotherm_to_json(iso, allow_nan=False))
        print("unchanged by export:", before == repr(iso.to_dict()))
        if hasattr(iso, 'data_raw'):
            print("data_raw:", iso.data_raw.to_dict(orient='list'))
        # roundtrip
        back = show("roundtrip", lambda: isotherm_from_json(s1))
        if back is not None:
            print("equal:", back == iso, type(back).__name__)
            print("re-export same:", isotherm_to_json(back) == s1)
            print("dict:", repr(back.to_dict()))
            if hasattr(back, 'data_raw'):
                print("data:", back.data_raw.to_dict(orient='list'), list(back.data_raw.dtypes.astype(str)))
            if hasattr(back, 'model'):
                print("model:", back.model.to_dict(), back.branch)

    print("=" * 20, "errors")
    show("None isotherm", lambda: isotherm_to_json(None))
    show("string isotherm", lambda: isotherm_to_json("abc"))

    bad = BaseIsotherm(material='m', adsorbate='N2', temperature=77, obj=object, **UNITS)
    show("unserialisable", lambda: isotherm_to_json(bad).replace(hex(id(object)), 'ID'))
    bad2 = BaseIsotherm(material='m', adsorbate='N2', temperature=77, arr={1: 2, 'a': 3}, **UNITS)
    show("mixed keys sort", lambda: isotherm_to_json(bad2))
    fpath = os.path.join(tmpdir, 'bad.json')
    show("unserialisable file", lambda: isotherm_to_json(bad2, fpath))
    show("partial file", lambda: open(fpath).read())
    os.remove(fpath)

    # the helper that marks points (whatever its name / location)
    class FakeIso(pygaps.PointIsotherm):
        pass

    print("=" * 20, "subclass and odd branch values")
    sub = FakeIso(
        pressure=[1, 2, 1.5], loading=[1, 2, 1.8], material='m', adsorbate='N2', temperature=77, **UNITS
    )
    show("subclass", lambda: isotherm_to_json(sub))
    sub.data_raw['branch'] = [0, 2, -1]
    show("odd marks", lambda: isotherm_to_json(sub))
    sub.data_raw['branch'] = [0.0, 1.0, numpy.nan]
    show("float marks", lambda: isotherm_to_json(sub))
    sub.data_raw = sub.data_raw.drop(columns='branch')
    show("no branch col", lambda: isotherm_to_json(sub))

    os.rmdir(tmpdir)
    print("module public names:", sorted(n for n in dir(pgjson) if not n.startswith('_')))


if __name__ == '__main__':
    main()
