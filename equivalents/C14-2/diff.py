"""Differential script for change 2: da_plot / da_plot_raw (regression closure, exponent search)."""
import numpy

from eqcommon import da_iso
from eqcommon import grid
from eqcommon import lang_iso
from eqcommon import run_case

import pygaps
from pygaps.characterisation.dr_da_plots import da_plot
from pygaps.characterisation.dr_da_plots import da_plot_raw
from pygaps.characterisation.dr_da_plots import dr_plot

T, MM, RHO = 77.355, 28.0134, 0.8064

# ---- exact DA isotherms: exponent given (exact / wrong) and exponent searched
n = 0
for v0 in (0.05, 0.31, 1.2):
    for e_kj in (1.5, 6.0, 14.0):
        for exp in (1.0, 1.7, 2.0, 2.6, 3.0):
            n += 1
            kind = ("lin", "log", "rnd")[n % 3]
            npts = (5, 9, 25, 60, 100)[n % 5]
            p = grid(npts, 1e-4 if kind == "log" else 0.002, 0.2, kind, seed=n)
            load = da_iso(p, v0, e_kj, exp, T, MM, RHO)
            run_case(f"given v0={v0} e={e_kj} n={exp} {npts}{kind}", da_plot_raw, p, load, T, MM, RHO, exp)
            run_case(f"search v0={v0} e={e_kj} n={exp} {npts}{kind}", da_plot_raw, p, load, T, MM, RHO, None)
            if n % 4 == 0:
                run_case(f"wrong exp v0={v0} e={e_kj} n={exp}", da_plot_raw, p, load, T, MM, RHO, 2)

# ---- other temperatures / adsorbate constants, list inputs, default arguments
p = grid(30, 1e-3, 0.3, "log")
for temp, mm, rho in ((87.3, 39.948, 1.395), (273.15, 44.01, 0.93), (298.0, 18.015, 0.997)):
    load = da_iso(p, 0.4, 8.0, 2.2, temp, mm, rho)
    run_case(f"consts T={temp} given", da_plot_raw, list(p), list(load), temp, mm, rho, 2.2)
    run_case(f"consts T={temp} search", da_plot_raw, list(p), list(load), temp, mm, rho)
    run_case(f"consts T={temp} kw", da_plot_raw, p, load, temp, mm, rho, exp=None, p_limits=None)

# ---- exponent values outside the usual range
load = da_iso(p, 0.4, 8.0, 2.0, T, MM, RHO)
for exp in (0, 0.0, 0.5, 1, 3, 4.5, -1, -2.0, 2, numpy.float64(2.0), True):
    run_case(f"raw exp={exp!r}", da_plot_raw, p, load, T, MM, RHO, exp)

# ---- non-DA data (search ends at a bound / poor fit), degenerate data
pl = grid(40, 0.01, 0.9)
run_case("langmuir data search", da_plot_raw, pl, lang_iso(pl, 5e-3, 30), T, MM, RHO, None)
run_case("langmuir data dr", da_plot_raw, pl, lang_iso(pl, 5e-3, 30), T, MM, RHO, 2)
run_case("constant loading search", da_plot_raw, pl, numpy.full_like(pl, 3e-3), T, MM, RHO, None)
load0 = lang_iso(pl, 5e-3, 30).copy()
load0[0] = 0.0
run_case("zero loading point search", da_plot_raw, pl, load0, T, MM, RHO, None)
run_case("zero loading point given", da_plot_raw, pl, load0, T, MM, RHO, 2)
loadn = lang_iso(pl, 5e-3, 30).copy()
loadn[5] = numpy.nan
run_case("nan loading search", da_plot_raw, pl, loadn, T, MM, RHO, None)
run_case("pressure above 1 search", da_plot_raw, pl * 1.5, lang_iso(pl, 5e-3, 30), T, MM, RHO, None)
run_case("pressure above 1 given", da_plot_raw, pl * 1.5, lang_iso(pl, 5e-3, 30), T, MM, RHO, 2)

# ---- invalid / short input
run_case("empty", da_plot_raw, [], [], T, MM, RHO, 2)
run_case("mismatch", da_plot_raw, [0.1, 0.2, 0.3], [1.0, 2.0], T, MM, RHO, 2)
run_case("one point", da_plot_raw, [0.1], [1.0], T, MM, RHO, 2)
run_case("two points", da_plot_raw, [0.1, 0.2], [1.0, 1.2], T, MM, RHO, None)
run_case("three points given", da_plot_raw, [0.01, 0.05, 0.1], [1.0, 1.2, 1.3], T, MM, RHO, 2)
run_case("three points search", da_plot_raw, [0.01, 0.05, 0.1], [1.0, 1.2, 1.3], T, MM, RHO, None)

# ---- manual limits
p = grid(45, 1e-4, 0.5, "log")
load = da_iso(p, 0.27, 5.5, 1.8, T, MM, RHO)
for lim in (
    (0.001, 0.1), (None, 0.1), (0.001, None), (None, None), (0, 0.2), (0.001, 0), (0.2, 0.21),
    (0.3, 0.01), (0.6, 2), (p[7], p[9]), (p[7], p[10]), [0.01, 0.3], (-1, 0.05),
):
    run_case(f"limits {lim} given", da_plot_raw, p, load, T, MM, RHO, 1.8, lim)
    run_case(f"limits {lim} search", da_plot_raw, p, load, T, MM, RHO, None, lim)


# ---- isotherm entry points
def make_iso(pp, ll):
    return pygaps.PointIsotherm(
        pressure=pp,
        loading=ll * 1000,
        material="gen",
        adsorbate="N2",
        temperature=T,
        temperature_unit="K",
        pressure_unit="bar",
        pressure_mode="relative",
        loading_basis="molar",
        loading_unit="mmol",
        material_basis="mass",
        material_unit="g",
    )


pp = grid(30, 1e-4, 0.3, "log")
for v0, e_kj, nexp in ((0.3, 7.0, 2.0), (0.8, 3.0, 1.4), (0.1, 12.0, 2.9)):
    iso = make_iso(pp, da_iso(pp, v0, e_kj, nexp, T, MM, 0.8))
    run_case(f"iso dr v0={v0} n={nexp}", dr_plot, iso)
    run_case(f"iso dr limits v0={v0} n={nexp}", dr_plot, iso, p_limits=(0.001, 0.1))
    run_case(f"iso dr des v0={v0} n={nexp}", dr_plot, iso, branch="des")
    for exp in (None, 0, 0.0, False, nexp, 2, 1, 3, 3.5, -1, -0.5, numpy.float64(nexp)):
        run_case(f"iso da v0={v0} n={nexp} exp={exp!r}", da_plot, iso, exp)
    run_case(f"iso da limits v0={v0} n={nexp}", da_plot, iso, None, "ads", (0.0005, 0.2))
    run_case(f"iso da too few v0={v0} n={nexp}", da_plot, iso, exp=None, p_limits=(0.01, 0.011))
