"""Differential script for change 4: Adsorbate.enthalpy_liquefaction / enthalpy_vaporisation."""
import numpy as np
from eqfmt import fmt, model_iso, run  # noqa: F401

import pygaps
from pygaps.characterisation.enth_sorp_whittaker import enthalpy_sorption_whittaker

dict_ads = pygaps.Adsorbate("dictgas", store=True, enthalpy_liquefaction=21.5, p_critical=40.0, p_triple=0.1,
                            t_critical=300.0, saturation_pressure=2.0e5)
dict_ads_empty = pygaps.Adsorbate("dictgas4", store=True)
bad_backend = pygaps.Adsorbate("badbackend", store=True, backend_name="NoSuchFluidXYZ", enthalpy_liquefaction=7.25)
bad_backend_empty = pygaps.Adsorbate("badbackend2", store=True, backend_name="NoSuchFluidXYZ")


def fresh(name):
    """A new Adsorbate object with the properties of a library one (own backend state)."""
    return pygaps.Adsorbate(name + "-copy", **{
        k: v for k, v in pygaps.Adsorbate.find(name).to_dict().items() if k not in ("name", )
    })


cases = []
for name, temps, presses in [
    ("nitrogen", [63.2, 64.0, 77.0, 77.35, 100.0, 126.0, 126.19, 126.2, 130.0, 298.15, 10.0],
     [1.0, 1.0e3, 12519.0, 12530.0, 101325.0, 1.0e6, 3.39e6, 3.3958e6, 3.4e6, 1.0e8]),
    ("carbon dioxide", [200.0, 216.6, 250.0, 298.15, 304.1, 310.0], [1.0e5, 5.18e5, 1.0e6, 5.0e6, 7.37e6, 8.0e6]),
    ("butane", [140.0, 273.15, 298.15, 425.0, 430.0], [0.5, 1.0, 1.0e5, 3.0e6, 4.0e6]),
    ("water", [273.16, 298.15, 373.15, 647.0], [611.0, 612.0, 3169.0, 101325.0, 2.2e7]),
    ("argon", [83.9, 87.3], [68891.0, 101325.0]),
]:
    ads = pygaps.Adsorbate.find(name)
    for T in temps:
        cases.append((f"{name}-T{T}", ads.enthalpy_vaporisation, dict(temp=T)))
    for p in presses:
        cases.append((f"{name}-p{p}", ads.enthalpy_vaporisation, dict(press=p)))

n2 = pygaps.Adsorbate.find("nitrogen")
cases += [
    # argument handling
    ("liq-alias-temp", n2.enthalpy_liquefaction, dict(temp=77.0)),
    ("liq-alias-press", n2.enthalpy_liquefaction, dict(press=101325.0)),
    ("positional-temp", n2.enthalpy_vaporisation, dict(args=(77.0, ))),
    ("positional-temp-none-press", n2.enthalpy_vaporisation, dict(args=(None, 101325.0))),
    ("positional-all", n2.enthalpy_liquefaction, dict(args=(None, 101325.0, True))),
    ("both", n2.enthalpy_vaporisation, dict(temp=77.0, press=101325.0)),
    ("both-liq", n2.enthalpy_liquefaction, dict(temp=77.0, press=101325.0)),
    ("neither", n2.enthalpy_vaporisation, {}),
    ("temp-zero", n2.enthalpy_vaporisation, dict(temp=0)),
    ("temp-zero-press", n2.enthalpy_vaporisation, dict(temp=0, press=101325.0)),
    ("temp-zero-float-press", n2.enthalpy_vaporisation, dict(temp=0.0, press=101325.0)),
    ("press-zero", n2.enthalpy_vaporisation, dict(press=0)),
    ("press-zero-temp", n2.enthalpy_vaporisation, dict(temp=77.0, press=0.0)),
    ("temp-negative", n2.enthalpy_vaporisation, dict(temp=-5.0)),
    ("press-negative", n2.enthalpy_vaporisation, dict(press=-5.0)),
    ("temp-nan", n2.enthalpy_vaporisation, dict(temp=float("nan"))),
    ("press-nan", n2.enthalpy_vaporisation, dict(press=float("nan"))),
    ("temp-inf", n2.enthalpy_vaporisation, dict(temp=float("inf"))),
    ("temp-numpy", n2.enthalpy_vaporisation, dict(temp=np.float64(77.0))),
    ("press-numpy", n2.enthalpy_vaporisation, dict(press=np.float64(101325.0))),
    ("press-numpy0d", n2.enthalpy_vaporisation, dict(press=np.array(101325.0))),
    ("temp-int", n2.enthalpy_vaporisation, dict(temp=77)),
    ("press-int", n2.enthalpy_vaporisation, dict(press=101325)),
    ("temp-string", n2.enthalpy_vaporisation, dict(temp="77")),
    ("press-string", n2.enthalpy_vaporisation, dict(press="1e5")),
    ("temp-array", n2.enthalpy_vaporisation, dict(temp=np.array([77.0, 80.0]))),
    ("temp-list", n2.enthalpy_vaporisation, dict(temp=[77.0])),
    ("temp-true", n2.enthalpy_vaporisation, dict(temp=True)),
    ("no-calc", n2.enthalpy_vaporisation, dict(temp=77.0, calculate=False)),
    ("no-calc-both", n2.enthalpy_vaporisation, dict(temp=77.0, press=1e5, calculate=False)),
    ("no-calc-neither", n2.enthalpy_liquefaction, dict(calculate=False)),
    # dictionary fallbacks
    ("dict-temp", dict_ads.enthalpy_vaporisation, dict(temp=77.0)),
    ("dict-press", dict_ads.enthalpy_vaporisation, dict(press=1e5)),
    ("dict-press-again", dict_ads.enthalpy_vaporisation, dict(press=1e5)),
    ("dict-both", dict_ads.enthalpy_vaporisation, dict(temp=77.0, press=1e5)),
    ("dict-neither", dict_ads.enthalpy_vaporisation, {}),
    ("dict-no-calc", dict_ads.enthalpy_liquefaction, dict(calculate=False)),
    ("dict-empty-temp", dict_ads_empty.enthalpy_vaporisation, dict(temp=77.0)),
    ("dict-empty-press", dict_ads_empty.enthalpy_vaporisation, dict(press=1e5)),
    ("dict-empty-neither", dict_ads_empty.enthalpy_vaporisation, {}),
    ("dict-empty-no-calc", dict_ads_empty.enthalpy_vaporisation, dict(calculate=False)),
    ("bad-backend-temp", bad_backend.enthalpy_vaporisation, dict(temp=77.0)),
    ("bad-backend-press", bad_backend.enthalpy_vaporisation, dict(press=1e5)),
    ("bad-backend-neither", bad_backend.enthalpy_vaporisation, {}),
    ("bad-backend-empty-press", bad_backend_empty.enthalpy_vaporisation, dict(press=1e5)),
]

for label, func, kw in cases:
    kw = dict(kw)
    args = kw.pop("args", ())
    run(label, func, *args, **kw)

# the state left in the backend object is the saturated vapour of the last request
for label, kw in [("state-after-temp", dict(temp=77.0)), ("state-after-press", dict(press=2.0e5))]:
    ads = fresh("nitrogen")
    ads.enthalpy_vaporisation(**kw)
    st = ads.backend
    print(f"[{label}]", fmt([st.Q(), st.T(), st.p(), st.hmolar()]))
ads = fresh("nitrogen")
run("state-after-failure-call", ads.enthalpy_vaporisation, temp=300.0)
run("state-after-failure-next", ads.enthalpy_vaporisation, press=1.0e5)

# sequence on one object: temperature / pressure requests interleaved with other backend users
ads = fresh("carbon dioxide")
seq = []
for T, p in [(220.0, 6.0e5), (250.0, 2.0e6), (300.0, 7.0e6)]:
    seq += [ads.enthalpy_vaporisation(temp=T), ads.saturation_pressure(T), ads.enthalpy_vaporisation(press=p),
            ads.liquid_density(T), ads.enthalpy_liquefaction(press=p), ads.enthalpy_liquefaction(T)]
print("[sequence]", fmt(seq))

# through the Whittaker method (pressure branch, capped at the triple point)
for name, T, K in [("nitrogen", 77.0, 1e-4), ("carbon dioxide", 250.0, 1e-5), ("butane", 298.15, 5e-4),
                   ("dictgas", 250.0, 1e-4), ("badbackend", 250.0, 1e-4)]:
    iso = model_iso("Toth", {"n_m": 5.0, "K": K, "t": 0.8}, T, adsorbate=name, l_range=(0.0, 4.5))
    run(f"whittaker-{name}", enthalpy_sorption_whittaker, iso, loading=[0.0, 0.2, 1.0, 3.0, 4.5, 4.99])
