"""Differential script for change 4: ModelIsotherm.pressure_at / loading_at / spreading_pressure_at
(branch guard, unit / basis / mode defaulting, conversion around the bare model)."""
import itertools
import warnings

import numpy

warnings.filterwarnings("ignore")
numpy.seterr(all="ignore")

import pygaps
from pygaps.modelling import get_isotherm_model


def canon(v):
    """Canonical text of a result: type, shape, dtype, values to 17 significant digits."""
    if isinstance(v, numpy.ndarray):
        vals = ", ".join(f"{x:.17g}" if isinstance(x, float) else repr(x) for x in v.ravel().tolist())
        return f"ndarray{v.shape}:{v.dtype}[{vals}]"
    if isinstance(v, (float, numpy.floating)):
        return f"{type(v).__name__}:{float(v):.17g}"
    if isinstance(v, (list, tuple)):
        return type(v).__name__ + "(" + ", ".join(canon(x) for x in v) + ")"
    return f"{type(v).__name__}:{v!r}"


def run(label, fn, *args, **kwargs):
    try:
        res = canon(fn(*args, **kwargs))
    except Exception as err:  # noqa
        res = f"EXC {type(err).__name__}: {err}"
    print(f"{label} -> {res}")


material = pygaps.Material("eqmat", density=1.7, molar_mass=321.0)

ISOS = {}
for key, (mname, params, units, branch) in {
    "lang-abs": ("Langmuir", dict(n_m=4.0, K=2.5), dict(
        pressure_mode="absolute", pressure_unit="bar", loading_basis="molar", loading_unit="mmol",
        material_basis="mass", material_unit="g"), "ads"),
    "bet-rel": ("BET", dict(n_m=3.0, C=80.0, N=0.9), dict(
        pressure_mode="relative", pressure_unit=None, loading_basis="volume_gas", loading_unit="cm3",
        material_basis="mass", material_unit="g"), "ads"),
    "toth-kpa-des": ("Toth", dict(n_m=6.0, K=0.03, t=0.6), dict(
        pressure_mode="absolute", pressure_unit="kPa", loading_basis="mass", loading_unit="mg",
        material_basis="volume", material_unit="cm3"), "des"),
    "virial-rel%": ("Virial", dict(K=3.0, A=0.2, B=0.01, C=0.001), dict(
        pressure_mode="relative%", pressure_unit=None, loading_basis="molar", loading_unit="mol",
        material_basis="molar", material_unit="mol"), "ads"),
    "fhvst-frac": ("FHVST", dict(n_m=0.4, K=2.0, a1v=0.8), dict(
        pressure_mode="absolute", pressure_unit="torr", loading_basis="fraction", loading_unit=None,
        material_basis="mass", material_unit="g"), "ads"),
    "dr-abs": ("DR", dict(n_m=5.0, e=5000.0), dict(
        pressure_mode="relative", pressure_unit=None, loading_basis="molar", loading_unit="mmol",
        material_basis="mass", material_unit="kg"), "ads"),
}.items():
    model = get_isotherm_model(mname, parameters=params)
    try:
        ISOS[key] = pygaps.ModelIsotherm(
            model=model, branch=branch, material=material, adsorbate="nitrogen", temperature=77.0, **units
        )
    except Exception as err:  # noqa
        print(f"construction of {key} failed: {type(err).__name__}: {err}")

VALUES = [
    ("scalar", 0.3),
    ("zero", 0),
    ("list", [0.1, 0.2, 0.5]),
    ("1d", numpy.array([0.0, 0.05, 0.4, 0.8])),
    ("0d", numpy.array(0.25)),
    ("empty", []),
    ("none", None),
]

# keyword combinations: every argument alone, pairs that belong together, mismatches, invalid names
KWARGS = [
    {},
    dict(branch="ads"), dict(branch="des"), dict(branch="all"), dict(branch=""),
    dict(pressure_unit="kPa"), dict(pressure_unit="Pa"), dict(pressure_unit="xyz"),
    dict(pressure_mode="absolute"), dict(pressure_mode="relative"), dict(pressure_mode="relative%"),
    dict(pressure_mode="absolute", pressure_unit="torr"), dict(pressure_mode="relative", pressure_unit="bar"),
    dict(pressure_mode="nonsense"),
    dict(loading_unit="mol"), dict(loading_unit="g"), dict(loading_unit="cm3"), dict(loading_unit="xyz"),
    dict(loading_basis="molar"), dict(loading_basis="mass"), dict(loading_basis="volume_gas"),
    dict(loading_basis="mass", loading_unit="g"), dict(loading_basis="molar", loading_unit="mmol"),
    dict(loading_basis="volume_gas", loading_unit="cm3"), dict(loading_basis="volume_liquid", loading_unit="cm3"),
    dict(loading_basis="percent"), dict(loading_basis="fraction"), dict(loading_basis="percent", loading_unit="g"),
    dict(loading_basis="nonsense", loading_unit="g"),
    dict(material_unit="kg"), dict(material_unit="cm3"), dict(material_unit="xyz"),
    dict(material_basis="mass"), dict(material_basis="volume"), dict(material_basis="molar"),
    dict(material_basis="mass", material_unit="kg"), dict(material_basis="volume", material_unit="cm3"),
    dict(material_basis="molar", material_unit="mmol"), dict(material_basis="nonsense", material_unit="g"),
    dict(loading_basis="mass", loading_unit="mg", material_basis="volume", material_unit="cm3"),
    dict(loading_basis="percent", material_basis="mass", material_unit="kg"),
    dict(loading_basis="fraction", material_basis="volume", material_unit="cm3"),
    dict(loading_unit="mol", material_unit="kg"),
    dict(loading_unit="mol", material_basis="molar"),
    dict(pressure_mode="absolute", pressure_unit="kPa", loading_basis="mass", loading_unit="g",
         material_basis="mass", material_unit="kg"),
    dict(pressure_mode="relative%", loading_basis="volume_gas", loading_unit="cm3",
         material_basis="molar", material_unit="mol"),
    dict(branch="des", pressure_unit="kPa", loading_unit="xyz"),
    dict(pressure_unit="", pressure_mode="", loading_unit="", loading_basis="", material_unit="", material_basis=""),
]

for key, iso in ISOS.items():
    for kw in KWARGS:
        kwtag = ",".join(f"{k}={v!r}" for k, v in kw.items())
        for vname, val in (VALUES if len(kw) < 2 else VALUES[:4]):
            run(f"{key}.loading_at({vname};{kwtag})", iso.loading_at, val, **kw)
            run(f"{key}.pressure_at({vname};{kwtag})", iso.pressure_at, val, **kw)
            if not set(kw) - {"branch", "pressure_unit", "pressure_mode"}:
                run(f"{key}.spreading_pressure_at({vname};{kwtag})", iso.spreading_pressure_at, val, **kw)
    # the wrappers give the bare model's values when no conversion is asked for
    pts = numpy.array([0.05, 0.3, 0.7])
    for f_iso, f_mod in [(iso.loading_at, iso.model.loading), (iso.pressure_at, iso.model.pressure)]:
        try:
            print(key, "bare model identical:", canon(f_iso(pts)) == canon(f_mod(pts)))
        except Exception as err:  # noqa
            print(key, f"EXC {type(err).__name__}: {err}")
    # the isotherm is not modified by the calls
    print(key, "state:", iso.branch, iso.pressure_mode, iso.pressure_unit, iso.loading_basis, iso.loading_unit,
          iso.material_basis, iso.material_unit)
    # positional use of the arguments
    run(f"{key} positional loading_at", iso.loading_at, 0.2, None, "kPa", "absolute", "mol", "molar", "kg", "mass")
    run(f"{key} positional pressure_at", iso.pressure_at, 0.2, None, "kPa", "absolute", "mol", "molar", "kg", "mass")
    run(f"{key} positional spreading_pressure_at", iso.spreading_pressure_at, 0.2, None, "kPa", "absolute")
