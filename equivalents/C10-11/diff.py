"""Differential transcript for patch C10-3 (DR / DA / Toth equations and DR/DA initialisation)."""
import itertools
import warnings

import numpy

import pygaps
from pygaps.modelling import get_isotherm_model

assert pygaps.__file__.startswith('/var/tmp/wt/eq3-10/'), pygaps.__file__
numpy.seterr(all='warn')


def fmt(res):
    if isinstance(res, numpy.ndarray):
        return f'ndarray {res.dtype} {res.shape} {res.tolist()!r}'
    return f'{type(res).__name__} {res!r}'


def show(label, fn, strict=False):
    with warnings.catch_warnings(record=True) as caught:
        warnings.simplefilter('error' if strict else 'always')
        try:
            out = 'OK ' + fmt(fn())
        except BaseException as err:  # noqa
            out = f'!! {type(err).__name__} {err} | cause {type(err.__cause__).__name__}'
    warns = [f'{w.category.__name__}:{w.message}' for w in caught]
    print(label, '[strict]' if strict else '', '->', out, '| warnings', warns)


def lab(val):
    if isinstance(val, numpy.ndarray):
        return f'array({val.tolist()!r},{val.dtype})'
    return f'{type(val).__name__}({val!r})'


GRID = {
    'DR': [dict(n_m=n_m, e=e) for n_m, e in itertools.product((0.0, 0.5, 6.0, 1e6), (0.0, 1e-3, 900.0, 12000.0, 1e9))],
    'DA': [
        dict(n_m=n_m, e=e, m=m)
        for n_m, e, m in itertools.product((0.0, 0.5, 6.0, 1e6), (0.0, 1e-3, 900.0, 12000.0), (1, 1.0, 1.5, 2, 2.0, 3.0, 0))
    ],
    'Toth': [
        dict(n_m=n_m, K=K, t=t)
        for n_m, K, t in itertools.product((0.0, 0.5, 5.0, 1e6), (0.0, 1e-3, 3.0, 1e6), (0, 1e-3, 0.5, 0.7, 1, 1.0, 2.5, 50.0))
    ],
}
TEMPERATURES = [None, 77.355, 298.15, 1, 0, 0.0, numpy.float64(87.3), 1e4, -10.0]
PRESSURES = [
    0.0, 0, 1e-300, 1e-12, 1e-3, 0.1, 0.5, 0.99, 1.0, 1, 1.5, 50.0, -0.1,
    float('nan'),
    float('inf'),
    numpy.float64(0.3),
    numpy.float32(0.3),
    numpy.array(0.3),
    numpy.array([0.0, 1e-6, 0.2, 0.7, 1.0]),
    numpy.array([[0.1, 0.2], [0.3, 0.4]]),
    numpy.array([1, 2]),
    numpy.array([]),
    [0.1, 0.2],
    '0.1',
    None,
]
LOADINGS = [
    0.0, 0, 1e-12, 1e-3, 0.1, 1.0, 5.9, 6.0, 6.1, 50.0, -0.1,
    float('nan'),
    float('inf'),
    numpy.float64(0.3),
    numpy.array(0.3),
    numpy.array([0.0, 0.01, 0.2, 0.7, 5.0]),
    numpy.array([[0.1, 0.2], [0.3, 0.4]]),
    numpy.array([1, 2]),
    numpy.array([]),
    [0.1, 0.2],
    '0.1',
    None,
]


def build(name, params, temperature):
    model = get_isotherm_model(name, parameters=dict(params))
    if temperature is not None:
        model.__init_parameters__({'temperature': temperature})
    return model


# ---- full grid at two temperatures (and the class default when not initialised)
for name, grid in GRID.items():
    for params, temp in itertools.product(grid, (None, 77.355, 298.15)):
        if name == 'Toth' and temp is not None:
            continue
        model = build(name, params, temp)
        print('=====', name, params, 'T', temp, 'minus_rt', repr(getattr(model, 'minus_rt', None)))
        for p in PRESSURES:
            show(f'{name}{params}@{temp}.loading({lab(p)})', lambda: model.loading(p))
        for n in LOADINGS:
            show(f'{name}{params}@{temp}.pressure({lab(n)})', lambda: model.pressure(n))
        for p in (0.0, 1e-6, 0.1, 0.5, 1.0, numpy.array([0.0, 0.05, 0.3, 0.9])):
            show(f'{name}{params}@{temp}.pressure(loading({lab(p)}))', lambda: model.pressure(model.loading(p)))
            show(f'{name}{params}@{temp}.loading(pressure(loading({lab(p)})))', lambda: model.loading(model.pressure(model.loading(p))))
        print('state after', model.params, sorted(vars(model)))

# ---- odd temperatures, order of failures, warnings as errors
for name in ('DR', 'DA'):
    params = GRID[name][12] if name == 'DR' else GRID[name][66]
    for temp in TEMPERATURES:
        model = build(name, params, temp)
        print('=====', name, params, 'T', lab(temp), 'minus_rt', lab(model.minus_rt))
        for p in (0.0, 0.3, numpy.array([0.0, 0.3]), '0.1'):
            show(f'{name}@{lab(temp)}.loading({lab(p)})', lambda: model.loading(p))
            show(f'{name}@{lab(temp)}.loading({lab(p)})', lambda: model.loading(p), strict=True)
        for n in (0.0, 2.0, 7.0, numpy.array([0.0, 2.0, 7.0]), '0.1', None):
            show(f'{name}@{lab(temp)}.pressure({lab(n)})', lambda: model.pressure(n))
            show(f'{name}@{lab(temp)}.pressure({lab(n)})', lambda: model.pressure(n), strict=True)
    for bad in ({}, {'temp': 5}, {'temperature': None}, {'temperature': '77'}, {'temperature': [77.0, 87.0]},
                {'temperature': numpy.array([77.0, 87.0])}, None, [('temperature', 1)]):
        model = get_isotherm_model(name, parameters=dict(params))
        show(f'{name}.__init_parameters__({bad!r})', lambda: (model.__init_parameters__(bad), lab(model.minus_rt)))
        show(f'{name} after bad init loading', lambda: model.loading(numpy.array([0.2, 0.4])))
    print('class default', name, lab(type(get_isotherm_model(name)).minus_rt))

# ---- warnings as errors over a sub-grid
for name, grid in GRID.items():
    for params in grid[::5]:
        model = build(name, params, 77.355 if name != 'Toth' else None)
        for p in PRESSURES[:15] + PRESSURES[18:20]:
            show(f'{name}{params}.loading({lab(p)})', lambda: model.loading(p), strict=True)
        for n in LOADINGS[:13] + LOADINGS[15:17]:
            show(f'{name}{params}.pressure({lab(n)})', lambda: model.pressure(n), strict=True)

# ---- parameters missing / unset / odd types
for name in GRID:
    base = GRID[name][len(GRID[name]) // 2]
    show(f'{name} default (nan) params', lambda: (get_isotherm_model(name).loading(0.5), get_isotherm_model(name).pressure(0.5)))
    for key in list(base):
        broken = get_isotherm_model(name, parameters=dict(base))
        del broken.params[key]
        show(f'{name} without {key} loading', lambda: broken.loading(0.5))
        show(f'{name} without {key} pressure', lambda: broken.pressure(0.5))
    broken = get_isotherm_model(name, parameters=dict(base))
    broken.params = None
    show(f'{name} params None loading', lambda: broken.loading(0.5))
    show(f'{name} params None pressure', lambda: broken.pressure(0.5))
    arrp = get_isotherm_model(name, parameters={k: numpy.array([v, v + 1.0]) for k, v in base.items()})
    show(f'{name} array params', lambda: (arrp.loading(numpy.array([0.5, 0.6])).tolist(), arrp.pressure(numpy.array([0.5, 1.0])).tolist()))
    intp = get_isotherm_model(name, parameters={k: int(v) + 2 for k, v in base.items()})
    show(f'{name} int params', lambda: (intp.loading(1), intp.pressure(1), intp.loading(numpy.array([1, 2])).tolist()))

# ---- initial guesses and spreading pressure
datasets = [
    (numpy.array([0.01, 0.1, 0.3, 0.6, 0.9]), numpy.array([0.5, 2.0, 3.5, 4.2, 4.4])),
    ([0.0, 0.1, 0.5], [0.0, 1.0, 2.0]),
    ([0.1], [1.0]),
    ([0.0], [0.0]),
    ([], []),
    (numpy.array([0.5, 0.1]), numpy.array([-1.0, 3.0])),
]
for name in GRID:
    for temp in (None, 77.355, 1e5):
        if name == 'Toth' and temp is not None:
            continue
        for bounds in (None, {'n_m': (1.0, 2.0)}, {'e': (0.0, 10.0), 'n_m': (0, 1e9)} if name != 'Toth' else {'K': (5.0, 6.0)}):
            kwargs = dict(param_bounds=bounds) if bounds else {}
            for num, (pr, ld) in enumerate(datasets):
                model = get_isotherm_model(name, **kwargs)
                if temp is not None:
                    model.__init_parameters__({'temperature': temp})
                show(f'{name}@{temp} bounds={bounds} initial_guess(data{num})', lambda: model.initial_guess(pr, ld))
    model = build(name, GRID[name][len(GRID[name]) // 2], None if name == 'Toth' else 77.355)
    for p in (0.0, 0.3, 1.0):
        show(f'{name}.spreading_pressure({p})', lambda: model.spreading_pressure(p))

# ---- through ModelIsotherm: model instance given, and fitting from data
material = pygaps.Material('diff-c10-3-carbon', density=2.1, molar_mass=12.011)
common = dict(
    material=material, adsorbate='N2', pressure_mode='relative', pressure_unit=None, loading_basis='molar',
    loading_unit='mmol', material_basis='mass', material_unit='g'
)
for name, params in (('DR', dict(n_m=6.0, e=900.0)), ('DA', dict(n_m=6.0, e=900.0, m=2.4)), ('Toth', dict(n_m=5.0, K=3.0, t=0.7))):
    for temperature, unit in ((77.355, 'K'), (-195.8, '°C'), (298.15, 'K')):
        iso = pygaps.ModelIsotherm(
            model=get_isotherm_model(name, parameters=dict(params)), temperature=temperature, temperature_unit=unit, **common
        )
        print('iso', name, temperature, unit, 'minus_rt', lab(getattr(iso.model, 'minus_rt', None)))
        for p in (0, 0.0, 0.3, [0.0, 0.1, 0.9], numpy.array([0.5, 1.0])):
            show(f'iso {name} loading_at({p!r})', lambda: iso.loading_at(p))
            show(f'iso {name} loading_at({p!r}, Pa, mol/kg)', lambda: iso.loading_at(p, pressure_mode='absolute', pressure_unit='Pa', loading_unit='mol', material_unit='kg'))
            show(f'iso {name} pressure_at(loading_at({p!r}))', lambda: iso.pressure_at(iso.loading_at(p)))
        show(f'iso {name} to_dict', lambda: sorted((k, repr(v)) for k, v in iso.to_dict().items()))
    truth = get_isotherm_model(name, parameters=dict(params))
    truth.__init_parameters__({'temperature': 77.355})
    pressure = numpy.linspace(0.01, 0.9, 30)
    loading = truth.loading(pressure)
    show(
        f'fit {name}', lambda: (lambda iso: (iso.model.params, iso.model.rmse, lab(getattr(iso.model, 'minus_rt', None)), fmt(iso.pressure_at(loading[::7]))))(
            pygaps.ModelIsotherm(pressure=pressure, loading=loading, model=name, temperature=77.355, **common)
        )
    )
