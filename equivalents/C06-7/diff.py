"""Differential script for change 3 (BaseIsotherm.to_dict / material setter / Material helper)."""
import collections
import copy

import eqcommon as c
import pygaps
from pygaps.core.baseisotherm import BaseIsotherm
from pygaps.core.material import Material
from pygaps.core.modelisotherm import ModelIsotherm
from pygaps.core.pointisotherm import PointIsotherm
from pygaps.parsing.json import isotherm_from_json
from pygaps.parsing.json import isotherm_to_json

CASES = c.all_cases()


def safe(func):
    """Result of a call or the text of its exception."""
    try:
        return func()
    except Exception as err:  # pylint: disable=broad-except
        return 'EXC ' + c.show_exc(err)


def dicts(make):
    iso = make()
    first = iso.to_dict()
    second = iso.to_dict()
    res = {
        'to_dict': first, 'keys': list(first), 'fresh_objects': first is not second, 'stable': c.canon(first) == c.canon(second),
        'vars_keys': list(vars(iso)), 'id': iso.iso_id, 'json': safe(lambda: isotherm_to_json(iso)),
        'material': iso.material, 'material_dict': iso.material.to_dict(),
    }
    # constructor symmetry
    if type(iso) is BaseIsotherm:
        again = BaseIsotherm(**iso.to_dict())
        res['rebuilt_equal'] = again == iso
        res['rebuilt'] = again.to_dict()
    elif isinstance(iso, PointIsotherm):
        again = PointIsotherm.from_isotherm(iso, pressure=[1, 2], loading=[3, 4])
        res['rebuilt'] = again
    else:
        again = ModelIsotherm(model=iso.model, **iso.to_dict())
        res['rebuilt_equal'] = again == iso
        res['rebuilt'] = again.to_dict()
    # mutating the returned dictionary must not touch the isotherm
    first['temperature'] = -1
    first['brand_new'] = 1
    res['isolated'] = c.canon(iso.to_dict()) == c.canon(second)
    return res


for name, make in CASES.items():
    c.run("to_dict " + name, lambda m=make: dicts(m))


def with_list(materials, func):
    """Run with some materials stored in the global list, restore afterwards."""
    saved = list(pygaps.MATERIAL_LIST)
    pygaps.MATERIAL_LIST.extend(materials)
    try:
        return func()
    finally:
        pygaps.MATERIAL_LIST[:] = saved


def setter(value, stored=()):
    def run():
        stored_mats = [Material(n, **copy.deepcopy(p)) for n, p in stored]
        return with_list(stored_mats, lambda: inner_with(stored_mats))
    def inner_with(stored_mats):
        given = copy.deepcopy(value)
        iso = BaseIsotherm(material=given, adsorbate='N2', temperature=77, **c.UNITS['std'], note='x')
        out = {
            'given_after': given if not isinstance(given, Material) else ('Material', given.name, given.properties),
            'type': type(iso.material).__name__,
            'is_stored': [iso.material is m for m in stored_mats],
            'stored_after': list(stored_mats), 'to_dict': safe(iso.to_dict),
            'name': iso.material.name, 'props': iso.material.properties,
        }
        second = copy.deepcopy(value)
        iso.material = second
        out['reassigned'] = safe(iso.to_dict)
        out['name2'] = iso.material.name
        out['second_after'] = second if not isinstance(second, Material) else ('Material', second.name, second.properties)
        out['stored_final'] = list(stored_mats)
        return out
    return run


STORED = [('known', {'density': 1.0, 'batch': 'b0'}), ('bare', {})]
SETTER_CASES = {
    'str unknown': ('fresh', ()),
    'str known': ('known', STORED),
    'str known bare': ('bare', STORED),
    'dict unknown': ({'name': 'fresh', 'density': 2, 'x': [1]}, STORED),
    'dict known': ({'name': 'known', 'density': 5.5, 'extra': 'e'}, STORED),
    'dict known bare': ({'name': 'bare', 'p': 1}, STORED),
    'dict only name': ({'name': 'fresh'}, ()),
    'dict only name known': ({'name': 'known'}, STORED),
    'dict no name': ({'density': 2}, STORED),
    'dict name None': ({'name': None, 'density': 2}, ()),
    'dict empty': ({}, ()),
    'dict name int': ({'name': 5, 'a': 1}, ()),
    'dict store flag': ({'name': 'fresh', 'store': False, 'a': 1}, ()),
    'ordered dict': (collections.OrderedDict([('z', 1), ('name', 'fresh'), ('a', 2)]), ()),
    'dict nonstr key unknown': ({'name': 'fresh', 1: 2}, ()),
    'dict nonstr key known': ({'name': 'known', 1: 2}, STORED),
    'Material bare': (Material('obj'), ()),
    'Material props': (Material('obj', density=3.0, k='v'), STORED),
    'Material same name as known': (Material('known', other=1), STORED),
    'int': (5, ()),
    'list': (['a'], ()),
    'empty str': ('', ()),
    'tuple': (('a', 'b'), ()),
}
for label, (value, stored) in SETTER_CASES.items():
    c.run("setter " + label, setter(value, stored))


def failed_reassign():
    """A failing assignment: what is left on the isotherm."""
    known = Material('known', density=1.0)

    def inner():
        iso = BaseIsotherm(material='start', adsorbate='N2', temperature=77, **c.UNITS['std'])
        outcome = []
        for bad in ({'name': 'known', 1: 2}, {'name': 'fresh', 1: 2}, None):
            try:
                iso.material = bad
                outcome.append('no error')
            except Exception as err:  # pylint: disable=broad-except
                outcome.append(c.show_exc(err))
            outcome.append(iso.material)
        return outcome
    return with_list([known], inner)


c.run("setter failing reassign", failed_reassign)
c.run("material None in ctor", lambda: BaseIsotherm(material=None, adsorbate='N2', temperature=77))


def extra_attributes():
    iso = CASES['point/df_extra']()
    iso.foo = 1
    iso.properties['pressure_unit'] = 'shadow'
    iso.properties['adsorbate'] = 'shadow-ads'
    iso.properties['foo'] = 'shadow-foo'
    iso._private = 'p'
    return [iso.to_dict(), list(iso.to_dict())]


c.run("extra attributes and shadowing metadata", extra_attributes)


class Slim(BaseIsotherm):
    _reserved_params = ['m', 'note']


class Greedy(BaseIsotherm):
    _reserved_params = BaseIsotherm._reserved_params + ['temperature', 'material_unit', 'comment']


c.run("subclass slim reserved", lambda: Slim(**c.base_kwargs('std', 'text', 'props'), note='n').to_dict())
c.run("subclass greedy reserved", lambda: Greedy(**c.base_kwargs('rel', 'text', 'props')).to_dict())


def converted():
    iso = CASES['point/guess5']()
    iso.convert(pressure_unit='kPa', loading_unit='mol', material_unit='kg')
    iso.material = {'name': 'swapped', 'density': 1.1}
    iso.adsorbate = 'CO2'
    iso.temperature = 300
    return [iso.to_dict(), isotherm_from_json(iso.to_json()) == iso]


c.run("after convert and reassignments", converted)
c.run("Material helpers", lambda: [Material('a').to_dict(), Material('a', x=1).to_dict(), str(Material('a', x=1)),
                                   Material('a', density=0).to_dict(), Material('a', x=None).to_dict()])
c.run("material falsy property values", lambda: BaseIsotherm(**dict(c.base_kwargs(), material={'name': 'f', 'zero': 0})).to_dict())
