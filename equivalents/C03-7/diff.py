"""Differential script for change 3: interpolator cache of PointIsotherm.pressure_at / loading_at, IsothermInterpolator."""
import warnings

warnings.filterwarnings('ignore')

import numpy
import pandas

import pygaps
from pygaps.utilities.isotherm_interpolator import IsothermInterpolator


# ---------------------------------------------------------------- canonical output
def num(x):
    if isinstance(x, (bool, numpy.bool_)):
        return repr(bool(x))
    if isinstance(x, (int, numpy.integer)):
        return repr(int(x))
    if isinstance(x, (float, numpy.floating)):
        return f"{float(x):.12g}"
    return repr(x)


def fmt(x):
    if isinstance(x, pandas.DataFrame):
        return "DataFrame(cols=%r, index=%r, rows=[%s])" % (
            list(x.columns), list(x.index), "; ".join(fmt(x[c].values) for c in x.columns)
        )
    if isinstance(x, pandas.Series):
        return "Series(name=%r, dtype=%s, index=%r, values=%s)" % (
            x.name, x.dtype, list(x.index), fmt(x.values)
        )
    if isinstance(x, numpy.ndarray):
        return "array(shape=%r, dtype=%s, [%s])" % (
            x.shape, x.dtype, ", ".join(num(v) for v in x.ravel().tolist())
        )
    if isinstance(x, (tuple, list)):
        return type(x).__name__ + "(" + ", ".join(fmt(v) for v in x) + ")"
    return num(x)


def run(label, fn):
    try:
        print(label, "->", fmt(fn()))
    except Exception as e:  # noqa
        print(label, "-> EXC", type(e).__name__, str(e))


# ---------------------------------------------------------------- set up
pygaps.ADSORBATE_LIST.append(
    pygaps.Adsorbate(
        name='TA', alias=['ta1', 'ta2', 'ta'], formula='TA21', backend_name='NITROGEN',
        molar_mass=28.01348, liquid_density=0.806, gas_density=0.00461214,
        saturation_pressure=101325,
    )
)
pygaps.MATERIAL_LIST.append(pygaps.Material(name='TEST', density=2.0, molar_mass=10.0))

PARAMS = dict(
    material='TEST', temperature=100.0, adsorbate='TA',
    material_basis='mass', material_unit='g',
    loading_basis='molar', loading_unit='mmol',
    pressure_mode='absolute', pressure_unit='bar', temperature_unit='K',
)


def frame(index=None):
    return pandas.DataFrame({
        "pressure": [1.0, 2.0, 3.0, 4.0, 5.0, 6.0, 4.5, 2.5],
        "loading": [1.0, 2.2, 3.1, 4.4, 5.0, 6.5, 4.7, 2.9],
        "enthalpy": [5.2, 5.1, 5.0, 5.0, 5.0, 5.0, 4.0, 4.0],
        "text_data": ["a", "b", "c", "d", "e", "f", "g", "h"],
    }, index=index)


def make(index=None, branch='guess', **over):
    par = dict(PARAMS)
    par.update(over)
    return pygaps.PointIsotherm(
        isotherm_data=frame(index), loading_key='loading', pressure_key='pressure',
        branch=branch, **par
    )



def interp_state(iso):
    out = []
    for attr in ('l_interpolator', 'p_interpolator'):
        it = getattr(iso, attr)
        if it is None:
            out.append(f"{attr}=None")
        else:
            fun = it.interp_fun
            out.append(
                f"{attr}=(branch={it.interp_branch!r}, kind={it.interp_kind!r}, fill={fmt(it.interp_fill)}, "
                f"x={fmt(fun.x)}, y={fmt(fun.y)}, bounds_error={fun.bounds_error!r}, fill_value={fmt(fun.fill_value)})"
            )
    return " ".join(out)


def isos():
    out = {
        'std': make(),
        'lbl': make(index=list("hgfedcba")),
        'onlyads': make(branch='ads'),
        'marks': make(branch=[False, False, True, True, False, False, True, True]),
    }
    conv = make()
    conv.convert(
        pressure_mode='relative', loading_basis='fraction', material_basis='volume', material_unit='cm3'
    )
    out['conv'] = conv
    pa = make()
    pa.convert(pressure_unit='Pa', loading_basis='mass', loading_unit='mg', material_unit='kg')
    out['pa_mg_kg'] = pa
    out['onepoint_des'] = pygaps.PointIsotherm(
        pressure=[1.0, 2.0, 3.0, 2.0], loading=[1.0, 2.0, 3.0, 2.5], **PARAMS
    )
    out['nonmono'] = pygaps.PointIsotherm(
        pressure=[1.0, 2.0, 3.0, 4.0], loading=[1.0, 3.0, 2.0, 4.0], branch='ads', **PARAMS
    )
    return out


AT_P_KW = [
    {}, {'branch': 'ads'}, {'branch': 'des'}, {'branch': None}, {'branch': 'all'}, {'branch': 'bad'},
    {'pressure_unit': 'Pa'}, {'pressure_mode': 'relative'}, {'pressure_mode': 'relative%'},
    {'pressure_mode': 'absolute'}, {'pressure_mode': 'absolute', 'pressure_unit': 'kPa'},
    {'loading_unit': 'mol'}, {'loading_basis': 'mass', 'loading_unit': 'g'}, {'loading_basis': 'mass'},
    {'material_unit': 'kg'}, {'material_basis': 'volume', 'material_unit': 'cm3'}, {'material_basis': 'volume'},
    {'loading_basis': 'fraction'}, {'loading_basis': 'percent', 'loading_unit': 'x'},
    {'pressure_mode': 'relative', 'pressure_unit': 'Pa', 'loading_basis': 'mass', 'loading_unit': 'g',
     'material_basis': 'volume', 'material_unit': 'cm3'},
    {'loading_basis': 'fraction', 'material_basis': 'molar', 'material_unit': 'mmol'},
    {'pressure_unit': 'bad'}, {'loading_unit': 'bad'}, {'material_unit': 'bad'},
]
KINDS = ['linear', 'nearest', 'zero', 'slinear', 'quadratic', 'cubic', 'previous', 'next', 'bad', 1]
FILLS = [
    None, 0.0, 7.5, (0.0, 9.0), 'extrapolate', numpy.nan, (1.0, ), numpy.array(2.0), numpy.array([2.0]),
    numpy.array([1.0, 2.0]), [1.0, 2.0], 'bad', (None, 3.0), 0, False,
]
XS = [
    1.0, 2.5, 6.0, 0.5, 7.0, [1.0, 3.3, 5.9], [], [0.0, 3.0], numpy.array([[1.5, 2.5], [3.5, 4.5]]), numpy.nan,
    [2.0, numpy.nan], 4, '3', None, (2.0, 4.4),
]

# -- every call on a fresh isotherm: values + the cache it leaves behind
for name in isos():
    for x in XS:
        for fn in ('loading_at', 'pressure_at'):
            for br in ('ads', 'des'):
                iso = isos()[name]
                run(f"[{name}] {fn}({x!r}, {br})", lambda: getattr(iso, fn)(x, branch=br))
                print("    state:", interp_state(iso))
    for kw in AT_P_KW:
        for fn, x in (('loading_at', [1.5, 3.0]), ('pressure_at', [1.5, 3.0]), ('loading_at', 0.02),
                      ('pressure_at', 0.02), ('loading_at', 150000.0), ('pressure_at', 2500.0)):
            iso = isos()[name]
            run(f"[{name}] {fn}({x!r}, {kw})", lambda: getattr(iso, fn)(x, **kw))
            print("    state:", interp_state(iso))

# -- interpolation kinds and fill rules
for name in ('std', 'conv', 'nonmono'):
    for kind in KINDS:
        for fill in FILLS:
            for fn in ('loading_at', 'pressure_at'):
                iso = isos()[name]
                x = [0.2, 1.0, 2.7, 8.0] if name != 'conv' else [0.001, 0.05, 0.2, 0.9]
                run(
                    f"[{name}] {fn} kind={kind!r} fill={fill!r}",
                    lambda: getattr(iso, fn)(x, interpolation_type=kind, interp_fill=fill)
                )
                print("    state:", interp_state(iso))

# -- sequences of calls on ONE isotherm: is the stored interpolator reused / replaced identically
SEQUENCE = [
    ('loading_at', 2.5, {}),
    ('loading_at', 3.5, {}),
    ('loading_at', 3.5, {'branch': 'des'}),
    ('loading_at', 3.5, {'branch': 'des'}),
    ('loading_at', 3.5, {'branch': 'ads', 'interpolation_type': 'cubic'}),
    ('loading_at', 3.5, {'interpolation_type': 'cubic'}),
    ('loading_at', 9.0, {'interpolation_type': 'cubic', 'interp_fill': 0.0}),
    ('loading_at', 9.0, {'interpolation_type': 'cubic', 'interp_fill': 0.0}),
    ('loading_at', 9.0, {'interpolation_type': 'cubic', 'interp_fill': 0}),
    ('loading_at', 9.0, {'interpolation_type': 'cubic', 'interp_fill': (0.0, 1.0)}),
    ('loading_at', 9.0, {'interpolation_type': 'cubic', 'interp_fill': (0.0, 1.0)}),
    ('loading_at', 9.0, {'interp_fill': 'extrapolate'}),
    ('loading_at', 9.0, {'interp_fill': numpy.nan}),
    ('loading_at', 9.0, {'interp_fill': numpy.nan}),
    ('loading_at', 9.0, {'interp_fill': float('nan')}),
    ('loading_at', 9.0, {'interp_fill': numpy.array([1.0, 2.0])}),
    ('loading_at', 9.0, {'interp_fill': numpy.array([1.0, 2.0])}),
    ('loading_at', 9.0, {'interp_fill': numpy.array([1.0])}),
    ('loading_at', 9.0, {'interp_fill': numpy.array([1.0])}),
    ('loading_at', 9.0, {}),
    ('loading_at', 2.0, {'branch': 'bad'}),
    ('loading_at', 2.0, {}),
    ('loading_at', 2.0, {'interpolation_type': 'bad'}),
    ('loading_at', 2.0, {}),
    ('loading_at', 2.0, {'pressure_mode': 'absolute'}),
    ('loading_at', 2.0, {'branch': 'des', 'pressure_mode': 'absolute'}),
    ('pressure_at', 2.5, {}),
    ('pressure_at', 2.5, {}),
    ('pressure_at', 2.5, {'branch': 'des'}),
    ('pressure_at', 2.5, {'branch': 'des', 'interp_fill': 'extrapolate'}),
    ('pressure_at', 25.0, {'branch': 'des', 'interp_fill': 'extrapolate'}),
    ('pressure_at', 2.5, {'material_basis': 'volume'}),
    ('pressure_at', 2.5, {'branch': 'ads', 'loading_basis': 'mass'}),
    ('pressure_at', 2.5, {'interpolation_type': 'nearest'}),
    ('loading_at', 2.5, {'interpolation_type': 'nearest'}),
    ('spreading_pressure_at', 2.5, {}),
    ('spreading_pressure_at', 0.5, {}),
    ('spreading_pressure_at', 9.5, {}),
    ('spreading_pressure_at', 9.5, {'interp_fill': 6.5}),
    ('spreading_pressure_at', 2.5, {'branch': 'des'}),
    ('spreading_pressure_at', 250000.0, {'pressure_unit': 'Pa', 'loading_unit': 'mol'}),
    ('convert_pressure', 'relative', {}),
    ('loading_at', 0.2, {}),
    ('pressure_at', 2.5, {}),
    ('convert_loading', 'mass', {'unit_to': 'g'}),
    ('loading_at', 0.2, {}),
    ('pressure_at', 0.05, {}),
    ('convert_material', 'volume', {'unit_to': 'cm3'}),
    ('loading_at', 0.2, {'interp_fill': 1.0}),
    ('pressure_at', 0.05, {'interp_fill': 1.0}),
    ('convert_pressure', 'relative', {}),
    ('loading_at', 0.2, {'interp_fill': 1.0}),
]
for name in ('std', 'lbl', 'marks', 'onepoint_des'):
    iso = isos()[name]
    seen = {}
    for step, (fn, x, kw) in enumerate(SEQUENCE):
        before = (iso.l_interpolator, iso.p_interpolator)
        run(f"[{name}] seq {step} {fn}({x!r}, {kw})", lambda: getattr(iso, fn)(x, **kw))
        after = (iso.l_interpolator, iso.p_interpolator)
        print("    kept:", after[0] is before[0], after[1] is before[1], "state:", interp_state(iso))

# -- the interpolator class on its own
KNOWN = [1.0, 2.0, 4.0, 8.0]
VALS = [0.5, 1.5, 2.0, 2.2]
for fill in FILLS:
    for kind in ('linear', 'cubic', 'nearest', 'bad'):

        def direct():
            it = IsothermInterpolator(KNOWN, VALS, interp_branch='des', interp_kind=kind, interp_fill=fill)
            return (
                it.interp_branch, it.interp_kind, it.interp_fill, it.interp_fun.bounds_error, it.interp_fun.fill_value,
                it([1.0, 3.0, 8.0]), it(2.0)
            )

        run(f"IsothermInterpolator kind={kind!r} fill={fill!r}", direct)
        for x in (0.5, 9.0, [0.5, 3.0, 9.0]):
            run(
                f"IsothermInterpolator kind={kind!r} fill={fill!r} at {x!r}",
                lambda: IsothermInterpolator(KNOWN, VALS, interp_kind=kind, interp_fill=fill)(x)
            )
run("IsothermInterpolator defaults", lambda: sorted(vars(IsothermInterpolator(KNOWN, VALS)).keys()))
run("IsothermInterpolator no data", lambda: sorted(vars(IsothermInterpolator(None, None, interp_fill=2.0)).items()))
run("IsothermInterpolator no data call", lambda: IsothermInterpolator(None, VALS)(1.0))
run("IsothermInterpolator mismatch", lambda: type(IsothermInterpolator(KNOWN, VALS[:2])).__name__)
run("IsothermInterpolator one point", lambda: type(IsothermInterpolator([1.0], [1.0])).__name__)
run("IsothermInterpolator one point call", lambda: IsothermInterpolator([1.0], [1.0])(1.0))
run("IsothermInterpolator empty", lambda: type(IsothermInterpolator([], [])).__name__)
run("IsothermInterpolator unsorted", lambda: IsothermInterpolator([3.0, 1.0, 2.0], [3.0, 1.0, 2.5])([1.5, 2.5]))
run("IsothermInterpolator duplicate x", lambda: IsothermInterpolator([1.0, 1.0, 2.0], [1.0, 2.0, 3.0])([1.0, 1.5]))
