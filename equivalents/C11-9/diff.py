"""Differential transcript for PointIsotherm.spreading_pressure_at."""
import logging
import warnings

import numpy

import pygaps

logging.getLogger("pygaps").setLevel(logging.ERROR)


def fmt(res):
    if isinstance(res, numpy.ndarray):
        return f"ndarray {res.dtype} {res.shape} {[float(x).hex() if isinstance(x, float) else x for x in numpy.ravel(res).tolist()]!r} {res.tolist()!r}"
    if isinstance(res, (float, numpy.floating)):
        return f"{type(res).__name__} {res!r} {float(res).hex()}"
    return f"{type(res).__name__} {res!r}"


def show(label, fn, *args, **kwargs):
    with warnings.catch_warnings(record=True) as wlist:
        warnings.simplefilter("always")
        try:
            out = fmt(fn(*args, **kwargs))
        except BaseException as exc:  # noqa
            out = f"EXC {type(exc).__name__}: {exc}"
    wtxt = sorted({f"{w.category.__name__}: {w.message}" for w in wlist})
    print(f"{label} -> {out}" + (f"  WARN {wtxt}" if wtxt else ""))


def make(pressure, loading, **kw):
    base = dict(
        material="mat", adsorbate="N2", temperature=77.355,
        pressure_mode="absolute", pressure_unit="bar",
        loading_basis="molar", loading_unit="mmol",
        material_basis="mass", material_unit="g", temperature_unit="K",
    )
    base.update(kw)
    return pygaps.PointIsotherm(pressure=pressure, loading=loading, **base)


pygaps.MATERIAL_LIST.append(pygaps.Material("mat", density=1.3, molar_mass=210.0))

rng = numpy.random.RandomState(12345)
p_rand = numpy.sort(rng.uniform(1e-4, 1.0, 40))
l_rand = 5.0 * 12.0 * p_rand / (1 + 12.0 * p_rand) + rng.normal(0, 0.01, 40)

ISOS = {
    "langmuir-like": make([0.01, 0.05, 0.1, 0.2, 0.3, 0.5, 0.8, 1.0], [0.5, 1.9, 2.9, 3.9, 4.4, 4.9, 5.3, 5.4]),
    "two-points": make([0.2, 0.9], [1.0, 2.0]),
    "one-point": make([0.5], [1.5]),
    "linear": make([0.1, 0.2, 0.4, 0.8], [1.0, 2.0, 4.0, 8.0]),
    "random-noisy": make(p_rand, l_rand),
    "with-des": make([0.1, 0.3, 0.6, 1.0, 0.7, 0.4, 0.15], [1.0, 2.0, 2.6, 3.0, 2.9, 2.5, 1.4]),
    "relative": make([0.001, 0.01, 0.1, 0.3, 0.6, 0.95], [0.2, 1.1, 3.0, 4.2, 5.0, 6.5], pressure_mode="relative", pressure_unit=None),
    "relative%": make([0.1, 1, 10, 30, 60, 95], [0.2, 1.1, 3.0, 4.2, 5.0, 6.5], pressure_mode="relative%", pressure_unit=None),
    "kPa-mass": make([1.0, 5, 10, 20, 50, 100], [10.0, 40, 70, 100, 130, 140], pressure_unit="kPa", loading_basis="mass", loading_unit="mg", material_unit="kg"),
    "zero-start": make([0.0, 0.1, 0.2, 0.5], [0.0, 1.0, 1.8, 3.0]),
    "zero-loading-start": make([0.1, 0.2, 0.5], [0.0, 1.0, 3.0]),
    "duplicate-pressure": make([0.1, 0.2, 0.2, 0.5], [1.0, 1.5, 1.6, 3.0]),
    "decreasing-loading": make([0.1, 0.2, 0.3, 0.5], [3.0, 2.0, 1.5, 1.0]),
    "tiny": make([1e-12, 1e-9, 1e-6], [1e-9, 5e-7, 2e-4]),
}

for name, iso in ISOS.items():
    print(f"==== {name}")
    pr = iso.pressure(branch="ads")
    lo, hi = float(pr.min()), float(pr.max())
    probes = [0.0, -0.1, lo / 10, lo / 2, lo, numpy.nextafter(lo, 1e9), hi, numpy.nextafter(hi, -1e9), numpy.nextafter(hi, 1e9),
              hi * 1.5, hi * 100, float("nan"), float("inf"), 0.5 * (lo + hi)]
    probes += [float(x) for x in pr]
    probes += [float(x) for x in 0.5 * (pr[1:] + pr[:-1])]
    probes += [float(x) for x in rng.uniform(0, hi, 15)]
    for p in probes:
        show(f"{name} p={p!r}", iso.spreading_pressure_at, p)
    for p in probes[:14]:
        for fill in ("extrapolate", 0.0, 4.2, (1.0, 9.0)):
            show(f"{name} p={p!r} fill={fill!r}", iso.spreading_pressure_at, p, interp_fill=fill)
    # numpy scalars / 0-d / 1-element arrays / arrays / lists
    mid = 0.5 * (lo + hi)
    for p in (numpy.float64(mid), numpy.float32(mid), numpy.array(mid), numpy.array([mid]), numpy.array([lo, mid]), [mid], None, "0.3", int(1)):
        show(f"{name} p={p!r} ({type(p).__name__})", iso.spreading_pressure_at, p)
    for branch in ("ads", "des", "all", None, "bad"):
        show(f"{name} branch={branch!r}", iso.spreading_pressure_at, mid, branch=branch)
        show(f"{name} branch={branch!r} low", iso.spreading_pressure_at, lo / 3, branch=branch)
        show(f"{name} branch={branch!r} kw", iso.spreading_pressure_at, pressure=mid, branch=branch, interp_fill="extrapolate")

print("==== unit / mode / basis conversions")
iso = ISOS["langmuir-like"]
CONV = [
    dict(pressure_unit="kPa"), dict(pressure_unit="torr"), dict(pressure_unit="Pa"), dict(pressure_unit="bad"),
    dict(pressure_mode="relative"), dict(pressure_mode="relative%"), dict(pressure_mode="bad"),
    dict(pressure_mode="absolute", pressure_unit="atm"),
    dict(loading_unit="mol"), dict(loading_unit="cm3(STP)"), dict(loading_basis="mass", loading_unit="g"),
    dict(loading_basis="volume_gas", loading_unit="cm3"), dict(loading_basis="volume_liquid", loading_unit="cm3"),
    dict(loading_basis="percent"), dict(loading_basis="fraction"), dict(loading_basis="bad"), dict(loading_unit="bad"),
    dict(material_unit="kg"), dict(material_basis="volume", material_unit="cm3"), dict(material_basis="molar", material_unit="mol"),
    dict(material_basis="bad"), dict(material_unit="bad"),
    dict(pressure_unit="kPa", loading_unit="mol", material_unit="kg"),
    dict(pressure_mode="relative", loading_basis="mass", loading_unit="mg", material_basis="volume", material_unit="cm3"),
]
for kw in CONV:
    try:
        pr = iso.pressure(**{k: v for k, v in kw.items() if k.startswith("pressure")})
        probes = [float(pr.min()) / 2, float(pr[2]), 0.5 * float(pr[3] + pr[4]), float(pr.max()), float(pr.max()) * 2]
    except Exception as e:
        probes = [0.05, 0.3]
    for p in probes:
        show(f"conv {kw} p={p!r}", iso.spreading_pressure_at, p, **kw)
        show(f"conv {kw} p={p!r} extrap", iso.spreading_pressure_at, p, interp_fill="extrapolate", **kw)
for name in ("relative", "relative%", "kPa-mass", "with-des"):
    iso = ISOS[name]
    for kw in (dict(pressure_mode="absolute", pressure_unit="bar"), dict(pressure_mode="relative"), dict(pressure_mode="relative%"),
               dict(loading_basis="molar", loading_unit="mol"), dict(material_basis="molar", material_unit="mmol")):
        pr = iso.pressure(branch="ads", **{k: v for k, v in kw.items() if k.startswith("pressure")})
        for p in (float(pr.min()) / 2, 0.5 * float(pr[1] + pr[2]), float(pr.max())):
            show(f"conv[{name}] {kw} p={p!r}", iso.spreading_pressure_at, p, **kw)

print("==== object state untouched")
iso = ISOS["langmuir-like"]
before = iso.to_dict()
iso.spreading_pressure_at(0.45, pressure_unit="kPa", loading_unit="mol")
print(before == iso.to_dict(), repr(sorted(before.items()))[:300])
